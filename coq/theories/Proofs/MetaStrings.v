(* Proofs/MetaStrings.v -- metadata strings survive writing and reading (C15): block-padded C strings
   (ANM paths, block 16; stack ECL names, block 1) and fixed buffers (STD names, 128 bytes). *)
From TV Require Import Base.I32 Model.Abi Spec.AbiFit Proofs.AbiBytes Proofs.AbiRoundtrip.
Open Scope Z_scope.

Lemma last_app_nonempty {A} (l1 l2 : list A) d : l2 <> [] -> last (l1 ++ l2) d = last l2 d.
Proof.
  intro H. induction l1 as [|x l1 IH]; [reflexivity|]. cbn [app]. rewrite <- IH.
  destruct (l1 ++ l2) eqn:E; [|reflexivity]. apply app_eq_nil in E. destruct E; contradiction.
Qed.

Lemma last_in {A} (l : list A) d : l <> [] -> In (last l d) l.
Proof.
  induction l as [|x l IH]; [contradiction|]. intros _. destruct l as [|y l]; [now left|].
  right. apply IH. discriminate.
Qed.

Lemma last_zeros k d : 0 < k -> last (zeros k) d = 0.
Proof.
  intro H. unfold zeros. replace (Z.to_nat k) with (S (Z.to_nat (k - 1))) by lia.
  induction (Z.to_nat (k - 1)) as [|n IH]; [reflexivity|]. cbn [repeat] in *. exact IH.
Qed.

(* reading block by block consumes exactly the padded string *)
Lemma read_blocks_padded : forall fuel bs acc e k rest,
  (0 < bs)%nat -> no_nul e -> 0 < k <= Z.of_nat bs -> (zlen e + k) mod Z.of_nat bs = 0 ->
  (zlen e + k < Z.of_nat fuel * Z.of_nat bs + 1) ->
  read_blocks fuel bs acc (e ++ zeros k ++ rest) = Ok (acc ++ e ++ zeros k, rest).
Proof.
  induction fuel as [|fuel IH]; intros bs acc e k rest Hbs Hn Hk Hmod Hfuel.
  - pose proof (zlen_nonneg e). lia.
  - cbn [read_blocks].
    pose proof (zlen_nonneg e) as He. set (B := Z.of_nat bs) in *.
    assert (HB : 0 < B) by (unfold B; lia).
    assert (Hlen : zlen (e ++ zeros k ++ rest) = zlen e + k + zlen rest) by (rewrite !zlen_app, zeros_length; lia).
    assert (Hge : B <= zlen e + k).
    { destruct (Z_lt_ge_dec (zlen e + k) B) as [Hlt|]; [|lia]. rewrite Z.mod_small in Hmod by lia. lia. }
    destruct (length (e ++ zeros k ++ rest) <? bs)%nat eqn:El.
    { apply Nat.ltb_lt in El. pose proof (zlen_nonneg rest). unfold zlen in *. lia. }
    destruct (Z.eq_dec (zlen e + k) B) as [Hone|Hmore].
    + (* the last block *)
      assert (Hlk : length (e ++ zeros k) = bs).
      { rewrite app_length. unfold zeros. rewrite repeat_length. unfold zlen, B in *. lia. }
      assert (Hf : firstn bs (e ++ zeros k ++ rest) = e ++ zeros k).
      { rewrite app_assoc. rewrite <- Hlk. apply firstn_app_exact. }
      assert (Hs : skipn bs (e ++ zeros k ++ rest) = rest).
      { rewrite app_assoc. rewrite <- Hlk. apply skipn_app_exact. }
      rewrite Hf, Hs. rewrite app_assoc. rewrite last_app_nonempty.
      * rewrite last_zeros by lia. now rewrite <- app_assoc.
      * unfold zeros. replace (Z.to_nat k) with (S (Z.to_nat (k - 1))) by lia. discriminate.
    + (* a block inside the text *)
      assert (HeB : B <= zlen e).
      { assert (Hq : exists q, zlen e + k = B * q) by (exists ((zlen e + k) / B); apply Z.div_exact; lia).
        destruct Hq as [q Hq]. assert (2 <= q) by nia. nia. }
      set (b1 := firstn bs e). set (e' := skipn bs e).
      assert (Hsplit : e = b1 ++ e') by (unfold b1, e'; symmetry; apply firstn_skipn).
      assert (Hl1 : length b1 = bs) by (unfold b1; rewrite firstn_length; unfold zlen in HeB; lia).
      assert (Hf : firstn bs (e ++ zeros k ++ rest) = b1).
      { replace (e ++ zeros k ++ rest) with (b1 ++ (e' ++ zeros k ++ rest)) by (rewrite app_assoc, <- Hsplit; reflexivity).
        rewrite <- Hl1. apply firstn_app_exact. }
      assert (Hs : skipn bs (e ++ zeros k ++ rest) = e' ++ zeros k ++ rest).
      { replace (e ++ zeros k ++ rest) with (b1 ++ (e' ++ zeros k ++ rest)) by (rewrite app_assoc, <- Hsplit; reflexivity).
        rewrite <- Hl1. apply skipn_app_exact. }
      rewrite Hf, Hs.
      assert (Hb1 : b1 <> []) by (intro E; rewrite E in Hl1; cbn in Hl1; lia).
      rewrite last_app_nonempty by assumption.
      assert (Hlast : last b1 1 <> 0).
      { intro E. apply Hn. rewrite Hsplit. apply in_or_app. left. rewrite <- E. now apply last_in. }
      assert (Hzb : zlen b1 = B) by (unfold zlen; rewrite Hl1; reflexivity).
      assert (Hze : zlen e = B + zlen e') by (rewrite <- Hzb, <- zlen_app, <- Hsplit; reflexivity).
      assert (Hn' : no_nul e') by (intro Hin; apply Hn; rewrite Hsplit; apply in_or_app; now right).
      assert (Hmod' : (zlen e' + k) mod B = 0).
      { replace (zlen e + k) with (zlen e' + k + 1 * B) in Hmod by lia. rewrite Z.mod_add in Hmod by lia. exact Hmod. }
      assert (Hfuel' : zlen e' + k < Z.of_nat fuel * B + 1) by nia.
      assert (Hres : read_blocks fuel bs (acc ++ b1) (e' ++ zeros k ++ rest) = Ok (acc ++ e ++ zeros k, rest)).
      { rewrite (IH bs (acc ++ b1) e' k rest Hbs Hn' Hk Hmod' Hfuel').
        rewrite <- !app_assoc. rewrite (app_assoc b1 e'). now rewrite <- Hsplit. }
      destruct (last b1 1) eqn:El1; [contradiction|exact Hres|exact Hres].
Qed.

Lemma strip_rev_zeros k l : strip_trailing_nuls_rev (zeros k ++ l) = strip_trailing_nuls_rev l.
Proof. unfold zeros. induction (Z.to_nat k) as [|n IH]; [reflexivity|]. cbn [repeat app strip_trailing_nuls_rev]. exact IH. Qed.

Lemma rev_zeros k : rev (zeros k) = zeros k.
Proof.
  unfold zeros. induction (Z.to_nat k) as [|n IH]; [reflexivity|]. cbn [repeat rev]. rewrite IH.
  clear IH. induction n as [|n IH]; [reflexivity|]. cbn [repeat app]. now rewrite IH.
Qed.

Lemma strip_padding e k : no_nul e -> strip_trailing_nuls (e ++ zeros k) = e.
Proof.
  intro Hn. unfold strip_trailing_nuls. rewrite rev_app_distr, rev_zeros, strip_rev_zeros.
  assert (Hs : strip_trailing_nuls_rev (rev e) = rev e).
  { destruct (rev e) as [|x r] eqn:Er; [reflexivity|]. cbn [strip_trailing_nuls_rev].
    destruct x; try reflexivity. exfalso. apply Hn. apply in_rev. rewrite Er. now left. }
  rewrite Hs. apply rev_involutive.
Qed.

Section Meta.
Variable sjis_enc : list Z -> option bytes.
Variable sjis_dec : bytes -> option (list Z).
Variable repertoire : Z -> bool.
Hypothesis sjis_inverse : forall s b, forallb repertoire s = true -> sjis_enc s = Some b -> sjis_dec b = Some s.
Hypothesis sjis_no_nul : forall s b, sjis_enc s = Some b -> In 0 b -> In 0 s.

(* ANM entry paths (block 16), stack-ECL sub names (block 1): write_cstring then read_cstring_blockwise *)
Theorem path_roundtrip : forall s bs b rest,
  good_string repertoire s = true -> 0 < bs ->
  write_path sjis_enc s bs = Ok b -> read_path sjis_dec bs (b ++ rest) = Ok (s, rest).
Proof.
  intros s bs b rest Hgood Hbs Hw.
  destruct (good_string_facts repertoire s Hgood) as [Hrep Hnonul].
  unfold write_path in Hw. destruct (sjis_enc s) as [e|] eqn:Es; [|discriminate].
  assert (Hn0 : no_nul e) by (intro Hin; apply Hnonul; eapply sjis_no_nul; eassumption).
  pose proof (sjis_inverse _ _ Hrep Es) as Hdec.
  unfold write_cstring, null_pad in Hw. destruct (bs =? 0) eqn:Eb; [apply Z.eqb_eq in Eb; lia|].
  pose proof (zlen_nonneg e) as He.
  set (mn := zlen e + 1) in *. set (r := mn mod bs) in *.
  assert (Hr : 0 <= r < bs) by (apply Z.mod_pos_bound; lia).
  set (k := (if r =? 0 then mn else mn + bs - r) - zlen e) in *.
  assert (Hk : 0 < k <= bs) by (unfold k; destruct (r =? 0) eqn:E0; [apply Z.eqb_eq in E0|apply Z.eqb_neq in E0]; lia).
  assert (Hmod : (zlen e + k) mod bs = 0).
  { unfold k. destruct (r =? 0) eqn:E0.
    - apply Z.eqb_eq in E0. replace (zlen e + (mn - zlen e)) with mn by lia. exact E0.
    - replace (zlen e + (mn + bs - r - zlen e)) with (mn - r + 1 * bs) by lia. rewrite Z.mod_add by lia.
      unfold r. rewrite Zminus_mod_idemp_r. rewrite Z.sub_diag. apply Z.mod_0_l. lia. }
  inv Hw. unfold read_path, read_cstring_blockwise. rewrite Eb.
  rewrite <- app_assoc.
  rewrite (read_blocks_padded _ (Z.to_nat bs) [] e k rest); try assumption; try lia.
  - cbn [obind app]. rewrite strip_padding by assumption. rewrite Hdec. reflexivity.
  - rewrite Z2Nat.id by lia. exact Hmod.
  - rewrite Z2Nat.id by lia. rewrite !app_length. unfold zeros at 1. rewrite repeat_length. unfold zlen. nia.
Qed.

(* STD stage / BGM names (128-byte buffers), mission lines before their cipher: encode_fixed_size then
   read_cstring_exact *)
Theorem name_roundtrip : forall s buf b rest,
  good_string repertoire s = true ->
  write_name sjis_enc s buf = Ok b -> read_name sjis_dec buf (b ++ rest) = Ok (s, [], rest).
Proof.
  intros s buf b rest Hgood Hw.
  destruct (good_string_facts repertoire s Hgood) as [Hrep Hnonul].
  unfold write_name, encode_fixed_size in Hw. destruct (sjis_enc s) as [e|] eqn:Es; [|discriminate].
  assert (Hn0 : no_nul e) by (intro Hin; apply Hnonul; eapply sjis_no_nul; eassumption).
  pose proof (sjis_inverse _ _ Hrep Es) as Hdec.
  destruct (buf <=? zlen e) eqn:El; [discriminate|]. apply Z.leb_gt in El. inv Hw.
  rewrite resize_ge by lia.
  unfold read_name, read_cstring_exact.
  assert (Hlen : Z.to_nat buf = length (e ++ zeros (buf - zlen e))).
  { rewrite app_length. unfold zeros. rewrite repeat_length. unfold zlen in *. lia. }
  rewrite Hlen, take_app. cbn [obind].
  rewrite zeros_pos by lia. rewrite trim_after_nul_warn by (try assumption; right; apply all_zero_zeros).
  cbn [obind]. rewrite Hdec. reflexivity.
Qed.

(* rejection: what cannot be encoded or does not fit is an error, never a changed string *)
Theorem unencodable_is_error : forall cd sz m v a fb s st, sjis_enc s = None ->
  string_field sjis_enc cd sz m v a fb s st = Err E_ENCODING.
Proof. intros. unfold string_field. now rewrite H. Qed.

End Meta.

Theorem name_too_long_is_error : forall (sjis_enc : list Z -> option bytes) s e buf, sjis_enc s = Some e -> buf <= zlen e ->
  write_name sjis_enc s buf = Err E_TOOLONG.
Proof.
  intros sjis_enc s e buf Hs Hl. unfold write_name, encode_fixed_size. rewrite Hs.
  destruct (buf <=? zlen e) eqn:E; [reflexivity|apply Z.leb_gt in E; lia].
Qed.

