(* Proofs/AbiGen.v -- the side conditions of the C12/C15 theorems, discharged for the table that
   gen/argcodec.py read out of the current source (Gen/ArgCodec.v), and the witnesses of the recorded
   defects.  Every proof here is a computation on the generated table: when an arm of encode_args /
   decode_args_with_abi is edited so that the two stop being inverse, one of these stops checking. *)
From TV Require Import Base.I32 Model.Abi Model.Intrinsic Spec.AbiFit Gen.ArgCodec Proofs.AbiBytes Proofs.AbiRoundtrip.
Open Scope Z_scope.

(* every encoder arm has a decoder arm of the same width and signedness, padding and floats agree, ... *)
Lemma gen_codec_ok : codec_ok gen_codec = true.
Proof. vm_compute. reflexivity. Qed.

(* the translator recognised every arm and every step it looks at *)
Lemma gen_all_recognised : gen_unrecognised = 0%nat.
Proof. vm_compute. reflexivity. Qed.

Definition int_arg (v : Z) : arg := mkarg (AInt v) false.

(* every narrowing cast of encode_args is range-checked (repaired in 9774fb1; DESIGN section 6 #6) *)
Lemma gen_all_checked : all_checked gen_codec = true.
Proof. vm_compute. reflexivity. Qed.

From TV Require Import Proofs.AbiNoPanic Proofs.IntrinsicPlace Proofs.AbiReencode.

(* every checked cast has a target that holds exactly what the decoder can return, paddings agree both ways *)
Lemma gen_codec_reenc : codec_reenc gen_codec = true.
Proof. vm_compute. reflexivity. Qed.

Lemma gen_chars_covered : chars_covered gen_codec = true.
Proof. vm_compute. reflexivity. Qed.

(* the repaired switches of the table (af0e0ca: arguments are matched against non-padding parameters;
   ff0fa52: bs=0 is rejected by the signature parser; 01110a6: into_vec allocates for the positions from_abi computes) *)
Lemma gen_match_skips_padding : cd_match_skips_padding gen_codec = true.
Proof. vm_compute. reflexivity. Qed.
Lemma gen_bs_checked : cd_bs_checked gen_codec = true.
Proof. vm_compute. reflexivity. Qed.
Lemma gen_place_with_padding : cd_place_with_padding gen_codec = true.
Proof. vm_compute. reflexivity. Qed.

(* 59b7189: a string parameter cannot be both nulless and furibug *)
Lemma gen_nulless_furibug_rejected : cd_nulless_furibug_rejected gen_codec = true.
Proof. vm_compute. reflexivity. Qed.

(* every signature that the mapfile parser accepts (with at most as many parameters as the mask has bits, in a language
   that has registers only if it has no timeline arg0) is one the round-trip theorems cover *)
Lemma parsed_sig_ok : forall lang_arg0 ps sig has_regs,
  abi_of_params gen_codec lang_arg0 ps = Some sig -> params_nonneg ps = true ->
  nparams sig <= cd_mask_bits gen_codec -> (lang_arg0 = true -> has_regs = false) ->
  sig_ok gen_codec has_regs sig = true.
Proof.
  intros lang_arg0 ps sig has_regs Habi Hnn Hnp Hlang.
  unfold abi_of_params in Habi. destruct (encs_of_params gen_codec ps) as [sig'|] eqn:Ep; [|discriminate].
  destruct (validate sig' && (negb (existsb is_arg0 (firstn 1 sig')) || lang_arg0)) eqn:Ev; [|discriminate].
  injection Habi as <-. apply andb_true_iff in Ev. destruct Ev as [Hv Ha].
  unfold sig_ok. rewrite Hv, (params_str_ok _ gen_bs_checked gen_nulless_furibug_rejected _ _ Hnn Ep). cbn [andb].
  apply andb_true_iff. split; [now apply Z.leb_le|].
  destruct (validate_facts _ Hv) as [Htl _].
  destruct sig' as [|e sig1]; [reflexivity|]. cbn [existsb firstn tl] in *. rewrite Htl in *. rewrite orb_false_r in *.
  destruct (is_arg0 e); [|reflexivity]. cbn [negb orb] in *. rewrite (Hlang Ha). reflexivity.
Qed.

(* 9b3b50b: a register argument for which the 16-bit parameter mask has no bit left is reported (before the repair the
   `too many arguments` check could never fire and such a register was stored as an immediate without a diagnostic) *)
Lemma gen_mask_overflow_checked : cd_mask_overflow_checked gen_codec = true.
Proof. vm_compute. reflexivity. Qed.

Lemma accepted_call_never_panics_gen :
  forall (sjis_enc : list Z -> option bytes) lang_arg0 ps sig args has_regs st,
  abi_of_params gen_codec lang_arg0 ps = Some sig ->
  check_call gen_codec sig args = true ->
  is_panic (encode_args sjis_enc gen_codec has_regs sig args st) = false.
Proof.
  intros sjis_enc lang_arg0 ps sig args has_regs st Habi Hc.
  unfold abi_of_params in Habi. destruct (encs_of_params gen_codec ps) as [sig'|] eqn:Ep; [|discriminate].
  destruct (validate sig' && (negb (existsb is_arg0 (firstn 1 sig')) || lang_arg0)) eqn:Ev; [|discriminate].
  injection Habi as <-. apply andb_true_iff in Ev. destruct Ev as [Hv _].
  apply (encode_no_panic sjis_enc gen_codec gen_codec_ok).
  - exact (proj1 (validate_facts _ Hv)).
  - exact (params_bs_ok _ gen_bs_checked _ _ Ep).
  - exact (params_known _ gen_chars_covered _ _ Ep).
  - exact (check_call_typed _ _ _ (or_introl gen_match_skips_padding) Hc).
Qed.
