(* Proofs/AbiGen.v -- the side conditions of the C12/C15 theorems, discharged for the table that
   gen/argcodec.py read out of the current source (Gen/ArgCodec.v), and the witnesses of the recorded
   defects.  Every proof here is a computation on the generated table: when an arm of encode_args /
   decode_args_with_abi is edited so that the two stop being inverse, one of these stops checking. *)
From TV Require Import Base.I32 Model.Abi Model.Intrinsic Spec.AbiFit Gen.ArgCodec Proofs.AbiBytes Proofs.AbiRoundtrip.
Open Scope Z_scope.

(* every encoder arm has a decoder arm of the same width and signedness, padding and floats agree, ... *)
Lemma gen_codec_ok : codec_ok gen_codec = true.
Proof. vm_compute. reflexivity. Qed.

(* the translator recognised every arm and every step it looks at *)
Lemma gen_all_recognised : gen_unrecognised = 0%nat.
Proof. vm_compute. reflexivity. Qed.

Definition no_sjis (_ : list Z) : option bytes := None.
Definition no_sjis_dec (_ : bytes) : option (list Z) := None.
Definition int_arg (v : Z) : arg := mkarg (AInt v) false.

(* defect (i), DESIGN section 6 #6: `ins_900(70000, 300, -200)` with signature `sbc` *)
Definition narrowing_sig : list enc := [EInt 2 true false false; EInt 1 false false false; EInt 1 true false false].
Definition narrowing_args : list arg := [int_arg 70000; int_arg 300; int_arg (-200)].
Definition narrowing_read : list arg := [int_arg 4464; int_arg 44; int_arg 56].

Definition narrowing_witness : Prop :=
  sig_ok gen_codec true narrowing_sig = true /\
  args_typed (fun _ => true) narrowing_sig narrowing_args = true /\
  exists r st', encode_args no_sjis gen_codec true narrowing_sig narrowing_args None = Ok (r, st')
                /\ r_warn r = [] /\ decode_call no_sjis_dec gen_codec narrowing_sig r = Ok (narrowing_read, []).

Lemma narrowing_refuted : all_checked gen_codec = false -> narrowing_witness.
Proof.
  intro E. first [ vm_compute in E; discriminate E
                 | unfold narrowing_witness; split; [vm_compute; reflexivity|]; split; [vm_compute; reflexivity|];
                   eexists; eexists; split; [vm_compute; reflexivity|]; split; vm_compute; reflexivity ].
Qed.
