(* Proofs/AbiGen.v -- the side conditions of the C12/C15 theorems, discharged for the table that
   gen/argcodec.py read out of the current source (Gen/ArgCodec.v), and the witnesses of the recorded
   defects.  Every proof here is a computation on the generated table: when an arm of encode_args /
   decode_args_with_abi is edited so that the two stop being inverse, one of these stops checking. *)
From TV Require Import Base.I32 Model.Abi Model.Intrinsic Spec.AbiFit Gen.ArgCodec Proofs.AbiBytes Proofs.AbiRoundtrip.
Open Scope Z_scope.

(* every encoder arm has a decoder arm of the same width and signedness, padding and floats agree, ... *)
Lemma gen_codec_ok : codec_ok gen_codec = true.
Proof. vm_compute. reflexivity. Qed.

(* the translator recognised every arm and every step it looks at *)
Lemma gen_all_recognised : gen_unrecognised = 0%nat.
Proof. vm_compute. reflexivity. Qed.

Definition no_sjis (_ : list Z) : option bytes := None.
Definition no_sjis_dec (_ : bytes) : option (list Z) := None.
Definition int_arg (v : Z) : arg := mkarg (AInt v) false.

(* defect (i), DESIGN section 6 #6: `ins_900(70000, 300, -200)` with signature `sbc` *)
Definition narrowing_sig : list enc := [EInt 2 true false false; EInt 1 false false false; EInt 1 true false false].
Definition narrowing_args : list arg := [int_arg 70000; int_arg 300; int_arg (-200)].
Definition narrowing_read : list arg := [int_arg 4464; int_arg 44; int_arg 56].

Definition narrowing_witness : Prop :=
  sig_ok gen_codec true narrowing_sig = true /\
  args_typed (fun _ => true) narrowing_sig narrowing_args = true /\
  exists r st', encode_args no_sjis gen_codec true narrowing_sig narrowing_args None = Ok (r, st')
                /\ r_warn r = [] /\ decode_call no_sjis_dec gen_codec narrowing_sig r = Ok (narrowing_read, []).

Lemma narrowing_refuted : all_checked gen_codec = false -> narrowing_witness.
Proof.
  intro E. first [ vm_compute in E; discriminate E
                 | unfold narrowing_witness; split; [vm_compute; reflexivity|]; split; [vm_compute; reflexivity|];
                   eexists; eexists; split; [vm_compute; reflexivity|]; split; vm_compute; reflexivity ].
Qed.

From TV Require Import Proofs.AbiNoPanic Proofs.IntrinsicPlace.

Lemma gen_chars_covered : chars_covered gen_codec = true.
Proof. vm_compute. reflexivity. Qed.

(* defect (iv), DESIGN section 6 #13: signature `S_f`, the call (1, 2) passes the call check and panics *)
Definition calltyping_params : list sparam := [PInt 83 false false; PPad 95; PFloat false].
Definition calltyping_witness : Prop :=
  exists sig, abi_of_params gen_codec false calltyping_params = Some sig /\
    (* accepted although the second argument is not a float ... *)
    check_call gen_codec sig [int_arg 1; int_arg 2] = true /\
    is_panic (encode_args no_sjis gen_codec true sig [int_arg 1; int_arg 2] None) = true /\
    (* ... and the well-typed call is rejected *)
    check_call gen_codec sig [int_arg 1; mkarg (AFloat 1073741824) false] = false.

Lemma calltyping_refuted : cd_match_skips_padding gen_codec = false -> calltyping_witness.
Proof.
  intro E. first [ vm_compute in E; discriminate E
                 | unfold calltyping_witness; eexists; split; [vm_compute; reflexivity|]; repeat split; vm_compute; reflexivity ].
Qed.

(* defect (ii), DESIGN section 6 #5: `z(bs=0)` is accepted and encoding any string panics *)
Definition bszero_witness : Prop :=
  exists sig, abi_of_params gen_codec false [PStr (SBlock 0) 0 0 0 false] = Some sig /\
    check_call gen_codec sig [mkarg (AStr [97; 98; 99]) false] = true /\
    encode_args (fun s => Some s) gen_codec true sig [mkarg (AStr [97; 98; 99]) false] None = Panic P_DIV0.

Lemma bszero_refuted : cd_bs_checked gen_codec = false -> bszero_witness.
Proof.
  intro E. first [ vm_compute in E; discriminate E
                 | unfold bszero_witness; eexists; split; [vm_compute; reflexivity|]; split; vm_compute; reflexivity ].
Qed.

(* defect (iii), DESIGN section 6 #4: `900 S_S` as AssignOp, `$REG[10000] = 5;` *)
Definition placement_sig : list enc := [EInt 4 true false false; EPad 4; EInt 4 true false false].
Definition placement_builder : builder :=
  {| b_jump := None; b_plain := [int_arg 5]; b_outputs := [mkarg (AInt 10000) true] |}.
Definition placement_witness : Prop :=
  exists p, from_abi (IAssignOp TInt) placement_sig = Ok p /\
            into_vec gen_codec p placement_builder (int_arg 0) = Panic P_INDEX.

Lemma placement_refuted : cd_place_with_padding gen_codec = false -> placement_witness.
Proof.
  intro E. first [ vm_compute in E; discriminate E
                 | unfold placement_witness; eexists; split; vm_compute; reflexivity ].
Qed.

(* nulless + furibug: after a furigana line, the text of a nulless furibug string reads back with the
   furigana line's (masked) bytes attached: "b" becomes "b|a" *)
Definition nullessfuri_params : list sparam := [PStr (SFixed 8 true) 0 0 0 true].
Definition nullessfuri_witness : Prop :=
  exists sig r1 st1 r2 st2,
    abi_of_params gen_codec false nullessfuri_params = Some sig /\
    encode_args (fun s => Some s) gen_codec false [EStr (SBlock 1) 0 0 0 true] [mkarg (AStr [124; 97]) false] None = Ok (r1, st1) /\
    encode_args (fun s => Some s) gen_codec false sig [mkarg (AStr [98]) false] st1 = Ok (r2, st2) /\
    r_warn r2 = [] /\
    decode_call (fun b => Some b) gen_codec sig r2 = Ok ([mkarg (AStr [98; 124; 97]) false], []).

Lemma nullessfuri_refuted : cd_nulless_furibug_rejected gen_codec = false -> nullessfuri_witness.
Proof.
  intro E. first [ vm_compute in E; discriminate E
                 | unfold nullessfuri_witness; do 5 eexists; split; [vm_compute; reflexivity|]; split; [vm_compute; reflexivity|];
                   split; [vm_compute; reflexivity|]; split; vm_compute; reflexivity ].
Qed.

Lemma accepted_call_never_panics_gen :
  forall (sjis_enc : list Z -> option bytes) lang_arg0 ps sig args has_regs st,
  abi_of_params gen_codec lang_arg0 ps = Some sig ->
  cd_match_skips_padding gen_codec = true \/ trailing_pad_only sig = true ->
  cd_bs_checked gen_codec = true \/ forallb bs_ok sig = true ->
  check_call gen_codec sig args = true ->
  is_panic (encode_args sjis_enc gen_codec has_regs sig args st) = false.
Proof.
  intros sjis_enc lang_arg0 ps sig args has_regs st Habi Hg Hb Hc.
  unfold abi_of_params in Habi. destruct (encs_of_params gen_codec ps) as [sig'|] eqn:Ep; [|discriminate].
  destruct (validate sig' && (negb (existsb is_arg0 (firstn 1 sig')) || lang_arg0)) eqn:Ev; [|discriminate].
  injection Habi as <-. apply andb_true_iff in Ev. destruct Ev as [Hv _].
  apply (encode_no_panic sjis_enc gen_codec gen_codec_ok).
  - exact (proj1 (validate_facts _ Hv)).
  - destruct Hb as [Hb|Hb]; [exact (params_bs_ok _ Hb _ _ Ep)|exact Hb].
  - exact (params_known _ gen_chars_covered _ _ Ep).
  - exact (check_call_typed _ _ _ Hg Hc).
Qed.
