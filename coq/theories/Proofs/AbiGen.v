(* Proofs/AbiGen.v -- the side conditions of the C12/C15 theorems, discharged for the table that
   gen/argcodec.py read out of the current source (Gen/ArgCodec.v), and the witnesses of the recorded
   defects.  Every proof here is a computation on the generated table: when an arm of encode_args /
   decode_args_with_abi is edited so that the two stop being inverse, one of these stops checking. *)
From TV Require Import Base.I32 Model.Abi Model.Intrinsic Spec.AbiFit Gen.ArgCodec Proofs.AbiBytes Proofs.AbiRoundtrip.
Open Scope Z_scope.

(* every encoder arm has a decoder arm of the same width and signedness, padding and floats agree, ... *)
Lemma gen_codec_ok : codec_ok gen_codec = true.
Proof. vm_compute. reflexivity. Qed.

(* the translator recognised every arm and every step it looks at *)
Lemma gen_all_recognised : gen_unrecognised = 0%nat.
Proof. vm_compute. reflexivity. Qed.

Definition int_arg (v : Z) : arg := mkarg (AInt v) false.

(* every narrowing cast of encode_args is range-checked (repaired in 9774fb1; DESIGN section 6 #6) *)
Lemma gen_all_checked : all_checked gen_codec = true.
Proof. vm_compute. reflexivity. Qed.

From TV Require Import Proofs.AbiNoPanic Proofs.IntrinsicPlace Proofs.AbiReencode.

(* every checked cast has a target that holds exactly what the decoder can return, paddings agree both ways *)
Lemma gen_codec_reenc : codec_reenc gen_codec = true.
Proof. vm_compute. reflexivity. Qed.

Lemma gen_chars_covered : chars_covered gen_codec = true.
Proof. vm_compute. reflexivity. Qed.

(* the repaired switches of the table (af0e0ca: arguments are matched against non-padding parameters;
   ff0fa52: bs=0 is rejected by the signature parser; 01110a6: into_vec allocates for the positions from_abi computes) *)
Lemma gen_match_skips_padding : cd_match_skips_padding gen_codec = true.
Proof. vm_compute. reflexivity. Qed.
Lemma gen_bs_checked : cd_bs_checked gen_codec = true.
Proof. vm_compute. reflexivity. Qed.
Lemma gen_place_with_padding : cd_place_with_padding gen_codec = true.
Proof. vm_compute. reflexivity. Qed.

(* nulless + furibug: after a furigana line, the text of a nulless furibug string reads back with the
   furigana line's (masked) bytes attached: "b" becomes "b|a" *)
Definition nullessfuri_params : list sparam := [PStr (SFixed 8 true) 0 0 0 true].
Definition nullessfuri_witness : Prop :=
  exists sig r1 st1 r2 st2,
    abi_of_params gen_codec false nullessfuri_params = Some sig /\
    encode_args (fun s => Some s) gen_codec false [EStr (SBlock 1) 0 0 0 true] [mkarg (AStr [124; 97]) false] None = Ok (r1, st1) /\
    encode_args (fun s => Some s) gen_codec false sig [mkarg (AStr [98]) false] st1 = Ok (r2, st2) /\
    r_warn r2 = [] /\
    decode_call (fun b => Some b) gen_codec sig r2 = Ok ([mkarg (AStr [98; 124; 97]) false], []).

Lemma nullessfuri_refuted : cd_nulless_furibug_rejected gen_codec = false -> nullessfuri_witness.
Proof.
  intro E. first [ vm_compute in E; discriminate E
                 | unfold nullessfuri_witness; do 5 eexists; split; [vm_compute; reflexivity|]; split; [vm_compute; reflexivity|];
                   split; [vm_compute; reflexivity|]; split; vm_compute; reflexivity ].
Qed.

Lemma accepted_call_never_panics_gen :
  forall (sjis_enc : list Z -> option bytes) lang_arg0 ps sig args has_regs st,
  abi_of_params gen_codec lang_arg0 ps = Some sig ->
  check_call gen_codec sig args = true ->
  is_panic (encode_args sjis_enc gen_codec has_regs sig args st) = false.
Proof.
  intros sjis_enc lang_arg0 ps sig args has_regs st Habi Hc.
  unfold abi_of_params in Habi. destruct (encs_of_params gen_codec ps) as [sig'|] eqn:Ep; [|discriminate].
  destruct (validate sig' && (negb (existsb is_arg0 (firstn 1 sig')) || lang_arg0)) eqn:Ev; [|discriminate].
  injection Habi as <-. apply andb_true_iff in Ev. destruct Ev as [Hv _].
  apply (encode_no_panic sjis_enc gen_codec gen_codec_ok).
  - exact (proj1 (validate_facts _ Hv)).
  - exact (params_bs_ok _ gen_bs_checked _ _ Ep).
  - exact (params_known _ gen_chars_covered _ _ Ep).
  - exact (check_call_typed _ _ _ (or_introl gen_match_skips_padding) Hc).
Qed.
