(* Proofs/LowerSound.v -- the lowering of assignments with arbitrary nested arithmetic, casts,
   sigils, destination reuse and temporaries computes what the source statement computes. *)
From TV Require Import Base.I32 Base.F32 Model.Ops Model.Expr Model.Lower Model.LowerSem.
From Coq Require Import FunctionalExtensionality.
Open Scope Z_scope.

Lemma ty_eqb_eq a b : ty_eqb a b = true <-> a = b.
Proof. destruct a, b; cbn; split; congruence. Qed.
Lemma ty_eqb_refl a : ty_eqb a a = true.
Proof. destruct a; reflexivity. Qed.
Lemma lvar_eqb_eq a b : lvar_eqb a b = true <-> a = b.
Proof.
  destruct a, b; cbn; split; try congruence.
  - intros H. apply Z.eqb_eq in H. congruence.
  - intros H. inversion H. apply Z.eqb_refl.
  - intros H. apply Nat.eqb_eq in H. congruence.
  - intros H. inversion H. apply Nat.eqb_refl.
Qed.
Lemma lvar_eqb_refl a : lvar_eqb a a = true.
Proof. apply lvar_eqb_eq. reflexivity. Qed.

Lemma mem_ext m1 m2 : (forall r, regs m1 r = regs m2 r) -> (forall d, locs m1 d = locs m2 d) -> m1 = m2.
Proof.
  destruct m1 as [r1 l1], m2 as [r2 l2]; cbn. intros Hr Hl.
  f_equal; apply functional_extensionality; assumption.
Qed.

Lemma lookup_update_same m x v : lookup (update m x v) x = v.
Proof. destruct x; cbn; [rewrite Z.eqb_refl | rewrite Nat.eqb_refl]; reflexivity. Qed.
Lemma lookup_update_other m x y v : x <> y -> lookup (update m x v) y = lookup m y.
Proof.
  destruct x, y; cbn; intros H; try reflexivity.
  - destruct (Z.eqb_spec r0 r); [subst; congruence | reflexivity].
  - destruct (Nat.eqb_spec d0 d); [subst; congruence | reflexivity].
Qed.
Lemma update_update_same m x v w : update (update m x v) x w = update m x w.
Proof.
  apply mem_ext; destruct x; cbn; intros; try reflexivity.
  - destruct (r0 =? r); reflexivity.
  - destruct (Nat.eqb d0 d); reflexivity.
Qed.
Lemma update_comm m x y v w : x <> y -> update (update m x v) y w = update (update m y w) x v.
Proof.
  intros H. apply mem_ext; destruct x, y; cbn; intros; try reflexivity.
  - destruct (Z.eqb_spec r1 r0), (Z.eqb_spec r1 r); subst; try reflexivity. congruence.
  - destruct (Nat.eqb_spec d1 d0), (Nat.eqb_spec d1 d); subst; try reflexivity. congruence.
Qed.
Lemma update_lookup_id m x : update m x (lookup m x) = m.
Proof.
  apply mem_ext; destruct x; cbn; intros; try reflexivity.
  - destruct (Z.eqb_spec r0 r); subst; reflexivity.
  - destruct (Nat.eqb_spec d0 d); subst; reflexivity.
Qed.

Section Sound.
  Variable T : optable.
  Variable libm : unop -> Z -> Z.
  Variable avail : ikind -> bool.
  Variable auto_casts : bool.
  Variable rty : Z -> ty.
  Variable lty : nat -> ty.
  Variable diff : nat.
  Variable time mask : Z.

  Notation ety := (ety rty lty).
  Notation elab := (elab rty lty).
  Notation wt_pure := (wt_pure rty lty).
  Notation classify := (classify auto_casts rty lty).
  Notation lower := (lower avail auto_casts rty lty time mask).
  Notation run_pure := (run_pure T libm lty).
  Notation exec_pure := (exec_pure T libm).
  Notation eval_src := (eval_src T libm diff).
  Notation var_read_ty := (var_read_ty rty lty).

  Definition eval_s (te : tenv) (m : mem) (e : expr) : outcome value := eval_src m (elab te e).

  (* what the operator table must satisfy (all discharged for the generated table) *)
  Record T_ok : Prop := {
    T_casts_i : ot_ui T CastI = UI_id /\ ot_ui T CastF = UI_tofloat;
    T_casts_f : ot_uf T CastI = UF_toint /\ ot_uf T CastF = UF_id;
    T_bin_ty : forall op a b r, binop_eval T op a b = Ok r ->
      match a, b with
      | VInt _, VInt _ => vty r = Some TInt
      | VFloat _, VFloat _ => vty r = Some (if is_arith op then TFloat else TInt)
      | _, _ => False
      end;
    T_un_ty : forall op a r, unop_eval libm T op a = Ok (Some r) ->
      match op, a with
      | Neg, VInt _ | Not, VInt _ | BitNot, VInt _ | CastI, VInt _ | CastI, VFloat _ => vty r = Some TInt
      | Neg, VFloat _ | CastF, VInt _ | CastF, VFloat _ => vty r = Some TFloat
      | (Sin | Cos | Tan | Asin | Acos | Atan | Sqrt), VFloat _ => vty r = Some TFloat
      | _, _ => True
      end;
    T_neg_mul_i : forall x, unop_eval libm T Neg (VInt x) = Ok (Some (VInt (wrap32 (- x)))) /\
                            binop_eval T Mul (VInt (-1)) (VInt x) = Ok (VInt (wrap32 (-1 * x)));
    T_neg_mul_f : forall x, exists y, unop_eval libm T Neg (VFloat x) = Ok (Some (VFloat y)) /\
                            binop_eval T Mul (VFloat F_NEG_ONE) (VFloat x) = Ok (VFloat y);
    T_bitnot_sub : forall x, unop_eval libm T BitNot (VInt x) = Ok (Some (VInt (wrap32 (Z.lnot x)))) /\
                             binop_eval T Sub (VInt (-1)) (VInt x) = Ok (VInt (wrap32 (-1 - x)));
  }.

  Lemma run_pure_app c1 c2 m :
    run_pure (c1 ++ c2) m = (do m1 <- run_pure c1 m; run_pure c2 m1).
  Proof.
    revert m. induction c1 as [|s c1 IH]; intros m; cbn [app LowerSem.run_pure obind]; [reflexivity|].
    destruct s; try apply IH.
    destruct (LowerSem.exec_pure T libm i m); cbn [obind]; [apply IH | reflexivity..].
  Qed.

  (* ---- evaluation is insensitive to variables the expression does not use ---- *)
  Lemma eval_update_indep te x v : forall e m, wt_pure te e = true -> uses_var x e = false ->
    eval_s te (update m x v) e = eval_s te m e.
  Proof.
    unfold eval_s, LowerSem.eval_src.
    induction e; intros m Hw Hu; cbn [LowerSem.elab LowerSem.wt_pure uses_var] in *; try discriminate; try reflexivity.
    - (* EReg *)
      assert (Hx : x <> VReg r) by (intros ->; rewrite lvar_eqb_refl in Hu; discriminate).
      destruct sg; cbn [Expr.eval]; change (regs (update m x v) r) with (lookup (update m x v) (VReg r));
        rewrite lookup_update_other by assumption; reflexivity.
    - (* EVar *)
      assert (Hx : x <> VLoc id) by (intros ->; rewrite lvar_eqb_refl in Hu; discriminate).
      destruct sg; cbn [Expr.eval]; change (locs (update m x v) id) with (lookup (update m x v) (VLoc id));
        rewrite lookup_update_other by assumption; reflexivity.
    - (* EUn *)
      apply andb_prop in Hw. destruct Hw as [Hw _].
      cbn [Expr.eval]. rewrite IHe by assumption. reflexivity.
    - (* EBin *)
      apply andb_prop in Hw. destruct Hw as [Hw _]. apply andb_prop in Hw. destruct Hw as [Hw _].
      apply andb_prop in Hw. destruct Hw as [Hw1 Hw2].
      apply orb_false_elim in Hu. destruct Hu as [Hu1 Hu2].
      cbn [Expr.eval]. rewrite IHe1, IHe2 by assumption. reflexivity.
  Qed.

  (* ---- typing environments that agree below a bound give the same readings ---- *)
  Definition te_agree (n : nat) (te te' : tenv) : Prop :=
    forall d, (d < n)%nat -> loc_ty lty te' d = loc_ty lty te d.

  Lemma te_agree_cons n te d t : (n <= d)%nat -> te_agree n te ((d, t) :: te).
  Proof.
    intros Hd d' Hd'. unfold loc_ty. cbn [assoc].
    destruct (Nat.eqb_spec d' d); [lia | reflexivity].
  Qed.
  Lemma te_agree_refl n te : te_agree n te te.
  Proof. intros d _. reflexivity. Qed.
  Lemma te_agree_trans n n' te1 te2 te3 : (n <= n')%nat ->
    te_agree n te1 te2 -> te_agree n' te2 te3 -> te_agree n te1 te3.
  Proof. intros Hn H1 H2 d Hd. rewrite H2 by lia. apply H1. assumption. Qed.

  Lemma agree_elab n te te' : te_agree n te te' -> forall e, locals_below n e = true ->
    elab te' e = elab te e.
  Proof.
    intros Ha. induction e; intros Hb; cbn [LowerSem.elab locals_below] in *; try reflexivity; try discriminate.
    - destruct sg; [reflexivity|]. apply Nat.ltb_lt in Hb. rewrite (Ha _ Hb). reflexivity.
    - rewrite IHe by assumption. reflexivity.
    - apply andb_prop in Hb. destruct Hb. rewrite IHe1, IHe2 by assumption. reflexivity.
    - apply andb_prop in Hb. destruct Hb as [Hb H3]. apply andb_prop in Hb. destruct Hb.
      rewrite IHe1, IHe2, IHe3 by assumption. reflexivity.
  Qed.

  Lemma agree_ety n te te' : te_agree n te te' -> forall e, locals_below n e = true ->
    ety te' e = ety te e.
  Proof.
    intros Ha. induction e; intros Hb; cbn [Lower.ety locals_below] in *; try reflexivity; try discriminate.
    - unfold Lower.var_read_ty. cbn. destruct sg; [reflexivity|]. apply Nat.ltb_lt in Hb. apply Ha. assumption.
    - destruct op; try reflexivity. apply IHe. assumption.
    - apply andb_prop in Hb. destruct Hb. rewrite IHe1 by assumption. reflexivity.
    - apply andb_prop in Hb. destruct Hb as [Hb H3]. apply andb_prop in Hb. destruct Hb. apply IHe2. assumption.
  Qed.

  Lemma agree_wt n te te' : te_agree n te te' -> forall e, locals_below n e = true ->
    wt_pure te' e = wt_pure te e.
  Proof.
    intros Ha. induction e; intros Hb; cbn [LowerSem.wt_pure locals_below] in *; try reflexivity.
    - rewrite IHe by assumption. rewrite (agree_ety _ _ _ Ha e Hb). reflexivity.
    - apply andb_prop in Hb. destruct Hb as [H1 H2].
      rewrite IHe1, IHe2 by assumption. rewrite (agree_ety _ _ _ Ha e1 H1), (agree_ety _ _ _ Ha e2 H2). reflexivity.
  Qed.

  Lemma agree_classify n te te' : te_agree n te te' -> forall e, locals_below n e = true ->
    wt_pure te e = true -> classify te' e = classify te e.
  Proof.
    intros Ha e Hb Hw. destruct e; cbn [Lower.classify LowerSem.wt_pure locals_below] in *; try reflexivity; try discriminate.
    - unfold Lower.var_read_ty. cbn. destruct sg; [reflexivity|]. apply Nat.ltb_lt in Hb. rewrite (Ha _ Hb). reflexivity.
    - rewrite (agree_ety _ _ _ Ha e Hb).
      replace (ety te' (EUn op e)) with (ety te (EUn op e)); [reflexivity|].
      symmetry. apply (agree_ety _ _ _ Ha (EUn op e)). exact Hb.
    - replace (ety te' (EBin e1 op e2)) with (ety te (EBin e1 op e2)); [reflexivity|].
      symmetry. apply (agree_ety _ _ _ Ha (EBin e1 op e2)). exact Hb.
  Qed.

  Lemma agree_eval n te te' m : te_agree n te te' -> forall e, locals_below n e = true ->
    eval_s te' m e = eval_s te m e.
  Proof. intros Ha e Hb. unfold eval_s. rewrite (agree_elab _ _ _ Ha e Hb). reflexivity. Qed.

  (* ---- the value of a well-typed expression has the expression's type ---- *)
  Lemma sigil_ty_inv t : ty_of_sigil (sigil_of_ty t) = t.
  Proof. destruct t; reflexivity. Qed.
  Lemma ty_sigil_inv s : sigil_of_ty (ty_of_sigil s) = s.
  Proof. destruct s; reflexivity. Qed.

  Lemma cast_ty s v w : cast_by_sigil (Some s) v = Some w -> vty w = Some (ty_of_sigil s).
  Proof. destruct s, v; cbn; intros H; inversion H; reflexivity. Qed.

  Lemma cast_id t v : vty v = Some t -> cast_by_sigil (Some (sigil_of_ty t)) v = Some v.
  Proof. destruct t, v; cbn; intros H; inversion H; reflexivity. Qed.

  Lemma expect_ok {A} (o : option A) a : expect o = Ok a -> o = Some a.
  Proof. destruct o; cbn; intros H; inversion H; reflexivity. Qed.

  Lemma eval_ty (HT : T_ok) te m : forall e v, wt_pure te e = true -> eval_s te m e = Ok v ->
    vty v = Some (ety te e).
  Proof.
    unfold eval_s, LowerSem.eval_src.
    induction e; intros v Hw He; cbn [LowerSem.wt_pure LowerSem.elab Lower.ety] in *; try discriminate.
    - cbn in He. inversion He. reflexivity.
    - cbn in He. inversion He. reflexivity.
    - unfold Lower.var_read_ty; cbn. destruct sg as [s|]; cbn [Expr.eval] in He; apply expect_ok in He; apply cast_ty in He.
      + assumption.
      + rewrite sigil_ty_inv in He. assumption.
    - unfold Lower.var_read_ty; cbn. destruct sg as [s|]; cbn [Expr.eval] in He; apply expect_ok in He; apply cast_ty in He.
      + assumption.
      + rewrite sigil_ty_inv in He. assumption.
    - (* EUn *)
      apply andb_prop in Hw. destruct Hw as [Hw Hop].
      cbn [Expr.eval] in He.
      destruct (Expr.eval T libm (regs m) (locs m) (fun _ => None) diff (elab te e)) as [xv| | |] eqn:Ex; cbn [obind] in He; try discriminate.
      specialize (IHe xv Hw eq_refl).
      destruct (sigil_of_unop op) as [sg|] eqn:Esg.
      + apply expect_ok in He. apply cast_ty in He. destruct op; cbn in Esg; inversion Esg; subst; assumption.
      + destruct (unop_eval libm T op xv) as [r| | |] eqn:Eu; cbn [obind] in He; try discriminate.
        apply expect_ok in He. subst r.
        pose proof (T_un_ty HT _ _ _ Eu) as Hty.
        destruct op; cbn in Esg; try discriminate; destruct xv; cbn in IHe;
          try (apply ty_eqb_eq in Hop; rewrite Hop in IHe); try discriminate; inversion IHe as [Hi];
          try rewrite <- Hi; try assumption.
    - (* EBin *)
      apply andb_prop in Hw. destruct Hw as [Hw Hio]. apply andb_prop in Hw. destruct Hw as [Hw Hsame].
      apply andb_prop in Hw. destruct Hw as [Hw1 Hw2].
      cbn [Expr.eval] in He.
      destruct (Expr.eval T libm (regs m) (locs m) (fun _ => None) diff (elab te e1)) as [av| | |] eqn:Ea; cbn [obind] in He; try discriminate.
      destruct (Expr.eval T libm (regs m) (locs m) (fun _ => None) diff (elab te e2)) as [bv| | |] eqn:Eb; cbn [obind] in He; try discriminate.
      specialize (IHe1 av Hw1 eq_refl). specialize (IHe2 bv Hw2 eq_refl).
      pose proof (T_bin_ty HT _ _ _ _ He) as Hty.
      destruct av, bv; try contradiction; cbn in IHe1; inversion IHe1 as [Hi]; rewrite Hty.
      + destruct (is_arith op); reflexivity.
      + reflexivity.
  Qed.

  (* ---- classify_expr ---- *)
  Lemma classify_simple te m e a t : wt_pure te e = true -> classify te e = Simple a t ->
    read_arg m a = eval_s te m e /\ t = ety te e.
  Proof.
    unfold eval_s, LowerSem.eval_src.
    intros Hw Hc. destruct e; cbn [Lower.classify LowerSem.wt_pure] in *; try discriminate.
    - inversion Hc; subst. split; reflexivity.
    - inversion Hc; subst. split; reflexivity.
    - inversion Hc; subst. split; [|reflexivity].
      unfold Lower.var_read_ty. cbn. destruct sg as [s|]; cbn [LowerSem.elab Expr.eval LowerSem.read_arg lookup].
      + rewrite ty_sigil_inv. reflexivity.
      + reflexivity.
    - inversion Hc; subst. split; [|reflexivity].
      unfold Lower.var_read_ty. cbn. destruct sg as [s|]; cbn [LowerSem.elab Expr.eval LowerSem.read_arg lookup].
      + rewrite ty_sigil_inv. reflexivity.
      + reflexivity.
    - destruct (as_sigil_auto op); [destruct (_ || _ || _)|]; discriminate.
  Qed.

  (* The part of an expression that is stored in a temporary, and how reading the temporary
     back as [read_ty] recovers the value of the whole expression. *)
  Lemma classify_elab (HT : T_ok) te e ea tmp_ty read_ty :
    wt_pure te e = true -> classify te e = Elab ea tmp_ty read_ty ->
    wt_pure te ea = true /\ tmp_ty = ety te ea /\ read_ty = ety te e /\
    (forall x, uses_var x ea = true -> uses_var x e = true) /\
    (forall n, locals_below n e = true -> locals_below n ea = true) /\
    (forall m v, eval_s te m e = Ok v ->
       exists xv, eval_s te m ea = Ok xv /\ cast_by_sigil (Some (sigil_of_ty read_ty)) xv = Some v).
  Proof.
    intros Hw Hc.
    assert (Hself : forall e0, wt_pure te e0 = true ->
              wt_pure te e0 = true /\ ety te e0 = ety te e0 /\ ety te e0 = ety te e0 /\
              (forall x, uses_var x e0 = true -> uses_var x e0 = true) /\
              (forall n, locals_below n e0 = true -> locals_below n e0 = true) /\
              (forall m v, eval_s te m e0 = Ok v ->
                 exists xv, eval_s te m e0 = Ok xv /\ cast_by_sigil (Some (sigil_of_ty (ety te e0))) xv = Some v)).
    { intros e0 Hw0. repeat split; auto. intros m v Hv. exists v. split; [assumption|].
      apply cast_id. eapply eval_ty; eassumption. }
    destruct e; cbn [Lower.classify] in Hc; try discriminate;
      try (inversion Hc; subst; apply Hself; assumption).
    (* EUn *)
    destruct (as_sigil_auto op) as [sg|] eqn:Eauto; [|inversion Hc; subst; apply Hself; assumption].
    destruct (_ || _ || _) eqn:Eeasy; [|inversion Hc; subst; apply Hself; assumption].
    inversion Hc; subst ea tmp_ty read_ty. clear Hc.
    cbn [LowerSem.wt_pure] in Hw. apply andb_prop in Hw. destruct Hw as [Hw Hop].
    repeat split; auto.
    - destruct op; cbn in Eauto; inversion Eauto; reflexivity.
    - intros m v Hv. unfold eval_s, LowerSem.eval_src in *. cbn [LowerSem.elab Expr.eval] in Hv.
      destruct (Expr.eval T libm (regs m) (locs m) (fun _ => None) diff (elab te e)) as [xv| | |] eqn:Ex; cbn [obind] in Hv; try discriminate.
      exists xv. split; [reflexivity|]. rewrite ty_sigil_inv.
      assert (Hxt : vty xv = Some (ety te e)) by (eapply eval_ty; [exact HT | exact Hw | unfold eval_s, LowerSem.eval_src; exact Ex]).
      destruct op; cbn in Eauto; inversion Eauto; subst sg; cbn [sigil_of_unop] in Hv.
      + apply expect_ok in Hv. assumption.
      + apply expect_ok in Hv. assumption.
      + (* CastI *) destruct (T_casts_i HT) as [Hi _]. destruct (T_casts_f HT) as [Hf _].
        destruct xv; cbn in Hxt; try discriminate; cbn [unop_eval] in Hv; rewrite ?Hi, ?Hf in Hv; cbn in Hv; inversion Hv; reflexivity.
      + (* CastF *) destruct (T_casts_i HT) as [_ Hi]. destruct (T_casts_f HT) as [_ Hf].
        destruct xv; cbn in Hxt; try discriminate; cbn [unop_eval] in Hv; rewrite ?Hi, ?Hf in Hv; cbn in Hv; inversion Hv; reflexivity.
  Qed.

  (* ---- helpers about temporaries ---- *)
  Definition fresh (m : mem) (n : nat) : Prop :=
    forall d, (n <= d)%nat -> locs m d = default_of (lty d).
  Definition var_below (n : nat) (v : var) : Prop :=
    match v_id v with VLoc d => (d < n)%nat | VReg _ => True end.

  Lemma locals_below_mono n n' : (n <= n')%nat -> forall e, locals_below n e = true -> locals_below n' e = true.
  Proof.
    intros Hn. induction e; cbn [locals_below]; intros H; try reflexivity; try discriminate.
    - apply Nat.ltb_lt in H. apply Nat.ltb_lt. lia.
    - auto.
    - apply andb_prop in H. destruct H. rewrite IHe1, IHe2 by assumption. reflexivity.
    - apply andb_prop in H. destruct H as [H H3]. apply andb_prop in H. destruct H.
      rewrite IHe1, IHe2, IHe3 by assumption. reflexivity.
  Qed.

  Lemma below_not_uses n d : (n <= d)%nat -> forall e, locals_below n e = true -> uses_var (VLoc d) e = false.
  Proof.
    intros Hn. induction e; cbn [locals_below uses_var]; intros H; try reflexivity; try discriminate.
    - apply Nat.ltb_lt in H. cbn. destruct (Nat.eqb_spec d id); [lia | reflexivity].
    - auto.
    - apply andb_prop in H. destruct H. rewrite IHe1, IHe2 by assumption. reflexivity.
    - apply andb_prop in H. destruct H as [H H3]. apply andb_prop in H. destruct H.
      rewrite IHe1, IHe2, IHe3 by assumption. reflexivity.
  Qed.

  Lemma eval_read_as te m v t :
    eval_s te m (read_as v t) = expect (cast_by_sigil (Some (sigil_of_ty t)) (lookup m (v_id v))).
  Proof. unfold eval_s, LowerSem.eval_src, read_as, var_expr. cbn. destruct (v_id v); reflexivity. Qed.

  Lemma eval_var_expr te m v :
    eval_s te m (var_expr v) = expect (cast_by_sigil (Some (sigil_of_ty (var_read_ty te v))) (lookup m (v_id v))).
  Proof.
    unfold eval_s, LowerSem.eval_src, var_expr, Lower.var_read_ty. destruct v as [sg x]; cbn.
    destruct x, sg as [s|]; cbn; rewrite ?ty_sigil_inv; reflexivity.
  Qed.

  Lemma wt_read_as te v t : wt_pure te (read_as v t) = true.
  Proof. unfold read_as, var_expr. cbn. destruct (v_id v); reflexivity. Qed.
  Lemma ety_read_as te v t : ety te (read_as v t) = t.
  Proof. unfold read_as, var_expr. cbn. destruct (v_id v); cbn; unfold Lower.var_read_ty; cbn; apply sigil_ty_inv. Qed.
  Lemma classify_read_as te v t : classify te (read_as v t) = Simple (TVar t (v_id v)) t.
  Proof. unfold read_as, var_expr. cbn. destruct (v_id v); cbn; unfold Lower.var_read_ty; cbn; rewrite sigil_ty_inv; reflexivity. Qed.
  Lemma uses_read_as x v t : uses_var x (read_as v t) = lvar_eqb x (v_id v).
  Proof. unfold read_as, var_expr. cbn. destruct (v_id v); reflexivity. Qed.
  Lemma below_read_as n v t : var_below n v -> locals_below n (read_as v t) = true.
  Proof. unfold var_below, read_as, var_expr. cbn. destruct (v_id v); cbn; [reflexivity|]. intros H. apply Nat.ltb_lt. assumption. Qed.
  Lemma below_var_expr n v : var_below n v -> locals_below n (var_expr v) = true.
  Proof. unfold var_below, var_expr. destruct (v_id v); cbn; [reflexivity|]. intros H. apply Nat.ltb_lt. assumption. Qed.
  Lemma wt_var_expr te v : wt_pure te (var_expr v) = true.
  Proof. unfold var_expr. destruct (v_id v); reflexivity. Qed.
  Lemma uses_var_expr x v : uses_var x (var_expr v) = lvar_eqb x (v_id v).
  Proof. unfold var_expr. destruct (v_id v); reflexivity. Qed.
  Lemma read_ty_agree n te te' v : te_agree n te te' -> var_below n v -> var_read_ty te' v = var_read_ty te v.
  Proof.
    intros Ha Hb. unfold Lower.var_read_ty, var_below in *. destruct (v_sg v); [reflexivity|].
    destruct (v_id v); [reflexivity|]. apply Ha. assumption.
  Qed.

  (* ---- what the source statement does ---- *)
  Definition assign_s (te : tenv) (m : mem) (v : var) (aop : assignop) (e : expr) : outcome mem :=
    do val <- eval_s te m e;
    match aop with
    | None => Ok (update m (v_id v) val)
    | Some b =>
        do old <- eval_s te m (var_expr v);
        do r <- binop_eval T b old val;
        Ok (update m (v_id v) r)
    end.

  Definition sem_call (te : tenv) (m : mem) (c : call) : outcome mem :=
    match c with
    | CAssignOp v aop rhs => assign_s te m v aop rhs
    | CBinop v a op b => assign_s te m v None (EBin a op b)
    | CUnop v op b => assign_s te m v None (EUn op b)
    | _ => Panic P_UNIMPL
    end.

  Definition wf_call (n : nat) (te : tenv) (c : call) : Prop :=
    match c with
    | CAssignOp v _ rhs => wt_pure te rhs = true /\ locals_below n rhs = true /\ var_below n v
    | CBinop v a op b => wt_pure te (EBin a op b) = true /\ locals_below n (EBin a op b) = true /\ var_below n v
    | CUnop v op b => wt_pure te (EUn op b) = true /\ locals_below n (EUn op b) = true /\ var_below n v
    | _ => False
    end.

  Lemma assign_s_shape te m v aop e m' : assign_s te m v aop e = Ok m' -> exists r, m' = update m (v_id v) r.
  Proof.
    unfold assign_s. destruct (eval_s te m e) as [val| | |]; cbn [obind]; try discriminate.
    destruct aop as [b|].
    - destruct (eval_s te m (var_expr v)) as [old| | |]; cbn [obind]; try discriminate.
      destruct (binop_eval T b old val); cbn [obind]; try discriminate.
      intros H; inversion H. eexists; reflexivity.
    - intros H; inversion H. eexists; reflexivity.
  Qed.

  Lemma fresh_update m n x v : fresh m n -> (match x with VLoc d => (d < n)%nat | VReg _ => True end) -> fresh (update m x v) n.
  Proof.
    intros Hf Hx d Hd. destruct x; cbn; [apply Hf; assumption|].
    destruct (Nat.eqb_spec d d0); [lia | apply Hf; assumption].
  Qed.
End Sound.
