(* Proofs/LowerSound.v -- the lowering of assignments with arbitrary nested arithmetic, casts,
   sigils, destination reuse and temporaries computes what the source statement computes. *)
From TV Require Import Base.I32 Base.F32 Model.Ops Model.Expr Model.Lower Model.LowerSem.
From Coq Require Import FunctionalExtensionality.
Open Scope Z_scope.

Lemma ty_eqb_eq a b : ty_eqb a b = true <-> a = b.
Proof. destruct a, b; cbn; split; congruence. Qed.
Lemma ty_eqb_refl a : ty_eqb a a = true.
Proof. destruct a; reflexivity. Qed.
Lemma lvar_eqb_eq a b : lvar_eqb a b = true <-> a = b.
Proof.
  destruct a, b; cbn; split; try congruence.
  - intros H. apply Z.eqb_eq in H. congruence.
  - intros H. inversion H. apply Z.eqb_refl.
  - intros H. apply Nat.eqb_eq in H. congruence.
  - intros H. inversion H. apply Nat.eqb_refl.
Qed.
Lemma lvar_eqb_refl a : lvar_eqb a a = true.
Proof. apply lvar_eqb_eq. reflexivity. Qed.

Lemma mem_ext m1 m2 : (forall r, regs m1 r = regs m2 r) -> (forall d, locs m1 d = locs m2 d) -> m1 = m2.
Proof.
  destruct m1 as [r1 l1], m2 as [r2 l2]; cbn. intros Hr Hl.
  f_equal; apply functional_extensionality; assumption.
Qed.

Lemma lookup_update_same m x v : lookup (update m x v) x = v.
Proof. destruct x; cbn; [rewrite Z.eqb_refl | rewrite Nat.eqb_refl]; reflexivity. Qed.
Lemma lookup_update_other m x y v : x <> y -> lookup (update m x v) y = lookup m y.
Proof.
  destruct x, y; cbn; intros H; try reflexivity.
  - destruct (Z.eqb_spec r0 r); [subst; congruence | reflexivity].
  - destruct (Nat.eqb_spec d0 d); [subst; congruence | reflexivity].
Qed.
Lemma update_update_same m x v w : update (update m x v) x w = update m x w.
Proof.
  apply mem_ext; destruct x; cbn; intros; try reflexivity.
  - destruct (r0 =? r); reflexivity.
  - destruct (Nat.eqb d0 d); reflexivity.
Qed.
Lemma update_comm m x y v w : x <> y -> update (update m x v) y w = update (update m y w) x v.
Proof.
  intros H. apply mem_ext; destruct x, y; cbn; intros; try reflexivity.
  - destruct (Z.eqb_spec r1 r0), (Z.eqb_spec r1 r); subst; try reflexivity. congruence.
  - destruct (Nat.eqb_spec d1 d0), (Nat.eqb_spec d1 d); subst; try reflexivity. congruence.
Qed.
Lemma update_lookup_id m x : update m x (lookup m x) = m.
Proof.
  apply mem_ext; destruct x; cbn; intros; try reflexivity.
  - destruct (Z.eqb_spec r0 r); subst; reflexivity.
  - destruct (Nat.eqb_spec d0 d); subst; reflexivity.
Qed.

Section Sound.
  Variable T : optable.
  Variable libm : unop -> Z -> Z.
  Variable avail : ikind -> bool.
  Variable auto_casts : bool.
  Variable rty : Z -> ty.
  Variable lty : nat -> ty.
  Variable diff : nat.
  Variable time mask : Z.

  Notation ety := (ety rty lty).
  Notation elab := (elab rty lty).
  Notation wt_pure := (wt_pure rty lty).
  Notation classify := (classify auto_casts rty lty).
  Notation lower := (lower avail auto_casts rty lty time mask).
  Notation run_pure := (run_pure T libm lty).
  Notation exec_pure := (exec_pure T libm).
  Notation eval_src := (eval_src T libm diff).
  Notation var_read_ty := (var_read_ty rty lty).

  Definition eval_s (te : tenv) (m : mem) (e : expr) : outcome value := eval_src m (elab te e).

  (* what the operator table must satisfy (all discharged for the generated table) *)
  Record T_ok : Prop := {
    T_casts_i : ot_ui T CastI = UI_id /\ ot_ui T CastF = UI_tofloat;
    T_casts_f : ot_uf T CastI = UF_toint /\ ot_uf T CastF = UF_id;
    T_bin_ty : forall op a b r, binop_eval T op a b = Ok r ->
      match a, b with
      | VInt _, VInt _ => vty r = Some TInt
      | VFloat _, VFloat _ => vty r = Some (if is_arith op then TFloat else TInt)
      | _, _ => False
      end;
    T_un_ty : forall op a r, unop_eval libm T op a = Ok (Some r) ->
      match op, a with
      | Neg, VInt _ | Not, VInt _ | BitNot, VInt _ | CastI, VInt _ | CastI, VFloat _ => vty r = Some TInt
      | Neg, VFloat _ | CastF, VInt _ | CastF, VFloat _ => vty r = Some TFloat
      | (Sin | Cos | Tan | Asin | Acos | Atan | Sqrt), VFloat _ => vty r = Some TFloat
      | _, _ => True
      end;
    T_neg_mul_i : forall x, unop_eval libm T Neg (VInt x) = Ok (Some (VInt (wrap32 (- x)))) /\
                            binop_eval T Mul (VInt (-1)) (VInt x) = Ok (VInt (wrap32 (-1 * x)));
    T_neg_mul_f : forall x, exists y, unop_eval libm T Neg (VFloat x) = Ok (Some (VFloat y)) /\
                            binop_eval T Mul (VFloat F_NEG_ONE) (VFloat x) = Ok (VFloat y);
    T_bitnot_sub : forall x, unop_eval libm T BitNot (VInt x) = Ok (Some (VInt (wrap32 (Z.lnot x)))) /\
                             binop_eval T Sub (VInt (-1)) (VInt x) = Ok (VInt (wrap32 (-1 - x)));
  }.

  Lemma run_pure_app c1 c2 m :
    run_pure (c1 ++ c2) m = (do m1 <- run_pure c1 m; run_pure c2 m1).
  Proof.
    revert m. induction c1 as [|s c1 IH]; intros m; cbn [app LowerSem.run_pure obind]; [reflexivity|].
    destruct s; try apply IH.
    destruct (LowerSem.exec_pure T libm i m); cbn [obind]; [apply IH | reflexivity..].
  Qed.

  (* ---- evaluation is insensitive to variables the expression does not use ---- *)
  Lemma eval_update_indep te x v : forall e m, wt_pure te e = true -> uses_var x e = false ->
    eval_s te (update m x v) e = eval_s te m e.
  Proof.
    unfold eval_s, LowerSem.eval_src.
    induction e; intros m Hw Hu; cbn [LowerSem.elab LowerSem.wt_pure uses_var] in *; try discriminate; try reflexivity.
    - (* EReg *)
      assert (Hx : x <> VReg r) by (intros ->; rewrite lvar_eqb_refl in Hu; discriminate).
      destruct sg; cbn [Expr.eval]; change (regs (update m x v) r) with (lookup (update m x v) (VReg r));
        rewrite lookup_update_other by assumption; reflexivity.
    - (* EVar *)
      assert (Hx : x <> VLoc id) by (intros ->; rewrite lvar_eqb_refl in Hu; discriminate).
      destruct sg; cbn [Expr.eval]; change (locs (update m x v) id) with (lookup (update m x v) (VLoc id));
        rewrite lookup_update_other by assumption; reflexivity.
    - (* EUn *)
      apply andb_prop in Hw. destruct Hw as [Hw _].
      cbn [Expr.eval]. rewrite IHe by assumption. reflexivity.
    - (* EBin *)
      apply andb_prop in Hw. destruct Hw as [Hw _]. apply andb_prop in Hw. destruct Hw as [Hw _].
      apply andb_prop in Hw. destruct Hw as [Hw1 Hw2].
      apply orb_false_elim in Hu. destruct Hu as [Hu1 Hu2].
      cbn [Expr.eval]. rewrite IHe1, IHe2 by assumption. reflexivity.
  Qed.

  (* ---- typing environments that agree below a bound give the same readings ---- *)
  Definition te_agree (n : nat) (te te' : tenv) : Prop :=
    forall d, (d < n)%nat -> loc_ty lty te' d = loc_ty lty te d.

  Lemma te_agree_cons n te d t : (n <= d)%nat -> te_agree n te ((d, t) :: te).
  Proof.
    intros Hd d' Hd'. unfold loc_ty. cbn [assoc].
    destruct (Nat.eqb_spec d' d); [lia | reflexivity].
  Qed.
  Lemma te_agree_refl n te : te_agree n te te.
  Proof. intros d _. reflexivity. Qed.
  Lemma te_agree_trans n n' te1 te2 te3 : (n <= n')%nat ->
    te_agree n te1 te2 -> te_agree n' te2 te3 -> te_agree n te1 te3.
  Proof. intros Hn H1 H2 d Hd. rewrite H2 by lia. apply H1. assumption. Qed.

  Lemma agree_elab n te te' : te_agree n te te' -> forall e, locals_below n e = true ->
    elab te' e = elab te e.
  Proof.
    intros Ha. induction e; intros Hb; cbn [LowerSem.elab locals_below] in *; try reflexivity; try discriminate.
    - destruct sg; [reflexivity|]. apply Nat.ltb_lt in Hb. rewrite (Ha _ Hb). reflexivity.
    - rewrite IHe by assumption. reflexivity.
    - apply andb_prop in Hb. destruct Hb. rewrite IHe1, IHe2 by assumption. reflexivity.
    - apply andb_prop in Hb. destruct Hb as [Hb H3]. apply andb_prop in Hb. destruct Hb.
      rewrite IHe1, IHe2, IHe3 by assumption. reflexivity.
  Qed.

  Lemma agree_ety n te te' : te_agree n te te' -> forall e, locals_below n e = true ->
    ety te' e = ety te e.
  Proof.
    intros Ha. induction e; intros Hb; cbn [Lower.ety locals_below] in *; try reflexivity; try discriminate.
    - unfold Lower.var_read_ty. cbn. destruct sg; [reflexivity|]. apply Nat.ltb_lt in Hb. apply Ha. assumption.
    - destruct op; try reflexivity. apply IHe. assumption.
    - apply andb_prop in Hb. destruct Hb. rewrite IHe1 by assumption. reflexivity.
    - apply andb_prop in Hb. destruct Hb as [Hb H3]. apply andb_prop in Hb. destruct Hb. apply IHe2. assumption.
  Qed.

  Lemma agree_wt n te te' : te_agree n te te' -> forall e, locals_below n e = true ->
    wt_pure te' e = wt_pure te e.
  Proof.
    intros Ha. induction e; intros Hb; cbn [LowerSem.wt_pure locals_below] in *; try reflexivity.
    - rewrite IHe by assumption. rewrite (agree_ety _ _ _ Ha e Hb). reflexivity.
    - apply andb_prop in Hb. destruct Hb as [H1 H2].
      rewrite IHe1, IHe2 by assumption. rewrite (agree_ety _ _ _ Ha e1 H1), (agree_ety _ _ _ Ha e2 H2). reflexivity.
  Qed.

  Lemma agree_classify n te te' : te_agree n te te' -> forall e, locals_below n e = true ->
    wt_pure te e = true -> classify te' e = classify te e.
  Proof.
    intros Ha e Hb Hw. destruct e; cbn [Lower.classify LowerSem.wt_pure locals_below] in *; try reflexivity; try discriminate.
    - unfold Lower.var_read_ty. cbn. destruct sg; [reflexivity|]. apply Nat.ltb_lt in Hb. rewrite (Ha _ Hb). reflexivity.
    - rewrite (agree_ety _ _ _ Ha e Hb).
      replace (ety te' (EUn op e)) with (ety te (EUn op e)); [reflexivity|].
      symmetry. apply (agree_ety _ _ _ Ha (EUn op e)). exact Hb.
    - replace (ety te' (EBin e1 op e2)) with (ety te (EBin e1 op e2)); [reflexivity|].
      symmetry. apply (agree_ety _ _ _ Ha (EBin e1 op e2)). exact Hb.
  Qed.

  Lemma agree_eval n te te' m : te_agree n te te' -> forall e, locals_below n e = true ->
    eval_s te' m e = eval_s te m e.
  Proof. intros Ha e Hb. unfold eval_s. rewrite (agree_elab _ _ _ Ha e Hb). reflexivity. Qed.

  (* ---- the value of a well-typed expression has the expression's type ---- *)
  Lemma sigil_ty_inv t : ty_of_sigil (sigil_of_ty t) = t.
  Proof. destruct t; reflexivity. Qed.
  Lemma ty_sigil_inv s : sigil_of_ty (ty_of_sigil s) = s.
  Proof. destruct s; reflexivity. Qed.

  Lemma cast_ty s v w : cast_by_sigil (Some s) v = Some w -> vty w = Some (ty_of_sigil s).
  Proof. destruct s, v; cbn; intros H; inversion H; reflexivity. Qed.

  Lemma cast_id t v : vty v = Some t -> cast_by_sigil (Some (sigil_of_ty t)) v = Some v.
  Proof. destruct t, v; cbn; intros H; inversion H; reflexivity. Qed.

  Lemma expect_ok {A} (o : option A) a : expect o = Ok a -> o = Some a.
  Proof. destruct o; cbn; intros H; inversion H; reflexivity. Qed.

  Lemma eval_ty (HT : T_ok) te m : forall e v, wt_pure te e = true -> eval_s te m e = Ok v ->
    vty v = Some (ety te e).
  Proof.
    unfold eval_s, LowerSem.eval_src.
    induction e; intros v Hw He; cbn [LowerSem.wt_pure LowerSem.elab Lower.ety] in *; try discriminate.
    - cbn in He. inversion He. reflexivity.
    - cbn in He. inversion He. reflexivity.
    - unfold Lower.var_read_ty; cbn. destruct sg as [s|]; cbn [Expr.eval] in He; apply expect_ok in He; apply cast_ty in He.
      + assumption.
      + rewrite sigil_ty_inv in He. assumption.
    - unfold Lower.var_read_ty; cbn. destruct sg as [s|]; cbn [Expr.eval] in He; apply expect_ok in He; apply cast_ty in He.
      + assumption.
      + rewrite sigil_ty_inv in He. assumption.
    - (* EUn *)
      apply andb_prop in Hw. destruct Hw as [Hw Hop].
      cbn [Expr.eval] in He.
      destruct (Expr.eval T libm (regs m) (locs m) (fun _ => None) diff (elab te e)) as [xv| | |] eqn:Ex; cbn [obind] in He; try discriminate.
      specialize (IHe xv Hw eq_refl).
      destruct (sigil_of_unop op) as [sg|] eqn:Esg.
      + apply expect_ok in He. apply cast_ty in He. destruct op; cbn in Esg; inversion Esg; subst; assumption.
      + destruct (unop_eval libm T op xv) as [r| | |] eqn:Eu; cbn [obind] in He; try discriminate.
        apply expect_ok in He. subst r.
        pose proof (T_un_ty HT _ _ _ Eu) as Hty.
        destruct op; cbn in Esg; try discriminate; destruct xv; cbn in IHe;
          try (apply ty_eqb_eq in Hop; rewrite Hop in IHe); try discriminate; inversion IHe as [Hi];
          try rewrite <- Hi; try assumption.
    - (* EBin *)
      apply andb_prop in Hw. destruct Hw as [Hw Hio]. apply andb_prop in Hw. destruct Hw as [Hw Hsame].
      apply andb_prop in Hw. destruct Hw as [Hw1 Hw2].
      cbn [Expr.eval] in He.
      destruct (Expr.eval T libm (regs m) (locs m) (fun _ => None) diff (elab te e1)) as [av| | |] eqn:Ea; cbn [obind] in He; try discriminate.
      destruct (Expr.eval T libm (regs m) (locs m) (fun _ => None) diff (elab te e2)) as [bv| | |] eqn:Eb; cbn [obind] in He; try discriminate.
      specialize (IHe1 av Hw1 eq_refl). specialize (IHe2 bv Hw2 eq_refl).
      pose proof (T_bin_ty HT _ _ _ _ He) as Hty.
      destruct av, bv; try contradiction; cbn in IHe1; inversion IHe1 as [Hi]; rewrite Hty.
      + destruct (is_arith op); reflexivity.
      + reflexivity.
  Qed.

  (* ---- classify_expr ---- *)
  Lemma classify_simple te m e a t : wt_pure te e = true -> classify te e = Simple a t ->
    read_arg m a = eval_s te m e /\ t = ety te e.
  Proof.
    unfold eval_s, LowerSem.eval_src.
    intros Hw Hc. destruct e; cbn [Lower.classify LowerSem.wt_pure] in *; try discriminate.
    - inversion Hc; subst. split; reflexivity.
    - inversion Hc; subst. split; reflexivity.
    - inversion Hc; subst. split; [|reflexivity].
      unfold Lower.var_read_ty. cbn. destruct sg as [s|]; cbn [LowerSem.elab Expr.eval LowerSem.read_arg lookup].
      + rewrite ty_sigil_inv. reflexivity.
      + reflexivity.
    - inversion Hc; subst. split; [|reflexivity].
      unfold Lower.var_read_ty. cbn. destruct sg as [s|]; cbn [LowerSem.elab Expr.eval LowerSem.read_arg lookup].
      + rewrite ty_sigil_inv. reflexivity.
      + reflexivity.
    - destruct (as_sigil_auto op); [destruct (_ || _ || _)|]; discriminate.
  Qed.

  (* The part of an expression that is stored in a temporary, and how reading the temporary
     back as [read_ty] recovers the value of the whole expression. *)
  Lemma classify_elab (HT : T_ok) te e ea tmp_ty read_ty :
    wt_pure te e = true -> classify te e = Elab ea tmp_ty read_ty ->
    wt_pure te ea = true /\ tmp_ty = ety te ea /\ read_ty = ety te e /\
    (forall x, uses_var x ea = true -> uses_var x e = true) /\
    (forall n, locals_below n e = true -> locals_below n ea = true) /\
    (forall m v, eval_s te m e = Ok v ->
       exists xv, eval_s te m ea = Ok xv /\ cast_by_sigil (Some (sigil_of_ty read_ty)) xv = Some v).
  Proof.
    intros Hw Hc.
    assert (Hself : forall e0, wt_pure te e0 = true ->
              wt_pure te e0 = true /\ ety te e0 = ety te e0 /\ ety te e0 = ety te e0 /\
              (forall x, uses_var x e0 = true -> uses_var x e0 = true) /\
              (forall n, locals_below n e0 = true -> locals_below n e0 = true) /\
              (forall m v, eval_s te m e0 = Ok v ->
                 exists xv, eval_s te m e0 = Ok xv /\ cast_by_sigil (Some (sigil_of_ty (ety te e0))) xv = Some v)).
    { intros e0 Hw0. repeat split; auto. intros m v Hv. exists v. split; [assumption|].
      apply cast_id. eapply eval_ty; eassumption. }
    destruct e; cbn [Lower.classify] in Hc; try discriminate;
      try (inversion Hc; subst; apply Hself; assumption).
    (* EUn *)
    destruct (as_sigil_auto op) as [sg|] eqn:Eauto; [|inversion Hc; subst; apply Hself; assumption].
    destruct (_ || _ || _) eqn:Eeasy; [|inversion Hc; subst; apply Hself; assumption].
    inversion Hc; subst ea tmp_ty read_ty. clear Hc.
    cbn [LowerSem.wt_pure] in Hw. apply andb_prop in Hw. destruct Hw as [Hw Hop].
    repeat split; auto.
    - destruct op; cbn in Eauto; inversion Eauto; reflexivity.
    - intros m v Hv. unfold eval_s, LowerSem.eval_src in *. cbn [LowerSem.elab Expr.eval] in Hv.
      destruct (Expr.eval T libm (regs m) (locs m) (fun _ => None) diff (elab te e)) as [xv| | |] eqn:Ex; cbn [obind] in Hv; try discriminate.
      exists xv. split; [reflexivity|]. rewrite ty_sigil_inv.
      assert (Hxt : vty xv = Some (ety te e)) by (eapply eval_ty; [exact HT | exact Hw | unfold eval_s, LowerSem.eval_src; exact Ex]).
      destruct op; cbn in Eauto; inversion Eauto; subst sg; cbn [sigil_of_unop] in Hv.
      + apply expect_ok in Hv. assumption.
      + apply expect_ok in Hv. assumption.
      + (* CastI *) destruct (T_casts_i HT) as [Hi _]. destruct (T_casts_f HT) as [Hf _].
        destruct xv; cbn in Hxt; try discriminate; cbn [unop_eval] in Hv; rewrite ?Hi, ?Hf in Hv; cbn in Hv; inversion Hv; reflexivity.
      + (* CastF *) destruct (T_casts_i HT) as [_ Hi]. destruct (T_casts_f HT) as [_ Hf].
        destruct xv; cbn in Hxt; try discriminate; cbn [unop_eval] in Hv; rewrite ?Hi, ?Hf in Hv; cbn in Hv; inversion Hv; reflexivity.
  Qed.

  (* ---- helpers about temporaries ---- *)
  Definition fresh (m : mem) (n : nat) : Prop :=
    forall d, (n <= d)%nat -> locs m d = default_of (lty d).
  Definition var_below (n : nat) (v : var) : Prop :=
    match v_id v with VLoc d => (d < n)%nat | VReg _ => True end.

  Lemma locals_below_mono n n' : (n <= n')%nat -> forall e, locals_below n e = true -> locals_below n' e = true.
  Proof.
    intros Hn. induction e; cbn [locals_below]; intros H; try reflexivity; try discriminate.
    - apply Nat.ltb_lt in H. apply Nat.ltb_lt. lia.
    - auto.
    - apply andb_prop in H. destruct H. rewrite IHe1, IHe2 by assumption. reflexivity.
    - apply andb_prop in H. destruct H as [H H3]. apply andb_prop in H. destruct H.
      rewrite IHe1, IHe2, IHe3 by assumption. reflexivity.
  Qed.

  Lemma below_not_uses n d : (n <= d)%nat -> forall e, locals_below n e = true -> uses_var (VLoc d) e = false.
  Proof.
    intros Hn. induction e; cbn [locals_below uses_var]; intros H; try reflexivity; try discriminate.
    - apply Nat.ltb_lt in H. cbn. destruct (Nat.eqb_spec d id); [lia | reflexivity].
    - auto.
    - apply andb_prop in H. destruct H. rewrite IHe1, IHe2 by assumption. reflexivity.
    - apply andb_prop in H. destruct H as [H H3]. apply andb_prop in H. destruct H.
      rewrite IHe1, IHe2, IHe3 by assumption. reflexivity.
  Qed.

  Lemma eval_read_as te m v t :
    eval_s te m (read_as v t) = expect (cast_by_sigil (Some (sigil_of_ty t)) (lookup m (v_id v))).
  Proof. unfold eval_s, LowerSem.eval_src, read_as, var_expr. cbn. destruct (v_id v); reflexivity. Qed.

  Lemma eval_var_expr te m v :
    eval_s te m (var_expr v) = expect (cast_by_sigil (Some (sigil_of_ty (var_read_ty te v))) (lookup m (v_id v))).
  Proof.
    unfold eval_s, LowerSem.eval_src, var_expr, Lower.var_read_ty. destruct v as [sg x]; cbn.
    destruct x, sg as [s|]; cbn; rewrite ?ty_sigil_inv; reflexivity.
  Qed.

  Lemma wt_read_as te v t : wt_pure te (read_as v t) = true.
  Proof. unfold read_as, var_expr. cbn. destruct (v_id v); reflexivity. Qed.
  Lemma ety_read_as te v t : ety te (read_as v t) = t.
  Proof. unfold read_as, var_expr. cbn. destruct (v_id v); cbn; unfold Lower.var_read_ty; cbn; apply sigil_ty_inv. Qed.
  Lemma classify_read_as te v t : classify te (read_as v t) = Simple (TVar t (v_id v)) t.
  Proof. unfold read_as, var_expr. cbn. destruct (v_id v); cbn; unfold Lower.var_read_ty; cbn; rewrite sigil_ty_inv; reflexivity. Qed.
  Lemma uses_read_as x v t : uses_var x (read_as v t) = lvar_eqb x (v_id v).
  Proof. unfold read_as, var_expr. cbn. destruct (v_id v); reflexivity. Qed.
  Lemma below_read_as n v t : var_below n v -> locals_below n (read_as v t) = true.
  Proof. unfold var_below, read_as, var_expr. cbn. destruct (v_id v); cbn; [reflexivity|]. intros H. apply Nat.ltb_lt. assumption. Qed.
  Lemma below_var_expr n v : var_below n v -> locals_below n (var_expr v) = true.
  Proof. unfold var_below, var_expr. destruct (v_id v); cbn; [reflexivity|]. intros H. apply Nat.ltb_lt. assumption. Qed.
  Lemma wt_var_expr te v : wt_pure te (var_expr v) = true.
  Proof. unfold var_expr. destruct (v_id v); reflexivity. Qed.
  Lemma uses_var_expr x v : uses_var x (var_expr v) = lvar_eqb x (v_id v).
  Proof. unfold var_expr. destruct (v_id v); reflexivity. Qed.
  Lemma read_ty_agree n te te' v : te_agree n te te' -> var_below n v -> var_read_ty te' v = var_read_ty te v.
  Proof.
    intros Ha Hb. unfold Lower.var_read_ty, var_below in *. destruct (v_sg v); [reflexivity|].
    destruct (v_id v); [reflexivity|]. apply Ha. assumption.
  Qed.

  (* ---- what the source statement does ---- *)
  Definition assign_s (te : tenv) (m : mem) (v : var) (aop : assignop) (e : expr) : outcome mem :=
    do val <- eval_s te m e;
    match aop with
    | None => Ok (update m (v_id v) val)
    | Some b =>
        do old <- eval_s te m (var_expr v);
        do r <- binop_eval T b old val;
        Ok (update m (v_id v) r)
    end.

  Definition sem_call (te : tenv) (m : mem) (c : call) : outcome mem :=
    match c with
    | CAssignOp v aop rhs => assign_s te m v aop rhs
    | CBinop v a op b => assign_s te m v None (EBin a op b)
    | CUnop v op b => assign_s te m v None (EUn op b)
    | _ => Panic P_UNIMPL
    end.

  Definition wf_call (n : nat) (te : tenv) (c : call) : Prop :=
    match c with
    | CAssignOp v _ rhs => wt_pure te rhs = true /\ locals_below n rhs = true /\ var_below n v
    | CBinop v a op b => wt_pure te (EBin a op b) = true /\ locals_below n (EBin a op b) = true /\ var_below n v
    | CUnop v op b => wt_pure te (EUn op b) = true /\ locals_below n (EUn op b) = true /\ var_below n v
    | _ => False
    end.

  Lemma assign_s_shape te m v aop e m' : assign_s te m v aop e = Ok m' -> exists r, m' = update m (v_id v) r.
  Proof.
    unfold assign_s. destruct (eval_s te m e) as [val| | |]; cbn [obind]; try discriminate.
    destruct aop as [b|].
    - destruct (eval_s te m (var_expr v)) as [old| | |]; cbn [obind]; try discriminate.
      destruct (binop_eval T b old val); cbn [obind]; try discriminate.
      intros H; inversion H. eexists; reflexivity.
    - intros H; inversion H. eexists; reflexivity.
  Qed.

  Lemma fresh_update m n x v : fresh m n -> (match x with VLoc d => (d < n)%nat | VReg _ => True end) -> fresh (update m x v) n.
  Proof.
    intros Hf Hx d Hd. destruct x; cbn; [apply Hf; assumption|].
    destruct (Nat.eqb_spec d d0); [lia | apply Hf; assumption].
  Qed.

  (* ---- plumbing ---- *)
  Lemma seq_ok (a : res) (k : lst -> res) code s' :
    seq a k = Ok (code, s') -> exists c1 s1 c2, a = Ok (c1, s1) /\ k s1 = Ok (c2, s') /\ code = c1 ++ c2.
  Proof.
    unfold seq. destruct a as [[c1 s1]| | |]; try discriminate.
    destruct (k s1) as [[c2 s2]| | |] eqn:Ek; try discriminate.
    intros H. inversion H. subst. exists c1, s1, c2. auto.
  Qed.

  Lemma eval_s_bin te m a op b :
    eval_s te m (EBin a op b) = (do av <- eval_s te m a; do bv <- eval_s te m b; binop_eval T op av bv).
  Proof. reflexivity. Qed.

  Lemma eval_s_un te m op b :
    eval_s te m (EUn op b) =
    (do v <- eval_s te m b;
     match sigil_of_unop op with
     | Some sg => expect (cast_by_sigil (Some sg) v)
     | None => do r <- unop_eval libm T op v; expect r
     end).
  Proof. reflexivity. Qed.

  (* replacing the right-hand side by an expression with the same value, in a memory that differs
     only at a local [d] which the statement does not touch *)
  Lemma assign_s_subst te te1 m v aop e e' m' d xv :
    assign_s te m v aop e = Ok m' ->
    v_id v <> VLoc d ->
    eval_s te1 (update m (VLoc d) xv) e' = eval_s te m e ->
    eval_s te1 (update m (VLoc d) xv) (var_expr v) = eval_s te m (var_expr v) ->
    assign_s te1 (update m (VLoc d) xv) v aop e' = Ok (update m' (VLoc d) xv).
  Proof.
    unfold assign_s. intros H Hv He Hold. rewrite He.
    destruct (eval_s te m e) as [val| | |]; cbn [obind] in *; try discriminate.
    destruct aop as [b|].
    - rewrite Hold. destruct (eval_s te m (var_expr v)) as [old| | |]; cbn [obind] in *; try discriminate.
      destruct (binop_eval T b old val) as [r| | |]; cbn [obind] in *; try discriminate.
      inversion H. f_equal. apply update_comm. congruence.
    - inversion H. f_equal. apply update_comm. congruence.
  Qed.

  Lemma eval_var_indep te te1 n m v d xv :
    te_agree n te te1 -> var_below n v -> (n <= d)%nat ->
    eval_s te1 (update m (VLoc d) xv) (var_expr v) = eval_s te m (var_expr v).
  Proof.
    intros Ha Hb Hd.
    rewrite (agree_eval n te te1 _ Ha) by (apply below_var_expr; assumption).
    apply eval_update_indep; [apply wt_var_expr|].
    apply (below_not_uses n d Hd). apply below_var_expr. assumption.
  Qed.

  Lemma var_below_neq n v d : var_below n v -> (n <= d)%nat -> v_id v <> VLoc d.
  Proof. unfold var_below. destruct (v_id v); intros H Hd; [discriminate|]. intros E. inversion E. lia. Qed.

  Definition IHf (f : nat) : Prop :=
    forall c s code s', lower f c s = Ok (code, s') -> wf_call (g s) (te s) c ->
    forall m m', fresh m (g s) -> sem_call (te s) m c = Ok m' ->
    run_pure code m = Ok m' /\ (g s <= g s')%nat /\ te_agree (g s) (te s) (te s').

  (* allocate a temporary and compute [ea] into it *)
  Lemma temp_compute f (IH : IHf f) s ea tmp_ty m xv c1 s2 :
    wt_pure (te s) ea = true -> locals_below (g s) ea = true -> fresh m (g s) ->
    eval_s (te s) m ea = Ok xv ->
    lower f (CAssignOp (mkvar (Some (sigil_of_ty tmp_ty)) (VLoc (g s))) None ea)
          (mklst (S (g s)) ((g s, tmp_ty) :: te s)) = Ok (c1, s2) ->
    run_pure (LAlloc (g s) tmp_ty :: c1) m = Ok (update m (VLoc (g s)) xv) /\
    (S (g s) <= g s2)%nat /\ te_agree (g s) (te s) (te s2).
  Proof.
    intros Hw Hb Hf He Hl.
    set (d := g s) in *. set (te1 := (d, tmp_ty) :: te s) in *.
    assert (Ha : te_agree d (te s) te1) by (apply te_agree_cons; lia).
    set (m0 := update m (VLoc d) (default_of tmp_ty)).
    assert (Hsem : sem_call te1 m0 (CAssignOp (mkvar (Some (sigil_of_ty tmp_ty)) (VLoc d)) None ea)
                   = Ok (update m (VLoc d) xv)).
    { cbn [sem_call]. unfold assign_s.
      rewrite (agree_eval d (te s) te1 m0 Ha ea Hb).
      unfold m0. rewrite eval_update_indep; [|assumption| apply (below_not_uses d d); [lia|assumption]].
      rewrite He. cbn [obind v_id]. f_equal. apply update_update_same. }
    destruct (IH _ _ _ _ Hl) with (m := m0) (m' := update m (VLoc d) xv) as [Hr [Hg Hte]].
    - cbn [wf_call g te]. split; [|split].
      + rewrite (agree_wt d (te s) te1 Ha ea Hb). assumption.
      + apply (locals_below_mono d (S d)); [lia | assumption].
      + unfold var_below. cbn. lia.
    - cbn [g]. apply fresh_update; [|lia]. intros d' Hd'. apply Hf. lia.
    - exact Hsem.
    - cbn [g te] in *. split; [|split].
      + cbn [LowerSem.run_pure]. exact Hr.
      + exact Hg.
      + eapply te_agree_trans; [| exact Ha | exact Hte]. lia.
  Qed.

  (* ... run the continuation, free the temporary *)
  Lemma temp_close d tmp_ty c1 c2 m m' xv :
    run_pure (LAlloc d tmp_ty :: c1) m = Ok (update m (VLoc d) xv) ->
    run_pure c2 (update m (VLoc d) xv) = Ok (update m' (VLoc d) xv) ->
    locs m' d = default_of (lty d) ->
    run_pure ((LAlloc d tmp_ty :: c1) ++ c2 ++ [LFree d]) m = Ok m'.
  Proof.
    intros H1 H2 Hd. rewrite run_pure_app, H1. cbn [obind]. rewrite run_pure_app, H2. cbn [obind LowerSem.run_pure].
    f_equal. rewrite update_update_same. rewrite <- Hd. apply (update_lookup_id m' (VLoc d)).
  Qed.

  (* ---- the three places where an instruction is emitted ---- *)
  Hypothesis no_sigil_intrinsics : forall op t, sigil_of_unop op <> None -> avail (KUnOp op t) = false.

  Lemma read_dst te m v :
    read_arg m (TVar (var_read_ty te v) (v_id v)) = eval_s te m (var_expr v).
  Proof. rewrite eval_var_expr. reflexivity. Qed.

  Lemma leaf_assign s m m' v aop a ta e code s' :
    assign_intrinsic avail rty lty time mask v aop a ta s = Ok (code, s') ->
    read_arg m a = eval_s (te s) m e ->
    assign_s (te s) m v aop e = Ok m' ->
    run_pure code m = Ok m' /\ s' = s.
  Proof.
    unfold assign_intrinsic, var_arg, assign_s. intros Hl Hr Hs.
    destruct (negb (ty_eqb (var_read_ty (te s) v) ta)); [discriminate|].
    destruct (eval_s (te s) m e) as [val| | |] eqn:Ev; cbn [obind] in Hs; try discriminate.
    destruct (alt_assign_for avail aop (var_read_ty (te s) v)) as [alt|] eqn:Ealt; [|discriminate].
    destruct alt as [|b]; unfold instr, ret in Hl; inversion Hl; subst code s'; split; try reflexivity;
      cbn [LowerSem.run_pure LowerSem.exec_pure].
    - destruct aop as [b|].
      + rewrite read_dst, Hr.
        destruct (eval_s (te s) m (var_expr v)) as [old| | |]; cbn [obind] in *; try discriminate.
        destruct (binop_eval T b old val); cbn [obind] in *; try discriminate. exact Hs.
      + rewrite Hr. cbn [obind LowerSem.write_arg]. exact Hs.
    - (* via binop: only for compound assignment *)
      unfold alt_assign_for in Ealt.
      destruct (avail (KAssignOp aop (var_read_ty (te s) v))); [discriminate|].
      destruct aop as [b'|]; [|discriminate].
      destruct (avail (KBinOp b' (var_read_ty (te s) v))); [|discriminate].
      inversion Ealt; subst b'.
      rewrite read_dst, Hr.
      destruct (eval_s (te s) m (var_expr v)) as [old| | |]; cbn [obind] in *; try discriminate.
      destruct (binop_eval T b old val); cbn [obind] in *; try discriminate. exact Hs.
  Qed.

  Lemma leaf_binop s m m' v a op b la ta lb code s' :
    need avail time mask (KBinOp op ta) (IBinOp op ta (TVar (var_read_ty (te s) v) (v_id v)) la lb) s = Ok (code, s') ->
    read_arg m la = eval_s (te s) m a -> read_arg m lb = eval_s (te s) m b ->
    assign_s (te s) m v None (EBin a op b) = Ok m' ->
    run_pure code m = Ok m' /\ s' = s.
  Proof.
    unfold need, instr, ret, assign_s. intros Hl Ha Hb Hs.
    destruct (avail (KBinOp op ta)); [|discriminate]. inversion Hl; subst code s'. split; [|reflexivity].
    cbn [LowerSem.run_pure LowerSem.exec_pure]. rewrite Ha, Hb.
    rewrite eval_s_bin in Hs.
    destruct (eval_s (te s) m a) as [av| | |]; cbn [obind] in *; try discriminate.
    destruct (eval_s (te s) m b) as [bv| | |]; cbn [obind] in *; try discriminate.
    destruct (binop_eval T op av bv) as [r| | |]; cbn [obind] in *; try discriminate.
    exact Hs.
  Qed.

  Lemma leaf_unop (HT : T_ok) s m m' v op b lb code s' :
    wt_pure (te s) b = true ->
    unop_intrinsic avail time mask (TVar (var_read_ty (te s) v) (v_id v)) op lb (ety (te s) b) s = Ok (code, s') ->
    read_arg m lb = eval_s (te s) m b ->
    assign_s (te s) m v None (EUn op b) = Ok m' ->
    run_pure code m = Ok m' /\ s' = s.
  Proof.
    unfold unop_intrinsic, instr, ret, assign_s. intros Hw Hl Hb Hs.
    rewrite eval_s_un in Hs.
    destruct (eval_s (te s) m b) as [bv| | |] eqn:Eb; cbn [obind] in Hs; try discriminate.
    assert (Hty : vty bv = Some (ety (te s) b)) by (eapply eval_ty; eassumption).
    destruct (alt_unop_for avail op (ety (te s) b)) as [alt|] eqn:Ealt; [|discriminate].
    assert (Hns : sigil_of_unop op = None).
    { destruct (sigil_of_unop op) eqn:E; [|reflexivity]. exfalso.
      unfold alt_unop_for in Ealt. rewrite no_sigil_intrinsics in Ealt by congruence.
      destruct op; cbn in E; discriminate. }
    rewrite Hns in Hs.
    destruct (unop_eval libm T op bv) as [r| | |] eqn:Eu; cbn [obind] in Hs; try discriminate.
    destruct r as [rv|]; cbn [expect obind] in Hs; [|discriminate].
    destruct alt as [|c bop]; inversion Hl; subst code s'; split; try reflexivity;
      cbn [LowerSem.run_pure LowerSem.exec_pure]; rewrite Hb; cbn [obind LowerSem.read_arg].
    - rewrite Eu. cbn [obind LowerSem.write_arg]. exact Hs.
    - (* -x as -1 * x ; ~x as -1 - x *)
      unfold alt_unop_for in Ealt. destruct (avail (KUnOp op (ety (te s) b))); [discriminate|].
      destruct op; try discriminate.
      + (* Neg *) destruct (avail (KBinOp Mul (ety (te s) b))); [|discriminate]. inversion Ealt; subst c bop.
        destruct bv as [x|x|]; cbn in Hty; inversion Hty as [Ht].
        * destruct (T_neg_mul_i HT x) as [H1 H2]. rewrite H1 in Eu. inversion Eu; subst rv.
          rewrite H2. cbn [obind LowerSem.write_arg]. replace (-1 * x) with (- x) by lia. exact Hs.
        * destruct (T_neg_mul_f HT x) as [y [H1 H2]]. rewrite H1 in Eu. inversion Eu; subst rv.
          rewrite H2. cbn [obind LowerSem.write_arg]. exact Hs.
      + (* BitNot *) destruct (ety (te s) b) eqn:Et; [|discriminate].
        destruct (avail (KBinOp Sub TInt)); [|discriminate]. inversion Ealt; subst c bop.
        destruct bv as [x|x|]; cbn in Hty; inversion Hty.
        destruct (T_bitnot_sub HT x) as [H1 H2]. rewrite H1 in Eu. inversion Eu; subst rv.
        rewrite H2. cbn [obind LowerSem.write_arg]. replace (-1 - x) with (Z.lnot x) by (unfold Z.lnot; lia). exact Hs.
  Qed.

  (* the "define a temporary, continue with it, free it" shape shared by all call sites *)
  Lemma temp_site f (IH : IHf f) s ea tmp_ty read_ty (K : expr -> call) code s' m m' xv :
    seq (ret [LAlloc (g s) tmp_ty] (mklst (S (g s)) ((g s, tmp_ty) :: te s))) (fun s2 =>
    seq (lower f (CAssignOp (mkvar (Some (sigil_of_ty tmp_ty)) (VLoc (g s))) None ea) s2) (fun s3 =>
    seq (lower f (K (read_as (mkvar (Some (sigil_of_ty tmp_ty)) (VLoc (g s))) read_ty)) s3) (fun s4 =>
    ret [LFree (g s)] s4))) = Ok (code, s') ->
    wt_pure (te s) ea = true -> locals_below (g s) ea = true -> fresh m (g s) ->
    eval_s (te s) m ea = Ok xv ->
    (forall s3, (S (g s) <= g s3)%nat -> te_agree (g s) (te s) (te s3) ->
       wf_call (g s3) (te s3) (K (read_as (mkvar (Some (sigil_of_ty tmp_ty)) (VLoc (g s))) read_ty)) /\
       sem_call (te s3) (update m (VLoc (g s)) xv) (K (read_as (mkvar (Some (sigil_of_ty tmp_ty)) (VLoc (g s))) read_ty))
         = Ok (update m' (VLoc (g s)) xv)) ->
    locs m' (g s) = default_of (lty (g s)) ->
    run_pure code m = Ok m' /\ (g s <= g s')%nat /\ te_agree (g s) (te s) (te s').
  Proof.
    intros Hl Hw Hb Hf He HK Hd.
    apply seq_ok in Hl. destruct Hl as [c0 [s2 [cr [H0 [Hl Hcode]]]]].
    unfold ret in H0. inversion H0; subst c0 s2. clear H0.
    apply seq_ok in Hl. destruct Hl as [c1 [s3 [cr2 [H1 [Hl Hcode2]]]]].
    apply seq_ok in Hl. destruct Hl as [c2 [s4 [c3 [H2 [H3 Hcode3]]]]].
    unfold ret in H3. inversion H3; subst c3 s4. clear H3.
    destruct (temp_compute f IH s ea tmp_ty m xv c1 s3 Hw Hb Hf He H1) as [Hr1 [Hg1 Ht1]].
    destruct (HK s3 Hg1 Ht1) as [Hwf Hsem].
    destruct (IH _ _ _ _ H2 Hwf (update m (VLoc (g s)) xv) (update m' (VLoc (g s)) xv)) as [Hr2 [Hg2 Ht2]].
    - apply fresh_update; [|lia]. intros d Hd'. apply Hf. lia.
    - exact Hsem.
    - subst code cr cr2. split; [|split].
      + change ([LAlloc (g s) tmp_ty] ++ c1 ++ c2 ++ [LFree (g s)]) with ((LAlloc (g s) tmp_ty :: c1) ++ c2 ++ [LFree (g s)]).
        eapply temp_close; eassumption.
      + lia.
      + eapply te_agree_trans; [| exact Ht1 | exact Ht2]. lia.
  Qed.
  Lemma assign_val te m v aop e m' : assign_s te m v aop e = Ok m' -> exists val, eval_s te m e = Ok val.
  Proof. unfold assign_s. destruct (eval_s te m e); cbn; try discriminate. eauto. Qed.

  Lemma var_below_mono n n' v : (n <= n')%nat -> var_below n v -> var_below n' v.
  Proof. unfold var_below. destruct (v_id v); [auto | lia]. Qed.

  Lemma assign_bin_inv te m v a op b m' : assign_s te m v None (EBin a op b) = Ok m' ->
    exists av bv r, eval_s te m a = Ok av /\ eval_s te m b = Ok bv /\ binop_eval T op av bv = Ok r /\
                    m' = update m (v_id v) r.
  Proof.
    unfold assign_s. rewrite eval_s_bin.
    destruct (eval_s te m a) as [av| | |]; cbn [obind]; try discriminate.
    destruct (eval_s te m b) as [bv| | |]; cbn [obind]; try discriminate.
    destruct (binop_eval T op av bv) as [r| | |] eqn:E; cbn [obind]; try discriminate.
    intros H. inversion H. exists av, bv, r. auto.
  Qed.
  Lemma assign_bin_intro te m v a op b av bv r : eval_s te m a = Ok av -> eval_s te m b = Ok bv ->
    binop_eval T op av bv = Ok r -> assign_s te m v None (EBin a op b) = Ok (update m (v_id v) r).
  Proof. intros Ha Hb Hr. unfold assign_s. rewrite eval_s_bin, Ha, Hb. cbn [obind]. rewrite Hr. reflexivity. Qed.

  Definition un_val (op : unop) (v : value) : outcome value :=
    match sigil_of_unop op with
    | Some sg => expect (cast_by_sigil (Some sg) v)
    | None => do r <- unop_eval libm T op v; expect r
    end.
  Lemma assign_un_inv te m v op b m' : assign_s te m v None (EUn op b) = Ok m' ->
    exists bv r, eval_s te m b = Ok bv /\ un_val op bv = Ok r /\ m' = update m (v_id v) r.
  Proof.
    unfold assign_s. rewrite eval_s_un. fold (un_val op).
    destruct (eval_s te m b) as [bv| | |]; cbn [obind]; try discriminate.
    fold (un_val op bv). destruct (un_val op bv) as [r| | |] eqn:E; cbn [obind]; try discriminate.
    intros H. inversion H. exists bv, r. auto.
  Qed.
  Lemma assign_un_intro te m v op b bv r : eval_s te m b = Ok bv -> un_val op bv = Ok r ->
    assign_s te m v None (EUn op b) = Ok (update m (v_id v) r).
  Proof. intros Hb Hr. unfold assign_s. rewrite eval_s_un, Hb. cbn [obind]. fold (un_val op bv). rewrite Hr. reflexivity. Qed.

  Theorem lower_sound (HT : T_ok) : forall f, IHf f.
  Proof.
    induction f as [|f IH]; intros c s code s' Hl Hwf m m' Hfr Hsem; [discriminate|].
    destruct c; try contradiction.
    - (* CAssignOp *)
      destruct Hwf as [Hw [Hb Hv]].
      cbn [Lower.lower] in Hl.
      destruct (classify (te s) rhs) as [a ta | ea tmp_ty read_ty] eqn:Ec.
      + destruct (classify_simple (te s) m rhs a ta Hw Ec) as [Hr _].
        destruct (leaf_assign _ _ _ _ _ _ _ _ _ _ Hl Hr Hsem) as [Hrun ->].
        split; [exact Hrun | split; [lia | apply te_agree_refl]].
      + destruct (classify_elab HT (te s) rhs ea tmp_ty read_ty Hw Ec)
          as [Hwea [Htmp [Hread [Huse [Hbel Hev]]]]].
        cbn [sem_call] in Hsem.
        destruct (assign_val _ _ _ _ _ _ Hsem) as [val Hval].
        destruct (Hev m val Hval) as [xv [Hxv Hcast]].
        assert (Hbea : locals_below (g s) ea = true) by (apply Hbel; exact Hb).
        destruct (assign_s_shape _ _ _ _ _ _ Hsem) as [r Hm'].
        assert (Hd : locs m' (g s) = default_of (lty (g s))).
        { subst m'. unfold var_below in Hv. destruct (v_id v) as [r0|d0]; cbn; [apply Hfr; lia|].
          destruct (Nat.eqb_spec (g s) d0); [lia | apply Hfr; lia]. }
        assert (Htemp :
          (let '(d, tv, s1) := alloc_temp tmp_ty s in
           seq (ret [LAlloc d tmp_ty] s1) (fun s2 =>
           seq (lower f (CAssignOp tv None ea) s2) (fun s3 =>
           seq (lower f (CAssignOp v aop (read_as tv read_ty)) s3) (fun s4 => ret [LFree d] s4)))) = Ok (code, s') ->
          run_pure code m = Ok m' /\ (g s <= g s')%nat /\ te_agree (g s) (te s) (te s')).
        { intros Hl'. unfold alloc_temp in Hl'.
          eapply (temp_site f IH s ea tmp_ty read_ty (fun e => CAssignOp v aop e));
            [exact Hl' | exact Hwea | exact Hbea | exact Hfr | exact Hxv | | exact Hd].
          intros s3 Hg3 Ht3. split.
          - cbn [wf_call]. split; [apply wt_read_as | split].
            + apply below_read_as. unfold var_below. cbn. lia.
            + apply (var_below_mono (g s)); [lia | exact Hv].
          - cbn [sem_call].
            eapply assign_s_subst; [exact Hsem | apply (var_below_neq (g s)); [exact Hv | lia] | | ].
            + rewrite eval_read_as. cbn [v_id]. rewrite lookup_update_same. rewrite Hcast. cbn. symmetry. exact Hval.
            + apply (eval_var_indep (te s) (te s3) (g s)); [exact Ht3 | exact Hv | lia]. }
        destruct (negb (ty_eqb read_ty tmp_ty)) eqn:Eneq; [apply Htemp; exact Hl|].
        destruct aop as [bop|]; [apply Htemp; exact Hl|].
        apply Bool.negb_false_iff in Eneq. apply ty_eqb_eq in Eneq.
        assert (Hxval : val = xv).
        { assert (Hty : vty xv = Some tmp_ty) by (rewrite Htmp; eapply eval_ty; eassumption).
          rewrite Eneq in Hcast. rewrite (cast_id _ _ Hty) in Hcast. congruence. }
        subst val.
        assert (Hsem' : assign_s (te s) m v None ea = Ok m').
        { unfold assign_s in *. rewrite Hval in Hsem. rewrite Hxv. exact Hsem. }
        destruct ea; try discriminate.
        * apply (IH _ _ _ _ Hl); [cbn [wf_call]; auto | exact Hfr | exact Hsem'].
        * apply (IH _ _ _ _ Hl); [cbn [wf_call]; auto | exact Hfr | exact Hsem'].
    - (* CBinop *)
      destruct Hwf as [Hw [Hb Hv]].
      cbn [LowerSem.wt_pure] in Hw. apply andb_prop in Hw. destruct Hw as [Hw Hio].
      apply andb_prop in Hw. destruct Hw as [Hw Hsame]. apply andb_prop in Hw. destruct Hw as [Hwa Hwb].
      apply ty_eqb_eq in Hsame.
      cbn [locals_below] in Hb. apply andb_prop in Hb. destruct Hb as [Hba Hbb].
      cbn [sem_call] in Hsem.
      destruct (assign_bin_inv _ _ _ _ _ _ _ Hsem) as [av [bv [r [Hav [Hbv [Hr Hm']]]]]].
      assert (Hd : locs m' (g s) = default_of (lty (g s))).
      { subst m'. unfold var_below in Hv. destruct (v_id v) as [r0|d0]; cbn; [apply Hfr; lia|].
        destruct (Nat.eqb_spec (g s) d0); [lia | apply Hfr; lia]. }
      cbn [Lower.lower] in Hl.
      destruct (classify (te s) a) as [la ta | ea tmp_ty read_ty] eqn:Eca.
      + destruct (classify_simple (te s) m a la ta Hwa Eca) as [Hra Hta].
        destruct (classify (te s) b) as [lb tb | eb tmp_ty read_ty] eqn:Ecb.
        * (* both simple *)
          destruct (classify_simple (te s) m b lb tb Hwb Ecb) as [Hrb Htb].
          unfold var_arg in Hl.
          destruct (negb (ty_eqb (var_read_ty (te s) v) (if is_arith op then ety (te s) a else TInt))); [discriminate|].
          destruct (leaf_binop _ _ _ _ _ _ _ _ _ _ _ _ Hl Hra Hrb Hsem) as [Hrun ->].
          split; [exact Hrun | split; [lia | apply te_agree_refl]].
        * (* b needs elaboration *)
          destruct (classify_elab HT (te s) b eb tmp_ty read_ty Hwb Ecb) as [Hweb [Htmp [Hread [Huse [Hbel Hev]]]]].
          destruct (Hev m bv Hbv) as [xv [Hxv Hcast]].
          assert (Hbeb : locals_below (g s) eb = true) by (apply Hbel; exact Hbb).
          destruct (ty_eqb tmp_ty (if is_arith op then ety (te s) a else TInt) && ty_eqb tmp_ty read_ty && negb (uses_var (v_id v) a)) eqn:Ereuse.
          -- (* reuse the destination *)
             apply andb_prop in Ereuse. destruct Ereuse as [_ Hnu]. apply Bool.negb_true_iff in Hnu.
             apply seq_ok in Hl. destruct Hl as [c1 [s1 [c2 [H1 [H2 Hcode]]]]].
             destruct (IH _ _ _ _ H1) with (m := m) (m' := update m (v_id v) xv) as [Hr1 [Hg1 Ht1]];
               [cbn [wf_call]; auto | exact Hfr | cbn [sem_call]; unfold assign_s; rewrite Hxv; reflexivity |].
             destruct (IH _ _ _ _ H2) with (m := update m (v_id v) xv) (m' := m') as [Hr2 [Hg2 Ht2]].
             ++ cbn [wf_call LowerSem.wt_pure locals_below]. split; [|split].
                ** rewrite (agree_wt (g s) (te s) (te s1) Ht1 a Hba), Hwa, wt_read_as.
                   rewrite ety_read_as, (agree_ety (g s) (te s) (te s1) Ht1 a Hba).
                   rewrite Hread, Hsame, ty_eqb_refl. cbn [andb]. rewrite <- Hsame. exact Hio.
                ** rewrite (locals_below_mono (g s) (g s1) Hg1 a Hba). cbn [andb].
                   apply below_read_as. apply (var_below_mono (g s)); assumption.
                ** apply (var_below_mono (g s)); assumption.
             ++ apply fresh_update; [intros d Hd'; apply Hfr; lia|].
                unfold var_below in Hv. destruct (v_id v); [exact I | lia].
             ++ cbn [sem_call]. subst m'.
                rewrite <- (update_update_same m (v_id v) xv r).
                apply assign_bin_intro with (av := av) (bv := bv); [| | exact Hr].
                ** rewrite (agree_eval (g s) (te s) (te s1) _ Ht1 a Hba).
                   rewrite eval_update_indep; [exact Hav | exact Hwa | exact Hnu].
                ** rewrite eval_read_as, lookup_update_same, Hcast. reflexivity.
             ++ subst code. split; [|split].
                ** rewrite run_pure_app, Hr1. cbn [obind]. exact Hr2.
                ** lia.
                ** eapply te_agree_trans; [| exact Ht1 | exact Ht2]. lia.
          -- (* through a temporary *)
             unfold alloc_temp in Hl.
             eapply (temp_site f IH s eb tmp_ty read_ty (fun e => CBinop v a op e));
               [exact Hl | exact Hweb | exact Hbeb | exact Hfr | exact Hxv | | exact Hd].
             intros s3 Hg3 Ht3. split.
             ++ cbn [wf_call LowerSem.wt_pure locals_below]. split; [|split].
                ** rewrite (agree_wt (g s) (te s) (te s3) Ht3 a Hba), Hwa, wt_read_as.
                   rewrite ety_read_as, (agree_ety (g s) (te s) (te s3) Ht3 a Hba).
                   rewrite Hread, Hsame, ty_eqb_refl. cbn [andb]. rewrite <- Hsame. exact Hio.
                ** apply andb_true_intro. split; [apply (locals_below_mono (g s)); [lia | exact Hba]|].
                   apply below_read_as. unfold var_below. cbn. lia.
                ** apply (var_below_mono (g s)); [lia | exact Hv].
             ++ cbn [sem_call]. subst m'.
                rewrite <- update_comm by (apply not_eq_sym; apply (var_below_neq (g s)); [exact Hv | lia]).
                apply assign_bin_intro with (av := av) (bv := bv); [| | exact Hr].
                ** rewrite (agree_eval (g s) (te s) (te s3) _ Ht3 a Hba).
                   rewrite eval_update_indep; [exact Hav | exact Hwa | apply (below_not_uses (g s)); [lia | exact Hba]].
                ** rewrite eval_read_as. cbn [v_id]. rewrite lookup_update_same, Hcast. reflexivity.
      + (* a needs elaboration *)
        destruct (classify_elab HT (te s) a ea tmp_ty read_ty Hwa Eca) as [Hwea [Htmp [Hread [Huse [Hbel Hev]]]]].
        destruct (Hev m av Hav) as [xv [Hxv Hcast]].
        assert (Hbea : locals_below (g s) ea = true) by (apply Hbel; exact Hba).
        destruct (ty_eqb tmp_ty (if is_arith op then ety (te s) a else TInt) && ty_eqb tmp_ty read_ty && negb (uses_var (v_id v) b)) eqn:Ereuse.
        * (* reuse the destination *)
          apply andb_prop in Ereuse. destruct Ereuse as [_ Hnu]. apply Bool.negb_true_iff in Hnu.
          apply seq_ok in Hl. destruct Hl as [c1 [s1 [c2 [H1 [H2 Hcode]]]]].
          destruct (IH _ _ _ _ H1) with (m := m) (m' := update m (v_id v) xv) as [Hr1 [Hg1 Ht1]];
            [cbn [wf_call]; auto | exact Hfr | cbn [sem_call]; unfold assign_s; rewrite Hxv; reflexivity |].
          destruct (IH _ _ _ _ H2) with (m := update m (v_id v) xv) (m' := m') as [Hr2 [Hg2 Ht2]].
          -- cbn [wf_call LowerSem.wt_pure locals_below]. split; [|split].
             ++ rewrite (agree_wt (g s) (te s) (te s1) Ht1 b Hbb), Hwb, wt_read_as.
                rewrite ety_read_as, (agree_ety (g s) (te s) (te s1) Ht1 b Hbb).
                rewrite Hread, Hsame, ty_eqb_refl. cbn [andb]. rewrite <- Hsame. exact Hio.
             ++ rewrite (locals_below_mono (g s) (g s1) Hg1 b Hbb). rewrite Bool.andb_true_r.
                apply below_read_as. apply (var_below_mono (g s)); assumption.
             ++ apply (var_below_mono (g s)); assumption.
          -- apply fresh_update; [intros d Hd'; apply Hfr; lia|].
             unfold var_below in Hv. destruct (v_id v); [exact I | lia].
          -- cbn [sem_call]. subst m'.
             rewrite <- (update_update_same m (v_id v) xv r).
             apply assign_bin_intro with (av := av) (bv := bv); [| | exact Hr].
             ++ rewrite eval_read_as, lookup_update_same, Hcast. reflexivity.
             ++ rewrite (agree_eval (g s) (te s) (te s1) _ Ht1 b Hbb).
                rewrite eval_update_indep; [exact Hbv | exact Hwb | exact Hnu].
          -- subst code. split; [|split].
             ++ rewrite run_pure_app, Hr1. cbn [obind]. exact Hr2.
             ++ lia.
             ++ eapply te_agree_trans; [| exact Ht1 | exact Ht2]. lia.
        * (* through a temporary *)
          unfold alloc_temp in Hl.
          eapply (temp_site f IH s ea tmp_ty read_ty (fun e => CBinop v e op b));
            [exact Hl | exact Hwea | exact Hbea | exact Hfr | exact Hxv | | exact Hd].
          intros s3 Hg3 Ht3. split.
          -- cbn [wf_call LowerSem.wt_pure locals_below]. split; [|split].
             ++ rewrite (agree_wt (g s) (te s) (te s3) Ht3 b Hbb), Hwb, wt_read_as.
                rewrite ety_read_as, (agree_ety (g s) (te s) (te s3) Ht3 b Hbb).
                rewrite Hread, Hsame, ty_eqb_refl. cbn [andb]. rewrite <- Hsame. exact Hio.
             ++ apply andb_true_intro. split; [apply below_read_as; unfold var_below; cbn; lia|].
                apply (locals_below_mono (g s)); [lia | exact Hbb].
             ++ apply (var_below_mono (g s)); [lia | exact Hv].
          -- cbn [sem_call]. subst m'.
             rewrite <- update_comm by (apply not_eq_sym; apply (var_below_neq (g s)); [exact Hv | lia]).
             apply assign_bin_intro with (av := av) (bv := bv); [| | exact Hr].
             ++ rewrite eval_read_as. cbn [v_id]. rewrite lookup_update_same, Hcast. reflexivity.
             ++ rewrite (agree_eval (g s) (te s) (te s3) _ Ht3 b Hbb).
                rewrite eval_update_indep; [exact Hbv | exact Hwb | apply (below_not_uses (g s)); [lia | exact Hbb]].
    - (* CUnop *)
      destruct Hwf as [Hw [Hb Hv]].
      assert (Hwfull := Hw).
      cbn [LowerSem.wt_pure] in Hw. apply andb_prop in Hw. destruct Hw as [Hwb Hop].
      cbn [locals_below] in Hb.
      cbn [sem_call] in Hsem.
      destruct (assign_un_inv _ _ _ _ _ _ Hsem) as [bv [r [Hbv [Hr Hm']]]].
      assert (Hd : locs m' (g s) = default_of (lty (g s))).
      { subst m'. unfold var_below in Hv. destruct (v_id v) as [r0|d0]; cbn; [apply Hfr; lia|].
        destruct (Nat.eqb_spec (g s) d0); [lia | apply Hfr; lia]. }
      cbn [Lower.lower] in Hl.
      destruct (classify (te s) b) as [lb tb | eb tmp_ty read_ty] eqn:Ecb.
      + destruct (classify_simple (te s) m b lb tb Hwb Ecb) as [Hrb Htb]. subst tb.
        unfold var_arg in Hl.
        destruct (negb (ty_eqb (var_read_ty (te s) v) (ety (te s) (EUn op b)))); [discriminate|].
        destruct (leaf_unop HT _ _ _ _ _ _ _ _ _ Hwb Hl Hrb Hsem) as [Hrun ->].
        split; [exact Hrun | split; [lia | apply te_agree_refl]].
      + destruct (classify_elab HT (te s) b eb tmp_ty read_ty Hwb Ecb) as [Hweb [Htmp [Hread [Huse [Hbel Hev]]]]].
        destruct (Hev m bv Hbv) as [xv [Hxv Hcast]].
        assert (Hbeb : locals_below (g s) eb = true) by (apply Hbel; exact Hb).
        assert (Hwt' : forall te' n, te_agree n (te s) te' -> forall x, wt_pure te' (EUn op (read_as x read_ty)) = true).
        { intros te' n _ x. cbn [LowerSem.wt_pure]. rewrite wt_read_as, ety_read_as, Hread. exact Hop. }
        destruct (ty_eqb tmp_ty (ety (te s) (EUn op b)) && ty_eqb tmp_ty read_ty) eqn:Ereuse.
        * apply seq_ok in Hl. destruct Hl as [c1 [s1 [c2 [H1 [H2 Hcode]]]]].
          destruct (IH _ _ _ _ H1) with (m := m) (m' := update m (v_id v) xv) as [Hr1 [Hg1 Ht1]];
            [cbn [wf_call]; auto | exact Hfr | cbn [sem_call]; unfold assign_s; rewrite Hxv; reflexivity |].
          destruct (IH _ _ _ _ H2) with (m := update m (v_id v) xv) (m' := m') as [Hr2 [Hg2 Ht2]].
          -- cbn [wf_call]. split; [apply (Hwt' _ (g s) Ht1) | split].
             ++ cbn [locals_below]. apply below_read_as. apply (var_below_mono (g s)); assumption.
             ++ apply (var_below_mono (g s)); assumption.
          -- apply fresh_update; [intros d Hd'; apply Hfr; lia|].
             unfold var_below in Hv. destruct (v_id v); [exact I | lia].
          -- cbn [sem_call]. subst m'.
             rewrite <- (update_update_same m (v_id v) xv r).
             apply assign_un_intro with (bv := bv); [| exact Hr].
             rewrite eval_read_as, lookup_update_same, Hcast. reflexivity.
          -- subst code. split; [|split].
             ++ rewrite run_pure_app, Hr1. cbn [obind]. exact Hr2.
             ++ lia.
             ++ eapply te_agree_trans; [| exact Ht1 | exact Ht2]. lia.
        * unfold alloc_temp in Hl.
          eapply (temp_site f IH s eb tmp_ty read_ty (fun e => CUnop v op e));
            [exact Hl | exact Hweb | exact Hbeb | exact Hfr | exact Hxv | | exact Hd].
          intros s3 Hg3 Ht3. split.
          -- cbn [wf_call]. split; [apply (Hwt' _ (g s) Ht3) | split].
             ++ cbn [locals_below]. apply below_read_as. unfold var_below. cbn. lia.
             ++ apply (var_below_mono (g s)); [lia | exact Hv].
          -- cbn [sem_call]. subst m'.
             rewrite <- update_comm by (apply not_eq_sym; apply (var_below_neq (g s)); [exact Hv | lia]).
             apply assign_un_intro with (bv := bv); [| exact Hr].
             rewrite eval_read_as. cbn [v_id]. rewrite lookup_update_same, Hcast. reflexivity.
  Qed.
End Sound.

(* ---- every emitted instruction carries the statement's time and difficulty mask ---- *)
Definition at_time (time mask : Z) (st : lstmt) : Prop :=
  match st with
  | LInstr t m _ => t = time /\ m = mask
  | LLabel t _ => t = time
  | _ => True
  end.

Section Times.
  Variable avail : ikind -> bool.
  Variable auto_casts : bool.
  Variable rty : Z -> ty.
  Variable lty : nat -> ty.
  Variable time mask : Z.
  Notation lower := (lower avail auto_casts rty lty time mask).
  Notation ok := (Forall (at_time time mask)).

  Lemma seq_times (a : res) (k : lst -> res) code s' :
    (forall c s, a = Ok (c, s) -> ok c) -> (forall s1 c s, k s1 = Ok (c, s) -> ok c) ->
    seq a k = Ok (code, s') -> ok code.
  Proof.
    intros Ha Hk H. unfold seq in H. destruct a as [[c1 s1]| | |]; try discriminate.
    destruct (k s1) as [[c2 s2]| | |] eqn:Ek; try discriminate. inversion H; subst.
    apply Forall_app. split; [eapply Ha; reflexivity | eapply Hk; exact Ek].
  Qed.

  Ltac leaf :=
    cbv beta in *;
    match goal with
    | H : ret _ _ = Ok _ |- _ => unfold ret in H; inversion H; subst; repeat constructor
    | H : instr _ _ _ _ = Ok _ |- _ => unfold instr, ret in H; inversion H; subst; repeat constructor
    | H : need _ _ _ _ _ _ = Ok _ |- _ => unfold need, instr, ret in H; destruct (avail _); inversion H; subst; repeat constructor
    end.

  Lemma lower_times : forall f c s code s', lower f c s = Ok (code, s') -> ok code.
  Proof.
    induction f as [|f IH]; intros c s code s' H; [discriminate|].
    assert (Hrec : forall c s code s', lower f c s = Ok (code, s') -> ok code) by exact IH.
    assert (Htemp : forall tmp_ty (s : lst) (ea : expr) (k : nat -> var -> lst -> res) code s',
              (forall d tv s1 c s2, k d tv s1 = Ok (c, s2) -> ok c) ->
              (let '(d, tv, s1) := alloc_temp tmp_ty s in
               seq (ret [LAlloc d tmp_ty] s1) (fun s2 => seq (lower f (CAssignOp tv None ea) s2) (fun s3 => k d tv s3))) = Ok (code, s') -> ok code).
    { intros tmp_ty s0 ea k code0 s0' Hk H0. unfold alloc_temp in H0.
      eapply seq_times; [| | exact H0].
      - intros c1 s1 E. unfold ret in E. inversion E. repeat constructor.
      - intros s1 c1 s2 E. eapply seq_times; [| | exact E].
        + intros c2 s3 E2. eapply Hrec. exact E2.
        + intros s3 c2 s4 E2. eapply Hk. exact E2. }
    destruct c; cbn [Lower.lower] in H.
    - (* CAssignOp *)
      destruct (classify auto_casts rty lty (te s) rhs) as [a ta|ea tmp_ty read_ty].
      + unfold assign_intrinsic in H. destruct (var_arg rty lty s v) as [dst tv].
        destruct (negb _); [discriminate|]. destruct (alt_assign_for avail aop tv) as [[|b]|]; try discriminate; leaf.
      + assert (Ht : (let '(d, tv, s1) := alloc_temp tmp_ty s in
               seq (ret [LAlloc d tmp_ty] s1) (fun s2 => seq (lower f (CAssignOp tv None ea) s2)
                 (fun s3 => seq (lower f (CAssignOp v aop (read_as tv read_ty)) s3) (fun s4 => ret [LFree d] s4)))) = Ok (code, s') -> ok code).
        { intros H0. eapply (Htemp tmp_ty s ea (fun d tv s3 => seq (lower f (CAssignOp v aop (read_as tv read_ty)) s3) (fun s4 => ret [LFree d] s4))); [|exact H0].
          intros d tv s1 c s2 E. eapply seq_times; [| | exact E]; [intros; eapply Hrec; eassumption | intros; leaf]. }
        destruct (negb _); [apply Ht; exact H|].
        destruct aop; [apply Ht; exact H|].
        destruct ea; try discriminate; eapply Hrec; exact H.
    - (* CBinop *)
      destruct (classify auto_casts rty lty (te s) a) as [la ta|ea tmp_ty read_ty].
      + destruct (classify auto_casts rty lty (te s) b) as [lb tb|eb tmp_ty read_ty].
        * destruct (var_arg rty lty s v) as [dst tv]. destruct (negb _); [discriminate|]. leaf.
        * destruct (_ && _ && _).
          -- eapply seq_times; [| | exact H]; intros; eapply Hrec; eassumption.
          -- eapply (Htemp tmp_ty s eb (fun d tv s3 => seq (lower f (CBinop v a op (read_as tv read_ty)) s3) (fun s4 => ret [LFree d] s4))); [|exact H].
             intros d tv s1 c s2 E. eapply seq_times; [| | exact E]; [intros; eapply Hrec; eassumption | intros; leaf].
      + destruct (_ && _ && _).
        * eapply seq_times; [| | exact H]; intros; eapply Hrec; eassumption.
        * eapply (Htemp tmp_ty s ea (fun d tv s3 => seq (lower f (CBinop v (read_as tv read_ty) op b) s3) (fun s4 => ret [LFree d] s4))); [|exact H].
          intros d tv s1 c s2 E. eapply seq_times; [| | exact E]; [intros; eapply Hrec; eassumption | intros; leaf].
    - (* CUnop *)
      destruct (classify auto_casts rty lty (te s) b) as [lb tb|eb tmp_ty read_ty].
      + destruct (var_arg rty lty s v) as [dst tv]. destruct (negb _); [discriminate|].
        unfold unop_intrinsic in H. destruct (alt_unop_for avail op tb) as [[|c bop]|]; try discriminate; leaf.
      + destruct (_ && _).
        * eapply seq_times; [| | exact H]; intros; eapply Hrec; eassumption.
        * eapply (Htemp tmp_ty s eb (fun d tv s3 => seq (lower f (CUnop v op (read_as tv read_ty)) s3) (fun s4 => ret [LFree d] s4))); [|exact H].
          intros d tv s1 c s2 E. eapply seq_times; [| | exact E]; [intros; eapply Hrec; eassumption | intros; leaf].
    - (* CTernary *)
      unfold gen_label in H. cbn [fst snd g te] in H.
      eapply seq_times; [| | exact H]; [intros; eapply Hrec; eassumption|].
      intros s3 c3 s4 E3. cbv beta in E3. eapply seq_times; [| | exact E3]; [intros; eapply Hrec; eassumption|].
      intros s5 c5 s6 E5. cbv beta in E5. eapply seq_times; [| | exact E5]; [intros; leaf|].
      intros s7 c7 s8 E7. cbv beta in E7. eapply seq_times; [| | exact E7]; [intros; leaf|].
      intros s9 c9 s10 E9. cbv beta in E9. eapply seq_times; [| | exact E9]; [intros; eapply Hrec; eassumption | intros; leaf].
    - (* CCondNonCount *)
      destruct e; try (destruct (negb _); [discriminate | eapply Hrec; exact H]).
      + destruct op; try (destruct (negb _); [discriminate | eapply Hrec; exact H]). eapply Hrec; exact H.
      + destruct (is_comparison op); [eapply Hrec; exact H|].
        destruct op; try (destruct (negb _); [discriminate | eapply Hrec; exact H]); eapply Hrec; exact H.
    - (* CCondCmp *)
      destruct (classify auto_casts rty lty (te s) a) as [la ta|ea tmp_ty read_ty].
      + destruct (classify auto_casts rty lty (te s) b) as [lb tb|eb tmp_ty read_ty].
        * destruct (match k with KwIf => Some op | KwUnless => negate_comparison op end); [|discriminate].
          unfold condjmp_intrinsic in H. destruct (negb _); [discriminate|].
          destruct (alt_condjmp_for avail b0 ta) as [[|]|]; try discriminate; [leaf|].
          eapply seq_times; [| | exact H]; intros; leaf.
        * eapply (Htemp tmp_ty s eb (fun d tv s3 => seq (lower f (CCondCmp k a op (read_as tv read_ty) l jt) s3) (fun s4 => ret [LFree d] s4))); [|exact H].
          intros d tv s1 c s2 E. eapply seq_times; [| | exact E]; [intros; eapply Hrec; eassumption | intros; leaf].
      + eapply (Htemp tmp_ty s ea (fun d tv s3 => seq (lower f (CCondCmp k (read_as tv read_ty) op b l jt) s3) (fun s4 => ret [LFree d] s4))); [|exact H].
        intros d tv s1 c s2 E. eapply seq_times; [| | exact E]; [intros; eapply Hrec; eassumption | intros; leaf].
    - (* CCondLogic *)
      destruct (match k, op with KwIf, LogicOr | KwUnless, LogicAnd => Some true | KwIf, LogicAnd | KwUnless, LogicOr => Some false | _, _ => None end) as [[|]|]; try discriminate.
      + eapply seq_times; [| | exact H]; intros; eapply Hrec; eassumption.
      + unfold gen_label in H. cbn [fst snd g te] in H.
        eapply seq_times; [| | exact H]; [intros; eapply Hrec; eassumption|].
        intros s3 c3 s4 E3. cbv beta in E3. eapply seq_times; [| | exact E3]; [intros; eapply Hrec; eassumption|].
        intros s5 c5 s6 E5. cbv beta in E5. eapply seq_times; [| | exact E5]; intros; leaf.
  Qed.
End Times.
