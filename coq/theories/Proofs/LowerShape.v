(* Proofs/LowerShape.v -- structure of the code emitted by the lowerer: generated labels carry
   gensym numbers of the emitting call, RegAlloc/RegFree are balanced, so that skipping over the
   code while seeking a label leaves memory unchanged. *)
From TV Require Import Base.I32 Base.F32 Model.Ops Model.Expr Model.Lower Model.LowerSem Proofs.LowerSound.
Open Scope Z_scope.

Section Shape.
  Variable avail : ikind -> bool.
  Variable auto_casts : bool.
  Variable rty : Z -> ty.
  Variable lty : nat -> ty.
  Variable time mask : Z.
  Notation lower := (lower avail auto_casts rty lty time mask).
  Notation fresh := (fresh lty).

  Definition label_in (lo hi : nat) (st : lstmt) : Prop :=
    match st with
    | LLabel _ (LGen _ j) => (lo <= j < hi)%nat
    | LLabel _ (LUser _) => False
    | _ => True
    end.
  Definition labels_in (lo hi : nat) (code : list lstmt) : Prop := Forall (label_in lo hi) code.

  (* the effect on memory of walking over code without executing it *)
  Fixpoint seek_mem (code : list lstmt) (m : mem) : mem :=
    match code with
    | [] => m
    | LAlloc d t :: r => seek_mem r (update m (VLoc d) (default_of t))
    | LFree d :: r => seek_mem r (update m (VLoc d) (default_of (lty d)))
    | _ :: r => seek_mem r m
    end.
  Definition neutral (n : nat) (code : list lstmt) : Prop := forall m, fresh m n -> seek_mem code m = m.

  Lemma seek_mem_app c1 c2 m : seek_mem (c1 ++ c2) m = seek_mem c2 (seek_mem c1 m).
  Proof. revert m. induction c1 as [|st c1 IH]; intros m; [reflexivity|]. destruct st; cbn; apply IH. Qed.

  Lemma labels_in_mono lo hi lo' hi' code : (lo' <= lo)%nat -> (hi <= hi')%nat ->
    labels_in lo hi code -> labels_in lo' hi' code.
  Proof.
    intros H1 H2 H. unfold labels_in in *. eapply Forall_impl; [|exact H].
    intros st Hst. destruct st; cbn in *; auto. destruct l; [auto | lia].
  Qed.
  Lemma labels_in_app lo hi c1 c2 : labels_in lo hi c1 -> labels_in lo hi c2 -> labels_in lo hi (c1 ++ c2).
  Proof. intros. apply Forall_app. split; assumption. Qed.

  Lemma neutral_weaken n n0 code : (n0 <= n)%nat -> neutral n code -> neutral n0 code.
  Proof. intros Hn H m Hf. apply H. intros d Hd. apply Hf. lia. Qed.
  Lemma neutral_app n c1 c2 : neutral n c1 -> neutral n c2 -> neutral n (c1 ++ c2).
  Proof. intros H1 H2 m Hf. rewrite seek_mem_app, (H1 m Hf). apply H2. exact Hf. Qed.
  Lemma neutral_nil n : neutral n [].
  Proof. intros m _. reflexivity. Qed.
  Lemma neutral_instr n t k i : neutral n [LInstr t k i].
  Proof. intros m _. reflexivity. Qed.
  Lemma neutral_label n t l : neutral n [LLabel t l].
  Proof. intros m _. reflexivity. Qed.
  Lemma neutral_bracket n t c : neutral (S n) c -> neutral n (LAlloc n t :: c ++ [LFree n]).
  Proof.
    intros H m Hf. cbn [seek_mem]. rewrite seek_mem_app. cbn [seek_mem].
    rewrite H.
    - rewrite update_update_same. rewrite <- (Hf n) by lia. apply (update_lookup_id m (VLoc n)).
    - intros d Hd. cbn. destruct (Nat.eqb_spec d n); [lia | apply Hf; lia].
  Qed.

  Notation te_agree := (te_agree lty).
  Lemma te_agree_weaken n n' te1 te2 : (n <= n')%nat -> te_agree n' te1 te2 -> te_agree n te1 te2.
  Proof. intros Hn H d Hd. apply H. lia. Qed.
  Lemma te_agree_tr n te1 te2 te3 : te_agree n te1 te2 -> te_agree n te2 te3 -> te_agree n te1 te3.
  Proof. intros H1 H2 d Hd. rewrite H2 by exact Hd. apply H1. exact Hd. Qed.
  Lemma te_agree_cons_ n te d t : (n <= d)%nat -> te_agree n te ((d, t) :: te).
  Proof.
    intros Hd d' Hd'. unfold loc_ty. cbn [assoc].
    destruct (Nat.eqb_spec d' d); [lia | reflexivity].
  Qed.

  Definition okshape (s s' : lst) (code : list lstmt) : Prop :=
    (g s <= g s')%nat /\ labels_in (g s) (g s') code /\ neutral (g s) code /\ te_agree (g s) (te s) (te s').

  Lemma ok_leaf s code : (code = [] \/ (exists t k i, code = [LInstr t k i])) -> okshape s s code.
  Proof.
    intros [->|[t [k [i ->]]]]; (split; [lia|split; [|split; [|intros d _; reflexivity]]]).
    - constructor.
    - apply neutral_nil.
    - repeat constructor.
    - apply neutral_instr.
  Qed.

  Lemma ok_seq (a : res) (k : lst -> res) s code s' :
    (forall c s1, a = Ok (c, s1) -> okshape s s1 c) ->
    (forall s1 c s2, (g s <= g s1)%nat -> k s1 = Ok (c, s2) -> okshape s1 s2 c) ->
    seq a k = Ok (code, s') -> okshape s s' code.
  Proof.
    intros Ha Hk H. unfold seq in H. destruct a as [[c1 s1]| | |]; try discriminate.
    destruct (k s1) as [[c2 s2]| | |] eqn:Ek; try discriminate. inversion H; subst.
    destruct (Ha c1 s1 eq_refl) as [G1 [L1 [N1 T1]]].
    destruct (Hk s1 c2 s' G1 Ek) as [G2 [L2 [N2 T2]]].
    split; [lia|split; [|split]].
    - apply labels_in_app; [eapply labels_in_mono; [| |exact L1]; lia | eapply labels_in_mono; [| |exact L2]; lia].
    - apply neutral_app; [exact N1 | eapply neutral_weaken; [|exact N2]; lia].
    - eapply te_agree_tr; [exact T1 | eapply te_agree_weaken; [|exact T2]; lia].
  Qed.

  (* okshape is insensitive to the te component; relate states by their counters *)

  Ltac leaf :=
    cbv beta in *;
    match goal with
    | H : ret _ _ = Ok _ |- _ => unfold ret in H; inversion H; subst
    | H : instr _ _ _ _ = Ok _ |- _ => unfold instr, ret in H; inversion H; subst
    | H : need _ _ _ _ _ _ = Ok _ |- _ => unfold need, instr, ret in H; destruct (avail _); inversion H; subst
    end;
    apply ok_leaf; first [left; reflexivity | right; eauto].

  Lemma lower_shape : forall f c s code s', lower f c s = Ok (code, s') -> okshape s s' code.
  Proof.
    induction f as [|f IH]; intros c s code s' H; [discriminate|].
    assert (Hrec : forall c s code s', lower f c s = Ok (code, s') -> okshape s s' code) by exact IH.
    (* the temporary bracket *)
    assert (Htemp : forall tmp_ty (s : lst) (ea : expr) (K : var -> call) code s',
              (let '(d, tv, s1) := alloc_temp tmp_ty s in
               seq (ret [LAlloc d tmp_ty] s1) (fun s2 => seq (lower f (CAssignOp tv None ea) s2)
                 (fun s3 => seq (lower f (K tv) s3) (fun s4 => ret [LFree d] s4)))) = Ok (code, s') -> okshape s s' code).
    { intros tmp_ty s0 ea K code0 s0' H0. unfold alloc_temp in H0.
      unfold seq at 1 in H0. unfold ret at 1 in H0.
      match type of H0 with match ?X with _ => _ end = _ => destruct X as [[cr sr]| | |] eqn:Er; try discriminate end.
      inversion H0; subst code0 s0'. clear H0.
      apply seq_ok in Er. destruct Er as [c1 [s3 [cr2 [H1 [Er Hc]]]]].
      apply seq_ok in Er. destruct Er as [c2 [s4 [c3 [H2 [H3 Hc3]]]]].
      unfold ret in H3. inversion H3; subst c3 sr. clear H3. subst cr cr2.
      destruct (Hrec _ _ _ _ H1) as [G1 [L1 [N1 T1]]]. destruct (Hrec _ _ _ _ H2) as [G2 [L2 [N2 T2]]].
      cbn [g te] in *.
      split; [lia|split; [|split]].
      3: { eapply te_agree_tr; [apply (te_agree_cons_ (g s0) (te s0) (g s0) tmp_ty); lia|].
           eapply te_agree_tr; [eapply te_agree_weaken; [|exact T1]; lia | eapply te_agree_weaken; [|exact T2]; lia]. }
      - cbn [app]. constructor; [exact I|].
        apply labels_in_app; [eapply labels_in_mono; [| |exact L1]; lia|].
        apply labels_in_app; [eapply labels_in_mono; [| |exact L2]; lia | repeat constructor].
      - change ([LAlloc (g s0) tmp_ty] ++ c1 ++ c2 ++ [LFree (g s0)]) with (LAlloc (g s0) tmp_ty :: (c1 ++ c2 ++ [LFree (g s0)])).
        rewrite app_assoc. apply neutral_bracket.
        apply neutral_app; [exact N1 | eapply neutral_weaken; [|exact N2]; lia]. }
    destruct c; cbn [Lower.lower] in H.
    - (* CAssignOp *)
      destruct (classify auto_casts rty lty (te s) rhs) as [a ta|ea tmp_ty read_ty].
      + unfold assign_intrinsic in H. destruct (var_arg rty lty s v) as [dst tv].
        destruct (negb _); [discriminate|]. destruct (alt_assign_for avail aop tv) as [[|b]|]; try discriminate; leaf.
      + destruct (negb _); [apply (Htemp tmp_ty s ea (fun tv => CAssignOp v aop (read_as tv read_ty))); exact H|].
        destruct aop; [apply (Htemp tmp_ty s ea (fun tv => CAssignOp v (Some b) (read_as tv read_ty))); exact H|].
        destruct ea; try discriminate; eapply Hrec; exact H.
    - (* CBinop *)
      destruct (classify auto_casts rty lty (te s) a) as [la ta|ea tmp_ty read_ty].
      + destruct (classify auto_casts rty lty (te s) b) as [lb tb|eb tmp_ty read_ty].
        * destruct (var_arg rty lty s v) as [dst tv]. destruct (negb _); [discriminate|]. leaf.
        * destruct (_ && _ && _).
          -- eapply ok_seq; [| | exact H]; intros; eapply Hrec; eassumption.
          -- apply (Htemp tmp_ty s eb (fun tv => CBinop v a op (read_as tv read_ty))); exact H.
      + destruct (_ && _ && _).
        * eapply ok_seq; [| | exact H]; intros; eapply Hrec; eassumption.
        * apply (Htemp tmp_ty s ea (fun tv => CBinop v (read_as tv read_ty) op b)); exact H.
    - (* CUnop *)
      destruct (classify auto_casts rty lty (te s) b) as [lb tb|eb tmp_ty read_ty].
      + destruct (var_arg rty lty s v) as [dst tv]. destruct (negb _); [discriminate|].
        unfold unop_intrinsic in H. destruct (alt_unop_for avail op tb) as [[|c bop]|]; try discriminate; leaf.
      + destruct (_ && _).
        * eapply ok_seq; [| | exact H]; intros; eapply Hrec; eassumption.
        * apply (Htemp tmp_ty s eb (fun tv => CUnop v op (read_as tv read_ty))); exact H.
    - (* CTernary *)
      unfold gen_label in H. cbn [fst snd g te] in H.
      set (s2 := mklst (S (S (g s))) (te s)) in *.
      apply seq_ok in H. destruct H as [c1 [s3 [r1 [H1 [H Hc1]]]]].
      apply seq_ok in H. destruct H as [c2 [s4 [r2 [H2 [H Hc2]]]]].
      apply seq_ok in H. destruct H as [c3 [s5 [r3 [H3 [H Hc3]]]]].
      apply seq_ok in H. destruct H as [c4 [s6 [r4 [H4 [H Hc4]]]]].
      apply seq_ok in H. destruct H as [c5 [s7 [r5 [H5 [H6 Hc5]]]]].
      destruct (Hrec _ _ _ _ H1) as [G1 [L1 [N1 T1]]]. destruct (Hrec _ _ _ _ H2) as [G2 [L2 [N2 T2]]].
      unfold need, instr, ret in H3. destruct (avail KJmp); [|discriminate]. inversion H3; subst c3 s5. clear H3.
      unfold ret in H4. inversion H4; subst c4 s6. clear H4.
      destruct (Hrec _ _ _ _ H5) as [G5 [L5 [N5 T5]]].
      unfold ret in H6. inversion H6; subst r5 s7. clear H6.
      subst code r1 r2 r3 r4. cbn [g te s2] in *.
      split; [lia|split; [|split]].
      3: { eapply te_agree_tr; [eapply te_agree_weaken; [|exact T1]; lia|].
           eapply te_agree_tr; [eapply te_agree_weaken; [|exact T2]; lia | eapply te_agree_weaken; [|exact T5]; lia]. }
      + apply labels_in_app; [eapply labels_in_mono; [| |exact L1]; lia|].
        apply labels_in_app; [eapply labels_in_mono; [| |exact L2]; lia|].
        apply labels_in_app; [repeat constructor|].
        apply labels_in_app; [repeat constructor; cbn; lia|].
        apply labels_in_app; [eapply labels_in_mono; [| |exact L5]; lia | repeat constructor; cbn; lia].
      + apply neutral_app; [eapply neutral_weaken; [|exact N1]; lia|].
        apply neutral_app; [eapply neutral_weaken; [|exact N2]; lia|].
        apply neutral_app; [apply neutral_instr|].
        apply neutral_app; [apply neutral_label|].
        apply neutral_app; [eapply neutral_weaken; [|exact N5]; lia | apply neutral_label].
    - (* CCondNonCount *)
      destruct e; try (destruct (negb _); [discriminate | eapply Hrec; exact H]).
      + destruct op; try (destruct (negb _); [discriminate | eapply Hrec; exact H]). eapply Hrec; exact H.
      + destruct (is_comparison op); [eapply Hrec; exact H|].
        destruct op; try (destruct (negb _); [discriminate | eapply Hrec; exact H]); eapply Hrec; exact H.
    - (* CCondCmp *)
      destruct (classify auto_casts rty lty (te s) a) as [la ta|ea tmp_ty read_ty].
      + destruct (classify auto_casts rty lty (te s) b) as [lb tb|eb tmp_ty read_ty].
        * destruct (match k with KwIf => Some op | KwUnless => negate_comparison op end); [|discriminate].
          unfold condjmp_intrinsic in H. destruct (negb _); [discriminate|].
          destruct (alt_condjmp_for avail b0 ta) as [[|]|]; try discriminate; [leaf|].
          unfold seq, instr, ret in H. inversion H; subst. split; [lia|split; [|split]]; [repeat constructor | intros m _; reflexivity | intros d _; reflexivity].
        * apply (Htemp tmp_ty s eb (fun tv => CCondCmp k a op (read_as tv read_ty) l jt)); exact H.
      + apply (Htemp tmp_ty s ea (fun tv => CCondCmp k (read_as tv read_ty) op b l jt)); exact H.
    - (* CCondLogic *)
      destruct (match k, op with KwIf, LogicOr | KwUnless, LogicAnd => Some true | KwIf, LogicAnd | KwUnless, LogicOr => Some false | _, _ => None end) as [[|]|]; try discriminate.
      + eapply ok_seq; [| | exact H]; intros; eapply Hrec; eassumption.
      + unfold gen_label in H. cbn [fst snd g te] in H.
        apply seq_ok in H. destruct H as [c1 [s3 [r1 [H1 [H Hc1]]]]].
        apply seq_ok in H. destruct H as [c2 [s4 [r2 [H2 [H Hc2]]]]].
        apply seq_ok in H. destruct H as [c3 [s5 [r3 [H3 [H4 Hc3]]]]].
        destruct (Hrec _ _ _ _ H1) as [G1 [L1 [N1 T1]]]. destruct (Hrec _ _ _ _ H2) as [G2 [L2 [N2 T2]]].
        unfold need, instr, ret in H3. destruct (avail KJmp); [|discriminate]. inversion H3; subst c3 s5. clear H3.
        unfold ret in H4. inversion H4; subst r3 s4. clear H4.
        subst code r1 r2. cbn [g te] in *.
        split; [lia|split; [|split]].
        3: { eapply te_agree_tr; [eapply te_agree_weaken; [|exact T1]; lia | eapply te_agree_weaken; [|exact T2]; lia]. }
        * apply labels_in_app; [eapply labels_in_mono; [| |exact L1]; lia|].
          apply labels_in_app; [eapply labels_in_mono; [| |exact L2]; lia|].
          apply labels_in_app; [repeat constructor | repeat constructor; cbn; lia].
        * apply neutral_app; [eapply neutral_weaken; [|exact N1]; lia|].
          apply neutral_app; [eapply neutral_weaken; [|exact N2]; lia|].
          apply neutral_app; [apply neutral_instr | apply neutral_label].
  Qed.
End Shape.
