(* Proofs/FmtLits.v -- literal round trips: strings and integers (every IntFormat). *)
From TV Require Import Base.I32 Model.Fmt Model.FmtLex Model.FmtParse Spec.Fmt.
Open Scope Z_scope.

Lemma append_assoc (a b c : string) : (a ^^ b) ^^ c = a ^^ b ^^ c.
Proof. induction a as [|x a IH]; cbn; [reflexivity|]. rewrite IH. reflexivity. Qed.

Lemma append_nil_r (a : string) : a ^^ "" = a.
Proof. induction a as [|x a IH]; cbn; [reflexivity|]. rewrite IH. reflexivity. Qed.

(* ---------------------------------------------------------------------------------------- *)
(* strings *)

Lemma drop_last_app a c : drop_last (a ^^ str1 c) = Some (a, c).
Proof.
  induction a as [|x a IH]; [reflexivity|].
  cbn [String.append]. cbn [drop_last].
  destruct (a ^^ str1 c) eqn:E.
  - destruct a; discriminate.
  - rewrite IH. reflexivity.
Qed.

Lemma unescape_escape s : unescape (escape s) = Ok s.
Proof.
  induction s as [|c s IH]; [reflexivity|].
  cbn [escape]. unfold escape_char.
  destruct (Ascii.eqb c "000") eqn:E0; [apply Ascii.eqb_eq in E0; subst; cbn; rewrite IH; reflexivity|].
  destruct (Ascii.eqb c """") eqn:E1; [apply Ascii.eqb_eq in E1; subst; cbn; rewrite IH; reflexivity|].
  destruct (Ascii.eqb c "\") eqn:E2; [apply Ascii.eqb_eq in E2; subst; cbn; rewrite IH; reflexivity|].
  destruct (Ascii.eqb c "010") eqn:E3; [apply Ascii.eqb_eq in E3; subst; cbn; rewrite IH; reflexivity|].
  destruct (Ascii.eqb c "013") eqn:E4; [apply Ascii.eqb_eq in E4; subst; cbn; rewrite IH; reflexivity|].
  cbn [str1 String.append unescape]. rewrite E2, IH. reflexivity.
Qed.

Theorem string_literal_roundtrip : forall s, parse_string_literal (print_string s) = Ok s.
Proof.
  intros s. unfold print_string, parse_string_literal.
  cbn [String.append].
  change ("""")%string with (str1 """"%char).
  rewrite drop_last_app. cbn. apply unescape_escape.
Qed.

(* ---------------------------------------------------------------------------------------- *)
(* positional digits *)

Definition radix_ok (r : Z) : Prop := r = 2 \/ r = 10 \/ r = 16.

Lemma digit_val_char r d : radix_ok r -> 0 <= d < r -> digit_val r (digit_char d) = Some d.
Proof.
  intros [-> | [-> | ->]] H.
  - assert (d = 0 \/ d = 1) as [-> |  ->] by lia; reflexivity.
  - assert (d = 0 \/ d = 1 \/ d = 2 \/ d = 3 \/ d = 4 \/ d = 5 \/ d = 6 \/ d = 7 \/ d = 8 \/ d = 9)
      as [-> | [-> | [-> | [-> | [-> | [-> | [-> | [-> | [-> |  ->]]]]]]]]] by lia; reflexivity.
  - assert (d = 0 \/ d = 1 \/ d = 2 \/ d = 3 \/ d = 4 \/ d = 5 \/ d = 6 \/ d = 7 \/ d = 8 \/ d = 9
            \/ d = 10 \/ d = 11 \/ d = 12 \/ d = 13 \/ d = 14 \/ d = 15)
      as [-> | [-> | [-> | [-> | [-> | [-> | [-> | [-> | [-> | [-> | [-> | [-> | [-> | [-> | [-> |  ->]]]]]]]]]]]]]]] by lia; reflexivity.
Qed.

Lemma digits_val_app r a b acc :
  digits_val r (a ^^ b) acc = match digits_val r a acc with Some v => digits_val r b v | None => None end.
Proof.
  revert acc. induction a as [|c a IH]; intros acc; [reflexivity|].
  cbn [String.append digits_val]. destruct (digit_val r c); [apply IH|reflexivity].
Qed.

Lemma to_digits_val f r n :
  radix_ok r -> 0 <= n < r ^ (Z.of_nat f + 1) -> digits_val r (to_digits f r n) 0 = Some n.
Proof.
  intros Hr.
  assert (Hdv : forall d, 0 <= d < r -> digit_val r (digit_char d) = Some d) by (intros; apply digit_val_char; auto).
  assert (Hr2 : 2 <= r) by (destruct Hr as [-> | [-> | ->]]; lia).
  revert n. induction f as [|f IH]; intros n Hn.
  - cbn [to_digits]. change (Z.of_nat 0 + 1) with 1 in Hn. rewrite Z.pow_1_r in Hn.
    rewrite Z.mod_small by lia. cbn [str1 digits_val]. rewrite Hdv by lia. f_equal; lia.
  - cbn [to_digits]. destruct (n <? r) eqn:E.
    + apply Z.ltb_lt in E. cbn [str1 digits_val]. rewrite Hdv by lia. f_equal; lia.
    + apply Z.ltb_ge in E.
      replace (Z.of_nat (S f) + 1) with (Z.succ (Z.of_nat f + 1)) in Hn by lia.
      rewrite Z.pow_succ_r in Hn by lia.
      set (P := r ^ (Z.of_nat f + 1)) in *. clearbody P.
      assert (Hq : 0 <= n / r < P /\ 0 <= n mod r < r /\ n / r * r + n mod r = n).
      { clear IH Hdv. destruct Hr as [-> | [-> | ->]]; lia. }
      destruct Hq as (Hq1 & Hq2 & Hq3).
      rewrite digits_val_app, IH by exact Hq1.
      cbn [str1 digits_val]. rewrite Hdv by exact Hq2. f_equal; exact Hq3.
Qed.

Lemma digits_val_digits r n : radix_ok r -> 0 <= n < two32 -> digits_val r (digits r n) 0 = Some n.
Proof.
  intros Hr Hn. apply to_digits_val; [exact Hr|].
  change (Z.of_nat 32 + 1) with 33.
  assert (two32 <= r ^ 33) by (destruct Hr as [-> | [-> | ->]]; vm_compute; discriminate).
  lia.
Qed.

(* the shape of the digit strings *)
Definition is_rdigit (r : Z) (c : ascii) : bool := match digit_val r c with Some _ => true | None => false end.

Lemma all_chars_app p a b : all_chars p (a ^^ b) = all_chars p a && all_chars p b.
Proof. induction a as [|c a IH]; cbn; [reflexivity|]. rewrite IH, andb_assoc. reflexivity. Qed.

Lemma to_digits_shape f r n : radix_ok r -> 0 <= n -> all_chars (is_rdigit r) (to_digits f r n) = true /\ to_digits f r n <> EmptyString.
Proof.
  intros Hr.
  assert (Hdv : forall d, 0 <= d < r -> is_rdigit r (digit_char d) = true) by (intros; unfold is_rdigit; rewrite digit_val_char; auto).
  revert n. induction f as [|f IH]; intros n Hn.
  - cbn. rewrite Hdv; [split; [reflexivity|discriminate]|]. destruct Hr as [-> | [-> | ->]]; lia.
  - cbn [to_digits]. destruct (n <? r) eqn:E.
    + apply Z.ltb_lt in E. cbn. rewrite Hdv by lia. split; [reflexivity|discriminate].
    + assert (Hq : 0 <= n / r /\ 0 <= n mod r < r) by (clear IH Hdv; destruct Hr as [-> | [-> | ->]]; lia).
      destruct (IH (n / r)) as [H1 H2]; [apply Hq|].
      split.
      * rewrite all_chars_app, H1. cbn. rewrite Hdv by apply Hq. reflexivity.
      * destruct (to_digits f r (n / r)); [congruence|discriminate].
Qed.
