(* Proofs/TypingDynamic.v -- a well-typed expression evaluates (AstVm::eval, Model/Expr.eval with
   the operator table read from const_simplify.rs) to a value of the predicted type. *)
From TV Require Import Base.I32 Base.F32 Model.Ops Model.Expr Model.TypeCheck Spec.TypingRules
  Gen.OpTable Proofs.TypingExpr.
Open Scope Z_scope.

(* the enum consts mentioned by an expression *)
Fixpoint texpr_enums (e : texpr) : list (nat * nat) :=
  match e with
  | TEnum en id => [(en, id)]
  | TBin a _ b => texpr_enums a ++ texpr_enums b
  | TUn _ x => texpr_enums x
  | TTern c l r => texpr_enums c ++ texpr_enums l ++ texpr_enums r
  | TDiff first rest =>
      texpr_enums first ++ flat_map (fun c => match c with Some x => texpr_enums x | None => [] end) rest
  | _ => []
  end.

Lemma cast_by_sigil_ty sg x v : cast_by_sigil (Some sg) x = Some v -> type_of_value v = sty_of_sigil sg.
Proof. destruct sg, x; simpl; intros H; inversion H; reflexivity. Qed.

Lemma expect_ok {A} (o : option A) v : expect o = Ok v -> o = Some v.
Proof. destruct o; simpl; intros H; inversion H; auto. Qed.

Lemma select_case_in {A} (l : list (option A)) : forall d last r,
  select_case l d last = Some r -> In (Some r) l \/ last = Some r.
Proof.
  induction l as [|c l IH]; intros d last r H; simpl in H; try discriminate.
  destruct d as [|d].
  - destruct c; [left; left; auto | right; auto].
  - apply IH in H. destruct H as [H|H]; [left; right; auto|].
    destruct c; [left; left; auto | right; auto].
Qed.

Lemma cases_typed_in G rest t x : cases_typed G rest t -> In (Some x) rest -> has_type G x (Value t).
Proof.
  induction 1; simpl; intros Hin; try tauto.
  - destruct Hin as [Hin|Hin]; [discriminate | auto].
  - destruct Hin as [Hin|Hin]; [inversion Hin; subst; auto | auto].
Qed.

Section Dynamic.
  Variable G : env.
  Variable libm : unop -> Z -> Z.
  Variable regs : Z -> value.
  Variable locals : nat -> value.
  Variable cs : nat -> option value.
  Variable diff : nat.

  (* the store agrees with the inherent types of the typed variables *)
  Record env_ok : Prop := {
    eo_regs : forall r t, reg_ty G r = Typed t -> type_of_value (regs r) = t;
    eo_locals : forall id t, var_ty G id = Typed t -> cs id = None -> type_of_value (locals id) = t;
    eo_consts : forall id t v, var_ty G id = Typed t -> cs id = Some v -> type_of_value v = t;
  }.
  Definition enums_ok (e : texpr) : Prop :=
    forall en id v, In (en, id) (texpr_enums e) -> cs id = Some v -> type_of_value v = enum_ty G en.

  Hypothesis HE : env_ok.
  Let ev := eval gen_optable libm regs locals cs diff.

  Lemma binop_eval_ty op a b v t r :
    type_of_value a = t -> type_of_value b = t -> bin_typing op t r ->
    binop_eval gen_optable op a b = Ok v -> type_of_value v = r.
  Proof.
    unfold bin_typing, numeric. intros Ha Hb Hbt H.
    destruct a as [x|x|x], b as [y|y|y]; simpl in Ha, Hb; subst; try discriminate;
      unfold binop_eval in H.
    - (* ints *)
      destruct (eval_bi (ot_shift gen_optable) (ot_bi gen_optable op) x y) eqn:E; simpl in H; inversion H; subst.
      simpl. destruct op; simpl in Hbt; intuition congruence.
    - (* floats *)
      destruct op; simpl in Hbt, H; inversion H; subst; simpl; intuition congruence.
  Qed.

  Lemma unop_eval_ty op a v t r :
    sigil_of_unop op = None -> type_of_value a = t -> un_typing op t r ->
    unop_eval libm gen_optable op a = Ok (Some v) -> type_of_value v = r.
  Proof.
    unfold un_typing, numeric. intros Hs Ha Hut H.
    destruct a as [x|x|x]; simpl in Ha; subst; simpl in H; try discriminate.
    - destruct op; simpl in Hs, Hut, H; inversion H; subst; simpl; try discriminate; intuition congruence.
    - destruct op; simpl in Hs, Hut, H; inversion H; subst; simpl; try discriminate; intuition congruence.
  Qed.

  Theorem static_is_dynamic_gen : forall e t v,
    has_type G e (Value t) -> enums_ok e -> ev (to_expr e) = Ok v -> type_of_value v = t.
  Proof.
    unfold ev. induction e using texpr_ind2; intros t w Ht He Hv.
    - inversion Ht; subst. inversion Hv; reflexivity.
    - inversion Ht; subst. inversion Hv; reflexivity.
    - inversion Ht; subst. inversion Hv; reflexivity.
    - (* var *)
      inversion Ht as [| | |? ? Hvt| | | | | | | | |]; subst.
      destruct HE as [Hr Hl Hc].
      inversion Hvt as [n t' Hin|sg n Hin]; subst; simpl in Hv.
      + destruct n as [r|id]; simpl in Hv, Hin.
        * inversion Hv; subst. apply Hr; auto.
        * destruct (cs id) eqn:C; simpl in Hv; inversion Hv; subst; eauto.
      + destruct n as [r|id]; simpl in Hv.
        * apply expect_ok in Hv. eapply cast_by_sigil_ty; eauto.
        * destruct (cs id); apply expect_ok in Hv; eapply cast_by_sigil_ty; eauto.
    - (* enum *)
      inversion Ht; subst. simpl in Hv. destruct (cs id) eqn:C; inversion Hv; subst.
      apply (He en id w); simpl; auto.
    - (* bin *)
      inversion Ht as [| | | | |? ? ? t0 r Hha Hhb Hbt| | | | | | |]; subst.
      simpl in Hv. bind_inv Hv av Hav. bind_inv Hv bv Hbv.
      eapply binop_eval_ty; [ | | exact Hbt | exact Hv].
      + eapply IHe1; eauto. intros en id w' Hin. apply He. simpl. apply in_or_app; auto.
      + eapply IHe2; eauto. intros en id w' Hin. apply He. simpl. apply in_or_app; auto.
    - (* un *)
      inversion Ht as [| | | | | |? ? t0 r Hhx Hut| | | | | |]; subst.
      simpl in Hv. bind_inv Hv xv Hxv.
      assert (Hx : type_of_value xv = t0) by (eapply IHe; eauto).
      destruct (sigil_of_unop op) as [sg|] eqn:S.
      + apply expect_ok in Hv. apply cast_by_sigil_ty in Hv. rewrite Hv.
        unfold un_typing in Hut. destruct op; simpl in S; inversion S; subst; simpl; intuition congruence.
      + bind_inv Hv r0 Hr0. apply expect_ok in Hv. subst r0. eapply unop_eval_ty; eauto.
    - (* xcr *) simpl in Hv. discriminate.
    - (* tern *)
      inversion Ht as [| | | | | | | |? ? ? t0 Hhc Hhl Hhr| | | |]; subst.
      simpl in Hv. bind_inv Hv cv Hcv.
      destruct cv as [z| |]; try discriminate.
      destruct z.
      + eapply IHe3; eauto. intros en id w' Hin. apply He. simpl. apply in_or_app; right; apply in_or_app; auto.
      + eapply IHe2; eauto. intros en id w' Hin. apply He. simpl. apply in_or_app; right; apply in_or_app; auto.
      + eapply IHe2; eauto. intros en id w' Hin. apply He. simpl. apply in_or_app; right; apply in_or_app; auto.
    - (* diff *)
      inversion Ht as [| | | | | | | | |? ? t0 Hhf Hhr| | |]; subst.
      simpl in Hv.
      match type of Hv with match ?sc with _ => _ end = _ => destruct sc as [r|] eqn:S; try discriminate end.
      assert (HS : r = eval gen_optable libm regs locals cs diff (to_expr e) \/
                   In (Some r) (map (fun c : option expr => match c with
                                       | Some x => Some (eval gen_optable libm regs locals cs diff x)
                                       | None => None end)
                                (map (fun c : option texpr => match c with Some x => Some (to_expr x) | None => None end) rest))).
      { destruct diff as [|d'].
        - inversion S; auto.
        - apply select_case_in in S. destruct S as [S|S]; auto. inversion S; auto. }
      clear S. destruct HS as [S|S].
      + subst r. eapply IHe; eauto. intros en id w' Hin. apply He. simpl. apply in_or_app; auto.
      + rewrite map_map in S. apply in_map_iff in S. destruct S as ([x|] & Hx & Hin); try discriminate.
        inversion Hx; subst. clear Hx.
        rewrite Forall_forall in H. specialize (H (Some x) Hin). simpl in H.
        eapply H; eauto.
        * eapply cases_typed_in; eauto.
        * intros en id w' Hi. apply He. simpl. apply in_or_app; right.
          apply in_flat_map. exists (Some x). split; auto.
    - (* label *) simpl in Hv. discriminate.
    - (* call *) simpl in Hv. discriminate.
  Qed.
End Dynamic.
