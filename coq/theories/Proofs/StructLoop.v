(* Proofs/StructLoop.v -- decompile_loop preserves the canonical stream. *)
From TV Require Import Base.I32 Model.Structure Proofs.StructBasics.
Open Scope nat_scope.

(* ------------------------------------------------------------------------------------------ *)
(* list helpers *)

Lemma label_index_from_spec blk l : forall i acc d,
  label_index_from blk l i acc = Some d ->
  acc = Some d \/ exists j, d = i + j /\ nth_error blk j = Some (SLabel l).
Proof.
  induction blk as [|x t IH]; intros i acc d H; cbn in H; [auto|].
  assert (Hgen : forall acc', label_index_from t l (S i) acc' = Some d ->
                 acc' = Some d \/ exists j, d = i + j /\ nth_error (x :: t) j = Some (SLabel l)).
  { intros acc' H'. apply IH in H' as [?|(j & -> & Hj)]; auto. right. exists (S j). split; [lia|exact Hj]. }
  destruct x; try (apply Hgen in H; exact H).
  apply Hgen in H as [H|H]; auto.
  destruct (Nat.eqb l l0) eqn:Hl; auto.
  apply Nat.eqb_eq in Hl; subst l0. inversion H; subst. right. exists 0. split; [lia|reflexivity].
Qed.

Lemma label_index_spec blk l d : label_index blk l = Some d -> nth_error blk d = Some (SLabel l).
Proof.
  intros H. apply label_index_from_spec in H as [H|(j & -> & Hj)]; [discriminate|exact Hj].
Qed.

Lemma find_pos_spec x l : forall i p, find_pos x l i = Some p -> exists q, p = i + q /\ nth_error l q = Some x.
Proof.
  induction l as [|y t IH]; intros i p H; cbn in H; [discriminate|].
  destruct (Nat.eqb x y) eqn:Hxy.
  - apply Nat.eqb_eq in Hxy; subst. inversion H; subst. exists 0. split; [lia|reflexivity].
  - apply IH in H as (q & -> & Hq). exists (S q). split; [lia|exact Hq].
Qed.

Lemma nth_error_split {A} (l : list A) n x :
  nth_error l n = Some x -> l = firstn n l ++ x :: skipn (S n) l.
Proof.
  revert n; induction l as [|y t IH]; intros [|n] H; cbn in *; try discriminate.
  - now inversion H.
  - f_equal. now apply IH.
Qed.

Lemma removelast_snoc {A} (l : list A) x : removelast (l ++ [x]) = l.
Proof. apply removelast_last. Qed.

(* ------------------------------------------------------------------------------------------ *)
(* the key step: a label, a body and a jump back to the label are the same stream as the label and a loop *)

Section Loop.
  Variable N : binop -> option binop.
  Variable C : bool.
  Variable E : env.
  Variable st0 : state.

  Lemma lenv_in_app_label K l R : In (l, adv st0 K) (lenv st0 (K ++ SLabel l :: R)).
  Proof. rewrite lenv_app. apply in_or_app. right. cbn. now left. Qed.

  Lemma loop_step_equiv K l B k brk :
    E l = Some (adv st0 K) -> no_break B = true ->
    let o1 := K ++ SLabel l :: B ++ [SJump None k l None] in
    let o2 := K ++ [SLabel l; SLoop k (SNo :: B ++ [SNo])] in
    adv st0 o2 = adv st0 o1 /\ lenv st0 o2 = lenv st0 o1 /\ sem N C E brk st0 o2 = sem N C E brk st0 o1.
  Proof.
    intros HE Hnb o1 o2. unfold o1, o2.
    autorewrite with struct. cbn [app]. autorewrite with struct.
    split; [reflexivity|]. split; [reflexivity|].
    f_equal. rewrite HE. rewrite (no_break_irrel N C E (Some (real (adv (adv st0 K) B))) brk B Hnb). reflexivity.
  Qed.
End Loop.

(* ------------------------------------------------------------------------------------------ *)
(* the scan *)

Lemma simple_no_break s : simple_s s = true -> no_break_s s = true.
Proof. destruct s; cbn; auto; discriminate. Qed.

Lemma firstn_S_nth {A} (l : list A) n x : nth_error l n = Some x -> firstn (S n) l = firstn n l ++ [x].
Proof.
  revert n; induction l as [|y t IH]; intros [|n] H; cbn in *; try discriminate.
  - now inversion H.
  - f_equal. now apply IH.
Qed.

Lemma no_break_app a b : no_break (a ++ b) = no_break a && no_break b.
Proof. apply forallb_app. Qed.

Lemma simple_no_cnt s : simple_s s = true -> no_cnt_chain_s s = true.
Proof. destruct s; cbn; auto; discriminate. Qed.
Lemma no_cnt_app a b : no_cnt_chain (a ++ b) = no_cnt_chain a && no_cnt_chain b.
Proof. apply forallb_app. Qed.

Section LoopPass.
  Variable N : binop -> option binop.
  Variable C : bool.
  Variable E : env.
  Variable st0 : state.
  Variable G : guards.
  Variable f : list stmt.
  Hypothesis Gdiff : g_diff G = true.
  Hypothesis Gtime : g_loop_time G = true.
  Hypothesis Hflat : is_flat f = true.
  Hypothesis Hcons : consistent E st0 f.

  Record inv (pre : list stmt) (out : list (nat * stmt)) : Prop := {
    inv_adv : adv st0 (map snd out) = adv st0 pre;
    inv_lenv : lenv st0 (map snd out) = lenv st0 pre;
    inv_sem : sem N C E None st0 (map snd out) = sem N C E None st0 pre;
    inv_nb : no_break (map snd out) = true;
    inv_nc : no_cnt_chain (map snd out) = true;
    inv_lab : forall j s l, In (j, s) out -> nth_error f j = Some (SLabel l) -> s = SLabel l }.

  Lemma inv_push pre out s t :
    inv pre out -> f = pre ++ s :: t -> inv (pre ++ [s]) (out ++ [(length pre, s)]).
  Proof.
    intros [Ha Hl Hs Hn Hc Hb] Hf.
    assert (Hnth : nth_error f (length pre) = Some s).
    { rewrite Hf, nth_error_app2, Nat.sub_diag by lia. reflexivity. }
    assert (Hsimple : no_break_s s = true).
    { apply simple_no_break. unfold is_flat in Hflat. rewrite forallb_forall in Hflat. apply Hflat.
      rewrite Hf. apply in_or_app. right. now left. }
    assert (Hsimple' : no_cnt_chain_s s = true).
    { apply simple_no_cnt. unfold is_flat in Hflat. rewrite forallb_forall in Hflat. apply Hflat.
      rewrite Hf. apply in_or_app. right. now left. }
    split.
    - rewrite map_app, !adv_app, Ha. reflexivity.
    - rewrite map_app, !lenv_app, Hl, Ha. reflexivity.
    - rewrite map_app, !sem_app, Hs, Ha. reflexivity.
    - rewrite map_app, no_break_app, Hn. cbn. now rewrite Hsimple.
    - rewrite map_app, no_cnt_app, Hc. cbn. now rewrite Hsimple'.
    - intros j s' l Hin Hj. apply in_app_or in Hin as [Hin|[Heq|[]]]; [eauto|].
      inversion Heq; subst j s'. rewrite Hnth in Hj. now inversion Hj.
  Qed.

  Lemma inv_step pre out s t :
    inv pre out -> f = pre ++ s :: t ->
    inv (pre ++ [s]) (loop_step G (label_index f) (intr_indices f) out (length pre) s).
  Proof.
    intros Hinv Hf. pose proof (inv_push pre out s t Hinv Hf) as Hinv1.
    set (i := length pre) in *. set (out1 := out ++ [(i, s)]) in *.
    unfold loop_step. fold out1.
    destruct (jmp_of G (label_index f) (fun _ => 0) s) as [j|] eqn:Hj; [|exact Hinv1].
    destruct (g_loop_time G && negb (is_none (j_time j))) eqn:Ht; [exact Hinv1|].
    destruct (i <? j_dest j); [exact Hinv1|].
    destruct (find_pos (j_dest j) (map fst out1) 0) as [pos|] eqn:Hpos; [|exact Hinv1].
    destruct (g_loop_intr G && existsb _ (intr_indices f)); [exact Hinv1|].
    (* the jump *)
    unfold jmp_of in Hj. destruct s as [| | | | | d k l tm | | |]; try discriminate.
    rewrite Gdiff in Hj. destruct d as [d|]; [discriminate|]. cbn in Hj.
    destruct (label_index f l) as [dest|] eqn:Hli; [|discriminate].
    inversion Hj; subst j; clear Hj. cbn [j_dest j_time j_kind] in *.
    rewrite Gtime in Ht. destruct tm as [tm|]; [discriminate|]. clear Ht.
    apply label_index_spec in Hli.
    (* the label in the output *)
    apply find_pos_spec in Hpos as (q & -> & Hq). cbn [Nat.add] in *.
    rewrite nth_error_map in Hq. destruct (nth_error out1 q) as [[dj sd]|] eqn:Hout; [|discriminate].
    cbn in Hq. inversion Hq; subst dj; clear Hq.
    assert (sd = SLabel l) by (eapply (inv_lab _ _ Hinv1); eauto using nth_error_In). subst sd.
    pose proof (nth_error_split _ _ _ Hout) as Hsplit.
    set (K' := firstn q out1) in *. set (R := skipn (S q) out1) in *.
    assert (HR : exists R', R = R' ++ [(i, SJump None k l None)]).
    { destruct (exists_last (l := R)) as (R' & r & HR).
      - intros ->. unfold out1 in Hsplit. change (K' ++ [(dest, SLabel l)]) with (K' ++ [(dest, SLabel l)]) in Hsplit.
        apply app_inj_tail in Hsplit as [_ Hx]. discriminate.
      - exists R'. rewrite HR in Hsplit. unfold out1 in Hsplit.
        rewrite app_comm_cons, app_assoc in Hsplit. apply app_inj_tail in Hsplit as [_ Hx]. now rewrite HR, Hx. }
    destruct HR as (R' & HR).
    rewrite (firstn_S_nth _ _ _ Hout). fold K'. rewrite HR.
    rewrite map_app. cbn [map snd]. rewrite removelast_snoc.
    assert (Hmap1 : map snd out1 = map snd K' ++ SLabel l :: map snd R' ++ [SJump None k l None]).
    { rewrite Hsplit, HR, map_app. cbn [map snd]. now rewrite map_app. }
    assert (Hpre : lenv st0 f = lenv st0 (pre ++ [SJump None k l None]) ++ lenv (adv st0 (pre ++ [SJump None k l None])) t).
    { rewrite Hf. change (SJump None k l None :: t) with ([SJump None k l None] ++ t). rewrite app_assoc. apply lenv_app. }
    assert (HE : E l = Some (adv st0 (map snd K'))).
    { apply Hcons. rewrite Hpre. apply in_or_app. left. rewrite <- (inv_lenv _ _ Hinv1), Hmap1. apply lenv_in_app_label. }
    pose proof (inv_nb _ _ Hinv1) as Hnb1. rewrite Hmap1, no_break_app in Hnb1.
    apply andb_true_iff in Hnb1 as [HnbK HnbR]. change (SLabel l :: map snd R' ++ [SJump None k l None])
      with ([SLabel l] ++ map snd R' ++ [SJump None k l None]) in HnbR.
    rewrite !no_break_app in HnbR. apply andb_true_iff in HnbR as [_ HnbR]. apply andb_true_iff in HnbR as [HnbB _].
    pose proof (inv_nc _ _ Hinv1) as Hnc1. rewrite Hmap1, no_cnt_app in Hnc1.
    apply andb_true_iff in Hnc1 as [HncK HncR]. change (SLabel l :: map snd R' ++ [SJump None k l None])
      with ([SLabel l] ++ map snd R' ++ [SJump None k l None]) in HncR.
    rewrite !no_cnt_app in HncR. apply andb_true_iff in HncR as [_ HncR]. apply andb_true_iff in HncR as [HncB _].
    destruct (loop_step_equiv N C E st0 (map snd K') l (map snd R') k None HE HnbB) as (Ea & El & Es).
    assert (Hmap2 : map snd ((K' ++ [(dest, SLabel l)]) ++ [(i, SLoop k (SNo :: map snd R' ++ [SNo]))])
                    = map snd K' ++ [SLabel l; SLoop k (SNo :: map snd R' ++ [SNo])]).
    { rewrite !map_app. cbn [map snd]. now rewrite <- app_assoc. }
    split.
    - rewrite Hmap2, Ea, <- Hmap1. apply (inv_adv _ _ Hinv1).
    - rewrite Hmap2, El, <- Hmap1. apply (inv_lenv _ _ Hinv1).
    - rewrite Hmap2, Es, <- Hmap1. apply (inv_sem _ _ Hinv1).
    - rewrite Hmap2, no_break_app, HnbK. cbn. rewrite andb_true_r.
      unfold no_break in HnbB. rewrite forallb_app, HnbB. reflexivity.
    - rewrite Hmap2, no_cnt_app, HncK. cbn. rewrite andb_true_r.
      unfold no_cnt_chain in HncB. rewrite forallb_app, HncB. reflexivity.
    - intros j s' l' Hin Hj. apply in_app_or in Hin as [Hin|[Heq|[]]].
      + eapply (inv_lab _ _ Hinv1); eauto. rewrite Hsplit. apply in_app_or in Hin as [Hin|[Heq|[]]].
        * apply in_or_app. now left.
        * apply in_or_app. right. left. exact Heq.
      + inversion Heq; subst j s'. exfalso.
        assert (Hnth : nth_error f i = Some (SJump None k l None)).
        { rewrite Hf. unfold i. rewrite nth_error_app2, Nat.sub_diag by lia. reflexivity. }
        rewrite Hnth in Hj. discriminate.
  Qed.

  Lemma loop_go_inv : forall rest pre out,
    f = pre ++ rest -> inv pre out ->
    inv f (loop_go G (label_index f) (intr_indices f) out (length pre) rest).
  Proof.
    induction rest as [|s t IH]; intros pre out Hf Hinv; cbn.
    - rewrite app_nil_r in Hf. now rewrite Hf.
    - replace (S (length pre)) with (length (pre ++ [s])) by (rewrite app_length; cbn; lia).
      apply IH.
      + rewrite <- app_assoc. exact Hf.
      + eapply inv_step; eauto.
  Qed.

  Theorem loop_pass_correct :
    adv st0 (loop_pass G f) = adv st0 f /\
    lenv st0 (loop_pass G f) = lenv st0 f /\
    sem N C E None st0 (loop_pass G f) = sem N C E None st0 f /\
    no_break (loop_pass G f) = true.
  Proof.
    assert (H0 : inv [] []) by (split; try reflexivity; intros j s l []).
    pose proof (loop_go_inv f [] [] eq_refl H0) as [Ha Hl Hs Hn _ _].
    unfold loop_pass. cbn [length] in *. auto.
  Qed.

  Theorem loop_pass_no_cnt : no_cnt_chain (loop_pass G f) = true.
  Proof.
    assert (H0 : inv [] []) by (split; try reflexivity; intros j s l []).
    pose proof (loop_go_inv f [] [] eq_refl H0) as [_ _ _ _ Hc _].
    unfold loop_pass. cbn [length] in *. auto.
  Qed.
End LoopPass.

Theorem loop_pass_canon N C G f :
  g_diff G = true -> g_loop_time G = true -> is_flat f = true -> well_labelled f ->
  well_labelled (loop_pass G f) /\ canon_of N C (loop_pass G f) = canon_of N C f /\ no_break (loop_pass G f) = true.
Proof.
  intros Gd Gt Hflat Hwl.
  destruct (loop_pass_correct N C (lookup (lenv st0 f)) st0 G f Gd Gt Hflat (well_labelled_consistent f Hwl))
    as (Ha & Hl & Hs & Hn).
  repeat split; auto.
  - unfold well_labelled. now rewrite Hl.
  - unfold canon_of. now rewrite Hl, Hs.
Qed.
