(* Proofs/StructLoop.v -- decompile_loop preserves the canonical stream. *)
From TV Require Import Base.I32 Model.Structure Proofs.StructBasics.
Open Scope nat_scope.

(* ------------------------------------------------------------------------------------------ *)
(* list helpers *)

Lemma label_index_from_spec blk l : forall i acc d,
  label_index_from blk l i acc = Some d ->
  acc = Some d \/ exists j, d = i + j /\ nth_error blk j = Some (SLabel l).
Proof.
  induction blk as [|x t IH]; intros i acc d H; cbn in H; [auto|].
  assert (Hgen : forall acc', label_index_from t l (S i) acc' = Some d ->
                 acc' = Some d \/ exists j, d = i + j /\ nth_error (x :: t) j = Some (SLabel l)).
  { intros acc' H'. apply IH in H' as [?|(j & -> & Hj)]; auto. right. exists (S j). split; [lia|exact Hj]. }
  destruct x; try (apply Hgen in H; exact H).
  apply Hgen in H as [H|H]; auto.
  destruct (Nat.eqb l l0) eqn:Hl; auto.
  apply Nat.eqb_eq in Hl; subst l0. inversion H; subst. right. exists 0. split; [lia|reflexivity].
Qed.

Lemma label_index_spec blk l d : label_index blk l = Some d -> nth_error blk d = Some (SLabel l).
Proof.
  intros H. apply label_index_from_spec in H as [H|(j & -> & Hj)]; [discriminate|exact Hj].
Qed.

Lemma find_pos_spec x l : forall i p, find_pos x l i = Some p -> exists q, p = i + q /\ nth_error l q = Some x.
Proof.
  induction l as [|y t IH]; intros i p H; cbn in H; [discriminate|].
  destruct (Nat.eqb x y) eqn:Hxy.
  - apply Nat.eqb_eq in Hxy; subst. inversion H; subst. exists 0. split; [lia|reflexivity].
  - apply IH in H as (q & -> & Hq). exists (S q). split; [lia|exact Hq].
Qed.

Lemma nth_error_split {A} (l : list A) n x :
  nth_error l n = Some x -> l = firstn n l ++ x :: skipn (S n) l.
Proof.
  revert n; induction l as [|y t IH]; intros [|n] H; cbn in *; try discriminate.
  - now inversion H.
  - f_equal. now apply IH.
Qed.

Lemma removelast_snoc {A} (l : list A) x : removelast (l ++ [x]) = l.
Proof. apply removelast_last. Qed.

(* ------------------------------------------------------------------------------------------ *)
(* the key step: a label, a body and a jump back to the label are the same stream as the label and a loop *)

Section Loop.
  Variable N : binop -> option binop.
  Variable E : env.
  Variable st0 : state.

  Lemma lenv_in_app_label K l R : In (l, adv st0 K) (lenv st0 (K ++ SLabel l :: R)).
  Proof. rewrite lenv_app. apply in_or_app. right. cbn. now left. Qed.

  Lemma loop_step_equiv K l B k brk :
    E l = Some (adv st0 K) -> no_break B = true ->
    let o1 := K ++ SLabel l :: B ++ [SJump None k l None] in
    let o2 := K ++ [SLabel l; SLoop k (SNo :: B ++ [SNo])] in
    adv st0 o2 = adv st0 o1 /\ lenv st0 o2 = lenv st0 o1 /\ sem N E brk st0 o2 = sem N E brk st0 o1.
  Proof.
    intros HE Hnb o1 o2. unfold o1, o2.
    autorewrite with struct. cbn [app]. autorewrite with struct.
    split; [reflexivity|]. split; [reflexivity|].
    f_equal. rewrite HE. rewrite (no_break_irrel N E (Some (real (adv (adv st0 K) B))) brk B Hnb). reflexivity.
  Qed.
End Loop.
