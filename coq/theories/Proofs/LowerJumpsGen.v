(* Proofs/LowerJumpsGen.v -- the conditional-jump and ternary theorems instantiated with the
   operator table read from the source. *)
From TV Require Import Base.I32 Base.F32 Model.Ops Model.Expr Model.Lower Model.LowerSem
  Gen.OpTable Proofs.F32Laws Proofs.LowerSound Proofs.LowerGenTable Proofs.LowerJumps.
From Flocq Require Import IEEE754.BinarySingleNaN IEEE754.Binary IEEE754.Bits.
Open Scope Z_scope.

Lemma truthy_b2z c : truthy (VInt (b2z c)) = Ok c.
Proof. destruct c; reflexivity. Qed.

Lemma fcmp_some a b : fis_nan a = false -> fis_nan b = false -> exists c, fcmp a b = Some c.
Proof.
  unfold fis_nan, fcmp, b32_compare. intros Ha Hb.
  destruct (fb a) as [sa|sa|sa pa Ha'|sa ma ea Ha'], (fb b) as [sb|sb|sb pb Hb'|sb mb eb Hb']; try discriminate;
    cbn; eauto.
Qed.

Lemma gen_T_ok2 libm : T_ok2 gen_optable libm.
Proof.
  constructor.
  - intros a b. reflexivity.
  - intros a b. reflexivity.
  - intros a. reflexivity.
  - intros a. reflexivity.
  - intros op op' x y r b Hneg Hx Hy Hr Ht.
    destruct x as [a|a|a], y as [c|c|c]; cbn [binop_eval] in Hr; try discriminate.
    + (* ints *)
      destruct op; cbn in Hneg; inversion Hneg; subst op'; cbn in Hr |- *; inversion Hr; subst r;
        rewrite truthy_b2z in Ht; inversion Ht; subst b; eexists; (split; [reflexivity|]); rewrite truthy_b2z; f_equal;
        first [reflexivity | rewrite Bool.negb_involutive; reflexivity | rewrite Z.leb_antisym; reflexivity | rewrite Z.ltb_antisym; reflexivity].
      (* all: first [reflexivity | rewrite Bool.negb_involutive; reflexivity | rewrite Z.leb_antisym; reflexivity | rewrite Z.ltb_antisym; reflexivity]. *)
    + (* floats *)
      cbn in Hx, Hy. destruct (fcmp_some a c Hx Hy) as [cc Hc].
      destruct op; cbn in Hneg; inversion Hneg; subst op'; cbn in Hr |- *; rewrite Hc in *; inversion Hr; subst r;
        rewrite truthy_b2z in Ht; inversion Ht; subst b; eexists; (split; [reflexivity|]); rewrite truthy_b2z; f_equal;
        destruct cc; reflexivity.
Qed.

Theorem cond_jump_correct_gen :
  forall libm avail auto_casts rty lty diff time mask fuel k e l jt s code s' m b,
  (forall op t, sigil_of_unop op <> None -> avail (KUnOp op t) = false) ->
  lower avail auto_casts rty lty time mask fuel (CCondNonCount k e l jt) s = Ok (code, s') ->
  wt_cond rty lty (te s) e = true -> locals_below (g s) e = true -> label_ok l (g s) ->
  nonan gen_optable libm rty lty diff (te s) m e -> fresh lty m (g s) ->
  cond_s gen_optable libm rty lty diff (te s) m e = Ok b ->
  run_fwd gen_optable libm lty code Exec m None =
    Ok (if xorb b (is_unless k) then RJump l jt m else RFall m).
Proof.
  intros libm avail auto_casts rty lty diff time mask fuel k e l jt s code s' m b Hns Hl Hw Hb Hlab Hnn Hf Hc.
  destruct (cond_sound gen_optable libm avail auto_casts rty lty diff time mask Hns (gen_T_ok libm) (gen_T_ok2 libm) fuel
              _ _ _ _ Hl m (xorb b (is_unless k))) as [Hrun _].
  - cbn. auto.
  - exact Hf.
  - cbn. rewrite Hc. reflexivity.
  - destruct (Hrun [] None) as [cmp' Hr]. rewrite app_nil_r in Hr. rewrite Hr.
    unfold after. cbn. destruct (xorb b (is_unless k)); reflexivity.
Qed.

Theorem ternary_assign_correct_gen :
  forall libm avail auto_casts rty lty diff time mask fuel v e s code s' m m',
  (forall op t, sigil_of_unop op <> None -> avail (KUnOp op t) = false) ->
  lower avail auto_casts rty lty time mask fuel (CAssignOp v None e) s = Ok (code, s') ->
  wt_tern rty lty (te s) e = true -> locals_below (g s) e = true -> var_below (g s) v ->
  nonan_t gen_optable libm rty lty diff (te s) m e -> fresh lty m (g s) ->
  assign_s gen_optable libm rty lty diff (te s) m v None e = Ok m' ->
  run_fwd gen_optable libm lty code Exec m None = Ok (RFall m').
Proof.
  intros libm avail auto_casts rty lty diff time mask fuel v e s code s' m m' Hns Hl Hw Hb Hv Hnn Hf Hs.
  destruct (tern_sound gen_optable libm avail auto_casts rty lty diff time mask Hns (gen_T_ok libm) (gen_T_ok2 libm) fuel
              (CAssignOp v None e) s code s' v e Hl eq_refl m m' Hw Hb Hv Hnn Hf Hs) as [Hrun _].
  destruct (Hrun [] None) as [cmp' Hr]. rewrite app_nil_r in Hr. rewrite Hr. reflexivity.
Qed.

Theorem count_jump_correct_gen :
  forall libm avail rty lty diff time mask k v op l jt s code s' m n,
  (forall op t, sigil_of_unop op <> None -> avail (KUnOp op t) = false) ->
  lower_count_jump avail rty lty time mask k v op l jt s = Ok (code, s') ->
  label_ok l (g s) ->
  eval_s gen_optable libm rty lty diff (te s) m (var_expr v) = Ok (VInt n) ->
  run_fwd gen_optable libm lty code Exec m None =
    Ok (if xorb (count_taken op (wrap32 (n - 1))) (is_unless k)
        then RJump l jt (update m (v_id v) (VInt (wrap32 (n - 1))))
        else RFall (update m (v_id v) (VInt (wrap32 (n - 1))))).
Proof.
  intros libm avail rty lty diff time mask k v op l jt s code s' m n Hns Hl Hlab Hv.
  pose proof (count_jump_sound gen_optable libm avail rty lty diff time mask Hns k v op l jt s code s' m n Hl Hlab Hv [] None) as H.
  rewrite app_nil_r in H. rewrite H. destruct (xorb _ _); reflexivity.
Qed.
