(* Proofs/ContainerLE.v -- little-endian codec and integer cast lemmas for the container model. *)
From TV Require Import Base.I32 Model.Container.
Open Scope Z_scope.

(* ---- little endian ---------------------------------------------------------------------- *)
Lemma le_decode_encode n v : le_decode (le_encode n v) = v mod 2 ^ (8 * Z.of_nat n).
Proof.
  revert v. induction n as [|k IH]; intro v.
  - cbn [le_encode le_decode]. change (2 ^ (8 * Z.of_nat 0)) with 1. now rewrite Z.mod_1_r.
  - cbn [le_encode le_decode]. rewrite IH.
    replace (8 * Z.of_nat (S k)) with (8 + 8 * Z.of_nat k) by lia.
    rewrite Z.pow_add_r by lia. change (2 ^ 8) with 256.
    assert (Hp : 0 < 2 ^ (8 * Z.of_nat k)) by (apply Z.pow_pos_nonneg; lia).
    rewrite Z.rem_mul_r by lia. reflexivity.
Qed.

Lemma le_encode_length n v : length (le_encode n v) = n.
Proof. revert v. induction n as [|k IH]; intro v; cbn [le_encode length]; [reflexivity|now rewrite IH]. Qed.

Lemma le_encode_bytes n v : Forall (fun b => 0 <= b < 256) (le_encode n v).
Proof.
  revert v. induction n as [|k IH]; intro v; cbn [le_encode]; constructor; [|apply IH].
  apply Z.mod_pos_bound. lia.
Qed.

(* ---- take ------------------------------------------------------------------------------- *)
Lemma take_app a r : take (length a) (a ++ r) = Some (a, r).
Proof. induction a as [|x a IH]; cbn [take length app]; [reflexivity|now rewrite IH]. Qed.

Lemma take_mono n bs a r rest : take n bs = Some (a, r) -> take n (bs ++ rest) = Some (a, r ++ rest).
Proof.
  revert bs a r. induction n as [|k IH]; intros bs a r H; cbn [take] in *.
  - inversion H; subst. reflexivity.
  - destruct bs as [|b t]; [discriminate|]. cbn [app].
    destruct (take k t) as [[a' r']|] eqn:E; [|discriminate].
    inversion H; subst. now rewrite (IH _ _ _ E).
Qed.

Lemma take_length n bs a r : take n bs = Some (a, r) -> bs = a ++ r /\ length a = n.
Proof.
  revert bs a r. induction n as [|k IH]; intros bs a r H; cbn [take] in *.
  - inversion H; subst. split; reflexivity.
  - destruct bs as [|b t]; [discriminate|].
    destruct (take k t) as [[a' r']|] eqn:E; [|discriminate].
    inversion H; subst. destruct (IH _ _ _ E) as [-> <-]. split; reflexivity.
Qed.

(* ---- integer types: closed forms -------------------------------------------------------- *)
Definition ity_M (t : ity) : Z :=
  match t with I8 | U8 => 256 | I16 | U16 => 65536 | I32 | U32 => 4294967296 | U64 => 18446744073709551616 end.
Definition ity_off (t : ity) : Z :=
  match t with I8 => 128 | I16 => 32768 | I32 => 2147483648 | _ => 0 end.

Lemma cast_eq t v : cast t v = (v + ity_off t) mod ity_M t - ity_off t.
Proof.
  destruct t; unfold cast, ity_signed, swrap, uwrap; cbn [ity_off ity_M];
    rewrite ?Z.add_0_r, ?Z.sub_0_r; reflexivity.
Qed.
Lemma ity_lo_eq t : ity_lo t = - ity_off t.
Proof. destruct t; reflexivity. Qed.
Lemma ity_hi_eq t : ity_hi t = ity_M t - ity_off t - 1.
Proof. destruct t; reflexivity. Qed.
Lemma ity_M_eq t : 2 ^ (8 * Z.of_nat (ity_bytes t)) = ity_M t.
Proof. destruct t; reflexivity. Qed.
Lemma ity_bits_eq t : ity_bits t = match t with I8 | U8 => 8 | I16 | U16 => 16 | I32 | U32 => 32 | U64 => 64 end.
Proof. destruct t; reflexivity. Qed.

Lemma in_rangeb_spec t v : in_rangeb t v = true <-> in_range t v.
Proof. unfold in_rangeb, in_range. rewrite andb_true_iff, !Z.leb_le. tauto. Qed.

Ltac ity_norm :=
  unfold in_range in *; rewrite ?cast_eq, ?ity_lo_eq, ?ity_hi_eq in *; cbn [ity_M ity_off] in *.

Lemma cast_id t v : in_range t v -> cast t v = v.
Proof. intro H. destruct t; ity_norm; lia. Qed.

Lemma cast_in_range t v : in_range t (cast t v).
Proof. destruct t; ity_norm; lia. Qed.

(* reinterpreting the low bytes: what is decoded from the bytes encoded for v is [cast t v] *)
Lemma cast_decode_encode t v : cast t (le_decode (le_encode (ity_bytes t) v)) = cast t v.
Proof.
  rewrite le_decode_encode, ity_M_eq, !cast_eq.
  destruct t; cbn [ity_M ity_off]; lia.
Qed.

Lemma cast_fix_in_range t v : cast t v = v -> in_range t v.
Proof. intro H. rewrite <- H. apply cast_in_range. Qed.

Lemma sub_range_spec a b v : sub_range a b = true -> in_range a v -> in_range b v.
Proof.
  unfold sub_range, in_range. rewrite andb_true_iff, !Z.leb_le. lia.
Qed.

Lemma meet_sub_spec a b c d v : meet_sub a b c d = true -> in_range a v -> in_range b v -> in_range c v /\ in_range d v.
Proof. unfold meet_sub, in_range. rewrite andb_true_iff, !Z.leb_le. lia. Qed.

Lemma ity_eqb_eq a b : ity_eqb a b = true -> a = b.
Proof. destruct a, b; cbn; congruence. Qed.

(* (B) a field of type m that travels through an on-disk type at least as wide comes back unchanged *)
Lemma cast_cast_wide m d v : ity_bits m <=? ity_bits d = true -> in_range m v -> cast m (cast d v) = v.
Proof.
  rewrite Z.leb_le, !ity_bits_eq. intros Hb Hr.
  destruct m, d; try (exfalso; lia); clear Hb; ity_norm; lia.
Qed.

Lemma nat_bytes_eq a b v : Nat.eqb (ity_bytes a) (ity_bytes b) = true ->
  le_encode (ity_bytes a) v = le_encode (ity_bytes b) v.
Proof. rewrite Nat.eqb_eq. now intros ->. Qed.
