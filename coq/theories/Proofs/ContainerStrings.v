(* Proofs/ContainerStrings.v -- the string lists of stack-ECL files read back. *)
From TV Require Import Base.I32 Model.Container Proofs.ContainerLE.
Open Scope Z_scope.

Definition no_nul (s : list Z) : Prop := Forall (fun b => b <> 0) s.

Lemma read_cstring_app s rest : no_nul s -> read_cstring (s ++ 0 :: rest) = Some (s, rest).
Proof.
  induction 1 as [|b t Hb Ht IH]; cbn [app read_cstring].
  - reflexivity.
  - destruct (Z.eqb_spec b 0); [contradiction|]. now rewrite IH.
Qed.

Lemma read_strings_app ss rest : Forall no_nul ss ->
  read_strings (length ss) (write_strings ss ++ rest) = Some (ss, rest).
Proof.
  induction 1 as [|s t Hs Ht IH]; cbn [length read_strings write_strings app]; [reflexivity|].
  rewrite <- app_assoc. cbn [app]. rewrite (read_cstring_app _ _ Hs), IH. reflexivity.
Qed.

Lemma take_repeat0 n rest : take n (repeat 0 n ++ rest) = Some (repeat 0 n, rest).
Proof. rewrite <- (repeat_length 0 n) at 1. apply take_app. Qed.

(* the file is aligned: a list is a multiple of four bytes long *)
Lemma pad4_aligns n : 0 <= n -> (n + pad4 n) mod 4 = 0 /\ 0 <= pad4 n < 4.
Proof. intro H. unfold pad4. destruct (Z.eqb_spec (n mod 4) 0); lia. Qed.

Theorem string_list_readback ss rest : Forall no_nul ss ->
  read_string_list (length ss) (write_string_list ss ++ rest) = Some (ss, rest).
Proof.
  intro H. unfold read_string_list, write_string_list.
  rewrite <- app_assoc, (read_strings_app _ _ H), take_repeat0. reflexivity.
Qed.

Lemma write_strings_length ss : Z.of_nat (length (write_strings ss)) = strings_len ss.
Proof.
  induction ss as [|s t IH]; cbn [write_strings strings_len length]; [reflexivity|].
  rewrite app_length. cbn [length]. lia.
Qed.

Theorem string_list_aligned ss : Z.of_nat (length (write_string_list ss)) mod 4 = 0.
Proof.
  unfold write_string_list. rewrite app_length, repeat_length, Nat2Z.inj_add, write_strings_length.
  assert (H0 : 0 <= strings_len ss) by (rewrite <- write_strings_length; lia).
  destruct (pad4_aligns _ H0) as [Ha Hb]. rewrite Z2Nat.id by lia. exact Ha.
Qed.
