(* Proofs/FmtLexP.v -- the lexer specification on printed text: every token the formatter writes
   is read back as that token whenever the character after it cannot extend it ([safe]); lifted
   to whole outputs: [ok_seq its = true -> lex (concat_text its) = Ok (otoks its)]. *)
From TV Require Import Base.I32 Model.Fmt Model.FmtLex Model.FmtParse Spec.Fmt Proofs.FmtLits.
Open Scope Z_scope.

Definition nofollow (p : ascii -> bool) (rest : string) : Prop :=
  match rest with EmptyString => True | String c _ => p c = false end.

Lemma span_app p a rest : all_chars p a = true -> nofollow p rest -> span p (a ^^ rest) = (a, rest).
Proof.
  intros Ha Hr. induction a as [|c a IH].
  - cbn. destruct rest as [|c r]; [reflexivity|]. cbn in Hr. cbn. rewrite Hr. reflexivity.
  - cbn in Ha. apply andb_true_iff in Ha as [Hc Ha]. cbn. rewrite Hc, (IH Ha). reflexivity.
Qed.

Lemma drop_app t rest : drop (String.length t) (t ^^ rest) = rest.
Proof. induction t as [|c t IH]; [destruct rest; reflexivity|]. cbn. exact IH. Qed.

(* ---------------------------------------------------------------------------------------- *)
(* prefixes and longest_fixed *)

Lemma prefixb_app t x : prefixb t (t ^^ x) = true.
Proof. induction t as [|c t IH]; [reflexivity|]. cbn. rewrite Ascii.eqb_refl, IH. reflexivity. Qed.

Lemma prefixb_length a s : prefixb a s = true -> (String.length a <= String.length s)%nat.
Proof.
  revert s. induction a as [|c a IH]; intros s H; [cbn; lia|].
  destruct s as [|d s]; [discriminate|]. cbn in H. apply andb_true_iff in H as [_ H]. cbn. apply IH in H. lia.
Qed.

Lemma prefix_both a b s : prefixb a s = true -> prefixb b s = true ->
  (String.length a <= String.length b)%nat -> prefixb a b = true.
Proof.
  revert b s. induction a as [|c a IH]; intros b s Ha Hb Hl; [reflexivity|].
  destruct s as [|d s]; [discriminate|].
  destruct b as [|e b]; [cbn in Hl; lia|].
  cbn in *. apply andb_true_iff in Ha as [Ha1 Ha2]. apply andb_true_iff in Hb as [Hb1 Hb2].
  apply Ascii.eqb_eq in Ha1, Hb1. subst. rewrite Ascii.eqb_refl. cbn. eapply IH; eauto. lia.
Qed.

Lemma prefix_eq a b : prefixb a b = true -> String.length a = String.length b -> a = b.
Proof.
  revert b. induction a as [|c a IH]; intros b H Hl.
  - destruct b; [reflexivity|discriminate].
  - destruct b as [|d b]; [discriminate|]. cbn in *. apply andb_true_iff in H as [H1 H2].
    apply Ascii.eqb_eq in H1. subst. f_equal. apply IH; [exact H2|lia].
Qed.

Lemma longest_fixed_spec toks s :
  match longest_fixed toks s with
  | Some r => In r toks /\ prefixb r s = true
              /\ forall t', In t' toks -> prefixb t' s = true -> (String.length t' <= String.length r)%nat
  | None => forall t', In t' toks -> prefixb t' s = false
  end.
Proof.
  induction toks as [|t toks IH]; cbn [longest_fixed].
  - intros t' [].
  - destruct (prefixb t s) eqn:Ep.
    + destruct (longest_fixed toks s) as [b|].
      * destruct IH as (Hin & Hp & Hmax).
        destruct (Nat.ltb (String.length t) (String.length b)) eqn:El.
        -- apply Nat.ltb_lt in El. split; [right; exact Hin|]. split; [exact Hp|].
           intros t' [<-|Ht'] Hp'; [lia|apply Hmax; assumption].
        -- apply Nat.ltb_ge in El. split; [left; reflexivity|]. split; [exact Ep|].
           intros t' [<-|Ht'] Hp'; [lia|]. specialize (Hmax t' Ht' Hp'). lia.
      * split; [left; reflexivity|]. split; [exact Ep|].
        intros t' [<-|Ht'] Hp'; [lia|]. rewrite (IH t' Ht') in Hp'. discriminate.
    + destruct (longest_fixed toks s) as [b|].
      * destruct IH as (Hin & Hp & Hmax). split; [right; exact Hin|]. split; [exact Hp|].
        intros t' [<-|Ht'] Hp'; [congruence|apply Hmax; assumption].
      * intros t' [<-|Ht']; [exact Ep|apply IH; exact Ht'].
Qed.

(* no fixed token continues [t] with the character [c] *)
Definition noext (t : string) (nc : option ascii) : bool :=
  match nc with
  | Some c => negb (existsb (fun t' => prefixb (t ^^ str1 c) t') puncts)
  | None => true
  end.

Lemma length_append a b : String.length (a ^^ b) = (String.length a + String.length b)%nat.
Proof. induction a as [|c a IH]; cbn; [reflexivity|]. rewrite IH. reflexivity. Qed.

Lemma longest_fixed_punct t rest :
  In t puncts -> noext t (nextc rest) = true -> longest_fixed puncts (t ^^ rest) = Some t.
Proof.
  intros Hin Hne.
  pose proof (longest_fixed_spec puncts (t ^^ rest)) as H.
  destruct (longest_fixed puncts (t ^^ rest)) as [r|].
  - destruct H as (Hr & Hp & Hmax). f_equal.
    pose proof (Hmax t Hin (prefixb_app t rest)) as Hle.
    assert (Hlen : String.length r = String.length t).
    { destruct (Nat.eq_dec (String.length r) (String.length t)) as [E|E]; [exact E|exfalso].
      destruct rest as [|c rest'].
      - rewrite append_nil_r in Hp. apply prefixb_length in Hp. lia.
      - unfold noext, nextc in Hne. apply negb_true_iff in Hne.
        assert (Hx : existsb (fun t' => prefixb (t ^^ str1 c) t') puncts = true).
        { apply existsb_exists. exists r. split; [exact Hr|].
          apply (prefix_both _ _ (t ^^ String c rest')).
          - change (String c rest') with (str1 c ^^ rest'). rewrite <- append_assoc. apply prefixb_app.
          - exact Hp.
          - rewrite length_append. cbn. lia. }
        rewrite Hx in Hne. discriminate. }
    apply prefix_eq; [|exact Hlen].
    apply (prefix_both _ _ (t ^^ rest)); [exact Hp|apply prefixb_app|lia].
  - pose proof (H t Hin) as H1. rewrite prefixb_app in H1. discriminate.
Qed.

(* ---------------------------------------------------------------------------------------- *)
(* character-class facts, by enumeration of the 256 characters *)

Ltac ascii_cases c := destruct c as [[] [] [] [] [] [] [] []]; cbn in *; try discriminate; try reflexivity.

Lemma ident_start_facts c : is_ident_start c = true ->
  is_digit c = false /\ is_ws c = false /\ Ascii.eqb c "/" = false /\ Ascii.eqb c """" = false /\ is_ident_char c = true.
Proof. intros H. ascii_cases c; repeat split; reflexivity. Qed.

Lemma digit_facts c : is_digit c = true ->
  is_ident_start c = false /\ is_ws c = false /\ Ascii.eqb c "/" = false /\ is_hex c = true /\ is_ident_char c = true.
Proof. intros H. ascii_cases c; repeat split; reflexivity. Qed.

Lemma not_hex_facts c : is_hex c = false -> is_digit c = false /\ is_f c = false /\ is_b c = false /\ is_bin c = false.
Proof. intros H. ascii_cases c; repeat split; reflexivity. Qed.

Lemma rdigit10 c : is_rdigit 10 c = true -> is_digit c = true.
Proof. intros H. ascii_cases c. Qed.
Lemma rdigit16 c : is_rdigit 16 c = true -> is_hex c = true.
Proof. intros H. ascii_cases c. Qed.
Lemma rdigit2 c : is_rdigit 2 c = true -> is_bin c = true.
Proof. intros H. ascii_cases c. Qed.
Lemma bin_digit c : is_bin c = true -> is_digit c = true.
Proof. intros H. ascii_cases c. Qed.

Lemma all_chars_impl (p q : ascii -> bool) s :
  (forall c, p c = true -> q c = true) -> all_chars p s = true -> all_chars q s = true.
Proof.
  intros Hpq. induction s as [|c s IH]; [reflexivity|]. cbn. intros H.
  apply andb_true_iff in H as [H1 H2]. rewrite (Hpq c H1), (IH H2). reflexivity.
Qed.

Lemma mem_str_In s l : mem_str s l = true -> In s l.
Proof.
  induction l as [|x l IH]; [discriminate|]. cbn. intros H. apply orb_true_iff in H as [H|H].
  - left. symmetry. apply String.eqb_eq. exact H.
  - right. apply IH. exact H.
Qed.

(* ---------------------------------------------------------------------------------------- *)
(* fixed punctuation tokens *)

Definition punct_first_ok (t : string) : bool :=
  match t with
  | String c t' => negb (is_ident_start c) && negb (is_digit c) && negb (Ascii.eqb c """") && negb (is_ws c)
                   && (negb (Ascii.eqb c "!") || String.eqb t' "" || String.eqb t' "=")
                   && (negb (Ascii.eqb c "/") || String.eqb t' "" || String.eqb t' "=")
  | EmptyString => false
  end.

Lemma puncts_first : forallb punct_first_ok puncts = true.
Proof. vm_compute. reflexivity. Qed.

Lemma punct_first_facts c t' : punct_first_ok (String c t') = true ->
  is_ident_start c = false /\ is_digit c = false /\ Ascii.eqb c """" = false /\ is_ws c = false
  /\ (c = "!"%char -> t' = EmptyString \/ t' = "="%string)
  /\ (c = "/"%char -> t' = EmptyString \/ t' = "="%string).
Proof.
  cbn [punct_first_ok]. intros H.
  apply andb_true_iff in H as [H H6]. apply andb_true_iff in H as [H H5].
  apply andb_true_iff in H as [H H4]. apply andb_true_iff in H as [H H3].
  apply andb_true_iff in H as [H1 H2].
  apply negb_true_iff in H1, H2, H3, H4.
  repeat split; auto.
  - intros ->. cbn in H5. apply orb_true_iff in H5 as [H5|H5]; apply String.eqb_eq in H5; auto.
  - intros ->. cbn in H6. apply orb_true_iff in H6 as [H6|H6]; apply String.eqb_eq in H6; auto.
Qed.

Definition safe_punct (t : string) (nc : option ascii) : bool :=
  mem_str t puncts && noext t nc
  && match nc with
     | Some c => (negb (String.eqb t "!") || negb (is_diff_char c))
                 && (negb (String.eqb t "/") || negb (Ascii.eqb c "/" || Ascii.eqb c "*"))
     | None => true
     end.

Lemma lex1_punct t rest : safe_punct t (nextc rest) = true ->
  lex1 (t ^^ rest) = Some (TFix t, rest) /\ skip MNormal (t ^^ rest) = Ok (t ^^ rest) /\ t <> EmptyString.
Proof.
  unfold safe_punct. intros H.
  apply andb_true_iff in H as [H H3]. apply andb_true_iff in H as [H1 H2].
  apply mem_str_In in H1.
  pose proof puncts_first as Hf. rewrite forallb_forall in Hf. specialize (Hf t H1).
  destruct t as [|c t']; [discriminate|].
  apply punct_first_facts in Hf as (F1 & F2 & F3 & F4 & F5 & F6).
  split; [|split; [|discriminate]].
  - unfold lex1. cbn [String.append]. rewrite F1, F2, F3.
    assert (Hbang : (Ascii.eqb c "!" && match t' ^^ rest with String c2 _ => is_diff_char c2 | EmptyString => false end) = false).
    { destruct (Ascii.eqb c "!") eqn:Ec; [|reflexivity]. cbn [andb].
      apply Ascii.eqb_eq in Ec. destruct (F5 Ec) as [->| ->].
      - cbn [String.append]. subst c.
        destruct rest as [|c2 r]; [reflexivity|]. cbn [nextc] in H3.
        apply andb_true_iff in H3 as [H3 _]. cbn in H3. apply negb_true_iff in H3. exact H3.
      - reflexivity. }
    rewrite Hbang.
    change (String c (t' ^^ rest)) with (String c t' ^^ rest).
    rewrite (longest_fixed_punct _ _ H1 H2). rewrite drop_app. reflexivity.
  - cbn [String.append skip]. rewrite F4.
    destruct (Ascii.eqb c "/") eqn:Ec; [|reflexivity].
    apply Ascii.eqb_eq in Ec. destruct (F6 Ec) as [->| ->].
    + cbn [String.append]. subst c.
      destruct rest as [|c2 r]; [reflexivity|]. cbn [nextc] in H3.
      apply andb_true_iff in H3 as [_ H3]. cbn in H3. apply negb_true_iff in H3. apply orb_false_iff in H3 as [Ha Hb].
      apply Ascii.eqb_neq in Ha, Hb.
      destruct c2 as [[] [] [] [] [] [] [] []]; try reflexivity; congruence.
    + subst c. reflexivity.
Qed.

(* ---------------------------------------------------------------------------------------- *)
(* words: keywords, identifiers, ins_N *)

Definition is_word (w : string) : bool :=
  match w with String c _ => is_ident_start c && all_chars is_ident_char w | EmptyString => false end.

Definition safe_word (w : string) (nc : option ascii) : bool :=
  is_word w && match nc with
               | Some c => negb (is_ident_char c) && (negb (String.eqb w "rad") || negb (Ascii.eqb c "("))
               | None => true
               end.

Lemma rad_tail_no rest : match nextc rest with Some c => Ascii.eqb c "(" = false | None => True end -> rad_tail rest = RadNo.
Proof.
  destruct rest as [|c r]; [reflexivity|]. cbn [nextc]. intros H.
  destruct c as [[] [] [] [] [] [] [] []]; try reflexivity. discriminate.
Qed.

Lemma lex1_word w rest : safe_word w (nextc rest) = true ->
  lex1 (w ^^ rest) = Some (word_tok w, rest) /\ skip MNormal (w ^^ rest) = Ok (w ^^ rest) /\ w <> EmptyString.
Proof.
  unfold safe_word. intros H. apply andb_true_iff in H as [Hw Hn].
  destruct w as [|c w']; [discriminate|]. cbn [is_word] in Hw. apply andb_true_iff in Hw as [Hc Hall].
  destruct (ident_start_facts c Hc) as (F1 & F2 & F3 & F4 & F5).
  assert (Hnf : nofollow is_ident_char rest).
  { destruct rest as [|c2 r]; [exact I|]. cbn in *. apply andb_true_iff in Hn as [Hn _]. apply negb_true_iff in Hn. exact Hn. }
  split; [|split; [|discriminate]].
  - unfold lex1. cbn [String.append]. rewrite Hc.
    change (String c (w' ^^ rest)) with (String c w' ^^ rest).
    rewrite (span_app _ _ _ Hall Hnf).
    destruct (String.eqb (String c w') "rad") eqn:Er; [|reflexivity].
    rewrite rad_tail_no; [reflexivity|].
    destruct rest as [|c2 r]; [exact I|]. cbn [nextc] in *.
    apply andb_true_iff in Hn as [_ Hn]. cbn in Hn. apply negb_true_iff in Hn. exact Hn.
  - cbn [String.append skip]. rewrite F2, F3. reflexivity.
Qed.

(* ---------------------------------------------------------------------------------------- *)
(* numbers *)

Definition int_shape (s : string) : bool :=
  (negb (String.eqb s "") && all_chars is_digit s)
  || match s with
     | String "0" (String "x" h) => negb (String.eqb h "") && all_chars is_hex h
     | String "0" (String "b" h) => negb (String.eqb h "") && all_chars is_bin h
     | _ => false
     end.

Definition safe_int (s : string) (nc : option ascii) : bool :=
  int_shape s && match nc with
                 | Some c => negb (is_hex c || Ascii.eqb c "." || is_x c)
                 | None => true
                 end.

Lemma first_digit_start s rest c0 s' : s = String c0 s' -> is_digit c0 = true ->
  forall t r, lex_number (s ^^ rest) = (t, r) ->
  lex1 (s ^^ rest) = Some (t, r) /\ skip MNormal (s ^^ rest) = Ok (s ^^ rest).
Proof.
  intros -> Hd t r Hl. destruct (digit_facts c0 Hd) as (F1 & F2 & F3 & F4 & F5).
  split.
  - unfold lex1. cbn [String.append]. rewrite F1, Hd. cbn [String.append] in Hl. rewrite Hl. reflexivity.
  - cbn [String.append skip]. rewrite F2, F3. reflexivity.
Qed.

Lemma lex_number_dec d rest : d <> EmptyString -> all_chars is_digit d = true ->
  match nextc rest with Some c => (is_hex c || Ascii.eqb c "." || is_x c) = false | None => True end ->
  lex_number (d ^^ rest) = (TInt d, rest).
Proof.
  intros Hne Hall Hn. unfold lex_number.
  assert (Hnf : nofollow is_digit rest).
  { destruct rest as [|c r]; [exact I|]. cbn in *. apply orb_false_iff in Hn as [Hn _]. apply orb_false_iff in Hn as [Hn _].
    apply not_hex_facts in Hn. apply Hn. }
  rewrite (span_app _ _ _ Hall Hnf).
  destruct rest as [|c r]; [reflexivity|]. cbn [nextc] in Hn.
  apply orb_false_iff in Hn as [Hn Hx]. apply orb_false_iff in Hn as [Hh Hdot].
  destruct (not_hex_facts c Hh) as (_ & Hf & Hb & _).
  rewrite Hf, Hdot, Hx, Hb, !andb_false_r. reflexivity.
Qed.

Lemma lex_number_hex h rest : h <> EmptyString -> all_chars is_hex h = true ->
  match nextc rest with Some c => is_hex c = false | None => True end ->
  lex_number ("0x" ^^ h ^^ rest) = (TInt ("0x" ^^ h), rest).
Proof.
  intros Hne Hall Hn. unfold lex_number. cbn [String.append span]. 
  change (is_digit "0") with true. change (is_digit "x") with false. cbn iota.
  change (is_f "x") with false. change (Ascii.eqb "x" ".") with false. cbn iota.
  change (String.eqb "0" "0" && is_x "x") with true. cbn iota.
  assert (Hnf : nofollow is_hex rest) by (destruct rest; [exact I|exact Hn]).
  rewrite (span_app _ _ _ Hall Hnf).
  destruct h as [|c h]; [congruence|]. reflexivity.
Qed.

Lemma lex_number_bin h rest : h <> EmptyString -> all_chars is_bin h = true ->
  match nextc rest with Some c => is_hex c = false | None => True end ->
  lex_number ("0b" ^^ h ^^ rest) = (TInt ("0b" ^^ h), rest).
Proof.
  intros Hne Hall Hn. unfold lex_number. cbn [String.append span].
  change (is_digit "0") with true. change (is_digit "b") with false. cbn iota.
  change (is_f "b") with false. change (Ascii.eqb "b" ".") with false. cbn iota.
  change (String.eqb "0" "0" && is_x "b") with false. change (String.eqb "0" "0" && is_b "b") with true. cbn iota.
  assert (Hnf : nofollow is_bin rest).
  { destruct rest as [|c r]; [exact I|]. cbn in *. apply not_hex_facts in Hn. apply Hn. }
  rewrite (span_app _ _ _ Hall Hnf).
  destruct h as [|c h]; [congruence|]. reflexivity.
Qed.

Lemma lex1_int s rest : safe_int s (nextc rest) = true ->
  lex1 (s ^^ rest) = Some (TInt s, rest) /\ skip MNormal (s ^^ rest) = Ok (s ^^ rest) /\ s <> EmptyString.
Proof.
  unfold safe_int. intros H. apply andb_true_iff in H as [Hs Hn].
  assert (Hn' : match nextc rest with Some c => (is_hex c || Ascii.eqb c "." || is_x c) = false | None => True end).
  { destruct (nextc rest); [apply negb_true_iff in Hn; exact Hn|exact I]. }
  assert (Hn'' : match nextc rest with Some c => is_hex c = false | None => True end).
  { destruct (nextc rest); [|exact I]. apply orb_false_iff in Hn' as [Hn' _]. apply orb_false_iff in Hn' as [Hn' _]. exact Hn'. }
  unfold int_shape in Hs. apply orb_true_iff in Hs as [Hs|Hs].
  - apply andb_true_iff in Hs as [Hne Hall]. apply negb_true_iff in Hne.
    destruct s as [|c0 s']; [discriminate|].
    assert (Hd : is_digit c0 = true) by (cbn in Hall; apply andb_true_iff in Hall; apply Hall).
    destruct (first_digit_start (String c0 s') rest c0 s' eq_refl Hd (TInt (String c0 s')) rest) as [H1 H2].
    { apply lex_number_dec; [discriminate|exact Hall|exact Hn']. }
    split; [exact H1|split; [exact H2|discriminate]].
  - destruct s as [|c0 s']; [discriminate|].
    destruct c0 as [[] [] [] [] [] [] [] []]; try discriminate.
    destruct s' as [|c1 h]; [discriminate|].
    destruct c1 as [[] [] [] [] [] [] [] []]; try discriminate.
    + (* 0b *)
      apply andb_true_iff in Hs as [Hne Hall]. apply negb_true_iff in Hne.
      assert (Hh : h <> EmptyString) by (intros ->; discriminate).
      destruct (first_digit_start ("0b" ^^ h) rest "0"%char ("b" ^^ h) eq_refl eq_refl (TInt ("0b" ^^ h)) rest) as [H1 H2].
      { rewrite append_assoc. apply lex_number_bin; assumption. }
      split; [exact H1|split; [exact H2|discriminate]].
    + (* 0x *)
      apply andb_true_iff in Hs as [Hne Hall]. apply negb_true_iff in Hne.
      assert (Hh : h <> EmptyString) by (intros ->; discriminate).
      destruct (first_digit_start ("0x" ^^ h) rest "0"%char ("x" ^^ h) eq_refl eq_refl (TInt ("0x" ^^ h)) rest) as [H1 H2].
      { rewrite append_assoc. apply lex_number_hex; assumption. }
      split; [exact H1|split; [exact H2|discriminate]].
Qed.

(* floats as the formatter writes them: digits "." digits *)
Definition float_shape (s : string) : bool :=
  let (d1, r) := span is_digit s in
  negb (String.eqb d1 "") && match r with
                             | String "." d2 => negb (String.eqb d2 "") && all_chars is_digit d2
                             | _ => false
                             end.

Definition safe_float (s : string) (nc : option ascii) : bool :=
  float_shape s && match nc with Some c => negb (is_digit c || is_f c) | None => true end.

Lemma span_spec p s : let (a, b) := span p s in s = a ^^ b /\ all_chars p a = true /\ nofollow p b.
Proof.
  induction s as [|c s IH]; [cbn; auto|].
  cbn [span]. destruct (p c) eqn:E.
  - destruct (span p s) as [a b]. destruct IH as (-> & H1 & H2). cbn. rewrite E, H1. auto.
  - cbn. auto.
Qed.

Lemma lex1_float s rest : safe_float s (nextc rest) = true ->
  lex1 (s ^^ rest) = Some (TFloat s, rest) /\ skip MNormal (s ^^ rest) = Ok (s ^^ rest) /\ s <> EmptyString.
Proof.
  unfold safe_float, float_shape. intros H. apply andb_true_iff in H as [Hs Hn].
  pose proof (span_spec is_digit s) as Hsp. destruct (span is_digit s) as [d1 r].
  destruct Hsp as (-> & Hd1 & _).
  apply andb_true_iff in Hs as [Hne1 Hr]. apply negb_true_iff in Hne1.
  destruct r as [|c0 d2]; [discriminate|].
  destruct c0 as [[] [] [] [] [] [] [] []]; try discriminate.
  apply andb_true_iff in Hr as [Hne2 Hd2]. apply negb_true_iff in Hne2.
  destruct d1 as [|c1 d1']; [discriminate|].
  assert (Hc1 : is_digit c1 = true) by (cbn in Hd1; apply andb_true_iff in Hd1; apply Hd1).
  assert (Hnf : nofollow is_digit rest /\ match nextc rest with Some c => is_f c = false | None => True end).
  { destruct rest as [|c r]; [split; exact I|]. cbn in *. apply negb_true_iff in Hn. apply orb_false_iff in Hn. exact Hn. }
  destruct Hnf as [Hnf Hff].
  assert (Hl : lex_number ((String c1 d1' ^^ "." ^^ d2) ^^ rest) = (TFloat (String c1 d1' ^^ "." ^^ d2), rest)).
  { unfold lex_number. rewrite !append_assoc.
    rewrite (span_app is_digit (String c1 d1') ("." ^^ d2 ^^ rest) Hd1) by reflexivity.
    cbn [String.append]. change (is_f ".") with false. change (Ascii.eqb "." ".") with true. cbn iota.
    rewrite (span_app _ _ _ Hd2 Hnf).
    destruct d2 as [|c2 d2']; [discriminate|].
    destruct rest as [|c r]; [reflexivity|]. cbn [nextc] in Hff. rewrite Hff. reflexivity. }
  destruct (first_digit_start _ rest c1 (d1' ^^ "." ^^ d2) eq_refl Hc1 _ _ Hl) as [H1 H2].
  split; [exact H1|split; [exact H2|discriminate]].
Qed.

(* ---------------------------------------------------------------------------------------- *)
(* string literals *)

Definition safe_str (s : string) : bool :=
  match s with
  | String """" b => match scan_str b with
                     | Some (b', EmptyString) => String.eqb b' b
                     | _ => false
                     end
  | _ => false
  end.

Lemma scan_str_ext n : forall b, (String.length b <= n)%nat -> scan_str b = Some (b, EmptyString) ->
  forall rest, scan_str (b ^^ rest) = Some (b, rest).
Proof.
  induction n as [|n IH]; intros b Hl Hs rest.
  - destruct b; [discriminate|cbn in Hl; lia].
  - destruct b as [|c r]; [discriminate|].
    cbn [scan_str] in Hs. cbn [String.append scan_str].
    destruct (Ascii.eqb c """") eqn:Eq.
    + injection Hs as Hs1 Hs2. subst r. reflexivity.
    + destruct (Ascii.eqb c "\") eqn:Eb.
      * destruct r as [|c2 r2]; [discriminate|]. cbn [String.append].
        destruct (Ascii.eqb c2 "010"); [discriminate|].
        destruct (scan_str r2) as [[b' rest']|] eqn:Er; [|discriminate].
        injection Hs as Hs1 Hs2. subst rest'. subst b'.
        rewrite (IH r2); [reflexivity|cbn in Hl; lia|exact Er].
      * destruct (scan_str r) as [[b' rest']|] eqn:Er; [|discriminate].
        injection Hs as Hs1 Hs2. subst rest'. subst b'.
        rewrite (IH r); [reflexivity|cbn in Hl; lia|exact Er].
Qed.

Lemma lex1_str s rest : safe_str s = true ->
  lex1 (s ^^ rest) = Some (TStr s, rest) /\ skip MNormal (s ^^ rest) = Ok (s ^^ rest) /\ s <> EmptyString.
Proof.
  unfold safe_str. intros H.
  destruct s as [|c b]; [discriminate|].
  destruct c as [[] [] [] [] [] [] [] []]; try discriminate.
  destruct (scan_str b) as [[b' r']|] eqn:Es; [|discriminate].
  destruct r'; [|discriminate]. apply String.eqb_eq in H. subst b'.
  split; [|split; [reflexivity|discriminate]].
  unfold lex1. cbn [String.append].
  change (is_ident_start """") with false. change (is_digit """") with false. change (Ascii.eqb """" """") with true. cbn iota.
  rewrite (scan_str_ext (String.length b) b (le_n _) Es rest). reflexivity.
Qed.

(* the escaped text of any string is a well-formed literal body *)
Lemma scan_str_escape s rest : scan_str (escape s ^^ String """" rest) = Some (escape s ^^ String """" EmptyString, rest).
Proof.
  induction s as [|c s IH]; [reflexivity|].
  cbn [escape]. unfold escape_char.
  destruct (Ascii.eqb c "000") eqn:E0; [cbn [String.append scan_str]; cbn [Ascii.eqb Bool.eqb andb]; cbn iota; rewrite IH; reflexivity|].
  destruct (Ascii.eqb c """") eqn:E1; [cbn [String.append scan_str]; cbn [Ascii.eqb Bool.eqb andb]; cbn iota; rewrite IH; reflexivity|].
  destruct (Ascii.eqb c "\") eqn:E2; [cbn [String.append scan_str]; cbn [Ascii.eqb Bool.eqb andb]; cbn iota; rewrite IH; reflexivity|].
  destruct (Ascii.eqb c "010") eqn:E3; [cbn [String.append scan_str]; cbn [Ascii.eqb Bool.eqb andb]; cbn iota; rewrite IH; reflexivity|].
  destruct (Ascii.eqb c "013") eqn:E4; [cbn [String.append scan_str]; cbn [Ascii.eqb Bool.eqb andb]; cbn iota; rewrite IH; reflexivity|].
  cbn [str1 String.append scan_str]. rewrite E1, E2, IH. reflexivity.
Qed.

Lemma safe_str_print s : safe_str (print_string s) = true.
Proof.
  unfold print_string, safe_str. cbn [String.append].
  rewrite (scan_str_escape s EmptyString). apply String.eqb_refl.
Qed.

(* ---------------------------------------------------------------------------------------- *)
(* all token classes together *)

Definition safe (t : token) (nc : option ascii) : bool :=
  match t with
  | TFix s => if mem_str s keywords then safe_word s nc else safe_punct s nc
  | TIdent s => safe_word s nc && token_eqb (word_tok s) (TIdent s)
  | TInstr s => safe_word s nc && token_eqb (word_tok s) (TInstr s)
  | TInt s => safe_int s nc
  | TFloat s => safe_float s nc
  | TStr s => safe_str s
  | TRad _ | TDiff _ => false
  end.

Lemma token_eqb_eq a b : token_eqb a b = true -> a = b.
Proof. destruct a, b; cbn; try discriminate; intros H; apply String.eqb_eq in H; congruence. Qed.

Lemma lex1_safe t rest : safe t (nextc rest) = true ->
  lex1 (text t ^^ rest) = Some (t, rest) /\ skip MNormal (text t ^^ rest) = Ok (text t ^^ rest) /\ text t <> EmptyString.
Proof.
  destruct t as [s|s|s|s|s|s|s|s]; cbn [safe text]; intros H; try discriminate.
  - destruct (mem_str s keywords) eqn:Ek.
    + destruct (lex1_word s rest H) as (H1 & H2 & H3). unfold word_tok in H1. rewrite Ek in H1. auto.
    + apply lex1_punct. exact H.
  - apply lex1_str. exact H.
  - apply lex1_float. exact H.
  - apply lex1_int. exact H.
  - apply andb_true_iff in H as [H Ht]. apply token_eqb_eq in Ht.
    destruct (lex1_word s rest H) as (H1 & H2 & H3). rewrite Ht in H1. auto.
  - apply andb_true_iff in H as [H Ht]. apply token_eqb_eq in Ht.
    destruct (lex1_word s rest H) as (H1 & H2 & H3). rewrite Ht in H1. auto.
Qed.

(* ---------------------------------------------------------------------------------------- *)
(* whole outputs *)

Fixpoint ok_seq (l : list oitem) : bool :=
  match l with
  | [] => true
  | o :: r =>
      let nc := nextc (concat_text r) in
      match o with
      | OT t => safe t nc
      | OTrail => safe (TFix ",") nc
      | OC _ => false
      | OS _ | ONl => true
      end && ok_seq r
  end.

Lemma skip_spaces k s : skip MNormal (spaces k ^^ s) = skip MNormal s.
Proof. induction k as [|k IH]; [reflexivity|]. cbn. exact IH. Qed.

Lemma lexf_skip_eq n a b : skip MNormal a = skip MNormal b -> lexf n a = lexf n b.
Proof. intros H. destruct n; [reflexivity|]. cbn [lexf]. rewrite H. reflexivity. Qed.

Theorem lex_items : forall l n, ok_seq l = true -> (List.length (otoks l) < n)%nat ->
  lexf n (concat_text l) = Ok (otoks l).
Proof.
  induction l as [|o r IH]; intros n Hok Hn.
  - destruct n; [lia|]. reflexivity.
  - cbn [ok_seq] in Hok. apply andb_true_iff in Hok as [Ho Hr].
    assert (Htok : forall t, safe t (nextc (concat_text r)) = true -> (S (List.length (otoks r)) < n)%nat ->
                   lexf n (text t ^^ concat_text r) = Ok (t :: otoks r)).
    { intros t Hs Hlt. destruct (lex1_safe t (concat_text r) Hs) as (H1 & H2 & H3).
      destruct n as [|n']; [lia|]. cbn [lexf]. rewrite H2.
      destruct (text t ^^ concat_text r) as [|c x] eqn:E.
      - destruct (text t); [congruence|discriminate].
      - rewrite H1. rewrite (IH n' Hr) by lia. reflexivity. }
    destruct o as [t| |k|s|].
    + cbn [concat_text otext otoks]. apply Htok; [exact Ho|cbn [otoks List.length] in Hn; lia].
    + cbn [concat_text otext otoks]. apply (Htok (TFix ",")); [exact Ho|cbn [otoks List.length] in Hn; lia].
    + cbn [concat_text otext otoks]. rewrite (lexf_skip_eq n _ _ (skip_spaces k _)). apply IH; assumption.
    + discriminate.
    + cbn [concat_text otext otoks]. rewrite (lexf_skip_eq n _ (concat_text r)) by reflexivity. apply IH; assumption.
Qed.

Lemma length_concat_text l : (List.length (otoks l) <= String.length (concat_text l))%nat \/ ok_seq l = false.
Proof.
  induction l as [|o r IH]; [left; cbn; lia|].
  destruct (ok_seq (o :: r)) eqn:E; [left|right; reflexivity].
  cbn [ok_seq] in E. apply andb_true_iff in E as [Ho Hr].
  destruct IH as [IH|IH]; [|congruence].
  assert (Htok : forall t, safe t (nextc (concat_text r)) = true -> (1 <= String.length (text t))%nat).
  { intros t Hs. destruct (lex1_safe t _ Hs) as (_ & _ & H3). destruct (text t); [congruence|cbn; lia]. }
  destruct o as [t| |k|s|]; cbn [concat_text otext otoks List.length]; rewrite ?length_append.
  - specialize (Htok t Ho). lia.
  - cbn. lia.
  - lia.
  - discriminate.
  - cbn. lia.
Qed.

Theorem lex_ok_seq : forall l, ok_seq l = true -> lex (concat_text l) = Ok (otoks l).
Proof.
  intros l H. unfold lex. apply lex_items; [exact H|].
  destruct (length_concat_text l) as [Hl|Hl]; [lia|congruence].
Qed.
