(* Proofs/WellTyped.v -- the contract between type_check and the constant passes: on a well-typed
   expression, const simplification and const evaluation never panic (they return a value/expression of
   the same type, or a diagnostic). *)
From TV Require Import Base.I32 Base.F32 Model.Ops Model.Expr Model.Typing Proofs.SimplifySound.
Open Scope Z_scope.

Lemma to_const_lit e v : to_const e = Some v -> e = lit v.
Proof. destruct e; cbn; intros H; inversion H; reflexivity. Qed.

Lemma all_binops_complete op : In op all_binops.
Proof. destruct op; cbn; tauto. Qed.

Section WT.
  Variable T : optable.
  Variable libm : unop -> Z -> Z.
  Variable var_ty : nat -> option ty.
  Variable reg_ty : Z -> ty.
  Variable call_ty : nat -> option ty.
  Variable opaque_ty : nat -> ty.
  Hypothesis TOK : table_ok T = true.

  Notation tc := (tc T var_ty reg_ty call_ty opaque_ty).

  Lemma tc_lit v : tc (lit v) = Some (ty_of v).
  Proof. destruct v; reflexivity. Qed.

  Lemma shift_masked : ot_shift T = ShMasked.
  Proof. unfold table_ok in TOK. apply andb_true_iff in TOK. destruct TOK as [H _]. destruct (ot_shift T); congruence. Qed.

  Lemma div_rows op : match ot_bi T op with BI_wdiv | BI_wrem => op = Div \/ op = Rem | _ => True end.
  Proof.
    unfold table_ok in TOK. apply andb_true_iff in TOK. destruct TOK as [_ H].
    rewrite forallb_forall in H. specialize (H op (all_binops_complete op)).
    destruct (ot_bi T op); try exact I; destruct op; try discriminate; tauto.
  Qed.

  Lemma binop_eval_typed op av bv t t' :
    ty_of av = t -> ty_of bv = t -> binop_ty T op t = Some t' -> undefined_binop op bv = false ->
    exists v, binop_eval T op av bv = Ok v /\ ty_of v = t'.
  Proof.
    intros Ha Hb Hty Hund. destruct av as [x|x|x]; destruct bv as [y|y|y]; cbn in Ha, Hb; subst t; try discriminate.
    - (* int *)
      cbn [binop_eval]. cbn [binop_ty] in Hty. pose proof (div_rows op) as DR. rewrite shift_masked.
      assert (Hy : (op = Div \/ op = Rem) -> y <> 0).
      { intros [-> | ->] E; subst y; cbn in Hund; discriminate. }
      destruct (ot_bi T op); try discriminate; inversion Hty; subst t'; cbn [eval_bi shift_count obind];
        try (eexists; split; reflexivity).
      + destruct (Z.eqb_spec y 0) as [E|E]; [exfalso; now apply (Hy DR)|]. cbn. eauto.
      + destruct (Z.eqb_spec y 0) as [E|E]; [exfalso; now apply (Hy DR)|]. cbn. eauto.
    - (* float *)
      cbn [binop_eval]. cbn [binop_ty] in Hty.
      destruct (ot_bf T op); try discriminate; inversion Hty; subst t'; cbn [eval_bf]; eexists; split; reflexivity.
  Qed.

  Lemma unop_eval_typed op bv t' :
    unop_ty T op (ty_of bv) = Some t' ->
    unop_eval libm T op bv = Ok None \/ exists v, unop_eval libm T op bv = Ok (Some v) /\ ty_of v = t'.
  Proof.
    intros Hty. destruct bv as [x|x|x]; cbn [ty_of unop_ty] in Hty; cbn [unop_eval].
    - destruct (ot_ui T op); try discriminate; try (left; reflexivity); inversion Hty; subst t'; right; eexists; split; reflexivity.
    - destruct (ot_uf T op); try discriminate; try (left; reflexivity); inversion Hty; subst t'; right; eexists; split; reflexivity.
    - discriminate.
  Qed.

  Section Simplify.
    Variable cs : nat -> option value.
    Hypothesis CST : forall id v, cs id = Some v -> var_ty id = Some (ty_of v).

    Notation simplify := (simplify T libm cs).

    Definition good (e : expr) (t : ty) : Prop :=
      match simplify e with
      | Ok e' => tc e' = Some t
      | Err _ => True
      | _ => False
      end.

    Lemma cast_typed sg v t :
      (match sg with None => Some (ty_of v) | Some s => if is_numeric (ty_of v) then Some (sigil_ty s) else None end) = Some t ->
      exists v', cast_by_sigil sg v = Some v' /\ ty_of v' = t.
    Proof.
      destruct sg as [[|]|]; destruct v; cbn; intros H; inversion H; subst; eauto.
    Qed.

    Theorem simplify_well_typed : forall e t, tc e = Some t -> good e t.
    Proof.
      induction e using expr_ind2; intros t Ht; unfold good; cbn [Expr.simplify].
      - exact Ht.
      - exact Ht.
      - exact Ht.
      - exact Ht.
      - (* EVar *)
        cbn [Typing.tc] in Ht. destruct (cs id) as [v|] eqn:C.
        + rewrite (CST _ _ C) in Ht. destruct (cast_typed sg v t Ht) as [v' [E Ty]]. rewrite E. cbn. rewrite tc_lit. now rewrite Ty.
        + exact Ht.
      - (* EEnum *)
        cbn [Typing.tc] in Ht. destruct (cs id) as [v|] eqn:C.
        + rewrite tc_lit. rewrite (CST _ _ C) in Ht. exact Ht.
        + exact Ht.
      - (* EUn *)
        cbn [Typing.tc] in Ht. destruct (tc e) as [te|] eqn:Te; [|discriminate].
        specialize (IHe te eq_refl). unfold good in IHe.
        destruct (Expr.simplify T libm cs e) as [e'| | |]; cbn [obind]; try exact I; try contradiction.
        destruct (to_const e') as [bv|] eqn:C.
        + apply to_const_lit in C. subst e'. rewrite tc_lit in IHe. inversion IHe as [Hbv].
          rewrite <- Hbv in Ht.
          destruct (unop_eval_typed op bv t Ht) as [-> | [v [-> Tv]]]; cbn [obind].
          * cbn [Typing.tc]. rewrite tc_lit. exact Ht.
          * rewrite tc_lit. now rewrite Tv.
        + cbn [Typing.tc]. rewrite IHe. exact Ht.
      - (* EBin *)
        cbn [Typing.tc] in Ht. destruct (tc e1) as [ta|] eqn:Ta; [|discriminate]. destruct (tc e2) as [tb|] eqn:Tb; [|discriminate].
        destruct (ty_eqb ta tb) eqn:Eq; [|discriminate].
        assert (tb = ta) as -> by (destruct ta, tb; cbn in Eq; congruence).
        specialize (IHe1 ta eq_refl). specialize (IHe2 ta eq_refl). unfold good in IHe1, IHe2.
        destruct (Expr.simplify T libm cs e1) as [a'| | |]; cbn [obind]; try exact I; try contradiction.
        destruct (Expr.simplify T libm cs e2) as [b'| | |]; cbn [obind]; try exact I; try contradiction.
        assert (Keep : tc (EBin a' op b') = Some t).
        { cbn [Typing.tc]. rewrite IHe1, IHe2, Eq. exact Ht. }
        destruct (to_const a') as [av|] eqn:Ca; [|exact Keep].
        destruct (to_const b') as [bv|] eqn:Cb; [|exact Keep].
        apply to_const_lit in Ca, Cb. subst a' b'. rewrite tc_lit in IHe1, IHe2.
        inversion IHe1 as [Ha]. inversion IHe2 as [Hb].
        destruct (undefined_binop op bv) eqn:U; [exact I|].
        destruct (binop_eval_typed op av bv ta t Ha Hb Ht U) as [v [-> Tv]]. cbn [obind]. rewrite tc_lit. now rewrite Tv.
      - (* ETern *)
        cbn [Typing.tc] in Ht. destruct (tc e1) as [[| |]|] eqn:Tc; try discriminate.
        destruct (tc e2) as [tl|] eqn:Tl; [|discriminate]. destruct (tc e3) as [tr|] eqn:Tr; [|discriminate].
        destruct (ty_eqb tl tr) eqn:Eq; [|discriminate]. inversion Ht; subst t.
        assert (tr = tl) as -> by (destruct tl, tr; cbn in Eq; congruence).
        specialize (IHe1 TInt eq_refl). specialize (IHe2 tl eq_refl). specialize (IHe3 tl eq_refl). unfold good in *.
        destruct (Expr.simplify T libm cs e1) as [c'| | |]; cbn [obind]; try exact I; try contradiction.
        destruct (Expr.simplify T libm cs e2) as [l'| | |]; cbn [obind]; try exact I; try contradiction.
        destruct (Expr.simplify T libm cs e3) as [r'| | |]; cbn [obind]; try exact I; try contradiction.
        destruct (to_const c') as [cv|] eqn:Cc.
        + apply to_const_lit in Cc. subst c'. rewrite tc_lit in IHe1. inversion IHe1 as [Hc].
          destruct cv as [z|z|z]; cbn in Hc; try discriminate. destruct z; assumption.
        + cbn [Typing.tc]. rewrite IHe1, IHe2, IHe3, Eq. reflexivity.
      - (* EDiff *)
        cbn [Typing.tc] in Ht.
        set (tcgo := fix go (l : list (option expr)) (acc : option ty) : option ty :=
           match l with
           | [] => acc
           | None :: t => go t acc
           | Some x :: t =>
               match tc x, acc with
               | Some tx, None => go t (Some tx)
               | Some tx, Some ta => if ty_eqb tx ta then go t acc else None
               | None, _ => None
               end
           end) in *.
        set (sgo := fix go (l : list (option expr)) : outcome (list (option expr)) :=
                        match l with
                        | [] => Ok []
                        | None :: t => do t' <- go t; Ok (None :: t')
                        | Some x :: t => do x' <- Expr.simplify T libm cs x; do t' <- go t; Ok (Some x' :: t')
                        end).
        assert (G : forall acc, tcgo cases acc = Some t ->
                      match sgo cases with Ok cases' => tcgo cases' acc = Some t | Err _ => True | _ => False end).
        { clear Ht. induction cases as [|c rest IHr]; intros acc Hg; cbn [sgo tcgo] in *; [exact Hg|].
          inversion H as [|c0 r0 Hc Hrest]; subst.
          destruct c as [x|].
          - destruct (tc x) as [tx|] eqn:Tx; [|destruct acc; discriminate].
            specialize (Hc tx eq_refl). unfold good in Hc.
            destruct (Expr.simplify T libm cs x) as [x'| | |]; cbn [obind]; try exact I; try contradiction.
            destruct acc as [ta|].
            + destruct (ty_eqb tx ta) eqn:Eq; [|discriminate].
              specialize (IHr Hrest (Some ta) Hg).
              destruct (sgo rest) as [rest'| | |]; cbn [obind]; try exact I; try contradiction.
              cbn [tcgo]. rewrite Hc, Eq. exact IHr.
            + specialize (IHr Hrest (Some tx) Hg).
              destruct (sgo rest) as [rest'| | |]; cbn [obind]; try exact I; try contradiction.
              cbn [tcgo]. rewrite Hc. exact IHr.
          - specialize (IHr Hrest acc Hg).
            destruct (sgo rest) as [rest'| | |]; cbn [obind]; try exact I; try contradiction.
            exact IHr. }
        specialize (G None Ht). fold sgo.
        destruct (sgo cases) as [cases'| | |]; cbn [obind]; try exact I; try contradiction.
        cbn [Typing.tc]. exact G.
      - (* ECall *)
        cbn [Typing.tc] in Ht.
        set (tcgo := fix go (l : list expr) : bool :=
              match l with [] => true | x :: t => match tc x with Some _ => go t | None => false end end) in *.
        set (sgo := fix go (l : list expr) : outcome (list expr) :=
                       match l with
                       | [] => Ok []
                       | x :: t => do x' <- Expr.simplify T libm cs x; do t' <- go t; Ok (x' :: t')
                       end).
        destruct (tcgo args) eqn:TA; [|discriminate].
        assert (G : match sgo args with Ok args' => tcgo args' = true | Err _ => True | _ => False end).
        { clear Ht. induction args as [|x rest IHr]; cbn [sgo tcgo] in *; [reflexivity|].
          inversion H as [|x0 r0 Hx Hrest]; subst.
          destruct (tc x) as [tx|] eqn:Tx; [|discriminate].
          specialize (Hx tx eq_refl). unfold good in Hx.
          destruct (Expr.simplify T libm cs x) as [x'| | |]; cbn [obind]; try exact I; try contradiction.
          specialize (IHr Hrest TA).
          destruct (sgo rest) as [rest'| | |]; cbn [obind]; try exact I; try contradiction.
          cbn [tcgo]. rewrite Hx. exact IHr. }
        fold sgo. destruct (sgo args) as [args'| | |]; cbn [obind]; try exact I; try contradiction.
        cbn [Typing.tc]. fold tcgo. rewrite G. exact Ht.
      - exact Ht.
    Qed.
  End Simplify.
  Section ConstEval.
    Variable defs : nat -> option expr.
    Hypothesis DT : forall id d, defs id = Some d -> exists t, var_ty id = Some t /\ tc d = Some t.

    Definition cgood (r : outcome value) (t : ty) : Prop :=
      match r with Ok v => ty_of v = t | Err _ => True | OutOfFuel => True | Panic _ => False end.

    Theorem ceval_well_typed : forall fuel stack e t, tc e = Some t -> cgood (ceval T libm defs fuel stack e) t.
    Proof.
      induction fuel as [|f IH]; intros stack e t Ht; cbn [ceval]; [exact I|].
      assert (GET : forall id tv, var_ty id = Some tv ->
                cgood (if on_stack id stack then Err E_CYCLE
                       else match defs id with None => Err E_NONCONST | Some d => ceval T libm defs f (id :: stack) d end) tv).
      { intros id tv Hv. destruct (on_stack id stack); [exact I|]. destruct (defs id) as [d|] eqn:D; [|exact I].
        destruct (DT _ _ D) as [t0 [V0 Td]]. rewrite Hv in V0. inversion V0; subst t0. now apply IH. }
      destruct e as [z|fb|s|sg r|sg id|id|op e|e1 op e2|e1 e2 e3|cases|fn args|n]; cbn [Typing.tc] in Ht; try (inversion Ht; subst; reflexivity); try exact I.
      - (* EVar *)
        destruct (var_ty id) as [tv|] eqn:V; [|discriminate].
        specialize (GET id tv V). unfold cgood in GET.
        destruct (if on_stack id stack then Err E_CYCLE else match defs id with None => Err E_NONCONST | Some d => ceval T libm defs f (id :: stack) d end) as [v| | |];
          cbn [obind]; try exact I; try contradiction.
        subst tv. destruct (cast_typed sg v t Ht) as [v' [E Ty]]. rewrite E. cbn. exact Ty.
      - (* EEnum *)
        apply GET. exact Ht.
      - (* EUn *)
        destruct (tc e) as [te|] eqn:Te; [|discriminate].
        pose proof (IH stack e te Te) as R. unfold cgood in R.
        destruct (ceval T libm defs f stack e) as [bv| | |]; cbn [obind]; try exact I; try contradiction.
        subst te. destruct (unop_eval_typed op bv t Ht) as [-> | [v [-> Tv]]]; cbn [obind]; [exact I|exact Tv].
      - (* EBin *)
        destruct (tc e1) as [ta|] eqn:Ta; [|discriminate]. destruct (tc e2) as [tb|] eqn:Tb; [|discriminate].
        destruct (ty_eqb ta tb) eqn:Eq; [|discriminate].
        assert (tb = ta) as -> by (destruct ta, tb; cbn in Eq; congruence).
        pose proof (IH stack e1 ta Ta) as R1. pose proof (IH stack e2 ta Tb) as R2. unfold cgood in R1, R2.
        destruct (ceval T libm defs f stack e1) as [av| | |]; cbn [obind]; try exact I; try contradiction.
        destruct (ceval T libm defs f stack e2) as [bv| | |]; cbn [obind]; try exact I; try contradiction.
        destruct (undefined_binop op bv) eqn:U; [exact I|].
        destruct (binop_eval_typed op av bv ta t R1 R2 Ht U) as [v [-> Tv]]. exact Tv.
      - (* ETern *)
        destruct (tc e1) as [[| |]|] eqn:Tc; try discriminate.
        destruct (tc e2) as [tl|] eqn:Tl; [|discriminate]. destruct (tc e3) as [tr|] eqn:Tr; [|discriminate].
        destruct (ty_eqb tl tr) eqn:Eq; [|discriminate]. inversion Ht; subst t.
        assert (tr = tl) as -> by (destruct tl, tr; cbn in Eq; congruence).
        pose proof (IH stack e1 TInt Tc) as R1. pose proof (IH stack e2 tl Tl) as R2. pose proof (IH stack e3 tl Tr) as R3.
        unfold cgood in R1, R2, R3.
        destruct (ceval T libm defs f stack e1) as [cv| | |]; cbn [obind]; try exact I; try contradiction.
        destruct (ceval T libm defs f stack e2) as [lv| | |]; cbn [obind]; try exact I; try contradiction.
        destruct (ceval T libm defs f stack e3) as [rv| | |]; cbn [obind]; try exact I; try contradiction.
        destruct cv as [z|z|z]; cbn in R1; try discriminate. destruct z; assumption.
    Qed.
  End ConstEval.
End WT.
