(* Proofs/Container.v -- instruction level: read_instr inverts write_instr on fitting instructions,
   and a format whose fields are all checked never changes a value silently. *)
From TV Require Import Base.I32 Model.Container Proofs.ContainerLE.
Open Scope Z_scope.

(* ---- small facts ------------------------------------------------------------------------- *)
Lemma fld_eqb_eq a b : fld_eqb a b = true -> a = b.
Proof. destruct a, b; cbn; try congruence. rewrite Z.eqb_eq. now intros ->. Qed.
Lemma fld_eqb_refl a : fld_eqb a a = true.
Proof. destruct a; cbn; try reflexivity. apply Z.eqb_refl. Qed.

Lemma obind_ok {A B} (m : outcome A) (k : A -> outcome B) b :
  obind m k = Ok b -> exists a, m = Ok a /\ k a = Ok b.
Proof. destruct m; cbn; try discriminate. eauto. Qed.

Lemma forallb2_length {A B} (p : A -> B -> bool) l1 l2 : forallb2 p l1 l2 = true -> length l1 = length l2.
Proof.
  revert l2. induction l1 as [|a t IH]; destruct l2 as [|b t2]; cbn; try discriminate; auto.
  rewrite andb_true_iff. intros [_ H]. f_equal. auto.
Qed.

Lemma forallb2_firstn {A B} (p : A -> B -> bool) k l1 l2 :
  forallb2 p l1 l2 = true -> forallb2 p (firstn k l1) (firstn k l2) = true.
Proof.
  revert l1 l2. induction k as [|k IH]; intros l1 l2; [reflexivity|].
  destruct l1, l2; cbn; try discriminate; auto.
  rewrite !andb_true_iff. intros [-> H]. auto.
Qed.
Lemma forallb2_skipn {A B} (p : A -> B -> bool) k l1 l2 :
  forallb2 p l1 l2 = true -> forallb2 p (skipn k l1) (skipn k l2) = true.
Proof.
  revert l1 l2. induction k as [|k IH]; intros l1 l2; [auto|].
  destruct l1, l2; cbn; try discriminate; auto.
  rewrite !andb_true_iff. intros [_ H]. auto.
Qed.

(* ---- the values read back from a written header ------------------------------------------ *)
Definition backval (hdr : Z) (i : instr) (w : wfield) (r : rfield) : fld * Z :=
  (r_fld r, cast (r_mem r) (cast (r_disk r) (get hdr i (w_fld w)))).
Fixpoint zipvals (hdr : Z) (i : instr) (ws : list wfield) (rs : list rfield) : list (fld * Z) :=
  match ws, rs with
  | w :: t1, r :: t2 => backval hdr i w r :: zipvals hdr i t1 t2
  | _, _ => []
  end.

Lemma write_field_ok hdr i w a : write_field hdr i w = Ok a -> a = le_encode (ity_bytes (w_disk w)) (get hdr i (w_fld w)).
Proof.
  unfold write_field. destruct (w_cast w); [congruence|].
  destruct (in_rangeb _ _); congruence.
Qed.

Lemma write_fields_app hdr i l1 l2 hb :
  write_fields hdr i (l1 ++ l2) = Ok hb ->
  exists h1 h2, write_fields hdr i l1 = Ok h1 /\ write_fields hdr i l2 = Ok h2 /\ hb = h1 ++ h2.
Proof.
  revert hb. induction l1 as [|w t IH]; intro hb; cbn [app write_fields].
  - intro H. exists [], hb. auto.
  - intro H. apply obind_ok in H as (a & Ha & H). apply obind_ok in H as (b & Hb & H).
    inversion H; subst. destruct (IH _ Hb) as (h1 & h2 & E1 & E2 & ->).
    exists (a ++ h1), h2. rewrite Ha, E1. cbn. rewrite app_assoc. auto.
Qed.

Lemma read_write_fields f hdr i : forall ws rs hb rest,
  forallb2 (pair_compat f) ws rs = true ->
  write_fields hdr i ws = Ok hb ->
  read_fields rs (hb ++ rest) = Ok (zipvals hdr i ws rs, rest).
Proof.
  induction ws as [|w t IH]; intros rs hb rest Hc Hw; destruct rs as [|r rs]; try discriminate.
  - cbn in Hw. inversion Hw. reflexivity.
  - cbn [forallb2] in Hc. apply andb_true_iff in Hc as [Hp Hc].
    cbn [write_fields] in Hw. apply obind_ok in Hw as (a & Ha & Hw). apply obind_ok in Hw as (b & Hb & Hw).
    inversion Hw; subst hb. apply write_field_ok in Ha.
    unfold pair_compat in Hp. apply andb_true_iff in Hp as [Hbytes _].
    rewrite (nat_bytes_eq _ _ _ Hbytes) in Ha.
    cbn [read_fields zipvals]. unfold read_field.
    assert (Hlen : length a = ity_bytes (r_disk r)) by (subst a; apply le_encode_length).
    rewrite <- app_assoc, <- Hlen, take_app. cbn [obind snd fst].
    rewrite (IH _ _ _ Hc Hb). cbn [obind fst snd]. unfold backval.
    subst a. now rewrite cast_decode_encode.
Qed.

Lemma zipvals_app hdr i k ws rs : length ws = length rs ->
  zipvals hdr i (firstn k ws) (firstn k rs) ++ zipvals hdr i (skipn k ws) (skipn k rs) = zipvals hdr i ws rs.
Proof.
  revert ws rs. induction k as [|k IH]; intros ws rs Hl; [reflexivity|].
  destruct ws, rs; try discriminate; [reflexivity|]. cbn. f_equal. apply IH. now inversion Hl.
Qed.

Lemma zipvals_flds hdr i ws rs : length ws = length rs -> map fst (zipvals hdr i ws rs) = map r_fld rs.
Proof.
  revert rs. induction ws as [|w t IH]; destruct rs; cbn; try discriminate; auto.
  intro H. f_equal. apply IH. now inversion H.
Qed.

(* every value read back equals the instruction's own value of that field *)
Definition vals_good (hdr : Z) (i : instr) (vals : list (fld * Z)) : Prop :=
  Forall (fun p => is_const (fst p) = true \/ snd p = get hdr i (fst p)) vals.

Lemma pair_fits_good hdr i w r : pair_fits hdr i w r = true ->
  is_const (r_fld r) = true \/ snd (backval hdr i w r) = get hdr i (r_fld r).
Proof.
  unfold pair_fits, backval. cbn [snd].
  destruct (r_fld r); cbn [is_const]; auto; rewrite Z.eqb_eq; auto.
Qed.

Lemma fields_fit_good hdr i ws rs : forallb2 (pair_fits hdr i) ws rs = true -> vals_good hdr i (zipvals hdr i ws rs).
Proof.
  revert rs. induction ws as [|w t IH]; destruct rs as [|r rs]; cbn; try discriminate; try constructor.
  - apply andb_true_iff in H as [H _]. apply pair_fits_good in H. exact H.
  - apply andb_true_iff in H as [_ H]. apply IH, H.
Qed.

Lemma vals_good_app hdr i a b : vals_good hdr i (a ++ b) <-> vals_good hdr i a /\ vals_good hdr i b.
Proof. apply Forall_app. Qed.

Lemma lookup_good hdr i g vals v : vals_good hdr i vals -> is_const g = false -> lookup g vals = Some v -> v = get hdr i g.
Proof.
  induction 1 as [|[g' v'] t Hh Ht IH]; cbn [lookup]; [discriminate|].
  intros Hg. destruct (fld_eqb g g') eqn:E.
  - intro H. inversion H; subst. apply fld_eqb_eq in E. subst g'. cbn [fst snd] in Hh. destruct Hh; congruence.
  - auto.
Qed.

Lemma lookup_none g vals : lookup g vals = None <-> memf g (map fst vals) = false.
Proof.
  unfold memf. induction vals as [|[g' v'] t IH]; cbn [lookup map existsb fst]; [tauto|].
  destruct (fld_eqb g g'); cbn [orb]; [split; discriminate|exact IH].
Qed.

Lemma lookup_some_good hdr i g vals : vals_good hdr i vals -> is_const g = false ->
  memf g (map fst vals) = true -> lookup g vals = Some (get hdr i g).
Proof.
  intros Hg Hc Hm. destruct (lookup g vals) as [v|] eqn:E.
  - f_equal. eapply lookup_good; eauto.
  - apply lookup_none in E. congruence.
Qed.

Lemma cond_vals_good hdr i vals c : vals_good hdr i vals ->
  forallb (fun p => negb (is_const (fst p)) && memf (fst p) (map fst vals)) c = true ->
  cond_vals vals c = cond_on hdr i c.
Proof.
  intros Hg. unfold cond_vals, cond_on. induction c as [|[g v] t IH]; cbn [forallb fst snd]; [reflexivity|].
  rewrite !andb_true_iff, negb_true_iff. intros [[Hc Hm] Ht].
  rewrite (lookup_some_good _ _ _ _ Hg Hc Hm), (IH Ht). reflexivity.
Qed.

Lemma lookup_app_l g a b v : lookup g a = Some v -> lookup g (a ++ b) = Some v.
Proof.
  induction a as [|[g' v'] t IH]; cbn [lookup app]; [discriminate|]. destruct (fld_eqb g g'); auto.
Qed.

(* ---- rebuilding the instruction ----------------------------------------------------------- *)
Lemma lookup_or_comp hdr i d g vals :
  vals_good hdr i vals -> is_const g = false ->
  (memf g (map fst vals) || (get hdr i g =? get hdr d g)) = true ->
  lookup_or g vals (get hdr d g) = get hdr i g.
Proof.
  intros Hg Hc H. unfold lookup_or. destruct (lookup g vals) as [v|] eqn:E.
  - eapply lookup_good; eauto.
  - apply lookup_none in E. rewrite E in H. cbn in H. apply Z.eqb_eq in H. congruence.
Qed.

Lemma rebuild_id f i vals : vals_good (f_hdr f) i vals -> map fst vals = read_flds f ->
  unstored_default f i = true -> rebuild (f_default f) vals (i_args i) = i.
Proof.
  intros Hg Hm Hu. unfold unstored_default, instr_flds in Hu. cbn [forallb] in Hu.
  rewrite <- Hm in Hu. repeat (apply andb_true_iff in Hu as [?H Hu]).
  destruct i as [t o m a d p e c]. unfold rebuild. cbn [i_args]. f_equal.
  - refine (lookup_or_comp (f_hdr f) (mkInstr t o m a d p e c) (f_default f) FTime vals Hg eq_refl _); assumption.
  - refine (lookup_or_comp (f_hdr f) (mkInstr t o m a d p e c) (f_default f) FOpcode vals Hg eq_refl _); assumption.
  - refine (lookup_or_comp (f_hdr f) (mkInstr t o m a d p e c) (f_default f) FMask vals Hg eq_refl _); assumption.
  - refine (lookup_or_comp (f_hdr f) (mkInstr t o m a d p e c) (f_default f) FDiff vals Hg eq_refl _); assumption.
  - refine (lookup_or_comp (f_hdr f) (mkInstr t o m a d p e c) (f_default f) FPop vals Hg eq_refl _); assumption.
  - refine (lookup_or_comp (f_hdr f) (mkInstr t o m a d p e c) (f_default f) FExtra vals Hg eq_refl _); assumption.
  - refine (lookup_or_comp (f_hdr f) (mkInstr t o m a d p e c) (f_default f) FArgc vals Hg eq_refl _); assumption.
Qed.

(* ---- pieces of fmt_ok ----------------------------------------------------------------------- *)
Record fmt_ok_p (f : fmt) : Prop := {
  ok_compat : forallb2 (pair_compat f) (f_write f) (f_read f) = true;
  ok_sum : sum_bytes_w (f_write f) = f_hdr f;
  ok_hdr : 0 < f_hdr f;
  ok_args : args_rule_ok f = true;
  ok_fixed : match f_args f with ArgsFixed n => existsb2 (fixed_pair n) (f_write f) (f_read f) = true | _ => True end;
  ok_tcond : forallb (fun p => negb (is_const (fst p)) &&
                    memf (fst p) (map r_fld (if f_tafter_args f then f_read f else firstn (f_tafter f) (f_read f))))
          (f_tcond f) = true;
  ok_guard : f_tguard f = true -> is_tterminal f = true;
  ok_term : term_reads_ok f = true }.

Lemma fmt_ok_spec f : fmt_ok f = true -> fmt_ok_p f.
Proof.
  unfold fmt_ok. rewrite !andb_true_iff, Z.eqb_eq, Z.ltb_lt.
  intros [[[[[[[H1 H2] H3] H4] H5] H6] H7] H8]. constructor; auto.
  - destruct (f_args f); auto.
  - intro G. rewrite G in H7. exact H7.
Qed.

Lemma existsb2_fixed hdr i n ws rs :
  existsb2 (fixed_pair n) ws rs = true -> forallb2 (pair_fits hdr i) ws rs = true -> alen i = n.
Proof.
  revert rs. induction ws as [|w t IH]; destruct rs as [|r rs]; cbn [existsb2 forallb2]; try discriminate.
  rewrite orb_true_iff, andb_true_iff. intros [He|He] [Hp Hf]; [|eauto].
  unfold fixed_pair in He. apply andb_true_iff in He as [He Hm]. apply andb_true_iff in He as [He Hd].
  apply andb_true_iff in He as [Hw Hr].
  apply fld_eqb_eq in Hw, Hr. apply in_rangeb_spec in Hm, Hd.
  unfold pair_fits in Hp. rewrite Hr, Hw in Hp. cbn [get] in Hp. apply Z.eqb_eq in Hp.
  rewrite (cast_id _ _ Hd), (cast_id _ _ Hm) in Hp. auto.
Qed.

Lemma sum_bytes_length hdr i ws hb : write_fields hdr i ws = Ok hb -> Z.of_nat (length hb) = sum_bytes_w ws.
Proof.
  revert hb. induction ws as [|w t IH]; intros hb H; cbn [write_fields sum_bytes_w fold_right] in *.
  - inversion H. reflexivity.
  - apply obind_ok in H as (a & Ha & H). apply obind_ok in H as (b & Hb & H). inversion H; subst.
    apply write_field_ok in Ha. rewrite app_length, Nat2Z.inj_add, (IH _ Hb). subst a.
    rewrite le_encode_length. reflexivity.
Qed.

(* ---- fits -> the writer accepts ------------------------------------------------------------ *)
Lemma fits_write_fields hdr i ws :
  forallb (fun w => match w_cast w with
                    | Checked => in_rangeb (w_disk w) (get hdr i (w_fld w))
                    | AsCast => true
                    end) ws = true ->
  exists hb, write_fields hdr i ws = Ok hb.
Proof.
  induction ws as [|w t IH]; cbn [forallb].
  - eexists. reflexivity.
  - rewrite andb_true_iff. intros [Hc Hcs]. destruct (IH Hcs) as [hb Hb].
    cbn [write_fields]. unfold write_field at 1. destruct (w_cast w) eqn:K.
    + cbn [obind]. rewrite Hb. cbn. eauto.
    + rewrite Hc. cbn [obind]. rewrite Hb. cbn. eauto.
Qed.

Definition fits_parts (f : fmt) (i : instr) : Prop :=
  fields_fit f i = true /\ unstored_default f i = true /\ (is_tterminal f && looks_terminal f i) = false /\
  alen i <= ISIZE_MAX /\ checks_pass f i = true.
Lemma fitsb_spec f i : fitsb f i = true <-> fits_parts f i.
Proof. unfold fitsb, fits_parts. rewrite !andb_true_iff, negb_true_iff, Z.leb_le. tauto. Qed.

Lemma fits_write_ok f i : fmt_ok_p f -> fitsb f i = true ->
  exists hb, write_fields (f_hdr f) i (f_write f) = Ok hb /\ write_instr f i = Ok (hb ++ i_args i).
Proof.
  intros OK Hf. apply fitsb_spec in Hf as (Hff & Hu & Ht & Hl & Hcp).
  destruct (fits_write_fields _ _ _ Hcp) as [hb Hb].
  exists hb. split; [exact Hb|]. unfold write_instr.
  assert (G : (f_tguard f && looks_terminal f i) = false).
  { destruct (f_tguard f) eqn:G; [|reflexivity]. rewrite (ok_guard _ OK G) in Ht. exact Ht. }
  rewrite G, Hb. cbn [obind].
  destruct (f_args f) eqn:A; try reflexivity.
  assert (Hx := ok_fixed _ OK). rewrite A in Hx.
  rewrite (existsb2_fixed _ _ _ _ _ Hx Hff), Z.eqb_refl. reflexivity.
Qed.

(* ---- the main instruction-level theorem --------------------------------------------------- *)
Lemma args_len_fits f i vals : fmt_ok_p f -> vals_good (f_hdr f) i vals -> map fst vals = read_flds f ->
  fields_fit f i = true -> args_len f vals = Ok (alen i).
Proof.
  intros OK Hg Hm Hff. assert (Ha := ok_args _ OK). unfold args_rule_ok in Ha. rewrite <- Hm in Ha.
  assert (Hn : 0 <= alen i) by (unfold alen; lia).
  unfold args_len. destruct (f_args f) eqn:A.
  - rewrite (lookup_some_good _ _ FArgsLen _ Hg eq_refl Ha). reflexivity.
  - rewrite (lookup_some_good _ _ FInstrSize _ Hg eq_refl Ha). cbn [get].
    destruct (Z.ltb_spec (f_hdr f + alen i) (f_hdr f)); [lia|]. f_equal. lia.
  - rewrite (lookup_some_good _ _ FInstrSize _ Hg eq_refl Ha). cbn [get].
    destruct (Z.ltb_spec (f_hdr f + alen i) (f_hdr f)); [lia|]. f_equal. lia.
  - rewrite (lookup_some_good _ _ FArgsLen _ Hg eq_refl Ha). cbn [get].
    assert (Hx := ok_fixed _ OK). rewrite A in Hx.
    rewrite (existsb2_fixed _ _ _ _ _ Hx Hff), Z.eqb_refl. reflexivity.
Qed.

Theorem instr_readback f i rest : fmt_ok f = true -> fitsb f i = true ->
  exists bs, write_instr f i = Ok bs /\ bs <> [] /\ Z.of_nat (length bs) = instr_size f i /\
             read_instr f (bs ++ rest) = Ok (kind_of f i, rest).
Proof.
  intros OK0 Hf. assert (OK := fmt_ok_spec _ OK0).
  destruct (fits_write_ok _ _ OK Hf) as (hb & Hb & Hw).
  apply fitsb_spec in Hf as (Hff & Hu & Ht & Hl & Hcp).
  assert (Hlen : Z.of_nat (length hb) = f_hdr f) by (rewrite (sum_bytes_length _ _ _ _ Hb); apply (ok_sum _ OK)).
  assert (Hpos := ok_hdr _ OK).
  exists (hb ++ i_args i). split; [exact Hw|]. split; [|split].
  { destruct hb; cbn in *; [lia|discriminate]. }
  { unfold instr_size, alen. rewrite app_length, Nat2Z.inj_add. lia. }
  assert (Hcompat := ok_compat _ OK).
  assert (Hlen2 : length (f_write f) = length (f_read f)) by (eapply forallb2_length; eauto).
  set (k := f_tafter f).
  (* split the header at the end-marker test *)
  assert (Hsplit : write_fields (f_hdr f) i (firstn k (f_write f) ++ skipn k (f_write f)) = Ok hb)
    by (now rewrite firstn_skipn).
  apply write_fields_app in Hsplit as (h1 & h2 & E1 & E2 & ->).
  set (v1 := zipvals (f_hdr f) i (firstn k (f_write f)) (firstn k (f_read f))).
  set (v2 := zipvals (f_hdr f) i (skipn k (f_write f)) (skipn k (f_read f))).
  assert (Hv : v1 ++ v2 = zipvals (f_hdr f) i (f_write f) (f_read f)) by (apply zipvals_app; auto).
  assert (Hgood : vals_good (f_hdr f) i (v1 ++ v2)) by (rewrite Hv; apply fields_fit_good; exact Hff).
  assert (Hflds : map fst (v1 ++ v2) = read_flds f) by (rewrite Hv; apply zipvals_flds; auto).
  assert (R1 : read_fields (firstn k (f_read f)) (((h1 ++ h2) ++ i_args i) ++ rest) = Ok (v1, h2 ++ i_args i ++ rest)).
  { rewrite <- !app_assoc. apply (read_write_fields f); [apply forallb2_firstn; auto|exact E1]. }
  assert (R2 : read_fields (skipn k (f_read f)) (h2 ++ i_args i ++ rest) = Ok (v2, i_args i ++ rest)).
  { apply (read_write_fields f); [apply forallb2_skipn; auto|exact E2]. }
  unfold read_instr.
  assert (Hne : match ((h1 ++ h2) ++ i_args i) ++ rest with [] => true | _ => false end = false).
  { destruct (h1 ++ h2) eqn:E; cbn in *; [lia|reflexivity]. }
  rewrite Hne, andb_false_r. fold k. rewrite R1. cbn [obind fst snd].
  (* the early end-marker test *)
  assert (Hc1 : (is_tterminal f && negb (f_tafter_args f) && cond_vals v1 (f_tcond f)) = false).
  { destruct (is_tterminal f) eqn:T; [|reflexivity]. destruct (f_tafter_args f) eqn:AA; [reflexivity|].
    cbn [negb andb]. assert (Hc := ok_tcond _ OK). rewrite AA in Hc.
    assert (Hg1 : vals_good (f_hdr f) i v1) by (apply vals_good_app in Hgood; tauto).
    rewrite (cond_vals_good _ _ _ _ Hg1).
    - cbn [andb] in Ht. exact Ht.
    - unfold v1. rewrite zipvals_flds; [exact Hc|]. rewrite !firstn_length. lia. }
  rewrite Hc1, R2. cbn [obind fst snd].
  rewrite (args_len_fits f i (v1 ++ v2) OK Hgood Hflds Hff). cbn [obind].
  destruct (Z.ltb_spec ISIZE_MAX (alen i)); [lia|].
  destruct (Z.ltb_spec (Z.of_nat (length (i_args i ++ rest))) (alen i)).
  { rewrite app_length, Nat2Z.inj_add in *. unfold alen in *. lia. }
  unfold alen. rewrite Nat2Z.id, take_app.
  rewrite (rebuild_id f i (v1 ++ v2) Hgood Hflds Hu).
  assert (Hcv : cond_vals (v1 ++ v2) (f_tcond f) = looks_terminal f i).
  { unfold looks_terminal. apply cond_vals_good; [exact Hgood|]. rewrite Hflds.
    assert (Hc := ok_tcond _ OK). destruct (f_tafter_args f); [exact Hc|].
    eapply forallb_forall. intros p Hp. rewrite forallb_forall in Hc. specialize (Hc p Hp).
    apply andb_true_iff in Hc as [-> Hc]. cbn [andb]. unfold memf in *. rewrite existsb_exists in *.
    destruct Hc as (x & Hx & Hxe). exists x. split; [|exact Hxe].
    unfold read_flds. rewrite <- (firstn_skipn (f_tafter f) (f_read f)), map_app. apply in_or_app. auto. }
  rewrite Hcv. unfold kind_of.
  destruct (is_tterminal f) eqn:T; cbn [andb] in *.
  - rewrite Ht, andb_false_r. assert (M : is_tmaybe f = false) by (unfold is_tterminal, is_tmaybe in *; destruct (f_tkind f); congruence).
    rewrite M. reflexivity.
  - destruct (is_tmaybe f && looks_terminal f i); reflexivity.
Qed.

(* ---- no silent change ------------------------------------------------------------------------ *)
Lemma pair_checked_fits f hdr i w r :
  pair_checked f w r = true ->
  forced_value_ok hdr i w r = true ->
  in_rangeb (w_mem w) (get hdr i (w_fld w)) = true ->
  (forall n, f_args f = ArgsFixed n -> alen i = n) ->
  is_ok (write_field hdr i w) = true -> pair_fits hdr i w r = true.
Proof.
  unfold pair_checked. intros Hc Hforced Hwf Hfix Hok.
  apply orb_true_iff in Hc as [Hc|Hc]; [apply orb_true_iff in Hc as [Hc|Hc]; [apply orb_true_iff in Hc as [Hc|Hc]|]|].
  - unfold pair_fits. destruct (r_fld r); try discriminate. reflexivity.
  - unfold forced_value_ok in Hforced. rewrite Hc in Hforced. apply Z.eqb_eq in Hforced.
    unfold forced_pair in Hc. destruct (w_fld w) eqn:Ew; try discriminate.
    assert (Hr : in_range (r_disk r) c /\ in_range (r_mem r) c).
    { destruct (r_fld r); try discriminate; apply andb_true_iff in Hc as [H1 H2]; apply in_rangeb_spec in H1, H2; auto. }
    destruct Hr as [Hd Hm]. unfold pair_fits. rewrite Ew. cbn [get] in *.
    rewrite (cast_id _ _ Hd), (cast_id _ _ Hm).
    destruct (r_fld r); try discriminate; apply Z.eqb_eq; symmetry; exact Hforced.
  - apply andb_true_iff in Hc as [He Hc]. apply fld_eqb_eq in He.
    assert (Hv : cast (r_mem r) (cast (r_disk r) (get hdr i (w_fld w))) = get hdr i (w_fld w)).
    { apply in_rangeb_spec in Hwf. apply orb_true_iff in Hc as [Hc|Hc].
      - apply andb_true_iff in Hc as [Hc Hms].
        assert (Hd : in_range (w_disk w) (get hdr i (w_fld w))).
        { unfold write_field in Hok. destruct (w_cast w).
          - eapply sub_range_spec; eauto.
          - destruct (in_rangeb (w_disk w) _) eqn:E; [now apply in_rangeb_spec|discriminate]. }
        destruct (meet_sub_spec _ _ _ _ _ Hms Hwf Hd) as [Hrd Hrm].
        rewrite (cast_id _ _ Hrd). now apply cast_id.
      - apply andb_true_iff in Hc as [Hc Hbits]. apply andb_true_iff in Hc as [Hc Hte]. apply ity_eqb_eq in Hte.
        rewrite Hte in Hwf. apply cast_cast_wide; auto. }
    unfold pair_fits. rewrite Hv, He. destruct (r_fld r); auto using Z.eqb_refl.
  - destruct (w_fld w) eqn:Ew; try discriminate. destruct (r_fld r) eqn:Er; try discriminate.
    destruct (f_args f) eqn:A; try discriminate.
    apply andb_true_iff in Hc as [Hc Hm]. apply andb_true_iff in Hc as [Hc Hd]. apply Z.eqb_eq in Hc. subst c.
    apply in_rangeb_spec in Hm, Hd. unfold pair_fits. rewrite Er, Ew. cbn [get].
    rewrite (cast_id _ _ Hd), (cast_id _ _ Hm). apply Z.eqb_eq. symmetry. auto.
Qed.

Lemma write_fields_ok_each hdr i w t : is_ok (write_fields hdr i (w :: t)) = true ->
  is_ok (write_field hdr i w) = true /\ is_ok (write_fields hdr i t) = true.
Proof.
  cbn [write_fields]. destruct (write_field hdr i w); cbn; try discriminate.
  destruct (write_fields hdr i t); cbn; try discriminate. auto.
Qed.

Lemma checked_write_fits f hdr i ws rs :
  forallb2 (pair_checked f) ws rs = true ->
  forallb2 (forced_value_ok hdr i) ws rs = true ->
  forallb (fun w => in_rangeb (w_mem w) (get hdr i (w_fld w))) ws = true ->
  (forall n, f_args f = ArgsFixed n -> alen i = n) ->
  is_ok (write_fields hdr i ws) = true -> forallb2 (pair_fits hdr i) ws rs = true.
Proof.
  revert rs. induction ws as [|w t IH]; destruct rs as [|r rs]; cbn [forallb2 forallb]; try discriminate; auto.
  rewrite !andb_true_iff. intros [Hc Hcs] [Hf Hfs] [Hw Hws] Hfix Hok.
  apply write_fields_ok_each in Hok as [Ho1 Ho2]. split.
  - eapply pair_checked_fits; eauto.
  - apply IH; auto.
Qed.

Lemma term_unreachable_spec f i : term_unreachable f = true -> looks_terminal f i = false.
Proof.
  unfold term_unreachable, looks_terminal, cond_on. intro H. apply existsb_exists in H as ([g c] & Hin & Hc).
  cbn [fst snd] in Hc. apply not_true_is_false. intro Hall. rewrite forallb_forall in Hall.
  specialize (Hall _ Hin). cbn [fst snd] in Hall. apply Z.eqb_eq in Hall.
  assert (0 <= alen i) by (unfold alen; lia).
  destruct g; try discriminate; cbn [get] in Hall; apply Z.ltb_lt in Hc; lia.
Qed.

Lemma write_ok_checks hdr i ws : is_ok (write_fields hdr i ws) = true ->
  forallb (fun w => match w_cast w with
                    | Checked => in_rangeb (w_disk w) (get hdr i (w_fld w))
                    | AsCast => true
                    end) ws = true.
Proof.
  induction ws as [|w t IH]; [reflexivity|]. intro H. apply write_fields_ok_each in H as [H1 H2].
  cbn [forallb]. rewrite (IH H2), andb_true_r. unfold write_field in H1.
  destruct (w_cast w); [reflexivity|]. destruct (in_rangeb (w_disk w) _); [reflexivity|discriminate].
Qed.

Theorem no_silent_change f i :
  fmt_ok f = true -> all_checked f = true ->
  wf_instr f i = true -> unstored_default f i = true -> forced_default f i = true -> alen i <= ISIZE_MAX ->
  (is_ok (write_instr f i) = true <-> fitsb f i = true).
Proof.
  intros OK0 Hall Hwf Hu Hfd Hl. assert (OK := fmt_ok_spec _ OK0). split.
  - intro Hok. unfold all_checked in Hall. apply andb_true_iff in Hall as [Hall Hg].
    unfold write_instr in Hok.
    destruct (f_tguard f && looks_terminal f i) eqn:G; [discriminate|].
    destruct (write_fields (f_hdr f) i (f_write f)) as [hb| | |] eqn:Hb; try discriminate. cbn [obind] in Hok.
    assert (Hfix : forall n, f_args f = ArgsFixed n -> alen i = n).
    { intros n A. rewrite A in Hok. destruct (Z.eqb_spec (alen i) n); [auto|destruct (f_fixed_wdiag f); discriminate]. }
    apply fitsb_spec. repeat split; auto.
    + unfold fields_fit. eapply checked_write_fits; eauto. now rewrite Hb.
    + destruct (is_tterminal f) eqn:T; [|reflexivity]. cbn [negb orb] in Hg. cbn [andb].
      apply orb_true_iff in Hg as [Hg|Hg]; [rewrite Hg in G; exact G|now apply term_unreachable_spec].
    + unfold checks_pass. eapply write_ok_checks. now rewrite Hb.
  - intro Hf. destruct (fits_write_ok _ _ OK Hf) as (hb & _ & ->). reflexivity.
Qed.
