(* Proofs/AbiBytes.v -- byte-level lemmas for Model/Abi.v: little-endian integers, xor masks, padding,
   NUL search. *)
From TV Require Import Base.I32 Model.Abi.
Open Scope Z_scope.

Lemma zlen_nonneg {A} (l : list A) : 0 <= zlen l.
Proof. unfold zlen. lia. Qed.

Lemma zlen_app {A} (l1 l2 : list A) : zlen (l1 ++ l2) = zlen l1 + zlen l2.
Proof. unfold zlen. rewrite app_length. lia. Qed.

Lemma zlen_cons {A} (x : A) (l : list A) : zlen (x :: l) = 1 + zlen l.
Proof. unfold zlen. cbn [length]. lia. Qed.

Lemma zlen_nil {A} : zlen (@nil A) = 0.
Proof. reflexivity. Qed.

(* ---- little endian ---- *)
Lemma le_bytes_length n v : length (le_bytes n v) = n.
Proof. revert v. induction n as [|n IH]; intro v; cbn [le_bytes length]; [reflexivity|]. now rewrite IH. Qed.

Lemma zlen_le_bytes n v : zlen (le_bytes n v) = Z.of_nat n.
Proof. unfold zlen. now rewrite le_bytes_length. Qed.

Lemma le_val_le_bytes n v : le_val (le_bytes n v) = v mod 2 ^ (8 * Z.of_nat n).
Proof.
  revert v. induction n as [|n IH]; intro v.
  - cbn [le_bytes le_val]. change (8 * Z.of_nat 0) with 0. rewrite Z.pow_0_r, Z.mod_1_r. reflexivity.
  - cbn [le_bytes le_val]. rewrite IH.
    replace (8 * Z.of_nat (S n)) with (8 + 8 * Z.of_nat n) by lia.
    rewrite Z.pow_add_r by lia. change (2 ^ 8) with 256.
    assert (Hp : 0 < 2 ^ (8 * Z.of_nat n)) by (apply Z.pow_pos_nonneg; lia).
    rewrite (Z.rem_mul_r v 256 (2 ^ (8 * Z.of_nat n))) by lia. reflexivity.
Qed.

Lemma le_bytes_zero n : le_bytes n 0 = repeat 0 n.
Proof. induction n as [|n IH]; cbn [le_bytes repeat]; [reflexivity|]. now rewrite Z.mod_0_l, Z.div_0_l, IH by lia. Qed.

Lemma le_val_zeros n : le_val (repeat 0 n) = 0.
Proof. induction n as [|n IH]; cbn [repeat le_val]; [reflexivity|]. rewrite IH. reflexivity. Qed.

Lemma le_bytes_range n v : Forall (fun b => 0 <= b < 256) (le_bytes n v).
Proof.
  revert v. induction n as [|n IH]; intro v; cbn [le_bytes]; constructor; [|apply IH].
  apply Z.mod_pos_bound. lia.
Qed.

(* reading back what was written: in-range values survive *)
Lemma interp_mod n sg v : (0 < n)%nat -> in_range n sg v = true ->
  interp n sg (v mod 2 ^ (8 * Z.of_nat n)) = v.
Proof.
  intros Hn Hr. unfold in_range, int_lo, int_hi, interp in *.
  apply andb_true_iff in Hr. destruct Hr as [Hlo Hhi]. apply Z.leb_le in Hlo, Hhi.
  set (w := 8 * Z.of_nat n) in *.
  assert (Hw : 0 < w) by (unfold w; lia).
  assert (H2 : 2 ^ w = 2 * 2 ^ (w - 1)) by (rewrite <- Z.pow_succ_r by lia; f_equal; lia).
  assert (Hp : 0 < 2 ^ (w - 1)) by (apply Z.pow_pos_nonneg; lia).
  destruct sg.
  - destruct (Z_lt_ge_dec v 0) as [Hneg|Hpos].
    + replace (v mod 2 ^ w) with (v + 2 ^ w)
        by (apply Z.mod_unique_pos with (-1); lia).
      destruct (v + 2 ^ w <? 2 ^ (w - 1)) eqn:E; [apply Z.ltb_lt in E|]; lia.
    + rewrite Z.mod_small by lia.
      destruct (v <? 2 ^ (w - 1)) eqn:E; [reflexivity|apply Z.ltb_ge in E; lia].
  - rewrite Z.mod_small by lia. reflexivity.
Qed.

(* the value read is always in the range of the type it is read as *)
Lemma interp_range n sg u : (0 < n)%nat -> 0 <= u < 2 ^ (8 * Z.of_nat n) -> in_range n sg (interp n sg u) = true.
Proof.
  intros Hn Hu. unfold in_range, int_lo, int_hi, interp.
  set (w := 8 * Z.of_nat n) in *.
  assert (Hw : 0 < w) by (unfold w; lia).
  assert (H2 : 2 ^ w = 2 * 2 ^ (w - 1)) by (rewrite <- Z.pow_succ_r by lia; f_equal; lia).
  assert (Hp : 0 < 2 ^ (w - 1)) by (apply Z.pow_pos_nonneg; lia).
  apply andb_true_iff. destruct sg.
  - destruct (u <? 2 ^ (w - 1)) eqn:E; [apply Z.ltb_lt in E|apply Z.ltb_ge in E]; split; apply Z.leb_le; lia.
  - split; apply Z.leb_le; lia.
Qed.

Lemma interp_cong n sg u : (0 < n)%nat -> 0 <= u < 2 ^ (8 * Z.of_nat n) ->
  interp n sg u mod 2 ^ (8 * Z.of_nat n) = u.
Proof.
  intros Hn Hu. unfold interp.
  set (w := 8 * Z.of_nat n) in *.
  assert (Hp : 0 < 2 ^ w) by (apply Z.pow_pos_nonneg; unfold w; lia).
  destruct sg; [|apply Z.mod_small; lia].
  destruct (u <? 2 ^ (w - 1)); [apply Z.mod_small; lia|].
  symmetry. apply Z.mod_unique_pos with (-1); lia.
Qed.

Lemma in_range_i32 n sg v : (n <= 4)%nat -> (n < 4 \/ sg = true)%nat -> in_range n sg v = true -> in_i32 v.
Proof.
  intros Hn Hs Hr. unfold in_range, int_lo, int_hi in Hr. apply andb_true_iff in Hr.
  destruct Hr as [Hlo Hhi]. apply Z.leb_le in Hlo, Hhi. unfold in_i32, I32_MIN, I32_MAX.
  destruct n as [|[|[|[|[|n]]]]]; try lia; destruct sg; cbn in Hlo, Hhi; try lia.
  all: destruct Hs as [Hs|Hs]; [lia|discriminate].
Qed.

(* an unsigned 4-byte read followed by `as i32` still returns every i32 that was written with `as u32` *)
Lemma wrap32_interp4_unsigned v : in_i32 v -> wrap32 (interp 4 false (v mod 2 ^ (8 * Z.of_nat 4))) = v.
Proof.
  intro H. unfold interp. change (2 ^ (8 * Z.of_nat 4)) with two32.
  fold (u32 v). now apply wrap32_u32_id.
Qed.

(* ---- take ---- *)
Lemma take_app (l tail : bytes) : take (length l) (l ++ tail) = Ok (l, tail).
Proof.
  unfold take. rewrite app_length.
  destruct (length l + length tail <? length l)%nat eqn:E.
  - apply Nat.ltb_lt in E. lia.
  - rewrite firstn_app, Nat.sub_diag, firstn_all, skipn_app, Nat.sub_diag, skipn_all. cbn [firstn skipn].
    now rewrite !app_nil_r.
Qed.

Lemma take_app_n n (l tail : bytes) : length l = n -> take n (l ++ tail) = Ok (l, tail).
Proof. intros <-. apply take_app. Qed.

(* ---- xor mask ---- *)
Lemma mask_stream_length n m v a : length (mask_stream n m v a) = n.
Proof. revert m v. induction n as [|n IH]; intros m v; cbn [mask_stream length]; [reflexivity|]. now rewrite IH. Qed.

Lemma xor_bytes_length l ms : length (xor_bytes l ms) = length l.
Proof. revert ms. induction l as [|b l IH]; intros [|m ms]; cbn [xor_bytes length]; try reflexivity. now rewrite IH. Qed.

Lemma xor_bytes_involutive l ms : xor_bytes (xor_bytes l ms) ms = l.
Proof.
  revert ms. induction l as [|b l IH]; intros [|m ms]; cbn [xor_bytes]; try reflexivity.
  rewrite IH. f_equal. rewrite Z.lxor_assoc, Z.lxor_nilpotent, Z.lxor_0_r. reflexivity.
Qed.

Lemma apply_mask_length l m v a : length (apply_mask l m v a) = length l.
Proof. unfold apply_mask. apply xor_bytes_length. Qed.

Lemma zlen_apply_mask l m v a : zlen (apply_mask l m v a) = zlen l.
Proof. unfold zlen. now rewrite apply_mask_length. Qed.

Lemma apply_mask_involutive l m v a : apply_mask (apply_mask l m v a) m v a = l.
Proof. unfold apply_mask. rewrite xor_bytes_length. apply xor_bytes_involutive. Qed.

(* ---- zeros / padding ---- *)
Lemma zeros_length n : 0 <= n -> zlen (zeros n) = n.
Proof. intro H. unfold zlen, zeros. rewrite repeat_length. lia. Qed.

Lemma all_zero_zeros n : all_zero (zeros n) = true.
Proof. unfold all_zero, zeros. induction (Z.to_nat n) as [|k IH]; cbn [repeat forallb]; [reflexivity|]. now rewrite IH. Qed.

Lemma all_zero_app l1 l2 : all_zero (l1 ++ l2) = all_zero l1 && all_zero l2.
Proof. unfold all_zero. apply forallb_app. Qed.

Definition no_nul (l : bytes) : Prop := ~ In 0 l.

Lemma index_of_nul_app_nul l rest : no_nul l -> index_of_nul (l ++ 0 :: rest) = Some (length l).
Proof.
  unfold no_nul. induction l as [|b l IH]; intro H; cbn [app index_of_nul length].
  - reflexivity.
  - destruct (b =? 0) eqn:E; [apply Z.eqb_eq in E; subst; exfalso; apply H; now left|].
    rewrite IH; [reflexivity|]. intro Hin. apply H. now right.
Qed.

Lemma index_of_nul_none l : no_nul l -> index_of_nul l = None.
Proof.
  unfold no_nul. induction l as [|b l IH]; intro H; cbn [index_of_nul]; [reflexivity|].
  destruct (b =? 0) eqn:E; [apply Z.eqb_eq in E; subst; exfalso; apply H; now left|].
  rewrite IH; [reflexivity|]. intro Hin. apply H. now right.
Qed.

Lemma firstn_app_exact {A} (l r : list A) : firstn (length l) (l ++ r) = l.
Proof. rewrite firstn_app, Nat.sub_diag, firstn_all. cbn [firstn]. apply app_nil_r. Qed.

Lemma skipn_app_exact {A} (l r : list A) : skipn (length l) (l ++ r) = r.
Proof. rewrite skipn_app, Nat.sub_diag, skipn_all. reflexivity. Qed.

(* trimming  l ++ NUL ++ anything  at the first NUL gives l back *)
Lemma trim_after_nul l rest w : no_nul l -> fst (trim_first_nul (l ++ 0 :: rest) w) = l.
Proof.
  intro H. unfold trim_first_nul. rewrite index_of_nul_app_nul by assumption. cbn [fst]. apply firstn_app_exact.
Qed.

Lemma trim_after_nul_warn l rest w : no_nul l -> (w = false \/ all_zero rest = true) ->
  trim_first_nul (l ++ 0 :: rest) w = (l, []).
Proof.
  intros H Hw. unfold trim_first_nul. rewrite index_of_nul_app_nul by assumption.
  rewrite firstn_app_exact, skipn_app_exact. f_equal.
  destruct Hw as [->|Hz]; [reflexivity|].
  unfold all_zero in *. cbn [forallb]. rewrite Z.eqb_refl, Hz. now destruct w.
Qed.
