(* Proofs/FailureIff.v -- a computation built from disciplined emit sites with `?`, ErrorFlag and
   collect_with_recovery fails if and only if it printed an error-severity diagnostic. *)
From TV Require Import Base.I32 Model.Diag.
Open Scope Z_scope.

Section CompInd.
  Variable P : comp -> Prop.
  Hypothesis HOk : P COk.
  Hypothesis HEmit : forall s d, P (CEmit s d).
  Hypothesis HSeq : forall a b, P a -> P b -> P (CSeq a b).
  Hypothesis HRec : forall items, Forall P items -> P (CRecover items).
  Hypothesis HFlag : forall items, Forall P items -> P (CFlag items).
  Fixpoint comp_ind2 (c : comp) : P c :=
    match c with
    | COk => HOk
    | CEmit s d => HEmit s d
    | CSeq a b => HSeq a b (comp_ind2 a) (comp_ind2 b)
    | CRecover items => HRec items ((fix go (l : list comp) : Forall P l :=
                                       match l with [] => Forall_nil _ | x :: t => Forall_cons x (comp_ind2 x) (go t) end) items)
    | CFlag items => HFlag items ((fix go (l : list comp) : Forall P l :=
                                     match l with [] => Forall_nil _ | x :: t => Forall_cons x (comp_ind2 x) (go t) end) items)
    end.
End CompInd.

Definition has_error (l : list sev) : bool := existsb is_error l.

Lemma has_error_app a b : has_error (a ++ b) = has_error a || has_error b.
Proof. unfold has_error. apply existsb_app. Qed.

Definition iff_ok (c : comp) : Prop := fst (run c) = negb (has_error (snd (run c))).

Lemma items_iff items :
  Forall (fun c => disciplined c = true -> iff_ok c) items ->
  (fix go (l : list comp) : bool := match l with [] => true | x :: t => disciplined x && go t end) items = true ->
  let r := (fix go (l : list comp) : bool * list sev :=
              match l with
              | [] => (true, [])
              | x :: t => let (ox, lx) := run x in let (ot, lt) := go t in (ox && ot, lx ++ lt)
              end) items in
  fst r = negb (has_error (snd r)).
Proof.
  induction items as [|x t IH]; intros F D; cbn zeta in *; [reflexivity|].
  inversion F as [|x0 t0 Hx Ht]; subst. apply andb_true_iff in D. destruct D as [Dx Dt].
  specialize (Hx Dx). specialize (IH Ht Dt). unfold iff_ok in Hx.
  destruct (run x) as [ox lx]. cbn [fst snd] in *.
  match goal with |- context [let (ot, lt) := ?g in _] => destruct g as [ot lt] end.
  cbn [fst snd] in *. rewrite has_error_app, negb_orb, Hx, IH. reflexivity.
Qed.

Theorem failure_iff_error_diagnostic c : disciplined c = true -> iff_ok c.
Proof.
  induction c using comp_ind2; intros D; unfold iff_ok in *; cbn [run disciplined] in *.
  - reflexivity.
  - destruct s, d; cbn in *; try discriminate; reflexivity.
  - apply andb_true_iff in D. destruct D as [Da Db]. specialize (IHc1 Da). specialize (IHc2 Db).
    destruct (run c1) as [oa la]. cbn [fst snd] in *. destruct oa.
    + destruct (run c2) as [ob lb]. cbn [fst snd] in *. rewrite has_error_app, negb_orb, <- IHc1, IHc2. reflexivity.
    + cbn [fst snd]. exact IHc1.
  - now apply items_iff.
  - now apply items_iff.
Qed.

(* stated as the property reads: the run fails iff some printed diagnostic has error severity *)
Corollary failure_iff c : disciplined c = true ->
  (fst (run c) = false <-> exists s, In s (snd (run c)) /\ s = SError).
Proof.
  intros D. pose proof (failure_iff_error_diagnostic c D) as H. unfold iff_ok in H. rewrite H.
  rewrite negb_false_iff. unfold has_error. rewrite existsb_exists. split.
  - intros [s [Hin Hs]]. exists s. split; auto. destruct s; cbn in Hs; congruence.
  - intros [s [Hin ->]]. exists SError. auto.
Qed.

(* the two ways of breaking the discipline break the property *)
Lemma warning_as_failure_refuted :
  let c := CSeq (CEmit SWarning DUsed) COk in     (* read_quad: return Err(emitter.emit(warning!(..))) *)
  fst (run c) = false /\ has_error (snd (run c)) = false.
Proof. split; reflexivity. Qed.

Lemma ignored_error_refuted :
  let c := CSeq (CEmit SError DIgnored) COk in
  fst (run c) = true /\ has_error (snd (run c)) = true.
Proof. split; reflexivity. Qed.

Example discipline_nonvacuous :
  let c := CFlag [CEmit SWarning DIgnored; CSeq (CEmit SInfo DIgnored) (CEmit SError DUsed); CRecover [COk; CEmit SError DUsed]] in
  disciplined c = true /\ run c = (false, [SWarning; SInfo; SError; SError]).
Proof. split; reflexivity. Qed.
