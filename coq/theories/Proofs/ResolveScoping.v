(* Proofs/ResolveScoping.v -- C10: the individual scoping rules of the property text as corollaries. *)
From TV Require Import Base.I32 Model.ResolveSyntax Gen.RibTable Model.Resolve Spec.Scope Proofs.ResolveSpec Proofs.ResolveRedecl.
Open Scope Z_scope.

(* ---- register and instruction aliases only in their own language ---- *)

Lemma global_var_in_lang g ribs al col x l y : global_var_in ribs g al col x = ROk (DReg l y) -> al = Some l /\ y = x.
Proof.
  induction ribs as [|r t IH]; cbn [global_var_in]; [discriminate|].
  destruct r; try exact IH.
  - destruct al as [l'|]; [|exact IH]. destruct (has_reg g l' x); [|exact IH]. intro H. inversion H. auto.
  - destruct (memz x (ge_builtins g)); [discriminate | exact IH].
  - destruct (enums_with g x) as [|e0 t0] eqn:E; [exact IH|]. unfold enum_unqualified.
    destruct col as [e|]; [destruct (enum_has g e x); [discriminate|]|]; rewrite E; destruct t0; discriminate.
Qed.

Lemma global_fun_in_lang g ribs al x l y : global_fun_in ribs g al x = ROk (DIns l y) -> al = Some l /\ y = x.
Proof.
  induction ribs as [|r t IH]; cbn [global_fun_in]; [discriminate|].
  destruct r; try exact IH. destruct al as [l'|]; [|exact IH]. destruct (ins_opcode g l' x); [|exact IH].
  intro H. inversion H. auto.
Qed.

Definition no_alias_env (e : env) : Prop := forall x d, e x = LFound d -> user_id d <> None.

(* a use looked up with language [al] resolves to a register / instruction alias only of that very
   language and of its own spelling; with no language (const contexts, meta) never *)
Theorem aliases_only_in_own_language g lv lf al u l y :
  no_alias_env lv -> no_alias_env lf ->
  (resolve_use g lv lf al u = ROk (DReg l y) \/ resolve_use g lv lf al u = ROk (DIns l y)) ->
  al = Some l /\ y = oname (u_occ u).
Proof.
  intros Hv Hf. unfold resolve_use. destruct (visited g lf al (u_guards u)); [|intros [H|H]; discriminate].
  destruct (u_kind u) as [| |e].
  - unfold lookup_var. destruct (lv (oname (u_occ u))) as [d|d|] eqn:E; cbn [of_lres].
    + intros [H|H]; inversion H; subst; exfalso; eapply Hv; eauto.
    + intros [H|H]; discriminate.
    + intros [H|H]; [now apply global_var_in_lang in H|].
      pose proof (global_var_in_kind g (rev gen_initial_ribs) al (colour g lf al (u_guards u)) (oname (u_occ u))) as K.
      unfold global_var in H. exfalso. revert K H. clear.
      generalize (rev gen_initial_ribs). intro ribs. induction ribs as [|r t IH]; cbn [global_var_in]; [discriminate|].
      destruct r; try exact IH.
      * destruct al as [l'|]; [|exact IH]. destruct (has_reg g l' _); [discriminate | exact IH].
      * destruct (memz _ _); [discriminate | exact IH].
      * destruct (enums_with g _) as [|e0 t0] eqn:E; [exact IH|]. unfold enum_unqualified.
        destruct (colour g lf al (u_guards u)) as [e|]; [destruct (enum_has g e _); [discriminate|]|]; rewrite E; destruct t0; discriminate.
  - unfold lookup_fun. destruct (lf (oname (u_occ u))) as [d|d|] eqn:E; cbn [of_lres].
    + intros [H|H]; inversion H; subst; exfalso; eapply Hf; eauto.
    + intros [H|H]; discriminate.
    + intros [H|H]; [|now apply global_fun_in_lang in H].
      exfalso. revert H. unfold global_fun. generalize (rev gen_initial_ribs). intro ribs.
      induction ribs as [|r t IH]; cbn [global_fun_in]; [discriminate|].
      destruct r; try exact IH. destruct al as [l'|]; [|exact IH]. destruct (ins_opcode g l' _); [discriminate | exact IH].
  - unfold enum_qualified. destruct (enum_declared g e); [destruct (enum_has g e _)|]; intros [H|H]; discriminate.
Qed.

(* ---- locals never cross an item boundary ---- *)

Fixpoint lids_stmt (s : stmt) : list Z :=
  match s with
  | SUses _ => []
  | SDecl vars => map (fun v => oid (fst v)) vars
  | SBlock b => lids_block b
  | SItem i => lids_item i
  end
with lids_block (b : block) : list Z :=
  match b with BNil => [] | BCons s t => lids_stmt s ++ lids_block t end
with lids_item (i : item) : list Z :=
  match i with
  | IFunc _ _ ps body => map oid ps ++ lids_block body
  | IScript b => lids_block b
  | _ => []
  end.

Definition is_barrier_item (i : item) : bool :=
  match i with IFunc _ _ _ _ | IFuncDecl _ _ _ | IConst _ => true | _ => false end.

(* every usable local of the environment was declared by one of S *)
Definition locals_from (S : list Z) (e : env) : Prop :=
  forall x d, e x = LFound d -> is_local_def d = true -> exists j, user_id d = Some j /\ In j S.
Definition fun_env (e : env) : Prop := forall x d, e x = LFound d -> is_local_def d = false.

Lemma locals_from_incl S S' e : locals_from S e -> incl S S' -> locals_from S' e.
Proof. intros H Hi x d E L. destruct (H x d E L) as [j [H1 H2]]. exists j. auto. Qed.

Lemma locals_from_hide S e : locals_from S (hide e).
Proof.
  intros x d E L. unfold hide in E. destruct (e x) as [d0|d0|]; cbn [hide_res] in E; try discriminate.
  destruct (is_local_def d0) eqn:L0; [discriminate|]. inversion E; subst. congruence.
Qed.

Lemma locals_from_bind S e y d j : locals_from S e -> user_id d = Some j -> locals_from (j :: S) (bind e y d).
Proof.
  intros H Hd x d0 E L. unfold bind in E. destruct (x =? y).
  - inversion E; subst. exists j. split; [exact Hd | now left].
  - destruct (H x d0 E L) as [i [H1 H2]]. exists i. split; [exact H1 | now right].
Qed.

Lemma locals_from_bind_item S e y d : locals_from S e -> is_local_def d = false -> locals_from S (bind e y d).
Proof.
  intros H Hd x d0 E L. unfold bind in E. destruct (x =? y); [inversion E; subst; congruence | eauto].
Qed.

Lemma locals_from_bind_occs_item S mk os : (forall o, is_local_def (mk o) = false) -> forall e, locals_from S e -> locals_from S (bind_occs mk e os).
Proof. intro Hmk. induction os as [|o t IH]; intros e H; cbn [bind_occs]; [exact H|]. apply IH. now apply locals_from_bind_item. Qed.

Lemma locals_from_enter_v S e its : locals_from S e -> locals_from S (enter_v e its).
Proof. intro H. unfold enter_v. apply locals_from_bind_occs_item; [reflexivity | exact H]. Qed.

Lemma fun_env_bind_funcs fs : forall e, fun_env e -> fun_env (bind_funcs e fs).
Proof.
  induction fs as [|[f n] t IH]; intros e H; cbn [bind_funcs]; [exact H|]. apply IH.
  intros x d E. unfold bind in E. destruct (x =? oname f); [inversion E; reflexivity | eauto].
Qed.

Lemma locals_from_params ps : forall S e, locals_from S e -> locals_from (rev (map oid ps) ++ S) (bind_occs mk_param e ps).
Proof.
  induction ps as [|p t IH]; intros S e H; cbn [map rev app bind_occs]; [exact H|].
  rewrite <- app_assoc. cbn [app]. apply IH. now apply locals_from_bind.
Qed.

(* a use that resolves to a local or parameter found it in the variable environment *)
Lemma use_local_from_env g S ve fe al u d :
  locals_from S ve -> fun_env fe -> resolve_use g ve fe al u = ROk d -> is_local_def d = true ->
  exists j, user_id d = Some j /\ In j S.
Proof.
  intros Hv Hf. unfold resolve_use. destruct (visited g fe al (u_guards u)); [|discriminate].
  destruct (u_kind u) as [| |e].
  - unfold lookup_var. destruct (ve (oname (u_occ u))) as [d0|d0|] eqn:E; cbn [of_lres]; [| discriminate |].
    + intros H L. inversion H; subst. eauto.
    + intros H L. pose proof (global_var_in_kind g (rev gen_initial_ribs) al (colour g fe al (u_guards u)) (oname (u_occ u))) as K.
      unfold global_var in H. rewrite H in K. cbn in K. destruct d; cbn in *; discriminate.
  - unfold lookup_fun. destruct (fe (oname (u_occ u))) as [d0|d0|] eqn:E; cbn [of_lres]; [| discriminate |].
    + intros H L. inversion H; subst. rewrite (Hf _ _ E) in L. discriminate.
    + intros H L. pose proof (global_fun_in_kind g (rev gen_initial_ribs) al (oname (u_occ u))) as K.
      unfold global_fun in H. rewrite H in K. cbn in K. destruct d; cbn in *; discriminate.
  - intros H L. pose proof (enum_qualified_kind g e (oname (u_occ u))) as K. rewrite H in K. cbn in K. destruct d; cbn in *; discriminate.
Qed.

Section Cross.
  Variable g : genv.
  Variables fl sl : lang.

  Lemma uses_local S ve fe al us id d :
    locals_from S ve -> fun_env fe -> In (EvRes id (ROk d)) (s_uses g ve fe al us) -> is_local_def d = true ->
    exists j, user_id d = Some j /\ In j S.
  Proof.
    intros Hv Hf Hin L. unfold s_uses in Hin. apply in_map_iff in Hin as [u [E _]].
    unfold use_event in E. inversion E. eapply use_local_from_env; eauto.
  Qed.

  Lemma decls_local vars : forall S ve fe al,
    locals_from S ve -> fun_env fe ->
    (forall id d, In (EvRes id (ROk d)) (fst (s_decls g ve fe al vars)) -> is_local_def d = true ->
       exists j, user_id d = Some j /\ (In j S \/ In j (map (fun v => oid (fst v)) vars)))
    /\ locals_from (rev (map (fun v => oid (fst v)) vars) ++ S) (snd (s_decls g ve fe al vars)).
  Proof.
    induction vars as [|[o init] t IH]; intros S ve fe al Hv Hf; cbn [s_decls map fst snd rev app].
    - split; [intros ? ? [] | exact Hv].
    - assert (Hv1 : locals_from (oid o :: S) (bind ve (oname o) (mk_local o))) by (now apply locals_from_bind).
      destruct (IH (oid o :: S) _ fe al Hv1 Hf) as [I1 I2].
      destruct (s_decls g (bind ve (oname o) (mk_local o)) fe al t) as [e2 ve2]. cbn [fst snd] in *. split.
      + intros id d Hin L. apply in_app_or in Hin as [Hin|[E|Hin]].
        * destruct (uses_local _ _ _ _ _ _ _ Hv Hf Hin L) as [j [H1 H2]]. exists j. auto.
        * inversion E; subst. exists (oid o). split; [reflexivity|]. right. now left.
        * destruct (I1 id d Hin L) as [j [H1 [[E1|H2]|H2]]]; exists j; (split; [exact H1|]); cbn [In]; auto.
      + rewrite <- app_assoc. exact I2.
  Qed.

  Definition Lb (b : block) : Prop := forall S ve fe al id d,
    locals_from S ve -> fun_env fe -> In (EvRes id (ROk d)) (s_stmts g fl sl ve fe al b) -> is_local_def d = true ->
    exists j, user_id d = Some j /\ (In j S \/ In j (lids_block b)).
  Definition Ls (s : stmt) : Prop := forall rest, Lb rest -> Lb (BCons s rest).
  Definition Li (i : item) : Prop := forall S ve fe id d,
    locals_from S ve -> fun_env fe -> In (EvRes id (ROk d)) (s_item g fl sl ve fe i) -> is_local_def d = true ->
    exists j, user_id d = Some j /\ ((is_barrier_item i = false /\ In j S) \/ In j (lids_item i)).

  Lemma self_events_not_local its id d : In (EvRes id (ROk d)) (item_self_events its) -> is_local_def d = false.
  Proof.
    unfold item_self_events. intro H. apply in_app_or in H as [H|H]; apply in_map_iff in H as [x [E _]]; inversion E; reflexivity.
  Qed.

  Lemma enter_block_local b S ve fe al id d :
    Lb b -> locals_from S ve -> fun_env fe ->
    In (EvRes id (ROk d)) (item_self_events (block_items b) ++ s_stmts g fl sl (enter_v ve (block_items b)) (enter_f fe (block_items b)) al b) ->
    is_local_def d = true -> exists j, user_id d = Some j /\ (In j S \/ In j (lids_block b)).
  Proof.
    intros HL Hv Hf Hin L. apply in_app_or in Hin as [Hin|Hin].
    - apply self_events_not_local in Hin. congruence.
    - apply (HL S (enter_v ve (block_items b)) (enter_f fe (block_items b)) al id d); auto; [now apply locals_from_enter_v | now apply fun_env_bind_funcs].
  Qed.

  Lemma lids_cons s t : lids_block (BCons s t) = lids_stmt s ++ lids_block t. Proof. reflexivity. Qed.

  Lemma cross_all : (forall s, Ls s) /\ (forall b, Lb b) /\ (forall i, Li i).
  Proof.
    apply syntax_mutind.
    - (* SUses *) intros us rest IH S ve fe al id d Hv Hf Hin L. rewrite ss_uses in Hin. apply in_app_or in Hin as [Hin|Hin].
      + destruct (uses_local _ _ _ _ _ _ _ Hv Hf Hin L) as [j [H1 H2]]. exists j. auto.
      + rewrite lids_cons. destruct (IH S ve fe al id d Hv Hf Hin L) as [j [H1 [H2|H2]]]; exists j; (split; [exact H1|]); [now left | right; apply in_or_app; now right].
    - (* SDecl *) intros vars rest IH S ve fe al id d Hv Hf Hin L. rewrite ss_decl in Hin.
      destruct (decls_local vars S ve fe al Hv Hf) as [D1 D2].
      destruct (s_decls g ve fe al vars) as [e ve1]. cbn [fst snd] in *. rewrite lids_cons. cbn [lids_stmt].
      apply in_app_or in Hin as [Hin|Hin].
      + destruct (D1 id d Hin L) as [j [H1 [H2|H2]]]; exists j; (split; [exact H1|]); [now left | right; apply in_or_app; now left].
      + destruct (IH _ ve1 fe al id d D2 Hf Hin L) as [j [H1 [H2|H2]]]; exists j; (split; [exact H1|]).
        * apply in_app_or in H2 as [H2|H2]; [right; apply in_or_app; left; now apply in_rev | now left].
        * right. apply in_or_app. now right.
    - (* SBlock *) intros b' IHb rest IH S ve fe al id d Hv Hf Hin L. rewrite ss_block in Hin. rewrite lids_cons. cbn [lids_stmt].
      rewrite app_assoc in Hin. apply in_app_or in Hin as [Hin|Hin].
      + destruct (enter_block_local b' S ve fe al id d IHb Hv Hf Hin L) as [j [H1 [H2|H2]]]; exists j; (split; [exact H1|]); [now left | right; apply in_or_app; now left].
      + destruct (IH S ve fe al id d Hv Hf Hin L) as [j [H1 [H2|H2]]]; exists j; (split; [exact H1|]); [now left | right; apply in_or_app; now right].
    - (* SItem *) intros i IHi rest IH S ve fe al id d Hv Hf Hin L. rewrite ss_item in Hin. rewrite lids_cons. cbn [lids_stmt].
      apply in_app_or in Hin as [Hin|Hin].
      + destruct (IHi S ve fe id d Hv Hf Hin L) as [j [H1 [[_ H2]|H2]]]; exists j; (split; [exact H1|]); [now left | right; apply in_or_app; now left].
      + destruct (IH S ve fe al id d Hv Hf Hin L) as [j [H1 [H2|H2]]]; exists j; (split; [exact H1|]); [now left | right; apply in_or_app; now right].
    - (* BNil *) intros S ve fe al id d _ _ [].
    - (* BCons *) intros s IHs b IHb. now apply IHs.
    - (* IConst *) intros vars S ve fe id d Hv Hf Hin L. rewrite si_const in Hin. exfalso.
      apply in_flat_map in Hin as [v [_ Hin]].
      destruct (uses_local [] (hide ve) fe None (snd v) id d (locals_from_hide _ _) Hf Hin L) as [j [_ []]].
    - (* IFunc *) intros q f ps body IHb S ve fe id d Hv Hf Hin L. rewrite si_func in Hin. cbn [lids_item is_barrier_item].
      apply in_app_or in Hin as [Hin|Hin].
      + apply in_map_iff in Hin as [p [E Hp]]. inversion E; subst. exists (oid p). split; [reflexivity|]. right.
        apply in_or_app. left. now apply in_map.
      + pose proof (locals_from_params ps [] (hide ve) (locals_from_hide _ _)) as Hp. rewrite app_nil_r in Hp.
        destruct (enter_block_local body _ _ fe (func_lang fl q) id d IHb Hp Hf Hin L) as [j [H1 [H2|H2]]]; exists j; (split; [exact H1|]); right; apply in_or_app.
        * left. now apply in_rev.
        * now right.
    - (* IFuncDecl *) intros q f ps S ve fe id d _ _ Hin _. rewrite si_funcdecl in Hin. apply in_map_iff in Hin as [p [E _]]. discriminate.
    - (* IScript *) intros b IHb S ve fe id d Hv Hf Hin L. rewrite si_script in Hin. cbn [lids_item is_barrier_item].
      destruct (enter_block_local b S ve fe (Some sl) id d IHb Hv Hf Hin L) as [j [H1 [H2|H2]]]; exists j; (split; [exact H1|]); auto.
    - (* IMeta *) intros us S ve fe id d Hv Hf Hin L. rewrite si_meta in Hin. cbn [lids_item is_barrier_item].
      destruct (uses_local _ _ _ _ _ _ _ Hv Hf Hin L) as [j [H1 H2]]. exists j. auto.
  Qed.

  (* Whatever is in scope around a function or const item (any environment [ve]), an occurrence inside
     the item that denotes a local variable or a parameter denotes one declared inside that item. *)
  Theorem locals_never_cross_items : forall i ve fe id d,
    is_barrier_item i = true -> fun_env fe ->
    In (EvRes id (ROk d)) (s_item g fl sl ve fe i) -> is_local_def d = true ->
    exists j, user_id d = Some j /\ In j (lids_item i).
  Proof.
    destruct cross_all as [_ [_ HLi]]. intros i ve fe id d Hb Hf Hin L.
    destruct i as [vars|q f ps body|q f ps|b|us]; try discriminate.
    - rewrite si_const in Hin. apply in_flat_map in Hin as [v [_ Hin]].
      destruct (uses_local [] (hide ve) fe None (snd v) id d (locals_from_hide _ _) Hf Hin L) as [j [_ []]].
    - destruct cross_all as [_ [HLb _]]. rewrite si_func in Hin. cbn [lids_item].
      apply in_app_or in Hin as [Hin|Hin].
      + apply in_map_iff in Hin as [p [E Hp]]. inversion E; subst. exists (oid p). split; [reflexivity|]. apply in_or_app. left. now apply in_map.
      + pose proof (locals_from_params ps [] (hide ve) (locals_from_hide _ _)) as Hp. rewrite app_nil_r in Hp.
        destruct (enter_block_local body _ _ fe (func_lang fl q) id d (HLb body) Hp Hf Hin L) as [j [H1 [H2|H2]]]; exists j; (split; [exact H1|]); apply in_or_app.
        * left. now apply in_rev.
        * now right.
    - rewrite si_funcdecl in Hin. apply in_map_iff in Hin as [p [E _]]. discriminate.
  Qed.

  (* ---- consts are visible in their whole block, also before the declaration ---- *)

  Fixpoint bapp (a b : block) : block := match a with BNil => b | BCons s t => BCons s (bapp t b) end.

  Fixpoint env_after (ve fe : env) (al : option lang) (pre : block) : env :=
    match pre with
    | BNil => ve
    | BCons (SDecl vars) t => env_after (snd (s_decls g ve fe al vars)) fe al t
    | BCons _ t => env_after ve fe al t
    end.

  Lemma s_stmts_bapp pre : forall ve fe al rest,
    s_stmts g fl sl ve fe al (bapp pre rest) = s_stmts g fl sl ve fe al pre ++ s_stmts g fl sl (env_after ve fe al pre) fe al rest.
  Proof.
    induction pre as [|s t IH]; intros ve fe al rest; [reflexivity|].
    destruct s; cbn [bapp env_after].
    - rewrite !ss_uses, IH. now rewrite app_assoc.
    - rewrite !ss_decl. destruct (s_decls g ve fe al vars) as [e ve1]. cbn [snd]. rewrite IH. now rewrite app_assoc.
    - rewrite !ss_block, IH. now rewrite !app_assoc.
    - rewrite !ss_item, IH. now rewrite app_assoc.
  Qed.

  Lemma s_decls_other vars : forall ve fe al x, ~ In x (map (fun v => oname (fst v)) vars) -> snd (s_decls g ve fe al vars) x = ve x.
  Proof.
    induction vars as [|[o init] t IH]; intros ve fe al x H; cbn [s_decls]; [reflexivity|].
    specialize (IH (bind ve (oname o) (mk_local o)) fe al x).
    destruct (s_decls g (bind ve (oname o) (mk_local o)) fe al t) as [e2 ve2]. cbn [snd] in *.
    cbn [map fst In] in H. rewrite IH by tauto. unfold bind. destruct (Z.eqb_spec x (oname o)); [subst; tauto | reflexivity].
  Qed.

  Lemma env_after_other pre : forall ve fe al x, ~ In x (local_names pre) -> env_after ve fe al pre x = ve x.
  Proof.
    induction pre as [|s t IH]; intros ve fe al x H; [reflexivity|].
    destruct s; cbn [env_after local_names] in *; try (now apply IH).
    rewrite IH by (intro; apply H; apply in_or_app; now right).
    apply s_decls_other. intro; apply H; apply in_or_app; now left.
  Qed.

  Lemma bind_occs_other mk os : forall e x, ~ In x (map oname os) -> bind_occs mk e os x = e x.
  Proof.
    induction os as [|o t IH]; intros e x H; cbn [bind_occs]; [reflexivity|].
    cbn [map In] in H. rewrite IH by tauto. unfold bind. destruct (Z.eqb_spec x (oname o)); [subst; tauto | reflexivity].
  Qed.

  Lemma bind_occs_found mk os : forall e o, NoDup (map oname os) -> In o os -> bind_occs mk e os (oname o) = LFound (mk o).
  Proof.
    induction os as [|o' t IH]; intros e o N Hin; [destruct Hin|]. cbn [bind_occs]. cbn [map] in N. inversion N as [|? ? Hn N']; subst.
    destruct Hin as [->|Hin]; [|now apply IH].
    rewrite bind_occs_other by exact Hn. unfold bind. now rewrite Z.eqb_refl.
  Qed.

  (* In a block, a plain use of a spelling that the block declares as a const item -- anywhere in the
     block, before or after the use -- and that no earlier local declaration of the block shadows,
     denotes that const; whatever the surrounding environment is. *)
  Theorem consts_visible_before_declaration : forall ve fe al pre us post vars c init u,
    let b := bapp pre (BCons (SUses us) post) in
    In (IConst vars) (block_items b) -> In (c, init) vars ->
    NoDup (const_names (block_items b)) ->
    ~ In (oname c) (local_names pre) ->
    In u us -> u_kind u = UVar -> u_guards u = [] -> oname (u_occ u) = oname c ->
    In (EvRes (oid (u_occ u)) (ROk (DConst (oid c)))) (s_block g fl sl ve fe al b).
  Proof.
    intros ve fe al pre us post vars c init u b Hitem Hc Hn Hpre Hu Hk Hg Hname.
    unfold s_block. apply in_or_app. right. subst b. rewrite s_stmts_bapp. apply in_or_app. right.
    rewrite ss_uses. apply in_or_app. left. unfold s_uses. apply in_map_iff. exists u. split; [|exact Hu].
    unfold use_event. f_equal. unfold resolve_use. rewrite Hg, Hk. cbn [visited colour]. unfold lookup_var. rewrite Hname.
    rewrite env_after_other by exact Hpre.
    unfold enter_v.
    assert (Hin : In c (const_occs (block_items (bapp pre (BCons (SUses us) post))))).
    { unfold const_occs. apply in_flat_map. exists (IConst vars). split; [exact Hitem|]. apply in_map_iff. exists (c, init). auto. }
    rewrite (bind_occs_found mk_const _ ve c Hn Hin). reflexivity.
  Qed.
End Cross.

(* ---- the defect: call arguments that are not matched with a parameter ---- *)

Definition genv_empty : genv := GEnv [] [] [] [] [].
(* instruction 25 of language 0 has one real parameter and two padding parameters *)
Definition genv_padded : genv := GEnv [] [] [(0, 25, [(None, false); (None, true); (None, true)])] [] [].

(* void a() { a(b); }   -- b is not declared anywhere *)
Definition excess_example : prog :=
  PFile [IFunc QNone (Occ 0 0) []
           (BCons (SUses [Use UFun (Occ 0 1) []; Use UVar (Occ 1 2) [Guard (CNamed (Occ 0 1)) 0%nat]]) BNil)].
(* void a() { ins_25(1, b); }   -- b is not declared anywhere *)
Definition padded_example : prog :=
  PFile [IFunc QNone (Occ 0 0) [] (BCons (SUses [Use UVar (Occ 1 1) [Guard (CRaw 25) 1%nat]]) BNil)].

Lemma excess_example_events :
  resolve genv_empty 0 5 excess_example
  = [EvRes 0 (ROk (DFunc 0 0)); EvRes 1 (ROk (DFunc 0 0));
     EvRes 2 (match gen_excess_mode with ExNone => RSkipped | _ => RUnknown end)].
Proof. vm_compute. reflexivity. Qed.

Lemma padded_example_events :
  resolve genv_padded 0 5 padded_example
  = [EvRes 0 (ROk (DFunc 0 0));
     EvRes 1 (if gen_zip_skips_padding
              then match gen_excess_mode with ExAfterMatched => RUnknown | _ => RSkipped end
              else RUnknown)].
Proof. vm_compute. reflexivity. Qed.

(* the source visits every argument of every call *)
Definition all_args_visited : Prop :=
  gen_excess_mode = ExAfterMatched \/ (gen_excess_mode = ExAfterParams /\ gen_zip_skips_padding = false).
(* ... or leaves some out: no extra loop, or the loop starts after as many arguments as there are
   parameters although padding parameters were not matched with any argument *)
Definition some_args_skipped : Prop :=
  gen_excess_mode = ExNone \/ (gen_excess_mode = ExAfterParams /\ gen_zip_skips_padding = true).

(* When some arguments are left out, "every use of a name refers to the innermost visible
   declaration" fails as stated: an accepted program can contain a use that refers to nothing *)
Theorem every_use_bound_refuted : some_args_skipped ->
  exists g fl sl p evs id, resolve_outcome g fl sl p = Ok evs /\ In (EvRes id RSkipped) evs
                           /\ forall r, binds g fl sl p id r -> r = RSkipped.
Proof.
  intros [F|[F Z]].
  - exists genv_empty, 0, 5, excess_example, [EvRes 0 (ROk (DFunc 0 0)); EvRes 1 (ROk (DFunc 0 0)); EvRes 2 RSkipped], 2.
    pose proof excess_example_events as E. rewrite F in E.
    split; [unfold resolve_outcome; rewrite E; reflexivity|]. split; [right; right; now left|].
    intros r H. unfold binds in H. rewrite <- resolve_sound_complete, E in H. cbn in H.
    destruct H as [H|[H|[H|[]]]]; inversion H; reflexivity.
  - exists genv_padded, 0, 5, padded_example, [EvRes 0 (ROk (DFunc 0 0)); EvRes 1 RSkipped], 1.
    pose proof padded_example_events as E. rewrite F, Z in E.
    split; [unfold resolve_outcome; rewrite E; reflexivity|]. split; [right; now left|].
    intros r H. unfold binds in H. rewrite <- resolve_sound_complete, E in H. cbn in H.
    destruct H as [H|[H|[]]]; inversion H; reflexivity.
Qed.

(* When every argument is visited no use is ever skipped *)
Lemma arg_visited_all s pos : all_args_visited -> arg_visited s pos = true.
Proof.
  unfold arg_visited, matched. intros [M|[M Z]]; rewrite M; [apply orb_true_r|]. rewrite Z.
  destruct (Nat.ltb pos (length s)) eqn:E; [reflexivity|]. cbn. apply Nat.leb_le. apply Nat.ltb_ge in E. exact E.
Qed.

Lemma visited_all g lf al gs : all_args_visited -> visited g lf al gs = true.
Proof.
  intro T. induction gs as [|gd outer IH]; cbn [visited]; [reflexivity|]. rewrite IH. cbn.
  destruct (callee_sig g lf al (g_callee gd)); [now apply arg_visited_all | reflexivity].
Qed.

Theorem uses_never_skipped : all_args_visited ->
  forall g lv lf al u, resolve_use g lv lf al u <> RSkipped.
Proof.
  intros T g lv lf al u. unfold resolve_use. rewrite (visited_all g lf al _ T).
  destruct (u_kind u) as [| |e].
  - unfold lookup_var. destruct (lv _); cbn [of_lres]; [intro E; inversion E | intro E; inversion E |].
    pose proof (global_var_in_kind g (rev gen_initial_ribs) al (colour g lf al (u_guards u)) (oname (u_occ u))) as K.
    unfold global_var. intro E. rewrite E in K. exact K.
  - unfold lookup_fun. destruct (lf _); cbn [of_lres]; [intro E; inversion E | intro E; inversion E |].
    pose proof (global_fun_in_kind g (rev gen_initial_ribs) al (oname (u_occ u))) as K.
    unfold global_fun. intro E. rewrite E in K. exact K.
  - pose proof (enum_qualified_kind g e (oname (u_occ u))) as K. intro E. rewrite E in K. exact K.
Qed.

Lemma args_visited_or_skipped : all_args_visited \/ some_args_skipped.
Proof.
  unfold all_args_visited, some_args_skipped.
  destruct gen_excess_mode; destruct gen_zip_skips_padding; auto.
Qed.

(* In either case: every occurrence that is visited at all is bound as the rules say *)
Theorem accepted_uses_are_bound g fl sl p evs :
  resolve_outcome g fl sl p = Ok evs ->
  forall id r, In (EvRes id r) evs -> r <> RSkipped -> exists d, r = ROk d /\ binds g fl sl p id (ROk d).
Proof.
  intros H id r Hin Hs. apply resolve_ok_iff in H as [-> [_ Hb]].
  assert (B : binds g fl sl p id r).
  { unfold binds. rewrite <- resolve_sound_complete. apply filter_In. split; [exact Hin | reflexivity]. }
  specialize (Hb id r B). destruct r; cbn in Hb; try discriminate; [eauto | congruence].
Qed.
