(* Proofs/IdsExpr.v -- C20 at the level of id expressions: the two evaluators that give a sprite's `id:` its
   meaning (const_simplify for the id written, the DFS const evaluator for the value of the name) agree --
   by the C11 theorems -- hence the expression-level compile refines the value-level one of Model/Ids.v. *)
From TV Require Import Base.I32 Base.F32 Model.Ops Model.Expr Gen.OpTable Proofs.SimplifySound Proofs.ConstDfs Proofs.ConstVm
  Model.Ids Gen.Ids Proofs.Ids Model.IdsExpr.
Open Scope Z_scope.

Section S.
  Variable libm : unop -> Z -> Z.
  Variable fuel : nat.
  Variable dl : list (nat * expr).
  Variable cache : list (nat * value).
  Hypothesis Hnd : NoDup (map fst dl).
  Hypothesis Hcache : eval_deferred gen_optable libm (assoc dl) fuel (map fst dl) [] = Ok cache.

  Notation written_value := (written_value gen_optable libm).
  Notation const_value := (const_value gen_optable libm fuel).

  (* const_simplify and the DFS evaluator give the same integer to an id expression *)
  Lemma two_evaluators_agree e w k v :
    written_value cache e = Ok w -> const_value dl e k = Ok v -> v = wrap32 (w + k).
  Proof.
    unfold IdsExpr.written_value, IdsExpr.const_value. intros Hw Hc.
    destruct (simplify gen_optable libm (assoc cache) e) as [e'| | |] eqn:Es; try discriminate. cbn [obind] in Hw.
    destruct e'; try discriminate. inversion Hw; subst z. clear Hw.
    destruct (ceval gen_optable libm (assoc dl) fuel [] (EBin e Add (ELitI k))) as [cv| | |] eqn:Ec; try discriminate.
    cbn [obind] in Hc. destruct cv as [z| |]; try discriminate. inversion Hc; subst z. clear Hc.
    destruct (const_cache_agrees_with_vm libm fuel dl cache Hnd Hcache) as [A _].
    specialize (A _ _ _ _ (fun _ => VInt 0) (fun _ => VInt 0) O Ec).
    pose proof (simplify_sound_gen libm (fun _ => VInt 0) (fun _ => VInt 0) (assoc cache) O e (ELitI w) Es) as S.
    cbn [eval] in A, S. rewrite <- S in A. cbn [obind] in A.
    unfold binop_eval in A. cbn in A. inversion A. reflexivity.
  Qed.

  Definition to_decl (s : sprite_src) : sprite_decl :=
    {| sd_name := ss_name s;
       sd_id := match ss_id s with
                | Some e => match written_value cache e with Ok w => Some w | _ => None end
                | None => None
                end |}.

  Definition explicit_ok (s : sprite_src) : Prop := forall e, ss_id s = Some e -> exists w, written_value cache e = Ok w.

  Lemma to_decl_some s e w : ss_id s = Some e -> written_value cache e = Ok w -> sd_id (to_decl s) = Some w.
  Proof. intros H1 H2. unfold to_decl. cbn [sd_id]. now rewrite H1, H2. Qed.
  Lemma to_decl_none s : ss_id s = None -> sd_id (to_decl s) = None.
  Proof. intros H1. unfold to_decl. cbn [sd_id]. now rewrite H1. Qed.

  Lemma written_src_refines wraps step : forall l next w,
    written_ids_src gen_optable libm cache wraps step next l = Ok w ->
    written_ids wraps step next (map to_decl l) = Ok w /\ Forall explicit_ok l.
  Proof.
    induction l as [|s l IH]; intros next w H; cbn [written_ids_src] in H.
    - inversion H. split; [reflexivity|constructor].
    - cbn [map written_ids].
      destruct (ss_id s) as [e|] eqn:Es.
      + destruct (written_value cache e) as [x| | |] eqn:Ew; try discriminate. cbn [obind] in H.
        rewrite (to_decl_some s e x Es Ew).
        destruct (negb wraps && (two32 <=? u32 x + step))%bool; [discriminate|].
        destruct (written_ids_src _ _ _ _ _ _ l) as [r| | |] eqn:Er; try discriminate. cbn [obind] in H.
        destruct (IH _ _ Er) as [A B]. rewrite A. cbn [obind]. split; auto.
        constructor; auto. intros e' He'. rewrite Es in He'. inversion He'; subst. eauto.
      + cbn [obind] in H. rewrite (to_decl_none s Es).
        destruct (negb wraps && (two32 <=? next + step))%bool; [discriminate|].
        destruct (written_ids_src _ _ _ _ _ _ l) as [r| | |] eqn:Er; try discriminate. cbn [obind] in H.
        destruct (IH _ _ Er) as [A B]. rewrite A. cbn [obind]. split; auto.
        constructor; auto. intros e' He'. rewrite Es in He'. discriminate.
  Qed.

  Definition base_rel (base : expr) (bv : Z) : Prop := forall k v, const_value dl base k = Ok v -> v = wrap32 (bv + k).

  Lemma const_src_refines k0 : forall l base bv k cs,
    base_rel base bv -> Forall explicit_ok l ->
    const_ids_src gen_optable libm fuel dl k0 base k l = Ok cs ->
    const_ids SeqAdd k0 bv k (map to_decl l) = Ok cs.
  Proof.
    induction l as [|s l IH]; intros base bv k cs R Hex H; cbn [const_ids_src] in H.
    - inversion H. reflexivity.
    - inversion Hex as [|? ? Hs Hl]; subst.
      cbn [map const_ids seq_apply]. change (sd_name (to_decl s)) with (ss_name s).
      destruct (ss_id s) as [e|] eqn:Es.
      + destruct (Hs e Es) as (w & Ew). rewrite (to_decl_some s e w Es Ew).
        destruct (const_value dl e k0) as [v| | |] eqn:Ev; try discriminate. cbn [obind] in H.
        destruct (const_ids_src _ _ _ _ _ e (k0 + 1) l) as [r| | |] eqn:Er; try discriminate. cbn [obind] in H.
        inversion H; subst cs. clear H.
        rewrite (two_evaluators_agree e w k0 v Ew Ev). cbn [obind].
        rewrite (IH e w (k0 + 1) r); auto.
        intros k' v' Hv'. eapply two_evaluators_agree; eauto.
      + rewrite (to_decl_none s Es).
        destruct (const_value dl base k) as [v| | |] eqn:Ev; try discriminate. cbn [obind] in H.
        destruct (const_ids_src _ _ _ _ _ base (k + 1) l) as [r| | |] eqn:Er; try discriminate. cbn [obind] in H.
        inversion H; subst cs. clear H.
        rewrite (R k v Ev). cbn [obind]. rewrite (IH base bv (k + 1) r); auto.
  Qed.
End S.

Definition T := gen_idtable.

Lemma nth_error_map_some {A B} (f : A -> B) l i y : nth_error (map f l) i = Some y -> exists x, nth_error l i = Some x /\ f x = y.
Proof. rewrite nth_error_map. destruct (nth_error l i); cbn; intros H; inversion H; eauto. Qed.

Definition sprite_target (decls : list sprite_src) (tbl : list Z) (n : nat) (a : Z) : Prop :=
  (exists i s, nth_error decls i = Some s /\ ss_name s = n) /\
  (forall i s, nth_error decls i = Some s -> ss_name s = n -> nth_error tbl i = Some a).
Definition script_target (names : list nat) (n : nat) (a : Z) : Prop :=
  exists i, nth_error names i = Some n /\ a = u32 (Z.of_nat i) /\ forall i', nth_error names i' = Some n -> i' = i.
Definition is_sprite (decls : list sprite_src) (n : nat) : Prop := In n (map ss_name decls).
Definition is_script (names : list nat) (n : nat) : Prop := In n names.

(* what a use of a name must compile to, given the written sprite table and the scripts in file order *)
Definition use_ok (decls : list sprite_src) (names : list nat) (tbl : list Z) (u : use_src) (a : Z) : Prop :=
  match u with
  | XSprite n => (is_sprite decls n -> sprite_target decls tbl n a) /\ (~ is_sprite decls n -> script_target names n a)
  | XScript n => (is_script names n -> script_target names n a) /\ (~ is_script names n -> sprite_target decls tbl n a)
  | XPlain n => ~ (is_sprite decls n /\ is_script names n) /\
                (is_sprite decls n -> sprite_target decls tbl n a) /\ (is_script names n -> script_target names n a)
  end.

(* the expression-level statement of C20 for ANM *)
Theorem anm_src_name_value_is_table_value libm fuel inp tbl nums args :
  NoDup (map fst (as_consts inp)) ->
  compile_anm_src gen_optable libm fuel T inp = Ok (tbl, nums, args) ->
  let decls := concat (as_entries inp) in
  let names := map sc_name (as_scripts inp) in
  length tbl = length decls /\
  forall j u, nth_error (as_uses inp) j = Some u ->
    exists a, nth_error args j = Some a /\ use_ok decls names tbl u a.
Proof.
  intros Hnd H decls names. unfold compile_anm_src in H. fold decls names in H.
  destruct (script_numbers (Some 0) (as_scripts inp)) as [nm| | |] eqn:Sn; try discriminate. cbn [obind] in H.
  destruct (has_dup names) eqn:D; [discriminate|].
  change (it_const_restart T && it_writer_carry T)%bool with true in H. cbn [negb] in H.
  change (getz (it_const_base0 T)) with (Ok 0 : outcome Z) in H. change (getz (it_const_k0 T)) with (Ok 0 : outcome Z) in H.
  change (getz (it_writer_next0 T)) with (Ok 0 : outcome Z) in H. change (getz (it_writer_step T)) with (Ok 1 : outcome Z) in H.
  change (it_const_op T) with SeqAdd in H. change (it_script_const T) with PosIndex in H. cbn [obind] in H.
  destruct (eval_deferred gen_optable libm (assoc (as_consts inp)) fuel (map fst (as_consts inp)) []) as [cache| | |] eqn:Ec; try discriminate.
  cbn [obind] in H.
  destruct (const_ids_src gen_optable libm fuel (as_consts inp) 0 (ELitI 0) 0 decls) as [consts| | |] eqn:C; try discriminate.
  cbn [obind] in H.
  destruct (omap (resolve_use consts names) (as_uses inp)) as [args0| | |] eqn:A; try discriminate.
  cbn [obind] in H. destruct (consistent consts) eqn:Cs; [|discriminate]. cbn [negb] in H.
  destruct (written_ids_src gen_optable libm cache (it_writer_wraps T) 1 0 decls) as [w| | |] eqn:W; try discriminate.
  cbn [obind] in H. inversion H; subst tbl nums args. clear H.
  destruct (written_src_refines libm cache _ _ _ _ _ W) as [W' Hex].
  assert (R0 : base_rel libm fuel (as_consts inp) (ELitI 0) 0).
  { intros k v Hv. eapply (two_evaluators_agree libm fuel (as_consts inp) cache Hnd Ec (ELitI 0) 0 k v); auto. }
  pose proof (const_src_refines libm fuel (as_consts inp) cache Hnd Ec 0 decls (ELitI 0) 0 0 consts R0 Hex C) as C'.
  destruct (sprite_lookup_is_table_value _ _ _ _ C' W' Cs) as (Nm & L & S).
  rewrite map_length in L. rewrite map_map in Nm. cbn [sd_name to_decl] in Nm.
  pose proof (has_dup_NoDup _ D) as ND.
  (* the four facts about one name *)
  assert (L1 : forall n v, lookup_const n consts = Some v -> sprite_target decls w n (u32 v) /\ is_sprite decls n).
  { intros n v Hl. destruct (S n v Hl) as ((i & d & Hd & Hn) & Hall).
    apply nth_error_map_some in Hd. destruct Hd as (s & Hs & <-). cbn [sd_name to_decl] in Hn. split.
    - split; [exists i, s; auto|]. intros i' s' Hs' Hn'. apply (Hall i' (to_decl libm cache s')); [now rewrite nth_error_map, Hs'|exact Hn'].
    - unfold is_sprite. rewrite <- Hn. apply in_map. eapply nth_error_In; eauto. }
  assert (L2 : forall n, lookup_const n consts = None -> ~ is_sprite decls n).
  { intros n Hl. unfold is_sprite. change (map ss_name decls) with (map (fun x : sprite_src => ss_name x) decls). rewrite <- Nm. now apply lookup_const_none. }
  assert (L3 : forall n i, index_of n names = Some i -> script_target names n (u32 (Z.of_nat i)) /\ is_script names n).
  { intros n i Hi. pose proof (index_of_nth _ _ _ Hi) as Ni. split.
    - exists i. repeat split; auto. intros i' Hi'.
      eapply (proj1 (NoDup_nth_error _) ND); [apply nth_error_Some; congruence|congruence].
    - eapply nth_error_In; eauto. }
  assert (L4 : forall n, index_of n names = None -> ~ is_script names n) by (intros n; apply index_of_none).
  split; [exact L|].
  intros j u Hu. destruct (omap_nth _ _ _ _ _ A Hu) as (y & Fy & Ny).
  exists (u32 y). split; [now rewrite nth_error_map, Ny|].
  unfold resolve_use in Fy. destruct u as [n|n|n]; cbn [use_ok];
    destruct (lookup_const n consts) as [v|] eqn:El; destruct (index_of n names) as [i|] eqn:Ei;
    try discriminate; inversion Fy; subst y;
    try (destruct (L1 _ _ El) as [T1 I1]); try (pose proof (L2 _ El) as N1);
    try (destruct (L3 _ _ Ei) as [T2 I2]); try (pose proof (L4 _ Ei) as N2); tauto.
Qed.
