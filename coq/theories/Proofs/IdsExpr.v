(* Proofs/IdsExpr.v -- C20 at the level of id expressions: the two evaluators that give a sprite's `id:` its
   meaning (const_simplify for the id written, the DFS const evaluator for the value of the name) agree --
   by the C11 theorems -- hence the expression-level compile refines the value-level one of Model/Ids.v. *)
From TV Require Import Base.I32 Base.F32 Model.Ops Model.Expr Gen.OpTable Proofs.SimplifySound Proofs.ConstDfs Proofs.ConstVm
  Model.Ids Gen.Ids Proofs.Ids Model.IdsExpr.
Open Scope Z_scope.

Section S.
  Variable libm : unop -> Z -> Z.
  Variable fuel : nat.
  Variable dl : list (nat * expr).
  Variable cache : list (nat * value).
  Hypothesis Hnd : NoDup (map fst dl).
  Hypothesis Hcache : eval_deferred gen_optable libm (assoc dl) fuel (map fst dl) [] = Ok cache.

  Notation written_value := (written_value gen_optable libm).
  Notation const_value := (const_value gen_optable libm fuel).

  (* const_simplify and the DFS evaluator give the same integer to an id expression *)
  Lemma two_evaluators_agree e w k v :
    written_value cache e = Ok w -> const_value dl e k = Ok v -> v = wrap32 (w + k).
  Proof.
    unfold IdsExpr.written_value, IdsExpr.const_value. intros Hw Hc.
    destruct (simplify gen_optable libm (assoc cache) e) as [e'| | |] eqn:Es; try discriminate. cbn [obind] in Hw.
    destruct e'; try discriminate. inversion Hw; subst z. clear Hw.
    destruct (ceval gen_optable libm (assoc dl) fuel [] (EBin e Add (ELitI k))) as [cv| | |] eqn:Ec; try discriminate.
    cbn [obind] in Hc. destruct cv as [z| |]; try discriminate. inversion Hc; subst z. clear Hc.
    destruct (const_cache_agrees_with_vm libm fuel dl cache Hnd Hcache) as [A _].
    specialize (A _ _ _ _ (fun _ => VInt 0) (fun _ => VInt 0) O Ec).
    pose proof (simplify_sound_gen libm (fun _ => VInt 0) (fun _ => VInt 0) (assoc cache) O e (ELitI w) Es) as S.
    cbn [eval] in A, S. rewrite <- S in A. cbn [obind] in A.
    unfold binop_eval in A. cbn in A. inversion A. reflexivity.
  Qed.

  Definition to_decl (s : sprite_src) : sprite_decl :=
    {| sd_name := ss_name s;
       sd_id := match ss_id s with
                | Some e => match written_value cache e with Ok w => Some w | _ => None end
                | None => None
                end |}.

  Definition explicit_ok (s : sprite_src) : Prop := forall e, ss_id s = Some e -> exists w, written_value cache e = Ok w.

  Lemma to_decl_some s e w : ss_id s = Some e -> written_value cache e = Ok w -> sd_id (to_decl s) = Some w.
  Proof. intros H1 H2. unfold to_decl. cbn [sd_id]. now rewrite H1, H2. Qed.
  Lemma to_decl_none s : ss_id s = None -> sd_id (to_decl s) = None.
  Proof. intros H1. unfold to_decl. cbn [sd_id]. now rewrite H1. Qed.

  Lemma written_src_refines wraps step : forall l next w,
    written_ids_src gen_optable libm cache wraps step next l = Ok w ->
    written_ids wraps step next (map to_decl l) = Ok w /\ Forall explicit_ok l.
  Proof.
    induction l as [|s l IH]; intros next w H; cbn [written_ids_src] in H.
    - inversion H. split; [reflexivity|constructor].
    - cbn [map written_ids].
      destruct (ss_id s) as [e|] eqn:Es.
      + destruct (written_value cache e) as [x| | |] eqn:Ew; try discriminate. cbn [obind] in H.
        rewrite (to_decl_some s e x Es Ew).
        destruct (negb wraps && (two32 <=? u32 x + step))%bool; [discriminate|].
        destruct (written_ids_src _ _ _ _ _ _ l) as [r| | |] eqn:Er; try discriminate. cbn [obind] in H.
        destruct (IH _ _ Er) as [A B]. rewrite A. cbn [obind]. split; auto.
        constructor; auto. intros e' He'. rewrite Es in He'. inversion He'; subst. eauto.
      + cbn [obind] in H. rewrite (to_decl_none s Es).
        destruct (negb wraps && (two32 <=? next + step))%bool; [discriminate|].
        destruct (written_ids_src _ _ _ _ _ _ l) as [r| | |] eqn:Er; try discriminate. cbn [obind] in H.
        destruct (IH _ _ Er) as [A B]. rewrite A. cbn [obind]. split; auto.
        constructor; auto. intros e' He'. rewrite Es in He'. discriminate.
  Qed.

  Definition base_rel (base : expr) (bv : Z) : Prop := forall k v, const_value dl base k = Ok v -> v = wrap32 (bv + k).

  Lemma const_src_refines k0 : forall l base bv k cs,
    base_rel base bv -> Forall explicit_ok l ->
    const_ids_src gen_optable libm fuel dl k0 base k l = Ok cs ->
    const_ids SeqAdd k0 bv k (map to_decl l) = Ok cs.
  Proof.
    induction l as [|s l IH]; intros base bv k cs R Hex H; cbn [const_ids_src] in H.
    - inversion H. reflexivity.
    - inversion Hex as [|? ? Hs Hl]; subst.
      cbn [map const_ids seq_apply]. change (sd_name (to_decl s)) with (ss_name s).
      destruct (ss_id s) as [e|] eqn:Es.
      + destruct (Hs e Es) as (w & Ew). rewrite (to_decl_some s e w Es Ew).
        destruct (const_value dl e k0) as [v| | |] eqn:Ev; try discriminate. cbn [obind] in H.
        destruct (const_ids_src _ _ _ _ _ e (k0 + 1) l) as [r| | |] eqn:Er; try discriminate. cbn [obind] in H.
        inversion H; subst cs. clear H.
        rewrite (two_evaluators_agree e w k0 v Ew Ev). cbn [obind].
        rewrite (IH e w (k0 + 1) r); auto.
        intros k' v' Hv'. eapply two_evaluators_agree; eauto.
      + rewrite (to_decl_none s Es).
        destruct (const_value dl base k) as [v| | |] eqn:Ev; try discriminate. cbn [obind] in H.
        destruct (const_ids_src _ _ _ _ _ base (k + 1) l) as [r| | |] eqn:Er; try discriminate. cbn [obind] in H.
        inversion H; subst cs. clear H.
        rewrite (R k v Ev). cbn [obind]. rewrite (IH base bv (k + 1) r); auto.
  Qed.
End S.

Definition T := gen_idtable.

Lemma nth_error_map_some {A B} (f : A -> B) l i y : nth_error (map f l) i = Some y -> exists x, nth_error l i = Some x /\ f x = y.
Proof. rewrite nth_error_map. destruct (nth_error l i); cbn; intros H; inversion H; eauto. Qed.

(* the expression-level statement of C20 for ANM *)
Theorem anm_src_name_value_is_table_value libm fuel inp tbl nums args :
  NoDup (map fst (as_consts inp)) ->
  compile_anm_src gen_optable libm fuel T inp = Ok (tbl, nums, args) ->
  let decls := concat (as_entries inp) in
  let names := map sc_name (as_scripts inp) in
  length tbl = length decls /\
  (forall j n, nth_error (as_uses inp) j = Some (USprite n) ->
     exists a, nth_error args j = Some a /\
       (exists i s, nth_error decls i = Some s /\ ss_name s = n) /\
       (forall i s, nth_error decls i = Some s -> ss_name s = n -> nth_error tbl i = Some a)) /\
  (forall j n, nth_error (as_uses inp) j = Some (UScript n) ->
     exists i, nth_error names i = Some n /\ nth_error args j = Some (u32 (Z.of_nat i)) /\
               forall i', nth_error names i' = Some n -> i' = i).
Proof.
  intros Hnd H decls names. unfold compile_anm_src in H. fold decls names in H.
  destruct (script_numbers (Some 0) (as_scripts inp)) as [nm| | |] eqn:Sn; try discriminate. cbn [obind] in H.
  destruct (has_dup names) eqn:D; [discriminate|].
  change (it_const_restart T && it_writer_carry T)%bool with true in H. cbn [negb] in H.
  change (getz (it_const_base0 T)) with (Ok 0 : outcome Z) in H. change (getz (it_const_k0 T)) with (Ok 0 : outcome Z) in H.
  change (getz (it_writer_next0 T)) with (Ok 0 : outcome Z) in H. change (getz (it_writer_step T)) with (Ok 1 : outcome Z) in H.
  change (it_const_op T) with SeqAdd in H. change (it_script_const T) with PosIndex in H. cbn [obind] in H.
  destruct (eval_deferred gen_optable libm (assoc (as_consts inp)) fuel (map fst (as_consts inp)) []) as [cache| | |] eqn:Ec; try discriminate.
  cbn [obind] in H.
  destruct (const_ids_src gen_optable libm fuel (as_consts inp) 0 (ELitI 0) 0 decls) as [consts| | |] eqn:C; try discriminate.
  cbn [obind] in H.
  match type of H with (do args <- omap ?f ?l; _) = _ => destruct (omap f l) as [args0| | |] eqn:A; try discriminate end.
  cbn [obind] in H. destruct (consistent consts) eqn:Cs; [|discriminate]. cbn [negb] in H.
  destruct (written_ids_src gen_optable libm cache (it_writer_wraps T) 1 0 decls) as [w| | |] eqn:W; try discriminate.
  cbn [obind] in H. inversion H; subst tbl nums args. clear H.
  destruct (written_src_refines libm cache _ _ _ _ _ W) as [W' Hex].
  assert (R0 : base_rel libm fuel (as_consts inp) (ELitI 0) 0).
  { intros k v Hv. eapply (two_evaluators_agree libm fuel (as_consts inp) cache Hnd Ec (ELitI 0) 0 k v); auto. }
  pose proof (const_src_refines libm fuel (as_consts inp) cache Hnd Ec 0 decls (ELitI 0) 0 0 consts R0 Hex C) as C'.
  (* the value-level compile of Model/Ids.v on the translated declarations gives the same result *)
  assert (V : compile_anm T {| ai_entries := map (map (to_decl libm cache)) (as_entries inp); ai_scripts := names; ai_uses := as_uses inp |}
              = Ok (w, map u32 args0)).
  { unfold compile_anm. cbn [ai_entries ai_scripts ai_uses]. rewrite D.
    change (it_const_restart T && it_writer_carry T)%bool with true. cbn [negb].
    change (getz (it_const_base0 T)) with (Ok 0 : outcome Z). change (getz (it_const_k0 T)) with (Ok 0 : outcome Z).
    change (getz (it_writer_next0 T)) with (Ok 0 : outcome Z). change (getz (it_writer_step T)) with (Ok 1 : outcome Z).
    change (it_const_op T) with SeqAdd. change (it_script_const T) with PosIndex. cbn [obind].
    rewrite <- concat_map. fold decls. rewrite C'. cbn [obind]. rewrite A. cbn [obind]. rewrite Cs. cbn [negb].
    rewrite W'. reflexivity. }
  destruct (anm_name_value_is_table_value _ _ _ V) as (L & S1 & S2). cbn [ai_entries ai_scripts ai_uses] in *.
  rewrite <- concat_map in L, S1. fold decls in L, S1. rewrite map_length in L.
  split; [exact L|]. split.
  - intros j n Hu. destruct (S1 j n Hu) as (a & Ha & (i & d & Hd & Hn) & Hall).
    exists a. split; auto. split.
    + apply nth_error_map_some in Hd. destruct Hd as (s & Hs & <-). exists i, s. auto.
    + intros i' s Hs Hn'. apply (Hall i' (to_decl libm cache s)); [now rewrite nth_error_map, Hs|exact Hn'].
  - exact S2.
Qed.
