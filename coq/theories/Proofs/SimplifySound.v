(* Proofs/SimplifySound.v -- replacing constant subexpressions by their compile-time value
   does not change what the expression evaluates to, in any register state, at any difficulty. *)
From TV Require Import Base.I32 Base.F32 Model.Ops Model.Expr.
Open Scope Z_scope.

Section ExprInd.
  Variable P : expr -> Prop.
  Hypothesis HLitI : forall z, P (ELitI z).
  Hypothesis HLitF : forall b, P (ELitF b).
  Hypothesis HLitS : forall s, P (ELitS s).
  Hypothesis HReg : forall sg r, P (EReg sg r).
  Hypothesis HVar : forall sg id, P (EVar sg id).
  Hypothesis HEnum : forall id, P (EEnum id).
  Hypothesis HUn : forall op e, P e -> P (EUn op e).
  Hypothesis HBin : forall a op b, P a -> P b -> P (EBin a op b).
  Hypothesis HTern : forall c l r, P c -> P l -> P r -> P (ETern c l r).
  Hypothesis HDiff : forall cases,
      Forall (fun c => match c with Some x => P x | None => True end) cases -> P (EDiff cases).
  Hypothesis HCall : forall f args, Forall P args -> P (ECall f args).
  Hypothesis HOpaque : forall n, P (EOpaque n).

  Fixpoint expr_ind2 (e : expr) : P e :=
    match e with
    | ELitI z => HLitI z
    | ELitF b => HLitF b
    | ELitS s => HLitS s
    | EReg sg r => HReg sg r
    | EVar sg id => HVar sg id
    | EEnum id => HEnum id
    | EUn op x => HUn op x (expr_ind2 x)
    | EBin a op b => HBin a op b (expr_ind2 a) (expr_ind2 b)
    | ETern c l r => HTern c l r (expr_ind2 c) (expr_ind2 l) (expr_ind2 r)
    | EDiff cases =>
        HDiff cases ((fix go (l : list (option expr)) :
                        Forall (fun c => match c with Some x => P x | None => True end) l :=
                        match l with
                        | [] => Forall_nil _
                        | None :: t => Forall_cons None I (go t)
                        | Some x :: t => Forall_cons (Some x) (expr_ind2 x) (go t)
                        end) cases)
    | ECall f args =>
        HCall f args ((fix go (l : list expr) : Forall P l :=
                         match l with
                         | [] => Forall_nil _
                         | x :: t => Forall_cons x (expr_ind2 x) (go t)
                         end) args)
    | EOpaque n => HOpaque n
    end.
End ExprInd.

Section Sound.
  Variable T : optable.
  Variable libm : unop -> Z -> Z.
  Variable regs : Z -> value.
  Variable locals : nat -> value.
  Variable cs : nat -> option value.
  Variable diff : nat.

  Notation eval := (eval T libm regs locals cs diff).
  Notation simplify := (simplify T libm cs).

  Lemma eval_lit v : eval (lit v) = Ok v.
  Proof. destruct v; reflexivity. Qed.

  Lemma to_const_lit e v : to_const e = Some v -> e = lit v.
  Proof. destruct e; simpl; intros H; inversion H; reflexivity. Qed.

  Lemma sigil_unop_none op v : sigil_of_unop op <> None ->
    forall T', unop_eval libm T' op v = unop_eval libm T' op v.
  Proof. reflexivity. Qed.

  (* the table says "not a compile-time operation" exactly on the sigil operators *)
  Definition sigils_not_const : Prop :=
    forall op, sigil_of_unop op <> None -> ot_ui T op = UI_none /\ ot_uf T op = UF_none.

  Definition P_sound (e : expr) : Prop :=
    forall e', simplify e = Ok e' -> eval e' = eval e.

  Lemma simplify_sound_aux : sigils_not_const -> forall e, P_sound e.
  Proof.
    intros Hsig.
    induction e as [z|b|s|sg r|sg id|id|op e IHe|e1 op e2 IHe1 IHe2|e1 e2 e3 IHe1 IHe2 IHe3|cases HF|f args HF|n] using expr_ind2;
      unfold P_sound in *; cbn [Expr.simplify]; intros e' Hs.
    - inversion Hs; reflexivity.
    - inversion Hs; reflexivity.
    - inversion Hs; reflexivity.
    - inversion Hs; reflexivity.
    - (* EVar *) cbn [Expr.eval]. destruct (cs id) as [v|] eqn:E.
      + destruct (cast_by_sigil sg v) as [v'|]; cbn in Hs; inversion Hs. apply eval_lit.
      + inversion Hs. cbn [Expr.eval]. rewrite E. reflexivity.
    - (* EEnum *) cbn [Expr.eval]. destruct (cs id) as [v|] eqn:E.
      + inversion Hs. apply eval_lit.
      + inversion Hs. cbn [Expr.eval]. rewrite E. reflexivity.
    - (* EUn *) destruct (Expr.simplify T libm cs e) as [b'| | |] eqn:Eb; cbn [obind] in Hs; try discriminate.
      specialize (IHe b' eq_refl).
      cbn [Expr.eval]. rewrite <- IHe.
      destruct (to_const b') as [bv|] eqn:Ec.
      + apply to_const_lit in Ec. subst b'. rewrite eval_lit. cbn [obind].
        destruct (unop_eval libm T op bv) as [r| | |] eqn:Er; cbn [obind] in Hs; try discriminate.
        destruct (sigil_of_unop op) as [sg|] eqn:Esg.
        * (* sigil operators are never simplified *)
          assert (Hn : sigil_of_unop op <> None) by congruence.
          destruct (Hsig op Hn) as [Hi Hf].
          destruct bv; cbn [unop_eval] in Er; rewrite ?Hi, ?Hf in Er; inversion Er; subst r;
            inversion Hs; cbn [Expr.eval]; rewrite ?eval_lit, Esg; reflexivity.
        * destruct r as [v|]; inversion Hs.
          -- rewrite eval_lit. reflexivity.
          -- cbn [Expr.eval]. rewrite eval_lit, Esg. cbn [obind]. rewrite Er. reflexivity.
      + inversion Hs. cbn [Expr.eval]. reflexivity.
    - (* EBin *)
      destruct (Expr.simplify T libm cs e1) as [a'| | |] eqn:Ea; cbn [obind] in Hs; try discriminate.
      destruct (Expr.simplify T libm cs e2) as [b'| | |] eqn:Eb; cbn [obind] in Hs; try discriminate.
      specialize (IHe1 a' eq_refl). specialize (IHe2 b' eq_refl).
      cbn [Expr.eval]. rewrite <- IHe1, <- IHe2.
      destruct (to_const a') as [av|] eqn:Eca; [destruct (to_const b') as [bv|] eqn:Ecb|].
      + apply to_const_lit in Eca, Ecb. subst.
        destruct (undefined_binop op bv); [discriminate|].
        rewrite !eval_lit. cbn [obind].
        destruct (binop_eval T op av bv) as [v| | |]; cbn [obind] in Hs; inversion Hs.
        apply eval_lit.
      + inversion Hs. reflexivity.
      + inversion Hs. reflexivity.
    - (* ETern *)
      destruct (Expr.simplify T libm cs e1) as [c'| | |] eqn:Ec; cbn [obind] in Hs; try discriminate.
      destruct (Expr.simplify T libm cs e2) as [l'| | |] eqn:El; cbn [obind] in Hs; try discriminate.
      destruct (Expr.simplify T libm cs e3) as [r'| | |] eqn:Er; cbn [obind] in Hs; try discriminate.
      specialize (IHe1 c' eq_refl). specialize (IHe2 l' eq_refl). specialize (IHe3 r' eq_refl).
      cbn [Expr.eval]. rewrite <- IHe1, <- IHe2, <- IHe3.
      destruct (to_const c') as [cv|] eqn:Ecc.
      + apply to_const_lit in Ecc. subst c'. rewrite eval_lit. cbn [obind].
        destruct cv as [z| |]; try discriminate.
        destruct z; inversion Hs; reflexivity.
      + inversion Hs. reflexivity.
    - (* EDiff *)
      match type of Hs with obind ?m _ = _ => destruct m as [cases'| | |] eqn:Eg end;
        cbn [obind] in Hs; try discriminate.
      inversion Hs. subst e'. cbn [Expr.eval].
      match goal with |- match select_case ?l1 _ _ with _ => _ end = match select_case ?l2 _ _ with _ => _ end =>
        assert (Hm : l1 = l2); [|rewrite Hm; reflexivity] end.
      clear Hs. revert cases' Eg. induction HF as [|c t Hc Ht IH]; intros cases' Eg.
      + inversion Eg. reflexivity.
      + destruct c as [x|].
        * destruct (Expr.simplify T libm cs x) as [x'| | |] eqn:Ex; cbn [obind] in Eg; try discriminate.
          match type of Eg with obind ?m _ = _ => destruct m as [t'| | |] eqn:Et end;
            cbn [obind] in Eg; try discriminate.
          inversion Eg. cbn [map]. rewrite (Hc x' eq_refl). f_equal. apply IH. reflexivity.
        * match type of Eg with obind ?m _ = _ => destruct m as [t'| | |] eqn:Et end;
            cbn [obind] in Eg; try discriminate.
          inversion Eg. cbn [map]. f_equal. apply IH. reflexivity.
    - (* ECall *)
      match type of Hs with obind ?m _ = _ => destruct m as [args'| | |] eqn:Eg end;
        cbn [obind] in Hs; try discriminate.
      inversion Hs. reflexivity.
    - inversion Hs; reflexivity.
  Qed.
End Sound.

From TV Require Import Gen.OpTable.

Lemma gen_sigils_not_const : sigils_not_const gen_optable.
Proof. intros op H. destruct op; cbn in *; try congruence; split; reflexivity. Qed.

Theorem simplify_sound_gen : forall libm regs locals cs diff e e',
  simplify gen_optable libm cs e = Ok e' ->
  eval gen_optable libm regs locals cs diff e' = eval gen_optable libm regs locals cs diff e.
Proof. intros. eapply simplify_sound_aux; [exact gen_sigils_not_const | eassumption]. Qed.

Theorem undefined_is_error_gen : forall libm cs a op z,
  (op = Div \/ op = Rem) ->
  simplify gen_optable libm cs (EBin (ELitI a) op (ELitI 0)) = Err E_DIV0
  /\ simplify gen_optable libm cs (EBin (ELitI z) op (EBin (ELitI a) Sub (ELitI a))) = Err E_DIV0.
Proof.
  intros libm cs a op z [-> | ->]; split; cbn; try reflexivity;
    replace (a - a)%Z with 0%Z by lia; reflexivity.
Qed.

Theorem named_equals_inline_gen : forall libm cs id e v,
  simplify gen_optable libm cs e = Ok (lit v) -> cs id = Some v ->
  simplify gen_optable libm cs (EVar None id) = simplify gen_optable libm cs e.
Proof. intros libm cs id e v H1 H2. rewrite H1. cbn. rewrite H2. reflexivity. Qed.
