(* Proofs/LowerGenTable.v -- the operator table read from the source satisfies every requirement
   (T_ok) of the lowering theorem, for any interpretation of the transcendental functions. *)
From TV Require Import Base.I32 Base.F32 Model.Ops Model.Expr Model.Lower Model.LowerSem
  Gen.OpTable Proofs.F32Laws Proofs.LowerSound.
Open Scope Z_scope.

Lemma gen_T_ok libm : T_ok gen_optable libm.
Proof.
  constructor.
  - split; reflexivity.
  - split; reflexivity.
  - intros op a b r H. destruct a as [x|x|x], b as [y|y|y]; cbn [binop_eval] in H; try discriminate.
    + destruct (eval_bi (ot_shift gen_optable) (ot_bi gen_optable op) x y); cbn [obind] in H; inversion H; reflexivity.
    + destruct op; cbn in H; inversion H; reflexivity.
  - intros op a r H. destruct op, a; cbn in H; inversion H; try reflexivity; exact I.
  - intros x. split; reflexivity.
  - intros x. exists (fneg x). split; [reflexivity|].
    cbn. rewrite <- fneg_is_mul_minus_one. reflexivity.
  - intros x. split; reflexivity.
Qed.

Theorem assign_lowering_correct_gen :
  forall libm avail auto_casts rty lty diff time mask fuel v aop e s code s' m m',
  (forall op t, sigil_of_unop op <> None -> avail (KUnOp op t) = false) ->
  lower avail auto_casts rty lty time mask fuel (CAssignOp v aop e) s = Ok (code, s') ->
  wt_pure rty lty (te s) e = true -> locals_below (g s) e = true -> var_below (g s) v ->
  fresh lty m (g s) ->
  assign_s gen_optable libm rty lty diff (te s) m v aop e = Ok m' ->
  run_pure gen_optable libm lty code m = Ok m'.
Proof.
  intros libm avail auto_casts rty lty diff time mask fuel v aop e s code s' m m' Hns Hl Hw Hb Hv Hf Hs.
  destruct (lower_sound gen_optable libm avail auto_casts rty lty diff time mask Hns (gen_T_ok libm) fuel
              (CAssignOp v aop e) s code s' Hl) with (m := m) (m' := m') as [Hr _].
  - cbn. auto.
  - exact Hf.
  - exact Hs.
  - exact Hr.
Qed.

Lemma lower_example :
  let avail := fun k => match k with KAssignOp None _ | KBinOp _ _ => true | _ => false end in
  let rty := fun _ : Z => TInt in let lty := fun _ : nat => TInt in
  let v := mkvar None (VReg 1010) in
  let e := EBin (EBin (EReg None 1011) Add (ELitI 1)) Mul (EBin (EReg None 1011) Sub (ELitI 2)) in
  let s := mklst 100 [] in
  let m := mkmem (fun r => if r =? 1011 then VInt 7 else VInt 0) (fun _ => VInt 0) in
  exists code s' m',
    lower avail true rty lty 0 255 10 (CAssignOp v None e) s = Ok (code, s') /\
    length code = 5%nat /\
    wt_pure rty lty (te s) e = true /\ locals_below (g s) e = true /\
    assign_s gen_optable (fun _ _ => 0) rty lty 0 (te s) m v None e = Ok m' /\
    regs m' 1010 = VInt 40.
Proof.
  cbv zeta. eexists. eexists. eexists.
  split; [vm_compute; reflexivity|].
  split; [reflexivity|]. split; [reflexivity|]. split; [reflexivity|].
  split; [vm_compute; reflexivity|]. reflexivity.
Qed.
