(* Proofs/ResolveAlpha.v -- C10: renaming declared names consistently to fresh names leaves the
   resolution of every identifier occurrence unchanged.

   A renaming gives every identifier occurrence (by index) its new spelling [rho id].  It is
   consistent with the resolution of the original program when every occurrence bound to the
   declaration with index i is spelled [sigma i], and every occurrence bound to something global (or to
   nothing) keeps its spelling.  [sigma] is injective and produces spellings that do not occur in the
   original program.  Then the specification assigns to every occurrence of the renamed program the
   very same definition (definitions made by the program are identified by the index of the declaring
   occurrence, so "the same partition into definition classes" is literally equality of results). *)
From TV Require Import Base.I32 Model.ResolveSyntax Gen.RibTable Model.Resolve Model.ResolveRename Spec.Scope Proofs.ResolveSpec Proofs.ResolveRedecl.
Open Scope Z_scope.

Section RenameEqs.
  Variable rho : Z -> ident.
  Lemma rb_uses us t : ren_block rho (BCons (SUses us) t) = BCons (SUses (map (ren_use rho) us)) (ren_block rho t). Proof. reflexivity. Qed.
  Lemma rb_decl vars t : ren_block rho (BCons (SDecl vars) t) = BCons (SDecl (ren_vars rho vars)) (ren_block rho t). Proof. reflexivity. Qed.
  Lemma rb_block b t : ren_block rho (BCons (SBlock b) t) = BCons (SBlock (ren_block rho b)) (ren_block rho t). Proof. reflexivity. Qed.
  Lemma rb_item i t : ren_block rho (BCons (SItem i) t) = BCons (SItem (ren_item rho i)) (ren_block rho t). Proof. reflexivity. Qed.
  Lemma ri_const vars : ren_item rho (IConst vars) = IConst (ren_vars rho vars). Proof. reflexivity. Qed.
  Lemma ri_func q f ps body : ren_item rho (IFunc q f ps body) = IFunc q (ren_occ rho f) (map (ren_occ rho) ps) (ren_block rho body). Proof. reflexivity. Qed.
  Lemma ri_funcdecl q f ps : ren_item rho (IFuncDecl q f ps) = IFuncDecl q (ren_occ rho f) (map (ren_occ rho) ps). Proof. reflexivity. Qed.
  Lemma ri_script b : ren_item rho (IScript b) = IScript (ren_block rho b). Proof. reflexivity. Qed.
  Lemma ri_meta us : ren_item rho (IMeta us) = IMeta (map (ren_use rho) us). Proof. reflexivity. Qed.
End RenameEqs.

Section Alpha.
  Variable g : genv.
  Variables fl sl : lang.
  Variables sigma rho nm : Z -> ident.
  Hypothesis sigma_inj : forall i j, sigma i = sigma j -> i = j.
  Hypothesis sigma_fresh : forall j id, sigma j <> nm id.

  (* ---- well-formed scope trees: [nm] knows the spelling of every occurrence; declaration indices are
          distinct along every scope chain; the callee of every guard is a use of the same list ---- *)

  Definition occ_ok (o : occ) : Prop := nm (oid o) = oname o.

  Fixpoint guards_ok (us : list use) (gs : list guard) : Prop :=
    match gs with
    | [] => True
    | gd :: outer =>
        match g_callee gd with
        | CNamed oc => occ_ok oc /\ In (Use UFun oc outer) us
        | CRaw _ => True
        end /\ guards_ok us outer
    end.
  Definition uses_ok (us : list use) : Prop := forall u, In u us -> occ_ok (u_occ u) /\ guards_ok us (u_guards u).

  Fixpoint wf_decls (S : list Z) (vars : list (occ * list use)) : Prop :=
    match vars with
    | [] => True
    | (o, init) :: t => uses_ok init /\ occ_ok o /\ ~ In (oid o) S /\ wf_decls (oid o :: S) t
    end.

  Definition entry_ok (S : list Z) (its : list item) : Prop :=
    nodup_after S (item_ids its) /\ Forall occ_ok (item_occs its).

  Fixpoint wf_stmts (S : list Z) (b : block) : Prop :=
    match b with
    | BNil => True
    | BCons s rest =>
        match s with
        | SUses us => uses_ok us /\ wf_stmts S rest
        | SDecl vars => wf_decls S vars /\ wf_stmts (rev (map (fun v => oid (fst v)) vars) ++ S) rest
        | SBlock b' => (entry_ok S (block_items b') /\ wf_stmts (rev (item_ids (block_items b')) ++ S) b') /\ wf_stmts S rest
        | SItem i => wf_item S i /\ wf_stmts S rest
        end
    end
  with wf_item (S : list Z) (i : item) : Prop :=
    match i with
    | IConst vars => forall v, In v vars -> uses_ok (snd v)
    | IFunc q f ps body =>
        nodup_after S (map oid ps) /\ Forall occ_ok ps
        /\ entry_ok (rev (map oid ps) ++ S) (block_items body)
        /\ wf_stmts (rev (item_ids (block_items body)) ++ rev (map oid ps) ++ S) body
    | IFuncDecl q f ps => True
    | IScript b => entry_ok S (block_items b) /\ wf_stmts (rev (item_ids (block_items b)) ++ S) b
    | IMeta us => uses_ok us
    end.

  Definition wf_prog (p : prog) : Prop :=
    match p with
    | PFile its => entry_ok [] its /\ Forall (wf_item (rev (item_ids its))) its
    | PBlock b => entry_ok [] (block_items b) /\ wf_stmts (rev (item_ids (block_items b))) b
    end.

  (* ---- consistency of the renaming with what an occurrence denotes ---- *)

  Definition cons (id : Z) (r : res) : Prop :=
    match r with
    | ROk d | RBarrier d => match user_id d with Some i => rho id = sigma i | None => rho id = nm id end
    | RSkipped => True
    | _ => rho id = nm id
    end.

  Definition consistent (evs : list event) : Prop := forall id r, In (EvRes id r) evs -> cons id r.

  Lemma consistent_app a b : consistent (a ++ b) <-> consistent a /\ consistent b.
  Proof.
    unfold consistent. split.
    - intro H. split; intros id r Hin; apply H; apply in_or_app; tauto.
    - intros [Ha Hb] id r Hin. apply in_app_or in Hin as [Hin|Hin]; auto.
  Qed.

  (* ---- related environments ---- *)

  Definition env_rel (S : list Z) (e e' : env) : Prop :=
    (forall x, match e x with
               | LFound d | LHidden d => exists i, user_id d = Some i /\ In i S /\ e' (sigma i) = e x
               | LNone => True
               end)
    /\ (forall id, e (nm id) = LNone -> e' (nm id) = LNone).

  Lemma env_rel_incl S S' e e' : env_rel S e e' -> incl S S' -> env_rel S' e e'.
  Proof.
    intros [A B] Hi. split; [|exact B]. intro x. specialize (A x).
    destruct (e x) as [d|d|]; auto; destruct A as [i [H1 [H2 H3]]]; exists i; auto.
  Qed.

  Lemma env_rel_empty S : env_rel S env0 env0.
  Proof. split; [intro x; exact I | reflexivity]. Qed.

  Lemma env_rel_bind S e e' y d j :
    env_rel S e e' -> user_id d = Some j -> ~ In j S ->
    env_rel (j :: S) (bind e y d) (bind e' (sigma j) d).
  Proof.
    intros [A B] Hd Hj. split.
    - intro x. destruct (Z.eqb_spec x y) as [->|N].
      + assert (Hb : bind e y d y = LFound d) by (unfold bind; now rewrite Z.eqb_refl). rewrite Hb.
        exists j. split; [exact Hd|]. split; [now left|]. unfold bind. now rewrite Z.eqb_refl.
      + assert (Hb : bind e y d x = e x) by (unfold bind; destruct (Z.eqb_spec x y); [contradiction | reflexivity]).
        rewrite Hb. specialize (A x). destruct (e x) as [d0|d0|]; auto;
          destruct A as [i [H1 [H2 H3]]]; exists i; (split; [exact H1|]); (split; [now right|]);
          unfold bind; (destruct (Z.eqb_spec (sigma i) (sigma j)) as [Es|_]; [apply sigma_inj in Es; subst; contradiction | exact H3]).
    - intros id. unfold bind. destruct (Z.eqb_spec (nm id) y) as [_|N]; [discriminate|]. intro H.
      destruct (Z.eqb_spec (nm id) (sigma j)) as [Es|_]; [exfalso; apply (sigma_fresh j id); now symmetry | now apply B].
  Qed.

  Lemma env_rel_hide S e e' : env_rel S e e' -> env_rel S (hide e) (hide e').
  Proof.
    intros [A B]. split.
    - intro x. unfold hide at 1. specialize (A x). destruct (e x) as [d|d|] eqn:E; cbn [hide_res]; [| |exact I].
      + destruct A as [i [H1 [H2 H3]]].
        destruct (is_local_def d); exists i; (split; [exact H1|]); (split; [exact H2|]); unfold hide; rewrite H3, E; reflexivity.
      + destruct A as [i [H1 [H2 H3]]]. exists i. split; [exact H1|]. split; [exact H2|]. unfold hide. now rewrite H3, E.
    - intros id. unfold hide. destruct (e (nm id)) as [d|d|] eqn:E; cbn [hide_res]; [destruct (is_local_def d); discriminate | discriminate |].
      intros _. now rewrite (B id E).
  Qed.

  (* binding a list of declared occurrences on both sides *)
  Lemma env_rel_bind_occs mk (Hmk : forall o, user_id (mk o) = Some (oid o)) (Hmk2 : forall o, mk (ren_occ rho o) = mk o) os : forall S e e',
    env_rel S e e' -> nodup_after S (map oid os) -> (forall o, In o os -> rho (oid o) = sigma (oid o)) ->
    env_rel (rev (map oid os) ++ S) (bind_occs mk e os) (bind_occs mk e' (map (ren_occ rho) os)).
  Proof.
    induction os as [|o t IH]; intros S e e' R N Hr; cbn [map rev app bind_occs]; [exact R|].
    cbn [map nodup_after] in N. destruct N as [N1 N2].
    rewrite <- app_assoc. cbn [app].
    apply IH; [|exact N2| intros o' Ho'; apply Hr; now right].
    rewrite Hmk2. cbn [ren_occ oname oid]. rewrite (Hr o (or_introl eq_refl)).
    apply env_rel_bind; auto.
  Qed.

  Definition ren_fn (fn : occ * nat) : occ * nat := (ren_occ rho (fst fn), snd fn).

  Lemma env_rel_bind_funcs fs : forall S e e',
    env_rel S e e' -> nodup_after S (map (fun fn => oid (fst fn)) fs) ->
    (forall fn, In fn fs -> rho (oid (fst fn)) = sigma (oid (fst fn))) ->
    env_rel (rev (map (fun fn => oid (fst fn)) fs) ++ S) (bind_funcs e fs) (bind_funcs e' (map ren_fn fs)).
  Proof.
    induction fs as [|[f n] t IH]; intros S e e' R N Hr; cbn [map rev app bind_funcs ren_fn fst snd]; [exact R|].
    cbn [map nodup_after fst] in N. destruct N as [N1 N2].
    rewrite <- app_assoc. cbn [app].
    apply IH; [|exact N2| intros fn Hfn; apply Hr; now right].
    cbn [ren_occ oname oid]. pose proof (Hr (f, n) (or_introl eq_refl)) as Hrf. cbn [fst] in Hrf. rewrite Hrf.
    apply env_rel_bind; auto.
  Qed.

  (* ---- renaming commutes with the syntactic helpers ---- *)

  Lemma block_items_ren b : block_items (ren_block rho b) = map (ren_item rho) (block_items b).
  Proof.
    induction b as [|s t IH]; [reflexivity|].
    destruct s; rewrite ?rb_uses, ?rb_decl, ?rb_block, ?rb_item; cbn [block_items map]; now rewrite IH.
  Qed.

  Lemma const_occs_ren its : const_occs (map (ren_item rho) its) = map (ren_occ rho) (const_occs its).
  Proof.
    unfold const_occs. induction its as [|i t IH]; [reflexivity|]. cbn [map flat_map]. rewrite IH, map_app. f_equal.
    destruct i; cbn [ren_item]; try reflexivity. unfold ren_vars. now rewrite !map_map.
  Qed.

  Lemma func_occs_ren its : func_occs (map (ren_item rho) its) = map ren_fn (func_occs its).
  Proof.
    unfold func_occs. induction its as [|i t IH]; [reflexivity|]. cbn [map flat_map]. rewrite IH, map_app. f_equal.
    destruct i; cbn [ren_item map]; try reflexivity; unfold ren_fn; cbn [fst snd]; now rewrite map_length.
  Qed.

  Lemma item_self_events_ren its : item_self_events (map (ren_item rho) its) = item_self_events its.
  Proof.
    unfold item_self_events. rewrite const_occs_ren, func_occs_ren, !map_map. reflexivity.
  Qed.

  (* ---- entering a block ---- *)

  Lemma nodup_after_weaken l : forall S S0, nodup_after S l -> incl S0 S -> nodup_after S0 l.
  Proof.
    intros S S0 H Hi. apply nodup_after_iff in H as [H1 H2]. apply nodup_after_iff. split; [exact H1|].
    intros x Hx Hs. apply (H2 x Hx). now apply Hi.
  Qed.

  Lemma enter_rel S ve ve' fe fe' its :
    env_rel S ve ve' -> env_rel S fe fe' -> entry_ok S its -> consistent (item_self_events its) ->
    env_rel (rev (item_ids its) ++ S) (enter_v ve its) (enter_v ve' (map (ren_item rho) its))
    /\ env_rel (rev (item_ids its) ++ S) (enter_f fe its) (enter_f fe' (map (ren_item rho) its)).
  Proof.
    intros Rv Rf [N _] C. unfold item_ids in *. apply nodup_after_app in N as [Nc Nf].
    unfold item_self_events in C. apply consistent_app in C as [Cc Cf].
    rewrite rev_app_distr, <- app_assoc. unfold enter_v, enter_f. rewrite const_occs_ren, func_occs_ren. split.
    - eapply env_rel_incl; [apply (env_rel_bind_occs mk_const); [reflexivity | reflexivity | exact Rv | exact Nc |]|].
      + intros o Ho. specialize (Cc (oid o) (ROk (mk_const o))). cbn in Cc. apply Cc.
        apply in_map_iff. exists o. split; [reflexivity | exact Ho].
      + intros x Hx. apply in_or_app. now right.
    - eapply env_rel_incl; [apply env_rel_bind_funcs; [exact Rf | eapply nodup_after_weaken; [exact Nf | intros x Hx; apply in_or_app; now right] |]|].
      + intros fn Hfn. specialize (Cf (oid (fst fn)) (ROk (DFunc (oid (fst fn)) (snd fn)))). cbn in Cf. apply Cf.
        apply in_map_iff. exists fn. split; [reflexivity | exact Hfn].
      + intros x Hx. apply in_app_or in Hx as [Hx|Hx]; apply in_or_app; [now left | right; apply in_or_app; now right].
  Qed.

  (* ---- one use ---- *)

  Lemma cons_not_user id r : not_user r -> cons id r -> rho id = nm id.
  Proof. destruct r as [d|  |d| | | |]; cbn; try tauto. intros ->. tauto. Qed.

  Lemma lookup_fun_rel S fe fe' al o :
    env_rel S fe fe' -> occ_ok o -> cons (oid o) (lookup_fun g fe al (oname o)) ->
    lookup_fun g fe' al (rho (oid o)) = lookup_fun g fe al (oname o).
  Proof.
    intros [A B] Ho C. unfold lookup_fun in *. specialize (A (oname o)).
    destruct (fe (oname o)) as [d|d|] eqn:E; cbn [of_lres] in *.
    - destruct A as [i [H1 [_ H3]]]. cbn [cons] in C. rewrite H1 in C. now rewrite C, H3.
    - destruct A as [i [H1 [_ H3]]]. cbn [cons] in C. rewrite H1 in C. now rewrite C, H3.
    - pose proof (cons_not_user _ _ (global_fun_in_kind g _ al (oname o)) C) as Hn.
      rewrite Hn. rewrite <- Ho in E. rewrite (B _ E). cbn [of_lres]. now rewrite Ho.
  Qed.

  Lemma lookup_var_rel S ve ve' al col o :
    env_rel S ve ve' -> occ_ok o -> cons (oid o) (lookup_var g ve al col (oname o)) ->
    lookup_var g ve' al col (rho (oid o)) = lookup_var g ve al col (oname o).
  Proof.
    intros [A B] Ho C. unfold lookup_var in *. specialize (A (oname o)).
    destruct (ve (oname o)) as [d|d|] eqn:E; cbn [of_lres] in *.
    - destruct A as [i [H1 [_ H3]]]. cbn [cons] in C. rewrite H1 in C. now rewrite C, H3.
    - destruct A as [i [H1 [_ H3]]]. cbn [cons] in C. rewrite H1 in C. now rewrite C, H3.
    - pose proof (cons_not_user _ _ (global_var_in_kind g _ al col (oname o)) C) as Hn.
      rewrite Hn. rewrite <- Ho in E. rewrite (B _ E). cbn [of_lres]. now rewrite Ho.
  Qed.

  Section Uses.
    Variables (S : list Z) (ve ve' fe fe' : env) (al : option lang) (us : list use).
    Hypothesis Rv : env_rel S ve ve'.
    Hypothesis Rf : env_rel S fe fe'.
    Hypothesis Hcons : forall u, In u us -> cons (oid (u_occ u)) (resolve_use g ve fe al u).

    (* the callee of a guard whose enclosing arguments are all visited is itself a visited use *)
    Lemma callee_sig_rel gd outer :
      (match g_callee gd with CNamed oc => occ_ok oc /\ In (Use UFun oc outer) us | CRaw _ => True end) ->
      visited g fe al outer = true ->
      callee_sig g fe' al (ren_callee rho (g_callee gd)) = callee_sig g fe al (g_callee gd).
    Proof.
      intros Hg Hv. destruct (g_callee gd) as [oc|op]; cbn [ren_callee callee_sig]; [|reflexivity].
      destruct Hg as [Hoc Hin]. pose proof (Hcons _ Hin) as Hc. unfold resolve_use in Hc. cbn [u_guards u_kind u_occ] in Hc.
      rewrite Hv in Hc. cbn [ren_occ oname]. now rewrite (lookup_fun_rel S fe fe' al oc Rf Hoc Hc).
    Qed.

    Lemma visited_rel gs : guards_ok us gs ->
      visited g fe' al (map (ren_guard rho) gs) = visited g fe al gs
      /\ (visited g fe al gs = true -> colour g fe' al (map (ren_guard rho) gs) = colour g fe al gs).
    Proof.
      induction gs as [|gd outer IH]; intro Hg; cbn [map visited colour]; [auto|].
      cbn [guards_ok] in Hg. destruct Hg as [Hgd Hout]. destruct (IH Hout) as [IH1 IH2].
      cbn [ren_guard g_callee g_pos]. rewrite IH1.
      destruct (visited g fe al outer) eqn:Ev; cbn [andb]; [|split; [reflexivity | discriminate]].
      rewrite (callee_sig_rel gd outer Hgd Ev). split; [reflexivity|]. intros _.
      destruct (callee_sig g fe al (g_callee gd)) as [sg|]; [destruct (Nat.ltb (g_pos gd) (length (matched sg))); [reflexivity | now apply IH2] | now apply IH2].
    Qed.

    Lemma use_rel u : In u us -> occ_ok (u_occ u) -> guards_ok us (u_guards u) ->
      resolve_use g ve' fe' al (ren_use rho u) = resolve_use g ve fe al u.
    Proof.
      intros Hin Ho Hg. pose proof (Hcons _ Hin) as Hc. unfold resolve_use in *. cbn [ren_use u_guards u_kind u_occ].
      destruct (visited_rel _ Hg) as [V1 V2]. rewrite V1.
      destruct (visited g fe al (u_guards u)) eqn:Ev; [|reflexivity]. rewrite (V2 eq_refl).
      cbn [ren_occ oname]. destruct (u_kind u) as [| |e].
      - now apply (lookup_var_rel S).
      - now apply (lookup_fun_rel S).
      - pose proof (cons_not_user _ _ (enum_qualified_kind g e (oname (u_occ u))) Hc) as Hn. now rewrite Hn, Ho.
    Qed.
  End Uses.

  Lemma s_uses_rel S ve ve' fe fe' al us :
    env_rel S ve ve' -> env_rel S fe fe' -> uses_ok us -> consistent (s_uses g ve fe al us) ->
    s_uses g ve' fe' al (map (ren_use rho) us) = s_uses g ve fe al us.
  Proof.
    intros Rv Rf Hok C. unfold s_uses. rewrite map_map. apply map_ext_in. intros u Hin.
    unfold use_event. cbn [ren_use u_occ ren_occ oid]. f_equal.
    destruct (Hok u Hin) as [Ho Hg].
    apply (use_rel S ve ve' fe fe' al us Rv Rf); auto.
    intros u0 Hin0. apply (C (oid (u_occ u0)) (resolve_use g ve fe al u0)).
    unfold s_uses. apply in_map_iff. exists u0. split; [reflexivity | exact Hin0].
  Qed.

  (* ---- declarations ---- *)

  Lemma s_decls_rel vars : forall S ve ve' fe fe' al,
    env_rel S ve ve' -> env_rel S fe fe' -> wf_decls S vars -> consistent (fst (s_decls g ve fe al vars)) ->
    fst (s_decls g ve' fe' al (ren_vars rho vars)) = fst (s_decls g ve fe al vars)
    /\ env_rel (rev (map (fun v => oid (fst v)) vars) ++ S) (snd (s_decls g ve fe al vars)) (snd (s_decls g ve' fe' al (ren_vars rho vars))).
  Proof.
    induction vars as [|[o init] t IH]; intros S ve ve' fe fe' al Rv Rf W C; cbn [ren_vars map s_decls fst snd rev app]; [auto|].
    cbn [wf_decls] in W. destruct W as [Wi [Wo [Wn Wt]]].
    fold (ren_vars rho t).
    destruct (s_decls g (bind ve (oname o) (mk_local o)) fe al t) as [e2 ve2] eqn:E2.
    cbn [s_decls] in C. rewrite E2 in C. cbn [fst] in C.
    apply consistent_app in C as [C1 C2].
    assert (Hr : rho (oid o) = sigma (oid o)).
    { specialize (C2 (oid o) (ROk (mk_local o)) (or_introl eq_refl)). exact C2. }
    assert (C3 : consistent e2) by (intros id r Hin; apply C2; now right).
    assert (Rv1 : env_rel (oid o :: S) (bind ve (oname o) (mk_local o)) (bind ve' (rho (oid o)) (mk_local o))).
    { rewrite Hr. apply env_rel_bind; auto. }
    assert (Rf1 : env_rel (oid o :: S) fe fe') by (eapply env_rel_incl; [exact Rf | intros x Hx; now right]).
    specialize (IH (oid o :: S) _ _ fe fe' al Rv1 Rf1 Wt). rewrite E2 in IH. cbn [fst snd] in IH. specialize (IH C3).
    cbn [ren_occ oname oid]. change (mk_local (ren_occ rho o)) with (mk_local o).
    destruct (s_decls g (bind ve' (rho (oid o)) (mk_local o)) fe' al (ren_vars rho t)) as [e2' ve2'] eqn:E2'.
    cbn [fst snd] in *. destruct IH as [IH1 IH2]. split.
    - rewrite (s_uses_rel S ve ve' fe fe' al init Rv Rf Wi C1). unfold self_event. cbn [ren_occ oid]. now rewrite IH1.
    - rewrite <- app_assoc. exact IH2.
  Qed.

  (* ---- the traversal ---- *)

  Definition Ab (b : block) : Prop := forall S ve ve' fe fe' al,
    env_rel S ve ve' -> env_rel S fe fe' -> wf_stmts S b -> consistent (s_stmts g fl sl ve fe al b) ->
    s_stmts g fl sl ve' fe' al (ren_block rho b) = s_stmts g fl sl ve fe al b.
  Definition As (s : stmt) : Prop := forall rest, Ab rest -> Ab (BCons s rest).
  Definition Ai (i : item) : Prop := forall S ve ve' fe fe',
    env_rel S ve ve' -> env_rel S fe fe' -> wf_item S i -> consistent (s_item g fl sl ve fe i) ->
    s_item g fl sl ve' fe' (ren_item rho i) = s_item g fl sl ve fe i.

  Lemma enter_block_rel b S ve ve' fe fe' al :
    Ab b -> env_rel S ve ve' -> env_rel S fe fe' ->
    entry_ok S (block_items b) -> wf_stmts (rev (item_ids (block_items b)) ++ S) b ->
    consistent (item_self_events (block_items b) ++ s_stmts g fl sl (enter_v ve (block_items b)) (enter_f fe (block_items b)) al b) ->
    item_self_events (block_items (ren_block rho b))
      ++ s_stmts g fl sl (enter_v ve' (block_items (ren_block rho b))) (enter_f fe' (block_items (ren_block rho b))) al (ren_block rho b)
    = item_self_events (block_items b) ++ s_stmts g fl sl (enter_v ve (block_items b)) (enter_f fe (block_items b)) al b.
  Proof.
    intros HA Rv Rf He Hw C. apply consistent_app in C as [C1 C2].
    rewrite block_items_ren, item_self_events_ren. f_equal.
    destruct (enter_rel S ve ve' fe fe' (block_items b) Rv Rf He C1) as [Rv' Rf'].
    now apply (HA _ _ _ _ _ al Rv' Rf' Hw).
  Qed.

  Lemma alpha_all : (forall s, As s) /\ (forall b, Ab b) /\ (forall i, Ai i).
  Proof.
    apply syntax_mutind.
    - (* SUses *) intros us rest IH S ve ve' fe fe' al Rv Rf W C.
      rewrite rb_uses, !ss_uses. rewrite ss_uses in C. apply consistent_app in C as [C1 C2].
      cbn [wf_stmts] in W. destruct W as [W1 W2].
      rewrite (s_uses_rel S ve ve' fe fe' al us Rv Rf W1 C1). f_equal. now apply (IH S).
    - (* SDecl *) intros vars rest IH S ve ve' fe fe' al Rv Rf W C.
      rewrite rb_decl, !ss_decl. rewrite ss_decl in C.
      cbn [wf_stmts] in W. destruct W as [W1 W2].
      pose proof (s_decls_rel vars S ve ve' fe fe' al Rv Rf W1) as D.
      destruct (s_decls g ve fe al vars) as [e ve1] eqn:E. destruct (s_decls g ve' fe' al (ren_vars rho vars)) as [e' ve1'] eqn:E'.
      cbn [fst snd] in D. apply consistent_app in C as [C1 C2]. destruct (D C1) as [D1 D2]. subst e'. f_equal.
      apply (IH _ _ _ _ _ al D2); [|exact W2 | exact C2].
      eapply env_rel_incl; [exact Rf | intros x Hx; apply in_or_app; now right].
    - (* SBlock *) intros b' IHb rest IH S ve ve' fe fe' al Rv Rf W C.
      rewrite rb_block, !ss_block. rewrite ss_block in C.
      cbn [wf_stmts] in W. destruct W as [[We Wb] Wr].
      rewrite app_assoc in C. apply consistent_app in C as [C1 C2].
      rewrite !app_assoc. rewrite (enter_block_rel b' S ve ve' fe fe' al IHb Rv Rf We Wb C1). f_equal. now apply (IH S).
    - (* SItem *) intros i IHi rest IH S ve ve' fe fe' al Rv Rf W C.
      rewrite rb_item, !ss_item. rewrite ss_item in C. apply consistent_app in C as [C1 C2].
      cbn [wf_stmts] in W. destruct W as [W1 W2].
      rewrite (IHi S ve ve' fe fe' Rv Rf W1 C1). f_equal. now apply (IH S).
    - (* BNil *) intros S ve ve' fe fe' al _ _ _ _. reflexivity.
    - (* BCons *) intros s IHs b IHb. now apply IHs.
    - (* IConst *) intros vars S ve ve' fe fe' Rv Rf W C. rewrite ri_const, !si_const. rewrite si_const in C.
      cbn [wf_item] in W. unfold ren_vars. induction vars as [|v t IHt]; cbn [map flat_map snd]; [reflexivity|].
      cbn [flat_map] in C. apply consistent_app in C as [C1 C2].
      rewrite (s_uses_rel S (hide ve) (hide ve') fe fe' None (snd v) (env_rel_hide _ _ _ Rv) Rf (W v (or_introl eq_refl)) C1).
      f_equal. apply IHt; [intros v' Hv'; apply W; now right | exact C2].
    - (* IFunc *) intros q f ps body IHb S ve ve' fe fe' Rv Rf W C. rewrite ri_func, !si_func. rewrite si_func in C.
      cbn [wf_item] in W. destruct W as [Wn [Wo [We Wb]]].
      apply consistent_app in C as [C1 C2].
      rewrite map_map. cbn [self_event ren_occ oid]. f_equal.
      assert (Hr : forall o, In o ps -> rho (oid o) = sigma (oid o)).
      { intros o Ho. specialize (C1 (oid o) (ROk (mk_param o))). cbn in C1. apply C1.
        apply in_map_iff. exists o. split; [reflexivity | exact Ho]. }
      pose proof (env_rel_bind_occs mk_param (fun _ => eq_refl) (fun _ => eq_refl) ps S (hide ve) (hide ve') (env_rel_hide _ _ _ Rv) Wn Hr) as Rp.
      assert (Rf1 : env_rel (rev (map oid ps) ++ S) fe fe') by (eapply env_rel_incl; [exact Rf | intros x Hx; apply in_or_app; now right]).
      apply (enter_block_rel body _ _ _ fe fe' (func_lang fl q) IHb Rp Rf1 We Wb C2).
    - (* IFuncDecl *) intros q f ps S ve ve' fe fe' _ _ _ _. rewrite ri_funcdecl, !si_funcdecl, map_map. reflexivity.
    - (* IScript *) intros b IHb S ve ve' fe fe' Rv Rf W C. rewrite ri_script, !si_script. rewrite si_script in C.
      cbn [wf_item] in W. destruct W as [We Wb].
      apply (enter_block_rel b S ve ve' fe fe' (Some sl) IHb Rv Rf We Wb C).
    - (* IMeta *) intros us S ve ve' fe fe' Rv Rf W C. rewrite ri_meta, !si_meta. rewrite si_meta in C.
      cbn [wf_item] in W. now apply (s_uses_rel S).
  Qed.

  Theorem alpha_spec p : wf_prog p -> consistent (scope_spec g fl sl p) ->
    scope_spec g fl sl (ren_prog rho p) = scope_spec g fl sl p.
  Proof.
    destruct alpha_all as [_ [HAb HAi]].
    destruct p as [items|b]; cbn [wf_prog ren_prog scope_spec]; intros [We W] C.
    - apply consistent_app in C as [C1 C2].
      rewrite item_self_events_ren. f_equal.
      destruct (enter_rel [] env0 env0 env0 env0 items (env_rel_empty _) (env_rel_empty _) We C1) as [Rv Rf].
      rewrite app_nil_r in Rv, Rf.
      assert (A : forall its, Forall (wf_item (rev (item_ids items))) its ->
                  consistent (flat_map (s_item g fl sl (enter_v env0 items) (enter_f env0 items)) its) ->
                  flat_map (s_item g fl sl (enter_v env0 (map (ren_item rho) items)) (enter_f env0 (map (ren_item rho) items))) (map (ren_item rho) its)
                  = flat_map (s_item g fl sl (enter_v env0 items) (enter_f env0 items)) its).
      { induction its as [|i t IH]; intros Hw Hc; cbn [map flat_map]; [reflexivity|].
        cbn [flat_map] in Hc. apply consistent_app in Hc as [Hc1 Hc2]. inversion Hw; subst.
        rewrite (HAi i _ _ _ _ _ Rv Rf H1 Hc1). f_equal. now apply IH. }
      now apply A.
    - unfold s_block in *.
      pose proof (enter_block_rel b [] env0 env0 env0 env0 (Some fl) (HAb b) (env_rel_empty _) (env_rel_empty _) We) as X.
      rewrite app_nil_r in X. now apply X.
  Qed.

  (* ---- the renamed program declares nothing twice: all new declared spellings are different ---- *)

  Lemma NoDup_map_sigma ids : NoDup ids -> NoDup (map sigma ids).
  Proof.
    induction 1 as [|i t Hi Hn IH]; cbn; constructor; [|exact IH].
    intro H. apply in_map_iff in H as [j [Hj Hin]]. apply sigma_inj in Hj. subst. contradiction.
  Qed.

  Lemma NoDup_map_rho ids S : nodup_after S ids -> (forall j, In j ids -> rho j = sigma j) -> NoDup (map rho ids).
  Proof.
    intros N H. rewrite (map_ext_in rho sigma ids H). apply NoDup_map_sigma. apply nodup_after_iff in N. tauto.
  Qed.

  Fixpoint local_ids (b : block) : list Z :=
    match b with
    | BNil => []
    | BCons (SDecl vars) t => map (fun v => oid (fst v)) vars ++ local_ids t
    | BCons _ t => local_ids t
    end.

  Lemma local_names_ren b : local_names (ren_block rho b) = map rho (local_ids b).
  Proof.
    induction b as [|s t IH]; [reflexivity|].
    destruct s; rewrite ?rb_uses, ?rb_decl, ?rb_block, ?rb_item; cbn [local_names local_ids]; rewrite ?IH; try reflexivity.
    rewrite map_app. f_equal. unfold ren_vars. rewrite !map_map. reflexivity.
  Qed.

  Lemma wf_decls_nodup vars : forall S, wf_decls S vars -> nodup_after S (map (fun v => oid (fst v)) vars).
  Proof.
    induction vars as [|[o init] t IH]; intros S W; cbn [map nodup_after fst]; [exact I|].
    cbn [wf_decls] in W. destruct W as [_ [_ [Wn Wt]]]. split; [exact Wn | now apply IH].
  Qed.

  Lemma s_decls_self vars : forall ve fe al o init, In (o, init) vars ->
    In (EvRes (oid o) (ROk (mk_local o))) (fst (s_decls g ve fe al vars)).
  Proof.
    induction vars as [|[o' init'] t IH]; intros ve fe al o init Hin; [destruct Hin|].
    cbn [s_decls]. destruct (s_decls g (bind ve (oname o') (mk_local o')) fe al t) as [e2 ve2] eqn:E2. cbn [fst].
    apply in_or_app. right. destruct Hin as [E|Hin].
    - inversion E; subst. now left.
    - right. specialize (IH (bind ve (oname o') (mk_local o')) fe al o init Hin). now rewrite E2 in IH.
  Qed.

  Lemma entry_names_ok S its :
    entry_ok S its -> consistent (item_self_events its) ->
    NoDup (const_names (map (ren_item rho) its)) /\ NoDup (func_names (map (ren_item rho) its)).
  Proof.
    intros [N _] C. unfold item_ids in N. apply nodup_after_app in N as [Nc Nf].
    unfold item_self_events in C. apply consistent_app in C as [Cc Cf].
    unfold const_names, func_names. rewrite const_occs_ren, func_occs_ren, !map_map. cbn [ren_occ oname ren_fn fst].
    split.
    - rewrite <- (map_map oid rho). apply (NoDup_map_rho _ S Nc).
      intros j Hj. apply in_map_iff in Hj as [o [<- Ho]].
      specialize (Cc (oid o) (ROk (mk_const o))). cbn in Cc. apply Cc. apply in_map_iff. exists o. split; [reflexivity | exact Ho].
    - rewrite <- (map_map (fun fn => oid (fst fn)) rho). apply (NoDup_map_rho _ _ Nf).
      intros j Hj. apply in_map_iff in Hj as [fn [<- Hfn]].
      specialize (Cf (oid (fst fn)) (ROk (DFunc (oid (fst fn)) (snd fn)))). cbn in Cf. apply Cf.
      apply in_map_iff. exists fn. split; [reflexivity | exact Hfn].
  Qed.

  Definition Nb (b : block) : Prop := forall S ve fe al,
    wf_stmts S b -> consistent (s_stmts g fl sl ve fe al b) ->
    nodup_after S (local_ids b) /\ (forall j, In j (local_ids b) -> rho j = sigma j) /\ nr_sub (ren_block rho b).
  Definition Ns (s : stmt) : Prop := forall rest, Nb rest -> Nb (BCons s rest).
  Definition Ni (i : item) : Prop := forall S ve fe,
    wf_item S i -> consistent (s_item g fl sl ve fe i) -> nr_item (ren_item rho i).

  Lemma enter_block_nr b S ve fe al :
    Nb b -> entry_ok S (block_items b) -> wf_stmts (rev (item_ids (block_items b)) ++ S) b ->
    consistent (item_self_events (block_items b) ++ s_stmts g fl sl ve fe al b) ->
    heads_ok (ren_block rho b) /\ nr_sub (ren_block rho b).
  Proof.
    intros HN He Hw C. apply consistent_app in C as [C1 C2].
    destruct (HN _ _ _ _ Hw C2) as [N1 [N2 N3]].
    destruct (entry_names_ok S _ He C1) as [E1 E2].
    split; [|exact N3]. unfold heads_ok. rewrite block_items_ren, local_names_ren.
    split; [|split; assumption]. apply (NoDup_map_rho _ _ N1 N2).
  Qed.

  Lemma nr_all : (forall s, Ns s) /\ (forall b, Nb b) /\ (forall i, Ni i).
  Proof.
    apply syntax_mutind.
    - (* SUses *) intros us rest IH S ve fe al W C. rewrite ss_uses in C. apply consistent_app in C as [_ C2].
      cbn [wf_stmts] in W. destruct W as [_ W2]. rewrite rb_uses. cbn [local_ids nr_sub].
      destruct (IH _ _ _ _ W2 C2) as [N1 [N2 N3]]. tauto.
    - (* SDecl *) intros vars rest IH S ve fe al W C. rewrite ss_decl in C.
      cbn [wf_stmts] in W. destruct W as [W1 W2]. rewrite rb_decl. cbn [local_ids nr_sub].
      pose proof (s_decls_self vars ve fe al) as Self.
      destruct (s_decls g ve fe al vars) as [e ve1] eqn:E. cbn [fst] in Self. apply consistent_app in C as [C1 C2].
      destruct (IH _ _ _ _ W2 C2) as [N1 [N2 N3]].
      split; [|split; [|tauto]].
      + apply nodup_after_app. split; [now apply wf_decls_nodup | exact N1].
      + intros j Hj. apply in_app_or in Hj as [Hj|Hj]; [|now apply N2].
        apply in_map_iff in Hj as [[o init] [<- Hin]]. cbn [fst]. apply (C1 (oid o) (ROk (mk_local o))). eapply Self, Hin.
    - (* SBlock *) intros b' IHb rest IH S ve fe al W C. rewrite ss_block in C.
      cbn [wf_stmts] in W. destruct W as [[We Wb] Wr]. rewrite rb_block. cbn [local_ids nr_sub].
      rewrite app_assoc in C. apply consistent_app in C as [C1 C2].
      destruct (IH _ _ _ _ Wr C2) as [N1 [N2 N3]].
      pose proof (enter_block_nr b' S _ _ al IHb We Wb C1). tauto.
    - (* SItem *) intros i IHi rest IH S ve fe al W C. rewrite ss_item in C. apply consistent_app in C as [C1 C2].
      cbn [wf_stmts] in W. destruct W as [W1 W2]. rewrite rb_item. cbn [local_ids nr_sub].
      destruct (IH _ _ _ _ W2 C2) as [N1 [N2 N3]]. pose proof (IHi S ve fe W1 C1). tauto.
    - (* BNil *) intros S ve fe al _ _. cbn. tauto.
    - (* BCons *) intros s IHs b IHb. now apply IHs.
    - (* IConst *) intros vars S ve fe _ _. rewrite ri_const. exact I.
    - (* IFunc *) intros q f ps body IHb S ve fe W C. rewrite si_func in C. rewrite ri_func. cbn [nr_item].
      cbn [wf_item] in W. destruct W as [Wn [Wo [We Wb]]]. apply consistent_app in C as [C1 C2].
      split.
      + rewrite map_map. cbn [ren_occ oname]. rewrite <- (map_map oid rho). apply (NoDup_map_rho _ S Wn).
        intros j Hj. apply in_map_iff in Hj as [o [<- Ho]].
        specialize (C1 (oid o) (ROk (mk_param o))). cbn in C1. apply C1. apply in_map_iff. exists o. split; [reflexivity | exact Ho].
      + apply (enter_block_nr body _ _ _ _ IHb We Wb C2).
    - (* IFuncDecl *) intros q f ps S ve fe _ _. rewrite ri_funcdecl. exact I.
    - (* IScript *) intros b IHb S ve fe W C. rewrite si_script in C. rewrite ri_script. cbn [nr_item].
      cbn [wf_item] in W. destruct W as [We Wb]. apply (enter_block_nr b _ _ _ _ IHb We Wb C).
    - (* IMeta *) intros us S ve fe _ _. rewrite ri_meta. exact I.
  Qed.

  Lemma no_redeclaration_ren p : wf_prog p -> consistent (scope_spec g fl sl p) -> no_redeclaration (ren_prog rho p).
  Proof.
    destruct nr_all as [_ [HNb HNi]].
    destruct p as [items|b]; cbn [wf_prog ren_prog scope_spec no_redeclaration]; intros [We W] C.
    - apply consistent_app in C as [C1 C2]. destruct (entry_names_ok [] _ We C1) as [E1 E2].
      split; [exact E1|]. split; [exact E2|].
      assert (A : forall its S0 ve0 fe0, Forall (wf_item S0) its -> consistent (flat_map (s_item g fl sl ve0 fe0) its) ->
                  Forall nr_item (map (ren_item rho) its)).
      { induction its as [|i t IH]; intros S0 ve0 fe0 Hw Hc; cbn [map]; constructor.
        - cbn [flat_map] in Hc. apply consistent_app in Hc as [Hc1 _]. inversion Hw; subst. now apply (HNi i S0 ve0 fe0).
        - cbn [flat_map] in Hc. apply consistent_app in Hc as [_ Hc2]. inversion Hw; subst. now apply (IH S0 ve0 fe0). }
      now apply (A items _ _ _ W C2).
    - unfold s_block in C. unfold nr_block. apply (enter_block_nr b [] (enter_v env0 (block_items b)) (enter_f env0 (block_items b)) (Some fl) (HNb b) We); [now rewrite app_nil_r | exact C].
  Qed.

  (* ---- the theorem on the visitor ---- *)

  Lemma redef_nil_res evs : redef_events evs = [] -> res_events evs = evs.
  Proof.
    induction evs as [|e t IH]; cbn; [reflexivity|]. destruct e; cbn; [intro H; f_equal; auto | discriminate].
  Qed.

  Theorem alpha_invariance p evs :
    wf_prog p -> resolve_outcome g fl sl p = Ok evs -> consistent evs ->
    resolve_outcome g fl sl (ren_prog rho p) = Ok evs.
  Proof.
    intros W H C. apply resolve_ok_iff in H as [-> [Hn Hb]].
    assert (Cs : consistent (scope_spec g fl sl p)).
    { intros id r Hin. apply C. rewrite <- resolve_sound_complete in Hin. apply filter_In in Hin. tauto. }
    pose proof (alpha_spec p W Cs) as A.
    pose proof (no_redeclaration_ren p W Cs) as Hn'.
    assert (E : resolve g fl sl (ren_prog rho p) = resolve g fl sl p).
    { rewrite <- (redef_nil_res (resolve g fl sl (ren_prog rho p))) by (now apply redeclaration_iff).
      rewrite <- (redef_nil_res (resolve g fl sl p)) by (now apply redeclaration_iff).
      now rewrite !resolve_sound_complete. }
    apply resolve_ok_iff. split; [now rewrite E|]. split; [exact Hn'|].
    unfold binds. rewrite A. exact Hb.
  Qed.
End Alpha.
