(* Proofs/BlocksMono.v -- a static sufficient condition for the time guard of [Strict]: when time
   labels never go backwards and the run starts at time <= 0, the script time never runs ahead of
   the statement times, so AstVm never "resets" it (the E_TIMERESET guard cannot fire). *)
From TV Require Import Base.I32 Model.Blocks Proofs.BlocksStatic Proofs.BlocksSim.
Open Scope Z_scope.

Section Mono.
  Variable L : lang.
  Variable fl : flavour.

  Definition nt {A} (R : outcome A) : Prop := R <> Err E_TIMERESET.

  Lemma nt_bind {A B} (m : outcome A) (f : A -> outcome B) :
    nt m -> (forall a, m = Ok a -> nt (f a)) -> nt (obind m f).
  Proof.
    unfold nt. destruct m; cbn; intros H1 H2; try discriminate.
    - apply H2. reflexivity.
    - intros E. apply H1. inversion E. reflexivity.
  Qed.

  Lemma nt_ok {A} (a : A) : nt (Ok a). Proof. discriminate. Qed.
  Lemma nt_panic {A} t : nt (@Panic A t). Proof. discriminate. Qed.
  Lemma nt_fuel {A} : nt (@OutOfFuel A). Proof. discriminate. Qed.

  Lemma nt_wait t (st : state L) : nt (wait L t st).
  Proof. unfold wait. destruct (_ <? _); [destruct (_ && _)|]; discriminate. Qed.
  Lemma nt_expect o : nt (expect_time o).
  Proof. destruct o; discriminate. Qed.
  Lemma nt_eval_cond c (st : state L) : nt (eval_int L c (s_regs st)) -> nt (eval_cond L c st).
  Proof. intros H. unfold eval_cond. apply nt_bind; auto. intros; apply nt_ok. Qed.

  (* the expression language never reports the time-reset tag itself *)
  Hypothesis H_eval_nt : forall e r, nt (eval_int L e r).
  Hypothesis H_exec_nt : forall x rt r, nt (exec L x rt r).
  Hypothesis H_rd_nt : forall v r, nt (rd L v r).

  Lemma nt_exec_atom a (st : state L) : nt (exec_atom L a st).
  Proof. destruct a; cbn [exec_atom]; try apply nt_ok; (apply nt_bind; [apply H_exec_nt|intros; apply nt_ok]). Qed.
  Lemma exec_atom_time a (st st' : state L) : exec_atom L a st = Ok st' -> s_time st' = s_time st.
  Proof.
    destruct a; cbn [exec_atom]; intros H; try (inversion H; subst; reflexivity);
      apply obind_ok in H; destruct H as (rc & _ & H); inversion H; subst; reflexivity.
  Qed.

  Lemma wait_exact t (st st1 : state L) : s_time st <= t -> wait L t st = Ok st1 -> s_time st1 = t.
  Proof.
    unfold wait. intros LE. destruct (s_time st <? t) eqn:E.
    - destruct (_ && _); intros H; inversion H; subst; reflexivity.
    - intros H; inversion H; subst. apply Z.ltb_ge in E. lia.
  Qed.

  (* monotone labels: static times only grow *)
  Lemma mono_grow :
    (forall s t, mono_stmt L s t = true -> t <= stmt_after L s t) /\
    (forall b t, mono_block L b t = true -> t <= block_after L b t) /\
    (forall c t, mono_chain L c t = true -> t <= chain_after L c t).
  Proof.
    apply sbc_ind; intros.
    - cbn in H. apply Z.leb_le in H. exact H.
    - cbn. lia.
    - cbn. lia.
    - change (stmt_after L (SBlock b) t) with (block_after L b t). apply H. exact H0.
    - change (stmt_after L (SCond k c b rest) t) with (chain_after L rest (block_after L b t)).
      change (mono_stmt L (SCond k c b rest) t) with (mono_block L b t && mono_chain L rest (block_after L b t)) in H1.
      apply andb_prop in H1. destruct H1 as [A B]. apply H in A. apply H0 in B. lia.
    - change (stmt_after L (SLoop id b) t) with (block_after L b t). apply H. exact H0.
    - change (stmt_after L (SWhile id c b) t) with (block_after L b t). apply H. exact H0.
    - change (stmt_after L (SDoWhile id c b) t) with (block_after L b t). apply H. exact H0.
    - change (stmt_after L (STimes id clobber count b) t) with (block_after L b t). apply H. exact H0.
    - cbn. lia.
    - change (block_after L (BCons s b) t) with (block_after L b (stmt_after L s t)).
      change (mono_block L (BCons s b) t) with (mono_stmt L s t && mono_block L b (stmt_after L s t)) in H1.
      apply andb_prop in H1. destruct H1 as [A B]. apply H in A. apply H0 in B. lia.
    - cbn. lia.
    - change (chain_after L (CElse b) t) with (block_after L b t). apply H. exact H0.
    - change (chain_after L (CElif k c b rest) t) with (chain_after L rest (block_after L b t)).
      change (mono_chain L (CElif k c b rest) t) with (mono_block L b t && mono_chain L rest (block_after L b t)) in H1.
      apply andb_prop in H1. destruct H1 as [A B]. apply H in A. apply H0 in B. lia.
  Qed.

  Definition good (R : outcome (res * state L)) (bound : Z) : Prop :=
    nt R /\ forall st', R = Ok (Normal, st') -> s_time st' <= bound.
  Definition good_st (R : outcome (state L)) (bound : Z) : Prop :=
    nt R /\ forall st', R = Ok st' -> s_time st' <= bound.

  Lemma good_bind {A} (m : outcome A) f bound :
    nt m -> (forall a, m = Ok a -> good (f a) bound) -> good (obind m f) bound.
  Proof.
    intros N H. split.
    - apply nt_bind; auto. intros a E. apply (H a E).
    - intros st' E. apply obind_ok in E. destruct E as (a & Ea & E). apply (proj2 (H a Ea)). exact E.
  Qed.
  Lemma good_st_bind {A} (m : outcome A) f bound :
    nt m -> (forall a, m = Ok a -> good_st (f a) bound) -> good_st (obind m f) bound.
  Proof.
    intros N H. split.
    - apply nt_bind; auto. intros a E. apply (H a E).
    - intros st' E. apply obind_ok in E. destruct E as (a & Ea & E). apply (proj2 (H a Ea)). exact E.
  Qed.
  Lemma good_ok r st bound : (r = Normal -> s_time st <= bound) -> good (Ok (r, st)) bound.
  Proof. intros H. split. apply nt_ok. intros st' E. inversion E; subst. auto. Qed.
  Lemma good_st_ok st bound : s_time st <= bound -> good_st (Ok st) bound.
  Proof. intros H. split. apply nt_ok. intros st' E. inversion E; subst. auto. Qed.
  Lemma good_of_st (R : outcome (state L)) bound :
    good_st R bound -> good (do st' <- R; Ok (Normal, st')) bound.
  Proof.
    intros [N B]. apply good_bind; auto. intros a E. apply good_ok. intros _. apply B. exact E.
  Qed.

  Lemma check_ok_nt b tag : b = true -> nt (check (Strict true fl) b tag).
  Proof. intros ->. apply nt_ok. Qed.
  Lemma check_nt_other b tag : tag <> E_TIMERESET -> nt (check (Strict true fl) b tag).
  Proof. intros NE. unfold check. destruct b. apply nt_ok. intros E. inversion E. contradiction. Qed.

  Definition Q_block (f : nat) : Prop :=
    forall t b st cur, s_time st <= t -> mono_block L b t = true -> wf_stmts L cur b = true ->
      good (run_block L f (Strict true fl) t b st) (block_after L b t).
  Definition Q_stmt (f : nat) : Prop :=
    forall t s st cur, s_time st = stmt_time L s t -> mono_stmt L s t = true -> wf_stmt L cur s = true ->
      good (run_stmt L f (Strict true fl) t s st) (stmt_after L s t).
  Definition Q_chain (f : nat) : Prop :=
    forall t first k c b rc st cur, s_time st <= t -> (first = true -> s_time st = t) ->
      mono_block L b t = true -> mono_chain L rc (block_after L b t) = true ->
      bookended L b = true -> wf_stmts L cur b = true -> wf_chain L cur rc = true ->
      good (run_chain L f (Strict true fl) t first k c b rc st) (chain_after L rc (block_after L b t)).
  Definition Q_iter (f : nat) : Prop :=
    forall t b lk st cur, s_time st <= t -> mono_block L b t = true ->
      bookended L b = true -> wf_stmts L cur b = true ->
      good_st (run_iter L f (Strict true fl) t b t (block_after L b t) lk st) (block_after L b t).

  Lemma mono_block_cons s b t : mono_block L (BCons s b) t = mono_stmt L s t && mono_block L b (stmt_after L s t).
  Proof. reflexivity. Qed.

  Lemma mono_stmt_time s t : mono_stmt L s t = true -> t <= stmt_time L s t.
  Proof. destruct s; cbn [stmt_time]; try lia. cbn. apply Z.leb_le. Qed.

  Lemma qstep_block f : Q_stmt f -> Q_block f -> Q_block (S f).
  Proof.
    intros QS QB t b st cur LE MO WF. rewrite run_block_S. destruct b as [|s b'].
    - apply good_ok. intros _. cbn. exact LE.
    - rewrite mono_block_cons in MO. apply andb_prop in MO. destruct MO as [MS MB].
      rewrite wf_stmts_cons in WF. apply andb_prop in WF. destruct WF as [WS WB].
      rewrite block_after_cons.
      apply good_bind. apply nt_wait. intros st1 W.
      pose proof (mono_stmt_time _ _ MS) as TS.
      assert (T1 : s_time st1 = stmt_time L s t) by (eapply wait_exact; [|exact W]; lia).
      destruct (QS t s st1 cur T1 MS WS) as [N1 B1].
      apply good_bind; auto. intros [r st2] RS. cbn [fst snd].
      destruct r.
      + apply (QB _ b' st2 cur); auto.
      + apply good_ok. discriminate.
  Qed.

  Lemma qstep_iter f : Q_block f -> Q_iter f -> Q_iter (S f).
  Proof.
    intros QB QI t b lk st cur LE MO BK WF. rewrite run_iter_S.
    destruct (QB t b st cur LE MO WF) as [N1 B1].
    apply good_st_bind; auto. intros [r st1] RB. cbn [fst snd]. cbv zeta.
    destruct r.
    2:{ apply good_st_ok. cbn. lia. }
    specialize (B1 st1 RB).
    destruct lk.
    - apply (QI t b LKLoop _ cur); auto. cbn. lia.
    - apply good_st_bind. apply nt_eval_cond, H_eval_nt. intros [bv st2] EC. cbn [fst snd].
      pose proof (eval_cond_time _ _ _ _ _ EC) as ET.
      destruct bv. apply (QI t b (LKWhile c) _ cur); auto. cbn. lia.
      apply good_st_ok. lia.
    - destruct (1 <? n). apply (QI t b _ _ cur); auto. cbn. lia. apply good_st_ok. lia.
    - apply good_st_bind. apply H_rd_nt. intros x RD.
      destruct (in_i32b (x - 1)); [|split; [apply nt_panic|discriminate]].
      destruct (x - 1 =? 0). apply good_st_ok. cbn. lia.
      apply good_st_bind. apply check_nt_other. discriminate. intros ck CK.
      apply (QI t b (LKClobber v) _ cur); auto. cbn. lia.
  Qed.

  Lemma mono_chain_else b t : mono_chain L (CElse b) t = mono_block L b t.
  Proof. reflexivity. Qed.
  Lemma mono_chain_elif k c b rc t : mono_chain L (CElif k c b rc) t = mono_block L b t && mono_chain L rc (block_after L b t).
  Proof. reflexivity. Qed.

  Lemma qstep_chain f : Q_block f -> Q_chain f -> Q_chain (S f).
  Proof.
    intros QB QC t first k c b rc st cur LE FE MB MC BK WF WFC. rewrite run_chain_S.
    destruct (bookended_inv _ _ BK) as [FN LN].
    apply good_bind. apply nt_eval_cond, H_eval_nt. intros [bv st1] EC. cbn [fst snd]. cbv zeta.
    pose proof (eval_cond_time _ _ _ _ _ EC) as ET.
    pose proof (proj1 (proj2 (mono_grow)) _ _ MB) as GB.
    destruct (Bool.eqb bv (is_if k)).
    - rewrite (start_time_nop _ _ _ FN). cbn [expect_time obind].
      assert (FS : (if first then fall L (Strict true fl) t (s_time st1) st1 else Ok (set_time L t st1)) = Ok (set_time L t st1)).
      { destruct first; auto. unfold fall. rewrite ET, (FE eq_refl), Z.eqb_refl. reflexivity. }
      rewrite FS. cbn [obind].
      destruct (QB t b (set_time L t st1) cur ltac:(cbn; lia) MB WF) as [N1 B1].
      apply good_bind; auto. intros [r st2] RB. cbn [fst snd].
      destruct r; [|apply good_ok; discriminate].
      rewrite (chain_end_time_wf _ cur rc b t BK WFC). cbn [expect_time obind].
      specialize (B1 st2 RB).
      assert (TG : block_after L b t <= s_time st2) by (eapply run_block_time_ge; eauto).
      set (te := chain_after L rc (block_after L b t)).
      assert (FS2 : match rc with
                   | CEnd => fall L (Strict true fl) te (s_time st2) st2
                   | _ => Ok (set_time L te st2)
                   end = Ok (set_time L te st2)).
      { destruct rc; auto. unfold fall, te. change (chain_after L CEnd (block_after L b t)) with (block_after L b t).
        replace (s_time st2) with (block_after L b t) by lia. rewrite Z.eqb_refl. reflexivity. }
      rewrite FS2. cbn [obind]. apply good_ok. intros _. cbn. lia.
    - destruct rc as [|eb|k' c' b' rc'].
      + rewrite (end_time_nop _ _ _ LN). cbn [expect_time obind]. apply good_ok. intros _. cbn.
        change (chain_after L CEnd (block_after L b t)) with (block_after L b t). lia.
      + rewrite wf_CElse in WFC. apply andb_prop in WFC. destruct WFC as [BKe WFe].
        destruct (bookended_inv _ _ BKe) as [FNe LNe]. rewrite mono_chain_else in MC.
        cbv zeta. rewrite (start_time_nop _ _ _ FNe). cbn [expect_time obind].
        change (chain_after L (CElse eb) (block_after L b t)) with (block_after L eb (block_after L b t)).
        destruct (QB (block_after L b t) eb (set_time L (block_after L b t) st1) cur ltac:(cbn; lia) MC WFe) as [N1 B1].
        apply good_bind; auto. intros [r st2] RB. cbn [fst snd].
        destruct r; [|apply good_ok; discriminate].
        rewrite (end_time_nop _ _ _ LNe). cbn [expect_time obind].
        specialize (B1 st2 RB).
        assert (TG : block_after L eb (block_after L b t) <= s_time st2) by (eapply run_block_time_ge; eauto).
        unfold fall. replace (s_time st2) with (block_after L eb (block_after L b t)) by lia.
        rewrite Z.eqb_refl. cbn [obind]. apply good_ok. intros _. cbn. lia.
      + rewrite wf_CElif in WFC. apply andb_prop in WFC. destruct WFC as [WFC WFr]. apply andb_prop in WFC. destruct WFC as [BKe WFe].
        rewrite mono_chain_elif in MC. apply andb_prop in MC. destruct MC as [MB' MC'].
        change (chain_after L (CElif k' c' b' rc') (block_after L b t)) with (chain_after L rc' (block_after L b' (block_after L b t))).
        apply (QC (block_after L b t) false k' c' b' rc' st1 cur); auto. lia. discriminate.
  Qed.

  Lemma qstep_stmt f : Q_block f -> Q_chain f -> Q_iter f -> Q_stmt (S f).
  Proof.
    intros QB QC QI t s st cur TE MO WF. rewrite run_stmt_S.
    destruct s as [a|id|k c id|b|k c b rc|id b|id c b|id c b|id clob count b]; cbn [stmt_time] in TE.
    - apply good_bind. apply nt_exec_atom. intros st' EX. apply good_ok. intros _.
      rewrite (exec_atom_time _ _ _ EX). cbn [stmt_after]. lia.
    - apply good_ok. discriminate.
    - apply good_bind. apply nt_eval_cond, H_eval_nt. intros [bv st1] EC. cbn [fst snd].
      apply good_ok. intros _. rewrite (eval_cond_time _ _ _ _ _ EC). cbn [stmt_after]. lia.
    - rewrite wf_SBlock in WF. apply andb_prop in WF. destruct WF as [BK WF].
      change (stmt_after L (SBlock b) t) with (block_after L b t).
      apply (QB t b st cur); auto. lia.
    - rewrite wf_SCond in WF. apply andb_prop in WF. destruct WF as [WF WFC]. apply andb_prop in WF. destruct WF as [BK WF].
      change (mono_stmt L (SCond k c b rc) t) with (mono_block L b t && mono_chain L rc (block_after L b t)) in MO.
      apply andb_prop in MO. destruct MO as [MB MC].
      change (stmt_after L (SCond k c b rc) t) with (chain_after L rc (block_after L b t)).
      apply (QC t true k c b rc st cur); auto. lia.
    - rewrite wf_SLoop in WF. destruct (wf_loop_inv _ _ _ WF) as (BK & WFb & FN & LN).
      rewrite (start_time_nop _ _ _ FN), (end_time_nop _ _ _ LN). cbn [expect_time obind].
      change (stmt_after L (SLoop id b) t) with (block_after L b t).
      apply good_of_st. apply (QI t b LKLoop st (Some id)); auto. lia.
    - rewrite wf_SWhile in WF. destruct (wf_loop_inv _ _ _ WF) as (BK & WFb & FN & LN).
      rewrite (start_time_nop _ _ _ FN), (end_time_nop _ _ _ LN). cbn [expect_time obind].
      change (stmt_after L (SWhile id c b) t) with (block_after L b t).
      apply good_bind. apply nt_eval_cond, H_eval_nt. intros [bv st1] EC. cbn [fst snd].
      pose proof (eval_cond_time _ _ _ _ _ EC) as ET.
      destruct bv.
      + apply good_of_st. apply (QI t b (LKWhile c) st1 (Some id)); auto. lia.
      + apply good_ok. intros _. cbn. lia.
    - rewrite wf_SDoWhile in WF. destruct (wf_loop_inv _ _ _ WF) as (BK & WFb & FN & LN).
      rewrite (start_time_nop _ _ _ FN), (end_time_nop _ _ _ LN). cbn [expect_time obind].
      change (stmt_after L (SDoWhile id c b) t) with (block_after L b t).
      apply good_of_st. apply (QI t b (LKWhile c) st (Some id)); auto. lia.
    - rewrite wf_STimes in WF. destruct (wf_loop_inv _ _ _ WF) as (BK & WFb & FN & LN).
      change (stmt_after L (STimes id clob count b) t) with (block_after L b t).
      change (mono_stmt L (STimes id clob count b) t) with (mono_block L b t) in MO.
      destruct clob as [v|];
        rewrite (start_time_nop _ _ _ FN), (end_time_nop _ _ _ LN); cbn [expect_time obind];
        (apply good_bind; [apply H_eval_nt|]); intros [n r1] EV; cbn [fst snd]; cbv zeta.
      + destruct (n =? 0). apply good_ok. intros _. cbn. lia.
        unfold fall. rewrite TE, Z.eqb_refl. cbn [obind].
        apply good_of_st. apply (QI t b (LKClobber v) _ (Some id)); auto. cbn. lia.
      + destruct (n =? 0). apply good_ok. intros _. cbn. lia.
        apply good_bind. apply check_nt_other. discriminate. intros ck CK.
        destruct (n <? 0). apply good_ok. intros _. cbn. lia.
        unfold fall. rewrite TE, Z.eqb_refl. cbn [obind].
        apply good_of_st. apply (QI t b (LKCount n) _ (Some id)); auto. cbn. lia.
  Qed.

  Lemma q_all f : Q_block f /\ Q_stmt f /\ Q_chain f /\ Q_iter f.
  Proof.
    induction f as [|f (QB & QS & QC & QI)].
    - unfold Q_block, Q_stmt, Q_chain, Q_iter, good, good_st. repeat split; intros; try apply nt_fuel; try discriminate.
    - split; [|split; [|split]].
      + apply qstep_block; auto.
      + apply qstep_stmt; auto.
      + apply qstep_chain; auto.
      + apply qstep_iter; auto.
  Qed.

  (* with non-decreasing time labels and a start at time <= 0, AstVm never resets the time *)
  Theorem monotone_no_time_reset p st fuel :
    wf_prog L p = true -> mono_block L p 0 = true -> s_time st <= 0 ->
    run_struct L fuel (Strict true fl) p st <> Err E_TIMERESET.
  Proof.
    intros WF MO LE. unfold wf_prog, wf_block in WF.
    apply andb_prop in WF. destruct WF as [WF _]. apply andb_prop in WF. destruct WF as [_ WF].
    unfold run_struct. apply nt_bind.
    - apply (proj1 (q_all fuel) 0 p st None LE MO WF).
    - intros [r st'] _. cbn [fst snd]. destruct r; discriminate.
  Qed.
End Mono.
