(* Proofs/DebugInfo.v -- the offsets recorded for debug info are the offsets of the emitted instructions. *)
From TV Require Import Base.I32 Model.DebugInfo.
Open Scope Z_scope.

Section Proofs.
  Variable linstr : Type.
  Variable state : Type.
  Variable isize : linstr -> state -> Z.
  Variable step : linstr -> state -> state.
  Variable dummy resolve : linstr -> linstr.
  (* substituting values for labels, times and locals changes neither the encoded size nor the
     encoding state that is passed on *)
  Hypothesis dummy_same_size : forall i st, isize (dummy i) st = isize (resolve i) st.
  Hypothesis dummy_same_state : forall i st, step (dummy i) st = step (resolve i) st.

  Notation gather := (gather linstr state isize step dummy).
  Notation final_sizes := (final_sizes linstr state isize step resolve).

  Lemma gather_instrs code : forall st off,
    g_instrs (gather code st off) = prefix_sums off (final_sizes code st).
  Proof.
    induction code as [|s t IH]; intros st off; cbn [gather final_sizes prefix_sums g_instrs]; [reflexivity|].
    destruct s; cbn [g_instrs prefix_sums].
    - rewrite IH, dummy_same_size, dummy_same_state. reflexivity.
    - apply IH.
    - apply IH.
  Qed.

  Lemma gather_end code : forall st off, g_end (gather code st off) = off + total (final_sizes code st).
  Proof.
    induction code as [|s t IH]; intros st off; cbn [gather final_sizes total fold_right g_end]; [lia|].
    destruct s; cbn [g_end fold_right].
    - rewrite IH, dummy_same_size, dummy_same_state. unfold total. lia.
    - apply IH.
    - apply IH.
  Qed.

  (* the offset of instruction k is the sum of the sizes of the instructions emitted before it *)
  Lemma prefix_sums_nth l : forall off k, (k < length l)%nat ->
    nth k (prefix_sums off l) 0 = off + total (firstn k l).
  Proof.
    induction l as [|x t IH]; intros off k Hk; [cbn in Hk; lia|].
    destruct k as [|k]; cbn [prefix_sums nth firstn total fold_right].
    - lia.
    - cbn [length] in Hk. rewrite IH by lia. unfold total. lia.
  Qed.

  Lemma prefix_sums_length off l : length (prefix_sums off l) = length l.
  Proof. revert off. induction l as [|x t IH]; intro off; cbn [prefix_sums length]; [reflexivity|]. now rewrite IH. Qed.

  Theorem offsets_are_prefix_sums code st k :
    (k < length (final_sizes code st))%nat ->
    length (g_instrs (gather code st 0)) = length (final_sizes code st) /\
    nth k (g_instrs (gather code st 0)) 0 = total (firstn k (final_sizes code st)).
  Proof.
    intro Hk. rewrite gather_instrs, prefix_sums_length. split; [reflexivity|].
    rewrite prefix_sums_nth by exact Hk. lia.
  Qed.

  Theorem end_offset_is_length code st : g_end (gather code st 0) = total (final_sizes code st).
  Proof. rewrite gather_end. lia. Qed.

  (* every label offset is the offset of an emitted instruction or the end offset *)
  Lemma gather_labels code : forall st off n tm o,
    In (n, tm, o) (g_labels (gather code st off)) ->
    In o (g_instrs (gather code st off)) \/ o = g_end (gather code st off).
  Proof.
    induction code as [|s t IH]; intros st off n tm o H; cbn [gather g_labels] in H; [contradiction|].
    destruct s; cbn [gather g_labels g_instrs g_end] in *.
    - destruct (IH _ _ _ _ _ H) as [Hi|He]; [left; right; exact Hi|right; exact He].
    - destruct H as [H|H].
      + inversion H; subst. clear H.
        (* the label sits at [off]: the next instruction starts there, or nothing follows *)
        clear IH. revert st. induction t as [|s t IHt]; intro st; cbn [gather g_instrs g_end]; [right; reflexivity|].
        destruct s; cbn [g_instrs g_end]; [left; left; reflexivity|apply IHt|apply IHt].
      + exact (IH _ _ _ _ _ H).
    - exact (IH _ _ _ _ _ H).
  Qed.

  Theorem label_offsets_are_boundaries code st n tm o :
    In (n, tm, o) (g_labels (gather code st 0)) ->
    (exists k, (k < length (final_sizes code st))%nat /\ o = total (firstn k (final_sizes code st)))
    \/ o = total (final_sizes code st).
  Proof.
    intro H. destruct (gather_labels _ _ _ _ _ _ H) as [Hi|He].
    - left. apply In_nth with (d := 0) in Hi. destruct Hi as (k & Hk & Hn).
      rewrite gather_instrs, prefix_sums_length in Hk. exists k. split; [exact Hk|].
      rewrite <- Hn. now apply offsets_are_prefix_sums.
    - right. now rewrite He, end_offset_is_length.
  Qed.

  (* the time recorded for a label is the time the label statement carries *)
  Theorem label_time_is_stated code st : forall off n tm o,
    In (n, tm, o) (g_labels (gather code st off)) -> In (LLabel linstr n tm) code.
  Proof.
    revert st. induction code as [|s t IH]; intros st off n tm o H; cbn [gather g_labels] in H; [contradiction|].
    destruct s; cbn [gather g_labels] in H.
    - right. eapply IH; eauto.
    - destruct H as [H|H]; [inversion H; subst; left; reflexivity|right; eapply IH; eauto].
    - right. eapply IH; eauto.
  Qed.
End Proofs.
