(* Proofs/OrderPerm.v -- C19: the order-safe consumer shapes take equal values on permutations of
   the iteration; the unsafe ones do not (witness: two entries). *)
From Coq Require Import String List ZArith Bool Permutation Lia.
From TV Require Import Model.Order.
Import ListNotations.
Open Scope Z_scope.

(* ------------------------------------------------------------------------------------------ *)
(* sorting a permutation gives the same list, for any total preorder that is antisymmetric on
   the elements at hand                                                                        *)

Section Sorting.
  Context {A : Type} (leb : A -> A -> bool).
  Hypothesis leb_total : forall a b, leb a b = true \/ leb b a = true.
  Hypothesis leb_trans : forall a b c, leb a b = true -> leb b c = true -> leb a c = true.

  Definition antisym_on (l : list A) : Prop :=
    forall a b, In a l -> In b l -> leb a b = true -> leb b a = true -> a = b.

  Inductive sorted : list A -> Prop :=
  | sorted_nil : sorted []
  | sorted_cons : forall a l, (forall b, In b l -> leb a b = true) -> sorted l -> sorted (a :: l).

  Lemma insert_perm : forall x l, Permutation (x :: l) (insert leb x l).
  Proof.
    intros x l; induction l as [|y t IH]; cbn [insert].
    - apply Permutation_refl.
    - destruct (leb x y).
      + apply Permutation_refl.
      + eapply Permutation_trans; [apply perm_swap|]. apply perm_skip. exact IH.
  Qed.

  Lemma insert_sorted : forall x l, sorted l -> sorted (insert leb x l).
  Proof.
    intros x l Hs; induction Hs as [|a l Ha Hs IH]; cbn [insert].
    - constructor; [intros b []|constructor].
    - destruct (leb x a) eqn:E.
      + constructor.
        * intros b [<-|Hb]; [exact E|]. eapply leb_trans; [exact E|]. apply Ha; exact Hb.
        * constructor; assumption.
      + constructor; [|exact IH].
        intros b Hb.
        apply (Permutation_in _ (Permutation_sym (insert_perm x l))) in Hb.
        destruct Hb as [<-|Hb].
        * destruct (leb_total a x) as [H|H]; [exact H|congruence].
        * apply Ha; exact Hb.
  Qed.

  Lemma isort_perm : forall l, Permutation l (isort leb l).
  Proof.
    induction l as [|x t IH]; cbn [isort fold_right]; [constructor|].
    eapply Permutation_trans; [apply perm_skip; exact IH|]. apply insert_perm.
  Qed.

  Lemma isort_sorted : forall l, sorted (isort leb l).
  Proof.
    induction l as [|x t IH]; cbn [isort fold_right]; [constructor|].
    apply insert_sorted; exact IH.
  Qed.

  Lemma collect_acc_perm : forall l m, Permutation (l ++ m) (fold_left (fun m e => insert leb e m) l m).
  Proof.
    induction l as [|x t IH]; intro m; cbn [fold_left app]; [apply Permutation_refl|].
    eapply Permutation_trans; [|apply IH].
    eapply Permutation_trans; [apply Permutation_middle|].
    apply Permutation_app_head. apply insert_perm.
  Qed.

  Lemma collect_acc_sorted : forall l m, sorted m -> sorted (fold_left (fun m e => insert leb e m) l m).
  Proof.
    induction l as [|x t IH]; intros m Hm; cbn [fold_left]; [exact Hm|].
    apply IH. apply insert_sorted; exact Hm.
  Qed.

  Lemma collect_ordered_perm : forall l, Permutation l (collect_ordered leb l).
  Proof.
    intro l. unfold collect_ordered.
    eapply Permutation_trans; [|apply collect_acc_perm]. rewrite app_nil_r. apply Permutation_refl.
  Qed.

  Lemma collect_ordered_sorted : forall l, sorted (collect_ordered leb l).
  Proof. intro l. apply collect_acc_sorted. constructor. Qed.

  Lemma sorted_perm_eq : forall l1 l2,
    sorted l1 -> sorted l2 -> Permutation l1 l2 -> antisym_on l1 -> l1 = l2.
  Proof.
    induction l1 as [|a t1 IH]; intros l2 H1 H2 HP HA.
    - apply Permutation_nil in HP. symmetry; exact HP.
    - destruct l2 as [|b t2].
      + apply Permutation_sym, Permutation_nil in HP. discriminate.
      + inversion H1 as [|a' l' Ha H1' E1]; subst.
        inversion H2 as [|b' l'' Hb H2' E2]; subst.
        assert (Eab : a = b).
        { assert (Ia : In a (b :: t2)) by (eapply Permutation_in; [exact HP|left; reflexivity]).
          assert (Ib : In b (a :: t1)) by (eapply Permutation_in; [apply Permutation_sym; exact HP|left; reflexivity]).
          destruct Ia as [E|Ia]; [symmetry; exact E|].
          destruct Ib as [E|Ib]; [exact E|].
          apply HA; [left; reflexivity|right; exact Ib|apply Ha; exact Ib|apply Hb; exact Ia]. }
        subst b. f_equal.
        apply IH; try assumption.
        * eapply Permutation_cons_inv; exact HP.
        * intros x y Hx Hy. apply HA; right; assumption.
  Qed.

  Lemma antisym_on_perm : forall l l', Permutation l l' -> antisym_on l -> antisym_on l'.
  Proof.
    intros l l' HP HA a b Ia Ib. apply HA; eapply Permutation_in; try apply Permutation_sym; eassumption.
  Qed.

  (* slice::sort after collecting *)
  Theorem sort_perm_invariant : forall l l',
    antisym_on l -> Permutation l l' -> isort leb l = isort leb l'.
  Proof.
    intros l l' HA HP. apply sorted_perm_eq.
    - apply isort_sorted.
    - apply isort_sorted.
    - eapply Permutation_trans; [apply Permutation_sym, isort_perm|].
      eapply Permutation_trans; [exact HP|apply isort_perm].
    - eapply antisym_on_perm; [apply isort_perm|exact HA].
  Qed.

  (* inserting into an ordered map in iteration order *)
  Theorem collect_ordered_perm_invariant : forall l l',
    antisym_on l -> Permutation l l' -> collect_ordered leb l = collect_ordered leb l'.
  Proof.
    intros l l' HA HP. apply sorted_perm_eq.
    - apply collect_ordered_sorted.
    - apply collect_ordered_sorted.
    - eapply Permutation_trans; [apply Permutation_sym, collect_ordered_perm|].
      eapply Permutation_trans; [exact HP|apply collect_ordered_perm].
    - eapply antisym_on_perm; [apply collect_ordered_perm|exact HA].
  Qed.

  (* the minimum for a total order *)
  Let g := fun (best : option A) (e : A) =>
    match best with None => Some e | Some b => if leb b e then Some b else Some e end.

  Lemma min_by_acc : forall l b, exists m,
    fold_left g l (Some b) = Some m /\ (m = b \/ In m l) /\ leb m b = true /\ forall x, In x l -> leb m x = true.
  Proof.
    induction l as [|e t IH]; intro b; cbn [fold_left].
    - exists b. repeat split; [left; reflexivity| |intros x []].
      destruct (leb_total b b); assumption.
    - unfold g at 2. destruct (leb b e) eqn:E.
      + destruct (IH b) as (m & Hm & Hin & Hmb & Hall). exists m. repeat split; try assumption.
        * destruct Hin as [->|Hin]; [left; reflexivity|right; right; exact Hin].
        * intros x [<-|Hx]; [eapply leb_trans; eassumption|apply Hall; exact Hx].
      + assert (E' : leb e b = true) by (destruct (leb_total b e); congruence).
        destruct (IH e) as (m & Hm & Hin & Hme & Hall). exists m. repeat split; try assumption.
        * right. destruct Hin as [->|Hin]; [left; reflexivity|right; exact Hin].
        * eapply leb_trans; eassumption.
        * intros x [<-|Hx]; [exact Hme|apply Hall; exact Hx].
  Qed.

  Lemma min_by_spec : forall e t, exists m,
    min_by leb (e :: t) = Some m /\ In m (e :: t) /\ forall x, In x (e :: t) -> leb m x = true.
  Proof.
    intros e t. unfold min_by. cbn [fold_left].
    destruct (min_by_acc t e) as (m & Hm & Hin & Hme & Hall).
    exists m. split; [exact Hm|]. split.
    - destruct Hin as [->|Hin]; [left; reflexivity|right; exact Hin].
    - intros x [<-|Hx]; [exact Hme|apply Hall; exact Hx].
  Qed.

  Theorem min_by_perm_invariant : forall l l',
    antisym_on l -> Permutation l l' -> min_by leb l = min_by leb l'.
  Proof.
    intros l l' HA HP.
    destruct l as [|e t].
    - apply Permutation_nil in HP. subst. reflexivity.
    - destruct l' as [|e' t']; [apply Permutation_sym, Permutation_nil in HP; discriminate|].
      destruct (min_by_spec e t) as (m & -> & Hin & Hall).
      destruct (min_by_spec e' t') as (m' & -> & Hin' & Hall').
      f_equal.
      assert (I' : In m' (e :: t)) by (eapply Permutation_in; [apply Permutation_sym; exact HP|exact Hin']).
      assert (I : In m (e' :: t')) by (eapply Permutation_in; [exact HP|exact Hin]).
      apply HA; [exact Hin|exact I'|apply Hall; exact I'|apply Hall'; exact I].
  Qed.
End Sorting.

(* ------------------------------------------------------------------------------------------ *)
(* folds whose operation does not care about the order of two consecutive entries              *)

Section Folds.
  Context {A B : Type} (f : B -> A -> B).
  Hypothesis f_comm : forall a x y, f (f a x) y = f (f a y) x.

  Theorem comm_fold_perm_invariant : forall l l', Permutation l l' -> forall a, fold_left f l a = fold_left f l' a.
  Proof.
    intros l l' HP; induction HP as [|x l l' HP IH|x y l|l l' l'' HP1 IH1 HP2 IH2]; intro a; cbn [fold_left].
    - reflexivity.
    - apply IH.
    - rewrite f_comm. reflexivity.
    - rewrite IH1. apply IH2.
  Qed.
End Folds.

Lemma existsb_perm_invariant : forall {A} (p : A -> bool) l l', Permutation l l' -> existsb p l = existsb p l'.
Proof.
  intros A p l l' HP; induction HP as [|x l l' HP IH|x y l|l l' l'' HP1 IH1 HP2 IH2]; cbn [existsb].
  - reflexivity.
  - rewrite IH; reflexivity.
  - destruct (p x), (p y); reflexivity.
  - rewrite IH1; exact IH2.
Qed.

(* ------------------------------------------------------------------------------------------ *)
(* a key function that is injective on the list (hash-map keys; spans of the labels)           *)

Lemma nodup_map_inj : forall {A B} (f : A -> B) (l : list A) a b,
  NoDup (map f l) -> In a l -> In b l -> f a = f b -> a = b.
Proof.
  intros A B f l; induction l as [|x t IH]; intros a b HN Ia Ib E; [destruct Ia|].
  cbn [map] in HN. inversion HN as [|x' l' Hx HN']; subst.
  destruct Ia as [<-|Ia], Ib as [<-|Ib].
  - reflexivity.
  - exfalso. apply Hx. rewrite E. apply in_map; exact Ib.
  - exfalso. apply Hx. rewrite <- E. apply in_map; exact Ia.
  - apply IH; assumption.
Qed.

Section ByKey.
  Variable kf : entry -> Z.
  Let leb := fun a b : entry => kf a <=? kf b.

  Lemma bykey_total : forall a b, leb a b = true \/ leb b a = true.
  Proof. intros a b; unfold leb. destruct (Z.leb_spec (kf a) (kf b)); [left; reflexivity|right; apply Z.leb_le; lia]. Qed.

  Lemma bykey_trans : forall a b c, leb a b = true -> leb b c = true -> leb a c = true.
  Proof. intros a b c; unfold leb; rewrite !Z.leb_le; lia. Qed.

  Lemma bykey_antisym : forall l, NoDup (map kf l) -> antisym_on leb l.
  Proof.
    intros l HN a b Ia Ib; unfold leb; rewrite !Z.leb_le; intros H1 H2.
    eapply nodup_map_inj; try eassumption. lia.
  Qed.
End ByKey.

Section Lex.
  Variable p : params.

  Lemma lex_total : forall a b, lex_leb p a b = true \/ lex_leb p b a = true.
  Proof.
    intros a b; unfold lex_leb.
    destruct (Z.ltb_spec (dist p a) (dist p b)); [left; reflexivity|].
    destruct (Z.ltb_spec (dist p b) (dist p a)); [right; reflexivity|].
    assert (E : dist p a = dist p b) by lia. rewrite E, Z.eqb_refl. cbn [orb andb].
    destruct (Z.leb_spec (fst a) (fst b)); [left; reflexivity|right; apply Z.leb_le; lia].
  Qed.

  Lemma lex_iff : forall a b, lex_leb p a b = true <->
    (dist p a < dist p b \/ (dist p a = dist p b /\ fst a <= fst b)).
  Proof.
    intros a b; unfold lex_leb.
    rewrite orb_true_iff, andb_true_iff, Z.ltb_lt, Z.eqb_eq, Z.leb_le. reflexivity.
  Qed.

  Lemma lex_trans : forall a b c, lex_leb p a b = true -> lex_leb p b c = true -> lex_leb p a c = true.
  Proof. intros a b c; rewrite !lex_iff; lia. Qed.

  Lemma lex_antisym : forall l, NoDup (map fst l) -> antisym_on (lex_leb p) l.
  Proof.
    intros l HN a b Ia Ib; rewrite !lex_iff; intros H1 H2.
    eapply (nodup_map_inj fst); try eassumption. lia.
  Qed.
End Lex.

(* ------------------------------------------------------------------------------------------ *)
(* a map that is only looked up                                                                *)

Lemma assoc_in : forall l k v, NoDup (map fst l) -> (assoc k l = Some v <-> In (k, v) l).
Proof.
  induction l as [|[k' v'] t IH]; intros k v HN; cbn [assoc].
  - split; [discriminate|intros []].
  - cbn [map fst] in HN. inversion HN as [|x l' Hx HN']; subst.
    destruct (Z.eqb_spec k k') as [->|Hne].
    + split.
      * intros [= ->]. left; reflexivity.
      * intros [[= ->]|Hin]; [reflexivity|].
        exfalso. apply Hx. change k' with (fst (k', v)). apply in_map; exact Hin.
    + rewrite IH by exact HN'. split.
      * intro H; right; exact H.
      * intros [[= -> ->]|Hin]; [congruence|exact Hin].
Qed.

Theorem assoc_perm_invariant : forall l l', NoDup (map fst l) -> Permutation l l' ->
  forall k, assoc k l = assoc k l'.
Proof.
  intros l l' HN HP k.
  assert (HN' : NoDup (map fst l')) by (eapply Permutation_NoDup; [apply Permutation_map; exact HP|exact HN]).
  destruct (assoc k l) as [v|] eqn:E.
  - symmetry. apply assoc_in; [exact HN'|]. eapply Permutation_in; [exact HP|]. apply assoc_in; assumption.
  - destruct (assoc k l') as [v|] eqn:E'; [|reflexivity].
    apply assoc_in in E'; [|exact HN'].
    apply (Permutation_in _ (Permutation_sym HP)) in E'.
    apply assoc_in in E'; [congruence|exact HN].
Qed.

(* ------------------------------------------------------------------------------------------ *)
(* every order-safe shape                                                                      *)

Theorem consumer_perm_invariant : forall p sh l l',
  order_safe sh = true ->
  step_commutes p ->
  NoDup (map fst l) ->            (* the keys of one hash map are pairwise distinct *)
  NoDup (map (span p) l) ->       (* used by SortedByRenderer only: distinct entries carry distinct spans *)
  Permutation l l' ->
  obs_eq (consumer p sh l) (consumer p sh l').
Proof.
  intros p sh l l' Hs Hc HN HS HP.
  destruct sh; try discriminate Hs; cbn [consumer obs_eq].
  - exact I.
  - exact I.
  - exact I.
  - f_equal. apply collect_ordered_perm_invariant; try assumption.
    + apply bykey_total. + apply bykey_trans. + apply (bykey_antisym fst); exact HN.
  - f_equal. apply sort_perm_invariant; try assumption.
    + apply bykey_total. + apply bykey_trans. + apply (bykey_antisym fst); exact HN.
  - f_equal. apply sort_perm_invariant; try assumption.
    + apply (bykey_total (span p)). + apply (bykey_trans (span p)). + apply (bykey_antisym (span p)); exact HS.
  - apply existsb_perm_invariant; exact HP.
  - apply comm_fold_perm_invariant; assumption.
  - apply min_by_perm_invariant; try assumption.
    + apply lex_total. + apply lex_trans. + apply lex_antisym; exact HN.
  - apply assoc_perm_invariant; assumption.
Qed.

(* ------------------------------------------------------------------------------------------ *)
(* the unsafe shapes: two entries suffice                                                      *)

Definition wit_params : params :=
  mk_params (fun e => fst e) (fun e => fst e) (fun _ => true) (fun _ => 0) (fun a _ => a) 0.
Definition wit_l : list entry := [(1, 0); (2, 0)].
Definition wit_l' : list entry := [(2, 0); (1, 0)].

Lemma wit_ok : step_commutes wit_params /\ NoDup (map fst wit_l) /\ NoDup (map (span wit_params) wit_l)
               /\ Permutation wit_l wit_l'.
Proof.
  split; [intros a x y; reflexivity|].
  assert (N : NoDup [1; 2]).
  { constructor; [intros [H|[]]; discriminate|]. constructor; [intros []|constructor]. }
  split; [exact N|]. split; [exact N|]. apply perm_swap.
Qed.

Theorem emit_in_iteration_order_refuted :
  ~ obs_eq (consumer wit_params EmitInIterationOrder wit_l) (consumer wit_params EmitInIterationOrder wit_l').
Proof. cbn. discriminate. Qed.

Theorem first_error_wins_refuted :
  ~ obs_eq (consumer wit_params FirstErrorWins wit_l) (consumer wit_params FirstErrorWins wit_l').
Proof. cbn. discriminate. Qed.

Theorem min_by_key_first_wins_refuted :
  ~ obs_eq (consumer wit_params MinByKeyFirstWins wit_l) (consumer wit_params MinByKeyFirstWins wit_l').
Proof. cbn. discriminate. Qed.

(* [order_safe] is exact: every shape it rejects really depends on the iteration order *)
Theorem unsafe_shapes_refuted : forall sh, order_safe sh = false ->
  exists p l l', step_commutes p /\ NoDup (map fst l) /\ NoDup (map (span p) l) /\ Permutation l l'
                 /\ ~ obs_eq (consumer p sh l) (consumer p sh l').
Proof.
  intros sh Hs. exists wit_params, wit_l, wit_l'.
  destruct wit_ok as (H1 & H2 & H3 & H4). repeat split; try assumption.
  destruct sh; try discriminate Hs; cbn; discriminate.
Qed.
