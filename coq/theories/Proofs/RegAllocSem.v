(* Proofs/RegAllocSem.v -- register allocation preserves the locals-level semantics of the lowered
   stream (Model/LowerSem.v: run_pure / exec_pure): running a Lower.v stream on a memory with locals
   is simulated, instruction by instruction, by running the register-assigned stream on a memory in
   which each live local's value sits in the register the allocator bound it to.  The allocator
   invariant of Proofs/RegAlloc.v supplies what the simulation needs: live locals sit in pairwise
   different registers, none of which the code names. *)
From Coq Require Import NArith Nnat.
From TV Require Import Base.I32 Base.F32 Model.Ops Model.Expr.
From TV Require Model.Lower Model.LowerSem.
From TV Require Import Model.RegAlloc Model.RegAllocSem Proofs.RegAllocBase Proofs.RegAlloc Proofs.RegAllocThm.
Open Scope Z_scope.

Section TargInd.
  Variable P : L.targ -> Prop.
  Hypothesis HImm : forall v, P (L.TImm v).
  Hypothesis HVar : forall t x, P (L.TVar t x).
  Hypothesis HDiff : forall cs,
      Forall (fun c => match c with Some x => P x | None => True end) cs -> P (L.TDiff cs).
  Hypothesis HOff : forall l, P (L.TOffsetOf l).
  Hypothesis HTime : forall l, P (L.TTimeOf l).

  Fixpoint targ_ind2 (a : L.targ) : P a :=
    match a with
    | L.TImm v => HImm v
    | L.TVar t x => HVar t x
    | L.TDiff cs =>
        HDiff cs ((fix go (l : list (option L.targ)) :
                     Forall (fun c => match c with Some x => P x | None => True end) l :=
                     match l with
                     | [] => Forall_nil _
                     | None :: t => Forall_cons None I (go t)
                     | Some x :: t => Forall_cons (Some x) (targ_ind2 x) (go t)
                     end) cs)
    | L.TOffsetOf l => HOff l
    | L.TTimeOf l => HTime l
    end.
End TargInd.

(* outcomes related by R on success, equal otherwise *)
Definition orel {A B} (R : A -> B -> Prop) (x : outcome A) (y : outcome B) : Prop :=
  match x, y with
  | Ok a, Ok b => R a b
  | Err t, Err t' => t = t'
  | Panic t, Panic t' => t = t'
  | OutOfFuel, OutOfFuel => True
  | _, _ => False
  end.

Lemma of_nat_inj a b : N.of_nat a = N.of_nat b -> a = b.
Proof. apply Nat2N.inj. Qed.

Lemma mem_nat_In d l : mem_nat d l = true <-> In d l.
Proof.
  unfold mem_nat. rewrite existsb_exists. split.
  - intros [x [Hx He]]. apply Nat.eqb_eq in He. now subst.
  - intros H. exists d. split; [assumption | apply Nat.eqb_refl].
Qed.

Lemma remove_nat_In d x l : In x (remove_nat d l) <-> In x l /\ x <> d.
Proof.
  unfold remove_nat. rewrite filter_In, negb_true_iff, Nat.eqb_neq. intuition congruence.
Qed.

Section Sim.
  Variable T : optable.
  Variable libm : unop -> Z -> Z.
  Variable lty : nat -> L.ty.
  Variable opc : L.tinstr -> Z.
  Variable c : cfg.
  Variable code : list L.lstmt.

  Let rcode := map (conv_stmt opc) code.
  Let E := explicit c rcode.
  Let K := clash c E.
  Let NP := named_param_regs c.

  Hypothesis Hok : cfg_ok c.
  (* the scan for explicitly used registers sees at least the top-level register arguments (both
     versions of get_explicitly_used_regs do) *)
  Hypothesis Hcover : forall r, In r (explicit_regs_top rcode) -> In r E.
  (* no register is used under two names: a named parameter's register is not also named directly
     ("compiles without warnings") *)
  Hypothesis Hnp : forall r, In r NP -> ~ In r E.

  Notation run_pure := (LS.run_pure T libm lty).
  Notation exec_pure := (LS.exec_pure T libm).

  (* registers the allocator may hand out or that back a named parameter *)
  Definition alloc_reg (r : Z) : Prop := In r NP \/ exists t, good c rcode t r.

  (* the simulation relation: [s] is the allocator state, [I] the locals written since allocation *)
  Definition Rel (s : st) (I : list nat) (m m' : LS.mem) : Prop :=
    (forall d r, In (N.of_nat d, r) (locals s) -> In d I -> LS.locs m d = LS.regs m' r) /\
    (forall r, ~ alloc_reg r -> LS.regs m r = LS.regs m' r).

  Lemma live_alloc s d r : Inv c rcode s -> In (d, r) (locals s) -> alloc_reg r.
  Proof.
    intros (_ & _ & Hl & _) H. destruct (Hl d r H) as [H1|[t [_ Hg]]].
    - left. eapply named_NP; eauto.
    - right. eauto.
  Qed.

  Lemma explicit_not_alloc r : In r E -> ~ alloc_reg r.
  Proof.
    intros He [H|[t (_ & H & _)]]; [exact (Hnp r H He) | exact (H He)].
  Qed.

  Lemma instr_reg_explicit time mask i t r :
    In (L.LInstr time mask i) code -> In (L.TVar t (L.VReg r)) (instr_args i) -> In r E.
  Proof.
    intros Hi Ha. apply Hcover. unfold explicit_regs_top, rcode.
    apply in_flat_map. exists (conv_stmt opc (L.LInstr time mask i)). split.
    - now apply in_map.
    - simpl. apply in_flat_map. exists (conv_arg (L.TVar t (L.VReg r))). split.
      + now apply in_map.
      + simpl. now left.
  Qed.

  (* ---- arguments ---- *)

  Lemma read_sim s I m m' a a' :
    Rel s I m m' -> subst_targ (locals s) a = Some a' ->
    (forall t r, a = L.TVar t (L.VReg r) -> ~ alloc_reg r) ->
    (forall d, In d (arg_locals a) -> In d I) ->
    LS.read_arg m' a' = LS.read_arg m a.
  Proof.
    intros [Hl Hs] Hsub Hreg Hin.
    destruct a as [v|t [r|d]|cs|l|l]; simpl in Hsub.
    - inversion Hsub; subst. reflexivity.
    - inversion Hsub; subst. simpl. rewrite (Hs r); [reflexivity | eapply Hreg; reflexivity].
    - destruct (lookup (N.of_nat d) (locals s)) as [r|] eqn:El; [|discriminate].
      inversion Hsub; subst. simpl. apply lookup_In in El.
      rewrite (Hl d r El); [reflexivity | apply Hin; simpl; now left].
    - match type of Hsub with match ?g with _ => _ end = _ => destruct g end; [|discriminate].
      inversion Hsub; subst. reflexivity.
    - inversion Hsub; subst. reflexivity.
    - inversion Hsub; subst. reflexivity.
  Qed.

  Lemma write_sim s I m m' a a' v :
    Inv c rcode s -> Rel s I m m' -> subst_targ (locals s) a = Some a' ->
    (forall t r, a = L.TVar t (L.VReg r) -> ~ alloc_reg r) ->
    orel (Rel s (arg_locals a ++ I)) (LS.write_arg m a v) (LS.write_arg m' a' v).
  Proof.
    intros HI [Hl Hs] Hsub Hreg.
    pose proof HI as (Hk & Hr & _).
    destruct a as [v0|t [r|d]|cs|l|l]; simpl in Hsub.
    - inversion Hsub; subst. simpl. reflexivity.
    - (* an explicitly named register: not one the allocator uses *)
      inversion Hsub; subst. simpl. assert (Hna : ~ alloc_reg r) by (eapply Hreg; reflexivity).
      split.
      + intros d r0 Hin Hd. simpl.
        destruct (Z.eqb_spec r0 r) as [->|Hne].
        * exfalso. apply Hna. eapply live_alloc; eauto.
        * now apply Hl.
      + intros r0 Hr0. simpl. destruct (r0 =? r); [reflexivity | now apply Hs].
    - (* a local: its register is written instead *)
      destruct (lookup (N.of_nat d) (locals s)) as [r|] eqn:El; [|discriminate].
      inversion Hsub; subst. simpl. apply lookup_In in El.
      split.
      + intros d0 r0 Hin Hd. simpl.
        destruct (Nat.eqb_spec d0 d) as [->|Hne].
        * assert (r0 = r).
          { pose proof (In_lookup _ _ _ Hk Hin) as H1. pose proof (In_lookup _ _ _ Hk El) as H2. congruence. }
          subst. now rewrite Z.eqb_refl.
        * destruct (Z.eqb_spec r0 r) as [->|Hne'].
          -- exfalso. apply Hne.
             (* two different keys with the same register contradict NoDup (map snd locals) *)
             clear -Hr Hin El. induction (locals s) as [|[k w] t IH]; simpl in *; [tauto|].
             inversion Hr as [|? ? Hn Hr']; subst.
             destruct Hin as [Hin|Hin], El as [El|El].
             ++ inversion Hin; inversion El; subst. now apply of_nat_inj.
             ++ inversion Hin; subst. exfalso. apply Hn. change r with (snd (N.of_nat d, r)). now apply in_map.
             ++ inversion El; subst. exfalso. apply Hn. change r with (snd (N.of_nat d0, r)). now apply in_map.
             ++ auto.
          -- apply Hl; [assumption|]. destruct Hd as [Hd|Hd]; [congruence | assumption].
      + intros r0 Hr0. simpl. destruct (Z.eqb_spec r0 r) as [->|Hne]; [|now apply Hs].
        exfalso. apply Hr0. eapply live_alloc; eauto.
    - match type of Hsub with match ?g with _ => _ end = _ => destruct g end; [|discriminate].
      inversion Hsub; subst. simpl. reflexivity.
    - inversion Hsub; subst. simpl. reflexivity.
    - inversion Hsub; subst. simpl. reflexivity.
  Qed.

  Lemma Rel_weaken s I I' m m' : (forall d, In d I' -> In d I) -> Rel s I m m' -> Rel s I' m m'.
  Proof. intros H [Hl Hs]. split; [intros d r Hin Hd; apply Hl; auto | exact Hs]. Qed.

  (* ---- one instruction ---- *)

  Lemma subst_targs_2 Lc a b l : subst_targs Lc [a; b] = Some l ->
    exists a' b', l = [a'; b'] /\ subst_targ Lc a = Some a' /\ subst_targ Lc b = Some b'.
  Proof.
    simpl. destruct (subst_targ Lc a) as [a'|]; [|discriminate].
    destruct (subst_targ Lc b) as [b'|]; [|discriminate]. intros H. inversion H. eauto.
  Qed.

  Lemma subst_targs_3 Lc a b d l : subst_targs Lc [a; b; d] = Some l ->
    exists a' b' d', l = [a'; b'; d'] /\ subst_targ Lc a = Some a' /\ subst_targ Lc b = Some b' /\ subst_targ Lc d = Some d'.
  Proof.
    simpl. destruct (subst_targ Lc a) as [a'|]; [|discriminate].
    destruct (subst_targ Lc b) as [b'|]; [|discriminate].
    destruct (subst_targ Lc d) as [d'|]; [|discriminate]. intros H. inversion H. eauto 10.
  Qed.

  Definition reads_ok (I : list nat) (i : L.tinstr) : Prop :=
    forall d, In d (flat_map arg_locals (instr_reads i)) -> In d I.
  Definition regs_ok (i : L.tinstr) : Prop :=
    forall t r, In (L.TVar t (L.VReg r)) (instr_args i) -> ~ alloc_reg r.

  Lemma exec_sim s I m m' i i' :
    Inv c rcode s -> Rel s I m m' -> subst_instr (locals s) i = Some i' ->
    regs_ok i -> reads_ok I i ->
    orel (Rel s (flat_map arg_locals (instr_write i) ++ I)) (exec_pure i m) (exec_pure i' m').
  Proof.
    intros HI HR Hsub Hregs Hreads.
    assert (Hreg1 : forall a, In a (instr_args i) -> forall t r, a = L.TVar t (L.VReg r) -> ~ alloc_reg r).
    { intros a Ha t r ->. eapply Hregs; eauto. }
    destruct i as [aop t dst src|op t dst a b|op t dst a|op t a b l tm|t a b|op l tm|op x l tm|l tm|n|o args];
      unfold subst_instr in Hsub.
    - (* IAssignOp *)
      destruct (subst_targs (locals s) [dst; src]) as [l|] eqn:Es; [|discriminate].
      destruct (subst_targs_2 _ _ _ _ Es) as (d' & s' & -> & Hd & Hs'). cbn in Hsub; inversion Hsub; subst i'; clear Hsub.
      destruct aop as [bop|]; simpl.
      + rewrite (read_sim s I m m' dst d' HR Hd) by
            (first [ apply Hreg1; simpl; auto | intros d0 Hd0; apply Hreads; simpl; apply in_or_app; now left ]).
        rewrite (read_sim s I m m' src s' HR Hs') by
            (first [ apply Hreg1; simpl; auto | intros d0 Hd0; apply Hreads; simpl; apply in_or_app; right; rewrite app_nil_r; assumption ]).
        destruct (LS.read_arg m dst) as [old| | |]; simpl; try reflexivity.
        destruct (LS.read_arg m src) as [v| | |]; simpl; try reflexivity.
        destruct (binop_eval T bop old v) as [r| | |]; simpl; try reflexivity.
        rewrite app_nil_r. apply write_sim; auto. apply Hreg1. simpl; auto.
      + rewrite (read_sim s I m m' src s' HR Hs') by
            (first [ apply Hreg1; simpl; auto | intros d0 Hd0; apply Hreads; simpl; rewrite app_nil_r; assumption ]).
        destruct (LS.read_arg m src) as [v| | |]; simpl; try reflexivity.
        rewrite app_nil_r. apply write_sim; auto. apply Hreg1. simpl; auto.
    - (* IBinOp *)
      destruct (subst_targs (locals s) [dst; a; b]) as [l|] eqn:Es; [|discriminate].
      destruct (subst_targs_3 _ _ _ _ _ Es) as (d' & a' & b' & -> & Hd & Ha & Hb). cbn in Hsub; inversion Hsub; subst i'; clear Hsub.
      simpl.
      rewrite (read_sim s I m m' a a' HR Ha) by
          (first [ apply Hreg1; simpl; auto | intros d0 Hd0; apply Hreads; simpl; apply in_or_app; now left ]).
      rewrite (read_sim s I m m' b b' HR Hb) by
          (first [ apply Hreg1; simpl; auto | intros d0 Hd0; apply Hreads; simpl; apply in_or_app; right; rewrite app_nil_r; assumption ]).
      destruct (LS.read_arg m a) as [x| | |]; simpl; try reflexivity.
      destruct (LS.read_arg m b) as [y| | |]; simpl; try reflexivity.
      destruct (binop_eval T op x y) as [r| | |]; simpl; try reflexivity.
      rewrite app_nil_r. apply write_sim; auto. apply Hreg1. simpl; auto.
    - (* IUnOp *)
      destruct (subst_targs (locals s) [dst; a]) as [l|] eqn:Es; [|discriminate].
      destruct (subst_targs_2 _ _ _ _ Es) as (d' & a' & -> & Hd & Ha). cbn in Hsub; inversion Hsub; subst i'; clear Hsub.
      simpl.
      rewrite (read_sim s I m m' a a' HR Ha) by
          (first [ apply Hreg1; simpl; auto | intros d0 Hd0; apply Hreads; simpl; rewrite app_nil_r; assumption ]).
      destruct (LS.read_arg m a) as [x| | |]; simpl; try reflexivity.
      destruct (unop_eval libm T op x) as [[r|]| | |]; simpl; try reflexivity.
      rewrite app_nil_r. apply write_sim; auto. apply Hreg1. simpl; auto.
    - destruct (subst_targs (locals s) [a; b]) as [[|? [|? [|]]]|]; inversion Hsub; subst; simpl; reflexivity.
    - destruct (subst_targs (locals s) [a; b]) as [[|? [|? [|]]]|]; inversion Hsub; subst; simpl; reflexivity.
    - inversion Hsub; subst; simpl; reflexivity.
    - destruct (subst_targs (locals s) [x]) as [[|? [|]]|]; inversion Hsub; subst; simpl; reflexivity.
    - inversion Hsub; subst; simpl; reflexivity.
    - inversion Hsub; subst; simpl; reflexivity.
    - destruct (subst_targs (locals s) args); inversion Hsub; subst; simpl; reflexivity.
  Qed.

  (* ---- the whole stream ---- *)

  Lemma run_sim : forall rest s I m m' sf out,
    (forall x, In x rest -> In x code) ->
    Inv c rcode s -> Rel s I m m' -> init_ok I rest = true ->
    regify opc c K s rest = Ok (sf, out) ->
    orel (fun mf mf' => exists If, Rel sf If mf mf') (run_pure rest m) (run_pure out m').
  Proof.
    induction rest as [|x rest IH]; intros s I m m' sf out Hin HI HR Hinit Hreg; simpl in Hreg.
    - inversion Hreg; subst. simpl. eauto.
    - destruct (step c K s (conv_stmt opc x)) as [[s1 x1]| | |] eqn:Es; simpl in Hreg; try discriminate.
      assert (HI1 : Inv c rcode s1).
      { eapply step_inv; eauto. }
      assert (Hin' : forall y, In y rest -> In y code) by (intros y Hy; apply Hin; now right).
      destruct x as [time mask i|time l|d t|d].
      + (* instruction *)
        destruct (subst_instr (locals s) i) as [i'|] eqn:Ei; simpl in Hreg; [|discriminate].
        destruct (regify opc c K s1 rest) as [[s2 o2]| | |] eqn:Er; simpl in Hreg; try discriminate.
        inversion Hreg; subst sf out; clear Hreg.
        simpl in Hinit. apply andb_true_iff in Hinit. destruct Hinit as [Hrd Hinit].
        assert (Hl1 : locals s1 = locals s).
        { simpl in Es. destruct (subst_args (locals s) (map conv_arg (instr_args i))); simpl in Es; try discriminate.
          inversion Es; subst. destruct (anti c (opc i)) as [[|]|]; reflexivity. }
        assert (Hregs : regs_ok i).
        { intros t r Ha. apply explicit_not_alloc. eapply instr_reg_explicit; eauto. apply Hin. now left. }
        assert (Hreads : reads_ok I i).
        { intros d Hd. rewrite forallb_forall in Hrd. apply mem_nat_In. now apply Hrd. }
        pose proof (exec_sim s I m m' i i' HI HR Ei Hregs Hreads) as Hex.
        simpl. destruct (exec_pure i m) as [m1| | |], (exec_pure i' m') as [m1'| | |]; simpl in Hex; try contradiction;
          simpl; try assumption; try exact I.
        eapply IH; eauto.
        destruct Hex as [Hl Hs]. split; [|exact Hs]. intros d r Hd. rewrite Hl1 in Hd. now apply Hl.
      + (* label *)
        simpl in Es. inversion Es; subst s1 x1; clear Es.
        destruct (regify opc c K s rest) as [[s2 o2]| | |] eqn:Er; simpl in Hreg; try discriminate.
        inversion Hreg; subst sf out; clear Hreg. simpl. eapply IH; eauto.
      + (* RegAlloc *)
        destruct (regify opc c K s1 rest) as [[s2 o2]| | |] eqn:Er; simpl in Hreg; try discriminate.
        inversion Hreg; subst sf out; clear Hreg. simpl.
        destruct (step_alloc_pick c rcode s (N.of_nat d) s1 x1 HI Es)
          as (r & t0 & rest0 & _ & _ & Hl1 & _ & _ & _ & _ & Hnd).
        eapply IH; eauto. destruct HR as [Hl Hs]. split.
        * intros d0 r0 Hd0 HdI. apply remove_nat_In in HdI. destruct HdI as [HdI Hne].
          rewrite Hl1 in Hd0. destruct Hd0 as [Hd0|Hd0].
          -- inversion Hd0. apply of_nat_inj in H0. congruence.
          -- simpl. destruct (Nat.eqb_spec d0 d); [congruence|]. now apply Hl.
        * intros r0 Hr0. simpl. now apply Hs.
      + (* RegFree *)
        destruct (regify opc c K s1 rest) as [[s2 o2]| | |] eqn:Er; simpl in Hreg; try discriminate.
        inversion Hreg; subst sf out; clear Hreg. simpl.
        assert (Hl1 : forall k w, In (k, w) (locals s1) -> In (k, w) (locals s)).
        { simpl in Es. destruct (tyof c (N.of_nat d)); [|discriminate].
          destruct (lookup (N.of_nat d) (locals s)); [|discriminate].
          destruct (memZ z (implicit s)); [|discriminate]. inversion Es; subst. simpl.
          intros k w H. apply remove_key_In in H. tauto. }
        eapply IH; eauto. destruct HR as [Hl Hs]. split.
        * intros d0 r0 Hd0 HdI. apply remove_nat_In in HdI. destruct HdI as [HdI Hne].
          simpl. destruct (Nat.eqb_spec d0 d); [congruence|]. apply Hl; auto.
        * intros r0 Hr0. simpl. now apply Hs.
  Qed.

  (* Main statement.  [m] has locals, [m'] is the register file the compiled code runs on; initially the
     named parameters' values sit in their parameter registers and all other registers agree.  Then the
     two runs have the same outcome, and on success the final register files agree on every register
     that is not in a general-use pool, or that the code names -- except the registers backing named
     parameters, which hold the parameters' final values. *)
  Theorem regalloc_simulates I0 m m' sf out :
    init_ok I0 code = true ->
    Rel (init c rcode) I0 m m' ->
    assign_registers_l opc c code = Ok (sf, out) ->
    orel (fun mf mf' =>
            (forall r, ~ In r NP ->
               ~ In r (general c TInt ++ general c TFloat ++ general c TString) \/ In r E ->
               LS.regs mf r = LS.regs mf' r) /\
            exists If, forall d r, In (N.of_nat d, r) (locals sf) -> In d If -> LS.locs mf d = LS.regs mf' r)
         (run_pure code m) (run_pure out m').
  Proof.
    intros Hinit HR Has. unfold assign_registers_l in Has. fold rcode E K in Has.
    destruct (regify opc c K (init c rcode) code) as [[s1 o1]| | |] eqn:Er; simpl in Has; try discriminate.
    destruct (anti_sub s1 && used_scratch s1); [discriminate|]. inversion Has; subst sf out; clear Has.
    assert (HI0 : Inv c rcode (init c rcode)) by (destruct Hok as [H1 H2]; now apply init_inv).
    pose proof (run_sim code (init c rcode) I0 m m' s1 o1 (fun x H => H) HI0 HR Hinit Er) as Hsim.
    destruct (run_pure code m) as [mf| | |], (run_pure o1 m') as [mf'| | |]; simpl in Hsim |- *; try contradiction; auto.
    destruct Hsim as [If [Hl Hs]]. split; [|eauto].
    intros r HnNP Hr. apply Hs. intros [H|[t (Hg & HnE & _)]]; [contradiction|].
    destruct Hr as [Hr|Hr]; [|contradiction]. apply Hr.
    destruct t; rewrite !in_app_iff; auto.
  Qed.
End Sim.

(* ---------------------------------------------------------------------------------------- *)
(* [regify] is the allocator of Model/RegAlloc.v: forgetting commutes with it *)

Fixpoint conv_cases (l : list (option L.targ)) : list (option larg) :=
  match l with
  | [] => []
  | None :: t => None :: conv_cases t
  | Some x :: t => Some (conv_arg x) :: conv_cases t
  end.

Lemma conv_arg_diff cs : conv_arg (L.TDiff cs) = DiffSwitch (conv_cases cs).
Proof. simpl; f_equal; induction cs as [|[x|] t IH]; simpl; congruence. Qed.

Fixpoint subst_tcases (Lc : list (N * Z)) (l : list (option L.targ)) : option (list (option L.targ)) :=
  match l with
  | [] => Some []
  | None :: t => match subst_tcases Lc t with Some t' => Some (None :: t') | None => None end
  | Some x :: t =>
      match subst_targ Lc x with
      | Some x' => match subst_tcases Lc t with Some t' => Some (Some x' :: t') | None => None end
      | None => None
      end
  end.

Lemma subst_targ_diff Lc cs :
  subst_targ Lc (L.TDiff cs) = match subst_tcases Lc cs with Some cs' => Some (L.TDiff cs') | None => None end.
Proof.
  simpl.
  assert (H : (fix go (l : list (option L.targ)) : option (list (option L.targ)) :=
                 match l with
                 | [] => Some []
                 | None :: t => match go t with Some t' => Some (None :: t') | None => None end
                 | Some x :: t =>
                     match subst_targ Lc x with
                     | Some x' => match go t with Some t' => Some (Some x' :: t') | None => None end
                     | None => None
                     end
                 end) cs = subst_tcases Lc cs).
  { induction cs as [|[x|] t IH]; simpl; try reflexivity; now rewrite IH. }
  now rewrite H.
Qed.

Lemma conv_ty_from_reg r t : from_reg r (conv_ty t) = Ok (Raw (SReg r (conv_ty t))).
Proof. now destruct t. Qed.

Lemma subst_conv_arg Lc a :
  subst_arg Lc (conv_arg a) =
  match subst_targ Lc a with Some a' => Ok (conv_arg a') | None => Panic P_INDEX end.
Proof.
  induction a as [v|t [r|d]|cs IH|l|l] using targ_ind2; try reflexivity.
  - simpl. destruct (lookup (N.of_nat d) Lc) as [r|]; [apply conv_ty_from_reg | reflexivity].
  - rewrite conv_arg_diff, subst_arg_switch, subst_targ_diff.
    assert (H : subst_cases Lc (conv_cases cs) =
                match subst_tcases Lc cs with Some cs' => Ok (conv_cases cs') | None => Panic P_INDEX end).
    { induction IH as [|[x|] t Hx Ht IHt]; simpl; [reflexivity| |].
      - rewrite Hx. destruct (subst_targ Lc x) as [x'|]; simpl; [|reflexivity].
        rewrite IHt. destruct (subst_tcases Lc t); reflexivity.
      - rewrite IHt. destruct (subst_tcases Lc t); reflexivity. }
    rewrite H. destruct (subst_tcases Lc cs) as [cs'|]; cbn [obind]; [now rewrite conv_arg_diff | reflexivity].
Qed.

Lemma subst_conv_args Lc : forall l,
  subst_args Lc (map conv_arg l) =
  match subst_targs Lc l with Some l' => Ok (map conv_arg l') | None => Panic P_INDEX end.
Proof.
  induction l as [|a t IH]; simpl; [reflexivity|].
  rewrite subst_conv_arg. destruct (subst_targ Lc a) as [a'|]; simpl; [|reflexivity].
  rewrite IH. destruct (subst_targs Lc t); reflexivity.
Qed.

Lemma subst_instr_args Lc i :
  match subst_instr Lc i with
  | Some i' => subst_targs Lc (instr_args i) = Some (instr_args i')
  | None => subst_targs Lc (instr_args i) = None
  end.
Proof.
  destruct i as [aop t dst src|op t dst a b|op t dst a|op t a b l tm|t a b|op l tm|op x l tm|l tm|n|o args];
    unfold subst_instr; simpl instr_args; try reflexivity.
  - simpl. destruct (subst_targ Lc dst); [|reflexivity]. destruct (subst_targ Lc src); reflexivity.
  - simpl. destruct (subst_targ Lc dst); [|reflexivity]. destruct (subst_targ Lc a); [|reflexivity].
    destruct (subst_targ Lc b); reflexivity.
  - simpl. destruct (subst_targ Lc dst); [|reflexivity]. destruct (subst_targ Lc a); reflexivity.
  - simpl. destruct (subst_targ Lc a); [|reflexivity]. destruct (subst_targ Lc b); reflexivity.
  - simpl. destruct (subst_targ Lc a); [|reflexivity]. destruct (subst_targ Lc b); reflexivity.
  - simpl. destruct (subst_targ Lc x); reflexivity.
  - destruct (subst_targs Lc args); reflexivity.
Qed.

Section Commute.
  Variable opc : L.tinstr -> Z.
  (* the opcode of an intrinsic depends on its kind, not on which variables it mentions *)
  Hypothesis opc_stable : forall Lc i i', subst_instr Lc i = Some i' -> opc i' = opc i.

  Lemma regify_conv c K : forall code s s' out,
    regify opc c K s code = Ok (s', out) ->
    run c K s (map (conv_stmt opc) code) = Ok (s', map (conv_stmt opc) out).
  Proof.
    induction code as [|x t IH]; intros s s' out H; simpl in H.
    - inversion H; subst. reflexivity.
    - destruct (step c K s (conv_stmt opc x)) as [[s1 x1]| | |] eqn:Es; simpl in H; try discriminate.
      simpl. rewrite Es. simpl.
      destruct x as [time mask i|time l|d ty0|d].
      + destruct (subst_instr (locals s) i) as [i'|] eqn:Ei; simpl in H; [|discriminate].
        destruct (regify opc c K s1 t) as [[s2 o2]| | |] eqn:Er; simpl in H; try discriminate.
        inversion H; subst s' out; clear H. rewrite (IH _ _ _ Er). simpl.
        simpl in Es. rewrite subst_conv_args in Es.
        pose proof (subst_instr_args (locals s) i) as Ha. rewrite Ei in Ha. rewrite Ha in Es.
        simpl in Es. inversion Es; subst. now rewrite (opc_stable _ _ _ Ei).
      + destruct (regify opc c K s1 t) as [[s2 o2]| | |] eqn:Er; simpl in H; try discriminate.
        inversion H; subst s' out; clear H. rewrite (IH _ _ _ Er). simpl.
        simpl in Es. now inversion Es.
      + destruct (regify opc c K s1 t) as [[s2 o2]| | |] eqn:Er; simpl in H; try discriminate.
        inversion H; subst s' out; clear H. rewrite (IH _ _ _ Er). simpl.
        simpl in Es. destruct (tyof c (N.of_nat d)); [|discriminate].
        destruct (getp (free s) t0); [discriminate|].
        destruct (memN (N.of_nat d) (map fst (locals s))); [discriminate|].
        destruct (memZ z K); [discriminate|]. now inversion Es.
      + destruct (regify opc c K s1 t) as [[s2 o2]| | |] eqn:Er; simpl in H; try discriminate.
        inversion H; subst s' out; clear H. rewrite (IH _ _ _ Er). simpl.
        simpl in Es. destruct (tyof c (N.of_nat d)); [|discriminate].
        destruct (lookup (N.of_nat d) (locals s)); [|discriminate].
        destruct (memZ z (implicit s)); [|discriminate]. now inversion Es.
  Qed.

  (* the register-assigned Lower.v stream, forgotten, is exactly assign_registers of the forgotten input *)
  Theorem assign_registers_l_conv c code sf out :
    assign_registers_l opc c code = Ok (sf, out) ->
    assign_registers c (map (conv_stmt opc) code) = Ok (sf, map (conv_stmt opc) out).
  Proof.
    unfold assign_registers_l, assign_registers.
    destruct (regify opc c _ _ code) as [[s1 o1]| | |] eqn:Er; simpl; try discriminate.
    rewrite (regify_conv _ _ _ _ _ _ Er). simpl.
    destruct (anti_sub s1 && used_scratch s1); [discriminate|]. intros H. now inversion H.
  Qed.
End Commute.

(* both versions of get_explicitly_used_regs see the top-level register arguments *)
Lemma explicit_sel_covers_top deep code r : In r (explicit_regs_top code) -> In r (explicit_regs_sel deep code).
Proof.
  destruct deep; simpl; [|auto]. intros H. apply explicit_regs_deep_complete. now apply explicit_regs_top_sound.
Qed.

(* ---------------------------------------------------------------------------------------- *)
(* non-vacuity: `int t = I1 + 5; REG[-10013] = t;` as a Lower.v stream, TH06 ECL pools *)
From TV Require Import Gen.OpTable Gen.Regs Proofs.RegAllocGen.

Definition ex_sem_code : list L.lstmt :=
  [L.LAlloc 0 L.TInt;
   L.LInstr 0 255 (L.IBinOp Add L.TInt (L.TVar L.TInt (L.VLoc 0)) (L.TVar L.TInt (L.VReg (-10002))) (L.TImm (VInt 5)));
   L.LInstr 0 255 (L.IAssignOp None L.TInt (L.TVar L.TInt (L.VReg (-10013))) (L.TVar L.TInt (L.VLoc 0)));
   L.LFree 0].

Definition ex_sem_cfg : cfg :=
  {| general := gen_general LEcl G_Th06; anti := gen_anti LEcl G_Th06; params := [];
     tyof := fun _ => Some TInt; explicit := explicit_regs_sel gen_explicit_deep |}.

Definition ex_sem_opc (i : L.tinstr) : Z := match i with L.ICall o _ => o | _ => 0 end.
Definition ex_sem_mem : LS.mem := LS.mkmem (fun r => VInt r) (fun _ => VInt 0).

Example ex_sem_cfg_ok : cfg_ok ex_sem_cfg.
Proof. split; apply nodupb_NoDup; vm_compute; reflexivity. Qed.

Example ex_sem_init_ok : init_ok [] ex_sem_code = true.
Proof. reflexivity. Qed.

(* the temporary is put into I0 (-10001): I1 is named by the code *)
Example ex_sem_assigned :
  match assign_registers_l ex_sem_opc ex_sem_cfg ex_sem_code with Ok (_, out) => out | _ => [] end =
  [L.LAlloc 0 L.TInt;
   L.LInstr 0 255 (L.IBinOp Add L.TInt (L.TVar L.TInt (L.VReg (-10001))) (L.TVar L.TInt (L.VReg (-10002))) (L.TImm (VInt 5)));
   L.LInstr 0 255 (L.IAssignOp None L.TInt (L.TVar L.TInt (L.VReg (-10013))) (L.TVar L.TInt (L.VReg (-10001))));
   L.LFree 0].
Proof. vm_compute. reflexivity. Qed.

Example ex_sem_runs :
  match LS.run_pure gen_optable (fun _ x => x) (fun _ => L.TInt) ex_sem_code ex_sem_mem,
        assign_registers_l ex_sem_opc ex_sem_cfg ex_sem_code with
  | Ok mf, Ok (_, out) =>
      match LS.run_pure gen_optable (fun _ x => x) (fun _ => L.TInt) out ex_sem_mem with
      | Ok mf' => (LS.regs mf (-10013), LS.regs mf' (-10013), LS.regs mf (-10001), LS.regs mf' (-10001))
      | _ => (VInt 0, VInt 0, VInt 0, VInt 0)
      end
  | _, _ => (VInt 0, VInt 0, VInt 0, VInt 0)
  end = (VInt (-9997), VInt (-9997), VInt (-10001), VInt (-9997)).
Proof. vm_compute. reflexivity. Qed.
