(* Proofs/FmtRoundtrip.v -- expr_roundtrip: print, lex, parse gives back the same expression. *)
From TV Require Import Base.I32 Gen.FmtTables Model.Fmt Model.FmtLex Model.FmtParse Spec.Fmt
  Proofs.FmtLits Proofs.FmtLexP Proofs.FmtLitRT Proofs.FmtExprLex Proofs.FmtExprParse Proofs.FmtFold.
Open Scope Z_scope.

Lemma pr_lits_ok fd e : pr_expr fd e = true -> lits_ok e = true.
Proof.
  induction e using fexpr_ind2; cbn [pr_expr lits_ok]; intros Hp; try reflexivity.
  - apply andb_true_iff in Hp as [Hp H3]. apply andb_true_iff in Hp as [H1 H2]. rewrite IHe1, IHe2, IHe3 by assumption. reflexivity.
  - apply andb_true_iff in Hp as [Hp H3]. apply andb_true_iff in Hp as [H1 H2]. rewrite IHe1, IHe2 by assumption. reflexivity.
  - destruct (mem_str op prefix_unops); apply andb_true_iff in Hp as [H1 H2]; [apply IHe; exact H1|apply IHe; exact H2].
  - apply andb_true_iff in Hp as [Hp H3]. apply andb_true_iff in Hp as [H1 H2].
    apply andb_true_iff. split.
    + apply forallb_forall. intros p Hin. rewrite forallb_forall in H2. rewrite Forall_forall in H.
      specialize (H2 p Hin). apply andb_true_iff in H2 as [_ H2]. apply H; assumption.
    + apply forallb_forall. intros a Hin. rewrite forallb_forall in H3. rewrite Forall_forall in H0. apply H0; auto.
  - destruct cs as [|[x0|] [|c1 cs']]; try discriminate.
    apply forallb_forall. intros c Hin. rewrite forallb_forall in Hp. rewrite Forall_forall in H.
    destruct c as [x|]; [|reflexivity]. apply (H (Some x) Hin). apply (Hp (Some x) Hin).
  - exact Hp.
  - exact Hp.
Qed.

Section RT.
Variable pf : string -> Z.
Variable fd : Z -> string.
Hypothesis fd_shape : forall a, 0 <= a < INF_BITS -> float_shape (float_text fd a) = true.
Hypothesis pf_fd : forall a, 0 <= a < INF_BITS -> pf (float_text fd a) = a.

Theorem expr_roundtrip : forall sup e, pr_expr fd e = true ->
  parse_text pf (print_expr fd sup e) = Ok (unfold e)
  /\ (no_odd_nan e = true -> fold (unfold e) = fold e).
Proof.
  intros sup e Hp. split.
  - unfold parse_text. rewrite (expr_lex fd fd_shape e sup Hp). cbn [obind].
    apply (expr_parse pf fd pf_fd e sup Hp).
  - intros Hn. apply fold_unfold; [apply (pr_lits_ok fd); exact Hp|exact Hn].
Qed.

(* text idempotence for expressions in parser form: printing what was parsed back gives the same text *)
Corollary print_idempotent : forall sup e, pr_expr fd e = true -> unfold e = e ->
  parse_text pf (print_expr fd sup e) = Ok e.
Proof. intros sup e Hp Hu. destruct (expr_roundtrip sup e Hp) as [H _]. rewrite Hu in H. exact H. Qed.

End RT.
