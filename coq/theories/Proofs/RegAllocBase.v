(* Proofs/RegAllocBase.v -- list lemmas and the induction principle for [larg] used by the
   register-allocation proofs. *)
From TV Require Import Base.I32 Model.RegAlloc.
Open Scope Z_scope.

Section LargInd.
  Variable P : larg -> Prop.
  Hypothesis HRaw : forall s, P (Raw s).
  Hypothesis HLocal : forall d sty, P (Local d sty).
  Hypothesis HSwitch : forall cs,
      Forall (fun c => match c with Some x => P x | None => True end) cs -> P (DiffSwitch cs).
  Hypothesis HLabel : forall l, P (ALabel l).
  Hypothesis HTimeOf : forall l, P (ATimeOf l).

  Fixpoint larg_ind2 (a : larg) : P a :=
    match a with
    | Raw s => HRaw s
    | Local d sty => HLocal d sty
    | DiffSwitch cs =>
        HSwitch cs ((fix go (l : list (option larg)) :
                       Forall (fun c => match c with Some x => P x | None => True end) l :=
                       match l with
                       | [] => Forall_nil _
                       | None :: t => Forall_cons None I (go t)
                       | Some x :: t => Forall_cons (Some x) (larg_ind2 x) (go t)
                       end) cs)
    | ALabel l => HLabel l
    | ATimeOf l => HTimeOf l
    end.
End LargInd.

Lemma memZ_In x l : memZ x l = true <-> In x l.
Proof.
  unfold memZ. rewrite existsb_exists. split.
  - intros [y [Hy He]]. apply Z.eqb_eq in He. now subst.
  - intros H. exists x. split; [assumption | apply Z.eqb_refl].
Qed.

Lemma memZ_nIn x l : memZ x l = false <-> ~ In x l.
Proof. rewrite <- memZ_In. destruct (memZ x l); split; congruence. Qed.

Lemma memN_In x l : memN x l = true <-> In x l.
Proof.
  unfold memN. rewrite existsb_exists. split.
  - intros [y [Hy He]]. apply N.eqb_eq in He. now subst.
  - intros H. exists x. split; [assumption | apply N.eqb_refl].
Qed.

Lemma memN_nIn x l : memN x l = false <-> ~ In x l.
Proof. rewrite <- memN_In. destruct (memN x l); split; congruence. Qed.

Lemma lookup_In d l r : lookup d l = Some r -> In (d, r) l.
Proof.
  induction l as [|[k v] t IH]; simpl; [discriminate|].
  destruct (N.eqb_spec d k).
  - intros [= ->]. subst. now left.
  - intros H. right. auto.
Qed.

Lemma lookup_None d l : lookup d l = None -> ~ In d (map fst l).
Proof.
  induction l as [|[k v] t IH]; simpl; [tauto|].
  destruct (N.eqb_spec d k); [discriminate|].
  intros H [E|I]; [congruence|]. now apply IH.
Qed.

Lemma In_lookup d r l : NoDup (map fst l) -> In (d, r) l -> lookup d l = Some r.
Proof.
  induction l as [|[k v] t IH]; simpl; [tauto|].
  intros ND [E|I].
  - inversion E; subst. now rewrite N.eqb_refl.
  - inversion ND as [|? ? Hn ND']; subst.
    destruct (N.eqb_spec d k).
    + subst. exfalso. apply Hn. change k with (fst (k, r)). now apply in_map.
    + auto.
Qed.

Lemma remove_key_In d l k v : In (k, v) (remove_key d l) <-> In (k, v) l /\ k <> d.
Proof.
  induction l as [|[k' v'] t IH]; simpl; [tauto|].
  destruct (N.eqb_spec d k').
  - subst. rewrite IH. split.
    + intros [H1 H2]. auto.
    + intros [[E|H1] H2]; [inversion E; congruence | auto].
  - simpl. rewrite IH. split.
    + intros [E|[H1 H2]]; [inversion E; subst; split; [now left | congruence] | auto].
    + intros [[E|H1] H2]; [now left | right; auto].
Qed.

Lemma remove_key_fst d l x : In x (map fst (remove_key d l)) -> In x (map fst l).
Proof.
  intros H. apply in_map_iff in H. destruct H as [[k v] [E I]]. simpl in E. subst.
  apply remove_key_In in I. destruct I as [I _].
  change x with (fst (x, v)). now apply in_map.
Qed.

Lemma remove_key_snd d l x : In x (map snd (remove_key d l)) -> In x (map snd l).
Proof.
  intros H. apply in_map_iff in H. destruct H as [[k v] [E I]]. simpl in E. subst.
  apply remove_key_In in I. destruct I as [I _].
  change x with (snd (k, x)). now apply in_map.
Qed.

Lemma remove_key_NoDup_fst d l : NoDup (map fst l) -> NoDup (map fst (remove_key d l)).
Proof.
  induction l as [|[k v] t IH]; simpl; [auto|].
  intros ND. inversion ND as [|? ? Hn ND']; subst.
  destruct (N.eqb_spec d k); [auto|].
  simpl. constructor; [|auto]. intros H. apply Hn. eapply remove_key_fst; eauto.
Qed.

Lemma remove_key_NoDup_snd d l : NoDup (map snd l) -> NoDup (map snd (remove_key d l)).
Proof.
  induction l as [|[k v] t IH]; simpl; [auto|].
  intros ND. inversion ND as [|? ? Hn ND']; subst.
  destruct (N.eqb_spec d k); [auto|].
  simpl. constructor; [|auto]. intros H. apply Hn. eapply remove_key_snd; eauto.
Qed.

Lemma remove_key_not_key d l : ~ In d (map fst (remove_key d l)).
Proof.
  intros H. apply in_map_iff in H. destruct H as [[k v] [E I]]. simpl in E. subst.
  apply remove_key_In in I. tauto.
Qed.

Lemma remove_key_absent d l : ~ In d (map fst l) -> remove_key d l = l.
Proof.
  induction l as [|[k v] t IH]; simpl; [auto|].
  intros H. destruct (N.eqb_spec d k); [subst; tauto|].
  f_equal. apply IH. tauto.
Qed.

Notation cnt := (count_occ Z.eq_dec).

(* removing the (unique) binding of d lowers the count of its register by one *)
Lemma remove_key_count d r0 l r :
  NoDup (map fst l) -> In (d, r0) l ->
  (cnt (map snd (remove_key d l)) r + (if Z.eq_dec r0 r then 1 else 0) = cnt (map snd l) r)%nat.
Proof.
  induction l as [|[k v] t IH]; simpl; [tauto|].
  intros ND I. inversion ND as [|? ? Hn ND']; subst.
  destruct (N.eqb_spec d k).
  - subst k. destruct I as [E|I].
    + inversion E; subst v. rewrite (remove_key_absent d t Hn).
      destruct (Z.eq_dec r0 r); lia.
    + exfalso. apply Hn. change d with (fst (d, r0)). now apply in_map.
  - destruct I as [E|I]; [inversion E; congruence|].
    simpl. specialize (IH ND' I). destruct (Z.eq_dec v r); lia.
Qed.

Lemma remove_key_count_le d l r : (cnt (map snd (remove_key d l)) r <= cnt (map snd l) r)%nat.
Proof.
  induction l as [|[k v] t IH]; simpl; [lia|].
  destruct (N.eqb_spec d k); simpl; destruct (Z.eq_dec v r); lia.
Qed.

Lemma NoDup_cnt_le1 (l : list Z) r : NoDup l -> (cnt l r <= 1)%nat.
Proof. intros H. now apply (proj1 (NoDup_count_occ Z.eq_dec l)). Qed.

Lemma cnt_le1_NoDup (l : list Z) : (forall r, (cnt l r <= 1)%nat) -> NoDup l.
Proof. intros H. now apply (proj2 (NoDup_count_occ Z.eq_dec l)). Qed.

Lemma cnt_pos_In (l : list Z) r : (cnt l r > 0)%nat <-> In r l.
Proof. symmetry. apply count_occ_In. Qed.

Lemma cnt_zero_nIn (l : list Z) r : ~ In r l -> cnt l r = 0%nat.
Proof. apply count_occ_not_In. Qed.

Lemma cnt_filter_le f (l : list Z) r : (cnt (filter f l) r <= cnt l r)%nat.
Proof.
  induction l as [|x t IH]; simpl; [lia|].
  destruct (f x); simpl; destruct (Z.eq_dec x r); lia.
Qed.

Lemma getp_setp_same p t l : getp (setp p t l) t = l.
Proof. destruct t; reflexivity. Qed.

Lemma getp_setp_other p t t' l : t <> t' -> getp (setp p t l) t' = getp p t'.
Proof. destruct t, t'; simpl; congruence. Qed.

Lemma all_free_setp_cnt p t l r :
  (cnt (all_free (setp p t l)) r + cnt (getp p t) r = cnt (all_free p) r + cnt l r)%nat.
Proof. unfold all_free. destruct t; simpl; rewrite !count_occ_app; lia. Qed.

Lemma getp_all_free p t r : In r (getp p t) -> In r (all_free p).
Proof. unfold all_free. destruct t; simpl; rewrite !in_app_iff; tauto. Qed.

Lemma ty_eq_dec (a b : ty) : {a = b} + {a <> b}.
Proof. decide equality. Qed.

Lemma named_params_regs ps r : In r (map snd (named_params ps)) -> In r (map snd ps).
Proof.
  induction ps as [|[[d|] x] t IH]; simpl; [tauto| |]; intros H.
  - destruct H; [now left | right; auto].
  - right; auto.
Qed.

Lemma named_params_cnt ps r : (cnt (map snd (named_params ps)) r <= cnt (map snd ps) r)%nat.
Proof.
  induction ps as [|[[d|] x] t IH]; simpl; [lia| |]; destruct (Z.eq_dec x r); lia.
Qed.

(* the parameter insertions of [init] *)
Definition ins_all (l acc : list (N * Z)) : list (N * Z) :=
  fold_left (fun acc p => insert (fst p) (snd p) acc) l acc.

Lemma ins_all_In l : forall acc x, In x (ins_all l acc) -> In x l \/ In x acc.
Proof.
  induction l as [|[d r] t IH]; simpl; intros acc x H; [now right|].
  apply IH in H. destruct H as [H|H]; [left; now right|].
  unfold insert in H. simpl in H. destruct H as [H|H]; [left; now left|].
  destruct x as [k v]. apply remove_key_In in H. right. tauto.
Qed.

Lemma ins_all_NoDup_fst l : forall acc, NoDup (map fst acc) -> NoDup (map fst (ins_all l acc)).
Proof.
  induction l as [|[d r] t IH]; simpl; intros acc H; [assumption|].
  apply IH. unfold insert. simpl. constructor.
  - apply remove_key_not_key.
  - now apply remove_key_NoDup_fst.
Qed.

Lemma ins_all_cnt l : forall acc r,
  (cnt (map snd (ins_all l acc)) r <= cnt (map snd l) r + cnt (map snd acc) r)%nat.
Proof.
  induction l as [|[d v] t IH]; simpl; intros acc r; [lia|].
  specialize (IH (insert d v acc) r). unfold insert in IH at 2. simpl in IH.
  pose proof (remove_key_count_le d acc r).
  destruct (Z.eq_dec v r); lia.
Qed.

Lemma addZ_In x y l : In y (addZ x l) <-> y = x \/ In y l.
Proof.
  unfold addZ. destruct (memZ x l) eqn:E.
  - apply memZ_In in E. split; [tauto|]. intros [->|H]; assumption.
  - simpl. split; intros [H|H]; auto.
Qed.
