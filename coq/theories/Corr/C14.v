(* Corr/C14.v -- correspondence runner for C14: each case carries what the implementation did;
   [model_of] recomputes it with Model/Diff.v. *)
From TV Require Import Base.I32 Gen.DiffFlags Model.Diff.
From Coq Require Import NArith.
Open Scope N_scope.

Inductive ires (A : Type) := IOk (a : A) | IErr | IPanic.
Arguments IOk {A} a. Arguments IErr {A}. Arguments IPanic {A}.

Inductive c14case :=
(* mapfile `!difficulty_flags` lines applied to the built-in definitions; then for every mask 0..255 in
   order: mask_to_diff_label and parse_diff_string of that label *)
| KLabels (ops : list (Z * list Z)) (r : ires (list Z * list Z))
   (* flat encoding, cheap to type-check: the 256 labels, each terminated by 0; the 256 parse results
      (mask, or -1 diagnostic, -2 panic in parse_diff_string, -3 panic in mask_to_diff_label) *)
(* parse_diff_string of an arbitrary label string *)
| KParse (ops : list (Z * list Z)) (s : list Z) (r : ires Z)
(* `{"label"}: ins(args);` compiled: the emitted copies (difficulty mask, argument values) *)
| KElab (ops : list (Z * list Z)) (label : option (list Z)) (args : list arg) (r : ires (list (Z * list Z))).
(* all numerals of case terms are in Z (the case files open Z_scope); characters and masks are converted here *)
Definition chars (s : list Z) : list N := map Z.to_N s.
Definition nops (ops : list (Z * list Z)) : list (Z * list N) := map (fun o => (fst o, chars (snd o))) ops.
Definition neqz (a : N) (b : Z) : bool := Z.eqb (Z.of_N a) b.

Fixpoint list_eqb {A B} (eqb : A -> B -> bool) (l1 : list A) (l2 : list B) : bool :=
  match l1, l2 with
  | [], [] => true
  | x :: t1, y :: t2 => eqb x y && list_eqb eqb t1 t2
  | _, _ => false
  end.

Definition agree {A B} (eqb : A -> B -> bool) (m : outcome A) (i : ires B) : bool :=
  match m, i with
  | Ok a, IOk b => eqb a b
  | Err _, IErr => true
  | Panic _, IPanic => true
  | _, _ => false
  end.

Definition defs_of (ops : list (Z * list Z)) : outcome flagdefs :=
  do fd0 <- default_defs; apply_mapfile_ops fd0 (nops ops).

Definition label_entry (fd : flagdefs) (m : N) : outcome (list N * outcome N) :=
  do s <- mask_to_label fd m; Ok (s, parse_label fd s).

Definition entry_label (a : outcome (list N * outcome N)) : list Z :=
  match a with Ok (s, _) => map Z.of_N s ++ [0%Z] | _ => [0%Z] end.
Definition entry_result (a : outcome (list N * outcome N)) : Z :=
  match a with
  | Ok (_, Ok m) => Z.of_N m
  | Ok (_, Err _) => (-1)%Z
  | Ok (_, Panic _) => (-2)%Z
  | Panic _ => (-3)%Z
  | _ => (-9)%Z
  end.

Definition all_masks256 : list N := map N.of_nat (seq 0 256).

Definition copy_eqb (a : N * list Z) (b : Z * list Z) : bool := neqz (fst a) (fst b) && list_eqb Z.eqb (snd a) (snd b).

Definition model_of (c : c14case) : bool :=
  match c with
  | KLabels ops r =>
      agree (fun fd obs =>
               let es := map (label_entry fd) all_masks256 in
               list_eqb Z.eqb (flat_map entry_label es) (fst obs) && list_eqb Z.eqb (map entry_result es) (snd obs))
            (defs_of ops) r
  | KParse ops s r => agree neqz (do fd <- defs_of ops; parse_label fd (chars s)) r
  | KElab ops label args r =>
      agree (list_eqb copy_eqb)
        (do fd <- defs_of ops;
         do m <- match label with Some s => parse_label fd (chars s) | None => Ok 255 end;
         elaborate fd m args) r
  end.

Fixpoint mismatches (n : N) (l : list c14case) : list N :=
  match l with
  | [] => []
  | c :: t => if model_of c then mismatches (n + 1) t else n :: mismatches (n + 1) t
  end.

(* list notation for switch cases in case terms: [sw [Some a; None; Some b]] *)
Fixpoint cs_of (l : list (option arg)) : cases :=
  match l with [] => CNil | Some a :: r => CSome a (cs_of r) | None :: r => CNone (cs_of r) end.
Definition sw (l : list (option arg)) : arg := ASw (cs_of l).
