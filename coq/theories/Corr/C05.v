(* Corr/C05.v -- correspondence runner for C05.  A case is one compiled file: the scratch pools in
   force (a game's real hooks through Gen/Regs.v, or an explicit TestLanguage pool), and for every
   sub the statement stream handed to assign_registers together with what the implementation did:
   debug-info `locals[].bound-to` in order, the registers/immediates of the emitted instructions,
   and the diagnostics. [model_of] recomputes all of it with Model/RegAlloc.v. *)
From TV Require Import Base.I32 Model.RegAlloc Gen.Regs.
Open Scope Z_scope.

Inductive poolsel :=
| PGame (l : langid) (g : Z) (hi hf : list Z)   (* hi, hf: the pools the harness generator assumed *)
| PCustom (pi pf : list Z) (anti_op : Z).

Inductive oarg := OReg (r : Z) | OImm (v : Z).

Inductive subcase :=
| MkSub (params : list (option N * ty)) (tys : list (N * ty)) (code : list lstmt)
        (locals : option (list Z)) (instrs : option (list (Z * list oarg))).

Inductive fres := FOk | FErr (ncomplex nantisub nantifile nother : nat) | FPanic.

Inductive c05case := MkCase (p : poolsel) (subs : list subcase) (r : fres).

Fixpoint tlookup (l : list (N * ty)) (d : N) : option ty :=
  match l with
  | [] => None
  | (k, t) :: r => if N.eqb d k then Some t else tlookup r d
  end.

Definition cfg_of (p : poolsel) (params : list (option N * ty)) (tys : list (N * ty)) : option cfg :=
  match p with
  | PGame l g hi hf =>
      if negb (forall2b Z.eqb (gen_general l g TInt) hi && forall2b Z.eqb (gen_general l g TFloat) hf) then None else
      match param_registers (gen_param_reg g) params 0 0 with
      | None => None
      | Some ps =>
          Some {| general := gen_general l g; anti := gen_anti l g; params := ps; tyof := tlookup tys;
                  explicit := explicit_regs_sel gen_explicit_deep |}
      end
  | PCustom pi pf a =>
      match params with
      | [] => Some {| general := fun t => match t with TInt => pi | TFloat => pf | TString => [] end;
                      anti := fun op => if op =? a then Some ThisFunction else None;
                      params := []; tyof := tlookup tys;
                      explicit := explicit_regs_sel gen_explicit_deep |}
      | _ => None
      end
  end.

(* registers picked at the RegAlloc statements, in order *)
Fixpoint picks (c : cfg) (K : list Z) (s : st) (code : list lstmt) : list Z :=
  match code with
  | [] => []
  | x :: t =>
      match step c K s x with
      | Ok (s', _) =>
          (match x with
           | RegAlloc d => match lookup d (locals s') with Some r => [r] | None => [] end
           | _ => []
           end) ++ picks c K s' t
      | _ => []
      end
  end.

(* elaborate_diff_switches + select_diff_for_lower_args (src/llir/lower.rs) *)
Definition switch_len (a : larg) : nat := match a with DiffSwitch cs => length cs | _ => 0%nat end.
Definition explicit_at (p : nat) (a : larg) : bool :=
  match a with DiffSwitch cs => match nth p cs None with Some _ => true | None => false end | _ => false end.

Fixpoint select_case (cs : list (option larg)) (p : nat) (cur : option larg) : option larg :=
  match cs with
  | [] => cur
  | c :: t =>
      let cur' := match c with Some x => Some x | None => cur end in
      match p with O => cur' | S p' => select_case t p' cur' end
  end.

Definition select_diff (p : nat) (a : larg) : larg :=
  match a with
  | DiffSwitch cs => match select_case cs p None with Some x => x | None => a end
  | _ => a
  end.

Definition expand_instr (op time diff : Z) (args : list larg) : list lstmt :=
  let n := fold_left Nat.max (map switch_len args) 0%nat in
  if (n <? 2)%nat then [Instr op time diff (Known args)]
  else flat_map (fun p => if existsb (explicit_at p) args
                          then [Instr op time diff (Known (map (select_diff p) args))] else [])
                (seq 0 n).

Definition expand (code : list lstmt) : list lstmt :=
  flat_map (fun x => match x with
                     | Instr op time diff (Known args) => expand_instr op time diff args
                     | Instr _ _ _ Blob => [x]
                     | _ => []
                     end) code.

(* an expected argument against an observed one *)
Definition arg_match (a : larg) (o : oarg) : bool :=
  match a, o with
  | Raw (SReg r _), OReg r' => r =? r'
  | Raw (SImm v), OImm v' => v =? v'
  | ALabel _, _ | ATimeOf _, _ => true
  | _, _ => false
  end.

Definition is_wild (a : larg) : bool := match a with ALabel _ | ATimeOf _ => true | _ => false end.

Fixpoint remove_first (a : larg) (os : list oarg) : option (list oarg) :=
  match os with
  | [] => None
  | o :: t => if arg_match a o then Some t
              else match remove_first a t with Some t' => Some (o :: t') | None => None end
  end.

(* intrinsic-generated instruction (opcode not predicted): the non-wildcard arguments must occur
   among the observed ones, with multiplicity, and the argument counts must agree *)
Fixpoint args_subset (l : list larg) (os : list oarg) : bool :=
  match l with
  | [] => true
  | a :: t => if is_wild a then args_subset t os
              else match remove_first a os with Some os' => args_subset t os' | None => false end
  end.

Definition instr_match (x : lstmt) (o : Z * list oarg) : bool :=
  match x with
  | Instr op _ _ (Known args) =>
      if op =? (-1) then (length args =? length (snd o))%nat && args_subset args (snd o)
      else (op =? fst o) && forall2b arg_match args (snd o)
  | Instr op _ _ Blob => op =? fst o      (* @blob=: the bytes are the user's, only the opcode is compared *)
  | _ => false
  end.

Definition zlist_eqb (a b : list Z) : bool := forall2b Z.eqb a b.

Inductive subexp := XOk (s : st) | XComplex | XAntiSub | XPanic | XBad.

Definition sub_expect (p : poolsel) (sc : subcase) : subexp * bool :=
  match sc with
  | MkSub params tys code locals instrs =>
      match cfg_of p params tys with
      | None => (XBad, false)
      | Some c =>
          if negb (nodupb (param_regs c)) then (XBad, false) else
          match assign_registers c code with
          | Ok (s, code') =>
              let exp_locals := map snd (named_params (RegAlloc.params c))
                                ++ picks c (clash c (explicit c code)) (init c code) code in
              (XOk s,
               match locals with Some l => zlist_eqb exp_locals l | None => false end &&
               match instrs with Some is => forall2b instr_match (expand code') is | None => true end)
          | Err t => ((if Nat.eqb t E_TOO_COMPLEX then XComplex else if Nat.eqb t E_ANTI_SUB then XAntiSub else XBad),
                      match locals, instrs with None, None => true | _, _ => false end)
          | Panic _ => (XPanic, true)
          | OutOfFuel => (XBad, false)
          end
      end
  end.

Definition count_exp (f : subexp -> bool) (l : list (subexp * bool)) : nat :=
  length (filter (fun x => f (fst x)) l).

Definition has_instrs (sc : subcase) : bool :=
  match sc with MkSub _ _ _ _ (Some _) => true | _ => false end.

Definition model_of (c : c05case) : bool :=
  match c with
  | MkCase p subs r =>
      let xs := map (sub_expect p) subs in
      if existsb (fun x => match fst x with XBad => true | _ => false end) xs then false else
      if existsb (fun x => match fst x with XPanic => true | _ => false end) xs
      then match r with FPanic => true | _ => false end else
      forallb snd xs &&
      let ncx := count_exp (fun x => match x with XComplex => true | _ => false end) xs in
      let nas := count_exp (fun x => match x with XAntiSub => true | _ => false end) xs in
      let all_ok := Nat.eqb (ncx + nas) 0 in
      let water := existsb (fun x => match fst x with XOk s => anti_file s | _ => false end) xs in
      let used := existsb (fun x => match fst x with XOk s => used_scratch s | _ => false end) xs in
      match r with
      | FOk => all_ok && negb (water && used) && forallb has_instrs subs
      | FErr a b f o =>
          Nat.eqb a ncx && Nat.eqb b nas && Nat.eqb o 0 &&
          (if all_ok then Nat.eqb f 1 && water && used else true)
      | FPanic => false
      end
  end.

Fixpoint mismatches (n : N) (l : list c05case) : list N :=
  match l with
  | [] => []
  | c :: t => if model_of c then mismatches (n + 1) t else n :: mismatches (n + 1) t
  end.
