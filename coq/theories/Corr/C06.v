(* Corr/C06.v -- correspondence runner for C06.  A case is one generated program as parsed and
   resolved by truth (converted to a model term by the harness), the flat statement list that
   passes::desugar_blocks::run produced for it, and AstVm's observations before and after for a
   few initial register valuations.  [model_of] recomputes all of it with the model. *)
From TV Require Import Base.I32 Model.Blocks Model.BlocksInst Gen.DesugarRules.
Open Scope Z_scope.

Inductive ires :=
| IOk (time rtime : Z) (log : list icall) (regs : list (Z * Z))   (* regs: the observed variables *)
| IPanic
| ILimit.      (* AstVm: "iteration limit exceeded!" *)

Inductive c06case :=
| KProg (fl : flavour) (p : block IL) (flat : list (finstr IL))
        (runs : list (Z * iregs * ires * ires)).   (* initial time, registers, before, after *)

(* the flavour desugaring picks for a format that has (or has not) each counting-jump intrinsic:
   discover_alternatives walks the order of preference, the last available one wins *)
Definition cfg_flavour (has_ne has_gt : bool) : flavour :=
  fold_left (fun acc k => if (match k with PredecNeZero => has_ne | PredecGtZero => has_gt end) then k else acc)
            gen_pref_order gen_fallback.

(* ---- decidable equalities ---- *)
Fixpoint list_eqb {A} (eqb : A -> A -> bool) (l1 l2 : list A) : bool :=
  match l1, l2 with
  | [], [] => true
  | x :: t1, y :: t2 => eqb x y && list_eqb eqb t1 t2
  | _, _ => false
  end.

Definition bop_eqb (a b : bop) : bool :=
  match a, b with
  | OAdd, OAdd | OSub, OSub | OMul, OMul | OEq, OEq | ONe, ONe | OLt, OLt | OLe, OLe | OGt, OGt | OGe, OGe => true
  | _, _ => false
  end.
Fixpoint iexpr_eqb (a b : iexpr) : bool :=
  match a, b with
  | ILit x, ILit y => x =? y
  | IVar x, IVar y => x =? y
  | IBin a1 o1 b1, IBin a2 o2 b2 => iexpr_eqb a1 a2 && bop_eqb o1 o2 && iexpr_eqb b1 b2
  | IPreDec x, IPreDec y => x =? y
  | _, _ => false
  end.
Definition opt_eqb {A} (eqb : A -> A -> bool) (a b : option A) : bool :=
  match a, b with Some x, Some y => eqb x y | None, None => true | _, _ => false end.
Definition isimple_eqb (a b : isimple) : bool :=
  match a, b with
  | XCall o1 l1, XCall o2 l2 => (o1 =? o2) && list_eqb iexpr_eqb l1 l2
  | XAssign v1 e1, XAssign v2 e2 => (v1 =? v2) && iexpr_eqb e1 e2
  | XOpAssign v1 o1 e1, XOpAssign v2 o2 e2 => (v1 =? v2) && bop_eqb o1 o2 && iexpr_eqb e1 e2
  | XDecl l1, XDecl l2 =>
      list_eqb (fun x y => (fst x =? fst y) && opt_eqb iexpr_eqb (snd x) (snd y)) l1 l2
  | _, _ => false
  end.
Definition tlabel_eqb (a b : tlabel) : bool :=
  match a, b with TAbs x, TAbs y | TRel x, TRel y => x =? y | _, _ => false end.
Definition atom_eqb (a b : atom IL) : bool :=
  match a, b with
  | ANop, ANop => true
  | ATime x, ATime y => tlabel_eqb x y
  | ASimple x, ASimple y => isimple_eqb x y
  | ADecl d1 x, ADecl d2 y => list_eqb Nat.eqb d1 d2 && isimple_eqb x y
  | _, _ => false
  end.
Definition kw_eqb (a b : kw) : bool :=
  match a, b with KIf, KIf | KUnless, KUnless => true | _, _ => false end.
Definition fvar_eqb (a b : fvar IL) : bool :=
  match a, b with FUser x, FUser y => x =? y | FTemp x, FTemp y => Nat.eqb x y | _, _ => false end.
Definition fcond_eqb (a b : fcond IL) : bool :=
  match a, b with
  | CExpr x, CExpr y => iexpr_eqb x y
  | CIsZero x, CIsZero y | CPredec x, CPredec y | CPredecGt x, CPredecGt y => fvar_eqb x y
  | _, _ => false
  end.
Definition finstr_eqb (a b : finstr IL) : bool :=
  match a, b with
  | FAtom x, FAtom y => atom_eqb x y
  | FScopeEnd x, FScopeEnd y | FDeclTemp x, FDeclTemp y | FScopeEndTemp x, FScopeEndTemp y => Nat.eqb x y
  | FSet v1 e1, FSet v2 e2 => fvar_eqb v1 v2 && iexpr_eqb e1 e2
  | FLabel x, FLabel y | FGoto x, FGoto y => label_eqb x y
  | FCondGoto k1 c1 l1, FCondGoto k2 c2 l2 => kw_eqb k1 k2 && fcond_eqb c1 c2 && label_eqb l1 l2
  | _, _ => false
  end.

(* ---- canonical names: gensym numbers (labels and `count` temporaries) are replaced by the
        rank of their first appearance; loop ids are the implementation's on both sides ---- *)
Definition label_gensym (l : label) : option nat :=
  match l with LCondEnd n | LCond n | LTimesZero n | LLoop n => Some n | LLoopEnd _ => None end.
Definition fvar_gensym (v : fvar IL) : option nat :=
  match v with FTemp n => Some n | FUser _ => None end.
Definition fcond_gensym (c : fcond IL) : option nat :=
  match c with CExpr _ => None | CIsZero v | CPredec v | CPredecGt v => fvar_gensym v end.
Definition finstr_gensyms (i : finstr IL) : list (option nat) :=
  match i with
  | FDeclTemp n | FScopeEndTemp n => [Some n]
  | FSet v _ => [fvar_gensym v]
  | FLabel l | FGoto l => [label_gensym l]
  | FCondGoto _ c l => [fcond_gensym c; label_gensym l]
  | _ => []
  end.
Fixpoint index_of (n : nat) (l : list nat) (k : nat) : nat :=
  match l with [] => k | x :: t => if Nat.eqb n x then k else index_of n t (S k) end.
Fixpoint order (c : list (finstr IL)) (seen : list nat) : list nat :=
  match c with
  | [] => seen
  | i :: t =>
      order t (fold_left (fun s o => match o with
                                     | Some n => if existsb (Nat.eqb n) s then s else s ++ [n]
                                     | None => s end) (finstr_gensyms i) seen)
  end.
Definition ren_label (o : list nat) (l : label) : label :=
  match l with
  | LCondEnd n => LCondEnd (index_of n o 0) | LCond n => LCond (index_of n o 0)
  | LTimesZero n => LTimesZero (index_of n o 0) | LLoop n => LLoop (index_of n o 0)
  | LLoopEnd id => LLoopEnd id
  end.
Definition ren_fvar (o : list nat) (v : fvar IL) : fvar IL :=
  match v with FTemp n => FTemp (index_of n o 0) | FUser u => FUser u end.
Definition ren_fcond (o : list nat) (c : fcond IL) : fcond IL :=
  match c with
  | CExpr e => CExpr e | CIsZero v => CIsZero (ren_fvar o v)
  | CPredec v => CPredec (ren_fvar o v) | CPredecGt v => CPredecGt (ren_fvar o v)
  end.
Definition ren_finstr (o : list nat) (i : finstr IL) : finstr IL :=
  match i with
  | FDeclTemp n => FDeclTemp (index_of n o 0)
  | FScopeEndTemp n => FScopeEndTemp (index_of n o 0)
  | FSet v e => FSet (ren_fvar o v) e
  | FLabel l => FLabel (ren_label o l)
  | FGoto l => FGoto (ren_label o l)
  | FCondGoto k c l => FCondGoto k (ren_fcond o c) (ren_label o l)
  | other => other
  end.
Definition canon (c : list (finstr IL)) : list (finstr IL) := map (ren_finstr (order c [])) c.

(* ---- observations ---- *)
Definition icall_eqb (a b : icall) : bool :=
  match a, b with (t1, o1, a1), (t2, o2, a2) => (t1 =? t2) && (o1 =? o2) && list_eqb Z.eqb a1 a2 end.

Definition regs_agree (r : iregs) (obs : list (Z * Z)) : bool :=
  forallb (fun kv => match ird (fst kv) r with Ok z => z =? snd kv | _ => false end) obs.

Definition agree_state (st : state IL) (i : ires) : bool :=
  match i with
  | IOk t rt lg rg =>
      (s_time st =? t) && (s_rtime st =? rt) && list_eqb icall_eqb (s_log st) lg && regs_agree (s_regs st) rg
  | _ => false
  end.

Definition agree {A} (proj : A -> state IL) (m : outcome A) (i : ires) : bool :=
  match i, m with
  | ILimit, _ => true                 (* the two step counters are not comparable *)
  | IPanic, Panic _ => true
  | IOk _ _ _ _, Ok a => agree_state (proj a) i
  | _, _ => false
  end.

Definition ires_eqb (a b : ires) : bool :=
  match a, b with
  | IOk t1 r1 l1 g1, IOk t2 r2 l2 g2 =>
      (t1 =? t2) && (r1 =? r2) && list_eqb icall_eqb l1 l2
      && list_eqb (fun x y => (fst x =? fst y) && (snd x =? snd y)) g1 g2
  | IPanic, IPanic | ILimit, ILimit => true
  | _, _ => false
  end.

Definition FUEL : nat := Z.to_nat 6000.

Definition st0 (t : Z) (r : iregs) : state IL := @mkst IL t 0 [] r.

Definition run_ok (fl : flavour) (p : block IL) (flat : list (finstr IL)) (run : Z * iregs * ires * ires) : bool :=
  match run with
  | (t, r, before, after) =>
      (* nothing to compare (and an expensive model run) when AstVm gave up *)
      match before with ILimit => true | _ => agree (fun s => s) (run_struct IL FUEL (Lax gen_astvm_resets_time) p (st0 t r)) before end
      && match after with ILimit => true | _ => agree fst (run_flat IL FUEL flat (st0 t r)) after end
  end.

Definition model_of (c : c06case) : bool :=
  match c with
  | KProg fl p flat runs =>
      wf_prog IL p
      && list_eqb finstr_eqb (canon (desugar IL fl p)) (canon flat)
      && forallb (run_ok fl p flat) runs
  end.

Fixpoint mismatches (n : N) (l : list c06case) : list N :=
  match l with
  | [] => []
  | c :: t => if model_of c then mismatches (n + 1) t else n :: mismatches (n + 1) t
  end.

(* Which part of [model_of] fails (for the replay file): 1 = resolution/bookend invariant,
   2 = flat statement list, 3 = AstVm vs run_struct, 4 = AstVm vs run_flat *)
Definition diagnose (c : c06case) : N :=
  match c with
  | KProg fl p flat runs =>
      if negb (wf_prog IL p) then 1%N
      else if negb (list_eqb finstr_eqb (canon (desugar IL fl p)) (canon flat)) then 2%N
      else if negb (forallb (fun run => match run with (t, r, before, _) =>
                     match before with ILimit => true | _ => agree (fun s => s) (run_struct IL FUEL (Lax gen_astvm_resets_time) p (st0 t r)) before end end) runs) then 3%N
      else if negb (forallb (fun run => match run with (t, r, _, after) =>
                     match after with ILimit => true | _ => agree fst (run_flat IL FUEL flat (st0 t r)) after end end) runs) then 4%N
      else 0%N
  end.
Definition diagnoses (n : N) (l : list c06case) : list N := map diagnose l.

(* A run on which AstVm before and after disagree is *explained* when the instrumented
   structured run stops at one of the three guard conditions of desugar_correct. *)
Definition is_err {A} (m : outcome A) : bool := match m with Err _ => true | _ => false end.
Definition unexplained_run (fl : flavour) (p : block IL) (run : Z * iregs * ires * ires) : bool :=
  match run with
  | (t, r, before, after) =>
      negb (ires_eqb before after) && negb (is_err (run_struct IL FUEL (Strict true fl) p (st0 t r)))
  end.
Definition unexplained (c : c06case) : bool :=
  match c with KProg fl p _ runs => existsb (unexplained_run fl p) runs end.
(* indices of the cases with a before/after difference that no guard accounts for *)
Fixpoint unexplained_cases (n : N) (l : list c06case) : list N :=
  match l with
  | [] => []
  | c :: t => if unexplained c then n :: unexplained_cases (n + 1) t else unexplained_cases (n + 1) t
  end.

(* Monomorphic aliases of the constructors: the harness prints these names, so that elaborating a
   case needs no implicit-argument inference (several times faster for 10 KB terms). *)
Definition mASimple : isimple -> atom IL := @ASimple IL.
Definition mADecl : list nat -> isimple -> atom IL := @ADecl IL.
Definition mANop : atom IL := @ANop IL.
Definition mATime : tlabel -> atom IL := @ATime IL.
Definition mSAtom : atom IL -> stmt IL := @SAtom IL.
Definition mSBreak : nat -> stmt IL := @SBreak IL.
Definition mSCondBreak : kw -> iexpr -> nat -> stmt IL := @SCondBreak IL.
Definition mSBlock : block IL -> stmt IL := @SBlock IL.
Definition mSCond : kw -> iexpr -> block IL -> chain IL -> stmt IL := @SCond IL.
Definition mSLoop : nat -> block IL -> stmt IL := @SLoop IL.
Definition mSWhile : nat -> iexpr -> block IL -> stmt IL := @SWhile IL.
Definition mSDoWhile : nat -> iexpr -> block IL -> stmt IL := @SDoWhile IL.
Definition mSTimes : nat -> option Z -> iexpr -> block IL -> stmt IL := @STimes IL.
Definition mBNil : block IL := @BNil IL.
Definition mBCons : stmt IL -> block IL -> block IL := @BCons IL.
Definition mCEnd : chain IL := @CEnd IL.
Definition mCElse : block IL -> chain IL := @CElse IL.
Definition mCElif : kw -> iexpr -> block IL -> chain IL -> chain IL := @CElif IL.
Definition mFUser : Z -> fvar IL := @FUser IL.
Definition mFTemp : nat -> fvar IL := @FTemp IL.
Definition mCExpr : iexpr -> fcond IL := @CExpr IL.
Definition mCIsZero : fvar IL -> fcond IL := @CIsZero IL.
Definition mCPredec : fvar IL -> fcond IL := @CPredec IL.
Definition mCPredecGt : fvar IL -> fcond IL := @CPredecGt IL.
Definition mFAtom : atom IL -> finstr IL := @FAtom IL.
Definition mFScopeEnd : nat -> finstr IL := @FScopeEnd IL.
Definition mFDeclTemp : nat -> finstr IL := @FDeclTemp IL.
Definition mFScopeEndTemp : nat -> finstr IL := @FScopeEndTemp IL.
Definition mFSet : fvar IL -> iexpr -> finstr IL := @FSet IL.
Definition mFLabel : label -> finstr IL := @FLabel IL.
Definition mFGoto : label -> finstr IL := @FGoto IL.
Definition mFCondGoto : kw -> fcond IL -> label -> finstr IL := @FCondGoto IL.

(* ---- classification (for the replay files and the known-finding classes) ---- *)
Fixpoint cases_with (f : c06case -> bool) (n : N) (l : list c06case) : list N :=
  match l with
  | [] => []
  | c :: t => if f c then n :: cases_with f (n + 1) t else cases_with f (n + 1) t
  end.

(* tag of a run: 0 = before and after agree; 61/62/63 = they differ and the guarded run stops at
   that guard (E_NEGCOUNT / E_NEGCOUNTER / E_TIMERESET); 1 = they differ and no guard accounts for it *)
Definition run_tag (fl : flavour) (p : block IL) (run : Z * iregs * ires * ires) : N :=
  match run with
  | (t, r, before, after) =>
      if ires_eqb before after then 0%N
      else match run_struct IL FUEL (Strict true fl) p (st0 t r) with
           | Err tag => N.of_nat tag
           | _ => 1%N
           end
  end.
Definition has_tag (tag : N) (c : c06case) : bool :=
  match c with KProg fl p _ runs => existsb (fun run => N.eqb (run_tag fl p run) tag) runs end.
Definition tag1_cases := cases_with (has_tag 1%N).
Definition tag61_cases := cases_with (has_tag 61%N).
Definition tag62_cases := cases_with (has_tag 62%N).
Definition tag63_cases := cases_with (has_tag 63%N).
Definition diag1_cases := cases_with (fun c => N.eqb (diagnose c) 1%N).
Definition diag2_cases := cases_with (fun c => N.eqb (diagnose c) 2%N).
Definition diag3_cases := cases_with (fun c => N.eqb (diagnose c) 3%N).
Definition diag4_cases := cases_with (fun c => N.eqb (diagnose c) 4%N).
