(* Corr/C19.v -- correspondence runner for C19.  A case carries what the harness observed over
   several fresh process launches of one command on one input:
     KRuns ds   one digest per launch of (exit codes, stdout, stderr, output files) of all steps.
                The model: the output is a function of the input alone, i.e. all digests agree.
     KPerm bs   for inputs built to exercise an EmitInIterationOrder site: per launch, the digests
                of the diagnostics in the order they were printed.  The model of that shape
                (Model/Order.v: [map render] over a permutation of the same entries) predicts that
                every launch prints a permutation of the first launch's diagnostics -- the order may
                differ, the multiset may not. *)
From Coq Require Import List ZArith Bool.
From TV Require Import Model.Order.
Import ListNotations.
Open Scope Z_scope.

Inductive c19case :=
| KRuns (digests : list Z)
| KPerm (blocks : list (list Z)).

Fixpoint all_eq (x : Z) (l : list Z) : bool :=
  match l with [] => true | y :: t => (x =? y) && all_eq x t end.

Fixpoint list_eqb (a b : list Z) : bool :=
  match a, b with
  | [], [] => true
  | x :: t, y :: u => (x =? y) && list_eqb t u
  | _, _ => false
  end.

Definition zsort (l : list Z) : list Z := isort Z.leb l.

(* what the model predicts for a case: deterministic (KRuns) / the same items up to order (KPerm) *)
Definition model_of (c : c19case) : bool :=
  match c with
  | KRuns [] => true
  | KRuns (d :: t) => all_eq d t
  | KPerm [] => true
  | KPerm (b :: t) => forallb (fun b' => list_eqb (zsort b) (zsort b')) t
  end.

Fixpoint mismatches (i : N) (l : list c19case) : list N :=
  match l with
  | [] => []
  | c :: t => if model_of c then mismatches (N.succ i) t else i :: mismatches (N.succ i) t
  end.

(* the cases in which the launches were NOT byte-identical but did print the same diagnostics:
   what the check reports separately as "order only" *)
Definition order_only (c : c19case) : bool :=
  match c with
  | KPerm (b :: t) => negb (forallb (list_eqb b) t) && forallb (fun b' => list_eqb (zsort b) (zsort b')) t
  | _ => false
  end.

Fixpoint order_only_cases (i : N) (l : list c19case) : list N :=
  match l with
  | [] => []
  | c :: t => if order_only c then i :: order_only_cases (N.succ i) t else order_only_cases (N.succ i) t
  end.

(* both lists in one evaluation: indices of [order_only_cases] are shifted by 1000000 *)
Definition mismatches_and_order_only (i : N) (l : list c19case) : list N :=
  mismatches i l ++ map (fun k => (k + 1000000)%N) (order_only_cases i l).
