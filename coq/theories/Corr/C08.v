(* Corr/C08.v -- correspondence runner for C08: each case carries what the implementation did
   (the printed text, the logos token stream, the LALRPOP parse result, whether the
   implementation-level round trip succeeded); [model_of] recomputes it with the model. *)
From TV Require Import Base.I32 Model.Fmt Model.FmtLex Model.FmtParse Spec.Fmt.
Open Scope Z_scope.

Inductive ires (A : Type) := IOk (a : A) | IErr | IPanic.
Arguments IOk {A} a. Arguments IErr {A}. Arguments IPanic {A}.

(* strings with bytes that cannot be written in a Coq string literal *)
Fixpoint sb (l : list Z) : string :=
  match l with [] => EmptyString | b :: t => String (ascii_of_N (Z.to_N b)) (sb t) end.

(* the same, written as a string of hexadecimal digit pairs (much cheaper for Coq to read) *)
Definition hexval (c : ascii) : N :=
  let n := N_of_ascii c in if (n <? 58)%N then (n - 48)%N else (n - 87)%N.
Fixpoint hx (s : string) : string :=
  match s with
  | String a (String b r) => String (ascii_of_N (hexval a * 16 + hexval b)) (hx r)
  | _ => EmptyString
  end.

Inductive c08case :=
| KLex (text : string) (r : ires (list token))
| KParse (ftab : list (string * Z)) (text : string) (r : ires fexpr)
| KInt (f : intfmt) (v : Z) (text : string)
| KStr (s text : string)
(* fd: Display of the finite non-negative floats that occur; rt: did parse(print e) = e hold up to sign folding on the implementation *)
| KExpr (fd : list (Z * string)) (sup : bool) (w : nat) (e : fexpr) (r : ires string) (rt : bool)
| KStmt (fd : list (Z * string)) (w : nat) (s : stmt) (r : ires string) (cert : bool)
| KMeta (fd : list (Z * string)) (w : nat) (m : fmeta) (r : ires string) (cert : bool)
| KFile (fd : list (Z * string)) (w : nat) (f : sfile) (r : ires string) (cert : bool).

Fixpoint list_eqb {A} (eqb : A -> A -> bool) (l1 l2 : list A) : bool :=
  match l1, l2 with
  | [], [] => true
  | x :: t1, y :: t2 => eqb x y && list_eqb eqb t1 t2
  | _, _ => false
  end.

Definition opt_eqb {A} (eqb : A -> A -> bool) (a b : option A) : bool :=
  match a, b with Some x, Some y => eqb x y | None, None => true | _, _ => false end.

Definition sigil_eqb (a b : sigil) : bool := match a, b with SgI, SgI | SgF, SgF => true | _, _ => false end.
Definition var_eqb (a b : fvar) : bool :=
  match a, b with
  | VNamed s1 n1, VNamed s2 n2 => opt_eqb sigil_eqb s1 s2 && String.eqb n1 n2
  | VReg s1 r1, VReg s2 r2 => opt_eqb sigil_eqb s1 s2 && (r1 =? r2)
  | _, _ => false
  end.
Definition cname_eqb (a b : cname) : bool :=
  match a, b with CNormal x, CNormal y => String.eqb x y | CIns x, CIns y => x =? y | _, _ => false end.
Definition radix_eqb (a b : radix) : bool :=
  match a, b with RDec, RDec | RHex, RHex | RBin, RBin | RBool, RBool => true | _, _ => false end.
Definition fmt_eqb (a b : intfmt) : bool := match a, b with IF s1 r1, IF s2 r2 => Bool.eqb s1 s2 && radix_eqb r1 r2 end.

Fixpoint fexpr_eqb (a b : fexpr) : bool :=
  match a, b with
  | FTern c1 l1 r1, FTern c2 l2 r2 => fexpr_eqb c1 c2 && fexpr_eqb l1 l2 && fexpr_eqb r1 r2
  | FBin a1 o1 b1, FBin a2 o2 b2 => String.eqb o1 o2 && fexpr_eqb a1 a2 && fexpr_eqb b1 b2
  | FUn o1 x, FUn o2 y => String.eqb o1 o2 && fexpr_eqb x y
  | FXcr p1 i1 v1, FXcr p2 i2 v2 => Bool.eqb p1 p2 && Bool.eqb i1 i2 && var_eqb v1 v2
  | FVar v1, FVar v2 => var_eqb v1 v2
  | FCall n1 p1 a1, FCall n2 p2 a2 =>
      cname_eqb n1 n2
      && (fix go (l1 l2 : list (string * fexpr)) : bool :=
            match l1, l2 with
            | [], [] => true
            | (k1, x) :: t1, (k2, y) :: t2 => String.eqb k1 k2 && fexpr_eqb x y && go t1 t2
            | _, _ => false
            end) p1 p2
      && (fix go (l1 l2 : list fexpr) : bool :=
            match l1, l2 with
            | [], [] => true
            | x :: t1, y :: t2 => fexpr_eqb x y && go t1 t2
            | _, _ => false
            end) a1 a2
  | FDiff l1, FDiff l2 =>
      (fix go (l1 l2 : list (option fexpr)) : bool :=
         match l1, l2 with
         | [], [] => true
         | None :: t1, None :: t2 => go t1 t2
         | Some x :: t1, Some y :: t2 => fexpr_eqb x y && go t1 t2
         | _, _ => false
         end) l1 l2
  | FLitI v1 f1, FLitI v2 f2 => (v1 =? v2) && fmt_eqb f1 f2
  | FLitF b1, FLitF b2 => b1 =? b2
  | FLitS s1, FLitS s2 => String.eqb s1 s2
  | FLabelProp k1 l1, FLabelProp k2 l2 => String.eqb k1 k2 && String.eqb l1 l2
  | FEnum a1 b1, FEnum a2 b2 => String.eqb a1 a2 && String.eqb b1 b2
  | _, _ => false
  end.

Definition agree {A B} (eqb : A -> B -> bool) (m : outcome A) (i : ires B) : bool :=
  match m, i with
  | Ok a, IOk b => eqb a b
  | Err _, IErr => true
  | Panic _, IPanic => true
  | _, _ => false
  end.

Fixpoint zassoc_str (l : list (Z * string)) (k : Z) : string :=
  match l with [] => "?"%string | (k', v) :: t => if k =? k' then v else zassoc_str t k end.
Fixpoint sassoc_z (l : list (string * Z)) (k : string) : Z :=
  match l with [] => -1 | (k', v) :: t => if String.eqb k k' then v else sassoc_z t k end.

(* rendering agrees with the implementation; when the lexing certificate is requested, the model
   lexer run on the text gives exactly the tokens the document consists of (plus the optional
   trailing commas) *)
Definition render_agrees (w : nat) (d : doc) (r : ires string) (cert : bool) : bool :=
  match render_items w d, r with
  | Ok its, IOk text =>
      String.eqb (concat_text its) text
      && (negb cert || match lex text with Ok ts => list_eqb token_eqb ts (otoks its) | _ => false end)
      && list_eqb token_eqb (otoks_nt its) (dtoks d)
  | Panic _, IPanic => true
  | _, _ => false
  end.

Definition model_of (c : c08case) : bool :=
  match c with
  | KLex text r => agree (list_eqb token_eqb) (lex text) r
  | KParse ftab text r => agree fexpr_eqb (parse_text (sassoc_z ftab) text) r
  | KInt f v text =>
      String.eqb (print_int f v) text
      && match parse_text (fun _ => 0) text with Ok e => fexpr_eqb (fold e) (FLitI v dec_fmt) | _ => false end
  | KStr s text =>
      String.eqb (print_string s) text
      && match parse_string_literal text with Ok s' => String.eqb s s' | _ => false end
  | KExpr fdt sup w e r rt =>
      let fd := zassoc_str fdt in
      let p := pr_expr fd e in
      render_agrees w (DSeq (pp fd sup e)) r p
      && (negb (p && no_odd_nan e) || rt)
      && (negb p ||
          (* the parser specification on the inline layout gives the expected tree *)
          let pf := fun s => sassoc_z (map (fun kv => (let t := snd kv in if has_dot t then t else (t ^^ ".0")%string, fst kv)) fdt) s in
          match parse_tokens pf (expr_toks fd sup e) with Ok e' => fexpr_eqb e' (unfold e) | _ => false end)
  | KStmt fdt w s r cert => render_agrees w (stmt_doc (zassoc_str fdt) s) r cert
  | KMeta fdt w m r cert => render_agrees w (meta_doc (zassoc_str fdt) m) r cert
  | KFile fdt w f r cert => render_agrees w (file_doc (zassoc_str fdt) f) r cert
  end.

Fixpoint mismatches (n : N) (l : list c08case) : list N :=
  match l with
  | [] => []
  | c :: t => if model_of c then mismatches (n + 1) t else n :: mismatches (n + 1) t
  end.
