(* Corr/C04.v -- correspondence runner for C04: the typing discipline of Model/Typing.v against
   passes::type_check on generated programs (`ins_900(e)` expects an int, `ins_901(e)` a float). *)
From TV Require Import Base.I32 Base.F32 Model.Ops Model.Expr Model.Typing Model.Diag Gen.OpTable Gen.EmitSites.
Open Scope Z_scope.

Inductive ires (A : Type) := IOk (a : A) | IErr | IPanic.
Arguments IOk {A} a. Arguments IErr {A}. Arguments IPanic {A}.

Inductive c04case :=
| KTc (consts : list (nat * ty)) (e : expr) (want : ty) (r : ires bool).   (* accepted by type_check? *)

Fixpoint assoc_ty (l : list (nat * ty)) (k : nat) : option ty :=
  match l with [] => None | (k', t) :: r => if Nat.eqb k k' then Some t else assoc_ty r k end.

Definition model_of (c : c04case) : bool :=
  match c with
  | KTc consts e want r =>
      let accepted := match tc gen_optable (assoc_ty consts) (fun _ => TInt) (fun _ => None) (fun _ => TInt) e with
                      | Some t => ty_eqb t want
                      | None => false
                      end in
      match r with IOk b => Bool.eqb accepted b | _ => false end
  end.

Fixpoint mismatches (n : N) (l : list c04case) : list N :=
  match l with
  | [] => []
  | c :: t => if model_of c then mismatches (n + 1) t else n :: mismatches (n + 1) t
  end.

(* emit sites outside the discipline (indices into gen_emit_sites) *)
Definition undisciplined_sites : list nat := bad_sites gen_emit_sites.
