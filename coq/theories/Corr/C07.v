(* Corr/C07.v -- correspondence runner for C07.  A case carries the flat stream F the passes saw,
   the implementation's AST after each of the four passes (run one by one on F), and the AST the
   default decompilation produced; [model_of] recomputes each of them with the model. *)
From TV Require Import Base.I32 Model.Structure Gen.StructTable.
Open Scope nat_scope.

Inductive c07case :=
| KStruct (f p1 p2 p3 p4 s : list stmt).

Definition opt_eqb {A} (eqb : A -> A -> bool) (a b : option A) : bool :=
  match a, b with
  | None, None => true
  | Some x, Some y => eqb x y
  | _, _ => false
  end.

Section ListEqb.
  Context {A : Type}.
  Variable eqb : A -> A -> bool.
  Fixpoint list_eqb (l1 l2 : list A) : bool :=
    match l1, l2 with
    | [], [] => true
    | x :: t1, y :: t2 => eqb x y && list_eqb t1 t2
    | _, _ => false
    end.
End ListEqb.

Definition cond_eqb (a b : cond) : bool :=
  match a, b with
  | CBin o1 a1 b1, CBin o2 a2 b2 => binop_eqb o1 o2 && Nat.eqb a1 a2 && Nat.eqb b1 b2
  | CCnt o1 a1 b1, CCnt o2 a2 b2 => binop_eqb o1 o2 && Nat.eqb a1 a2 && Nat.eqb b1 b2
  | COther n1, COther n2 => Nat.eqb n1 n2
  | _, _ => false
  end.

Definition jk_eqb (a b : jk) : bool :=
  match a, b with
  | JU, JU => true
  | JC c1, JC c2 => cond_eqb c1 c2
  | _, _ => false
  end.

Definition diff_eqb : diff -> diff -> bool := opt_eqb Nat.eqb.

Fixpoint stmt_eqb (a b : stmt) : bool :=
  match a, b with
  | SIns d1 i1 r1, SIns d2 i2 r2 => diff_eqb d1 d2 && Nat.eqb i1 i2 && list_eqb Nat.eqb r1 r2
  | SIntr d1 n1, SIntr d2 n2 => diff_eqb d1 d2 && Nat.eqb n1 n2
  | SNo, SNo => true
  | SLabel l1, SLabel l2 => Nat.eqb l1 l2
  | STime a1 t1, STime a2 t2 => Bool.eqb a1 a2 && Z.eqb t1 t2
  | SJump d1 k1 l1 t1, SJump d2 k2 l2 t2 => diff_eqb d1 d2 && jk_eqb k1 k2 && Nat.eqb l1 l2 && opt_eqb Z.eqb t1 t2
  | SBreak d1 k1, SBreak d2 k2 => diff_eqb d1 d2 && jk_eqb k1 k2
  | SLoop k1 b1, SLoop k2 b2 => jk_eqb k1 k2 && list_eqb stmt_eqb b1 b2
  | SChain bs1 e1, SChain bs2 e2 =>
      (fix go (l1 l2 : list (cond * list stmt)) : bool :=
         match l1, l2 with
         | [], [] => true
         | (c1, x) :: t1, (c2, y) :: t2 => cond_eqb c1 c2 && list_eqb stmt_eqb x y && go t1 t2
         | _, _ => false
         end) bs1 bs2
      && match e1, e2 with
         | None, None => true
         | Some x, Some y => list_eqb stmt_eqb x y
         | _, _ => false
         end
  | _, _ => false
  end.
Definition prog_eqb : list stmt -> list stmt -> bool := list_eqb stmt_eqb.

Definition run_gen (q : spass) : list stmt -> list stmt := run_pass gen_negcmp gen_guards q.

(* which of the six comparisons fail: 1 = loop pass, 2 = if/else pass (on the implementation's P1), 3 = break
   pass (on P2), 4 = unused labels (on P3), 5 = the composition in the generated pass order vs the default
   decompilation, 6 = the input is not a flat bookended stream *)
Definition failing (c : c07case) : list nat :=
  match c with
  | KStruct f p1 p2 p3 p4 s =>
      (if prog_eqb (run_gen PLoop f) p1 then [] else [1])
      ++ (if prog_eqb (run_gen PIfElse p1) p2 then [] else [2])
      ++ (if prog_eqb (run_gen PBreak p2) p3 then [] else [3])
      ++ (if prog_eqb (run_gen PUnused p3) p4 then [] else [4])
      ++ (if prog_eqb (structure_with gen_negcmp gen_guards gen_pass_order f) s then [] else [5])
      ++ (if is_flat f then [] else [6])
  end.

Definition model_of (c : c07case) : bool := is_nil (failing c).

Fixpoint mismatches (n : N) (l : list c07case) : list N :=
  match l with
  | [] => []
  | c :: t => if model_of c then mismatches (n + 1) t else n :: mismatches (n + 1) t
  end.

(* the model's own consequence of the theorem, evaluated on the implementation's input: the canonical
   stream of the reconstructed program equals that of the flat one (used by the check as a second,
   model-level oracle when a proof breaks) *)
Definition canon_agrees (c : c07case) : bool :=
  match c with
  | KStruct f _ _ _ _ s =>
      list_eqb (fun a b =>
                  match a, b with
                  | (t1, d1, b1), (t2, d2, b2) =>
                      Z.eqb t1 t2 && diff_eqb d1 d2 &&
                      match b1, b2 with
                      | BIns i1 r1, BIns i2 r2 =>
                          Nat.eqb i1 i2 && list_eqb (opt_eqb (fun x y => Nat.eqb (fst x) (fst y) && Z.eqb (snd x) (snd y))) r1 r2
                      | BIntr n1, BIntr n2 => Nat.eqb n1 n2
                      | BJump k1 g1 e1, BJump k2 g2 e2 =>
                          match k1, k2 with
                          | KU, KU => true
                          | KIf c1, KIf c2 | KUnless c1, KUnless c2 => cond_eqb c1 c2
                          | _, _ => false
                          end
                          && opt_eqb (fun x y => Nat.eqb (fst x) (fst y) && Z.eqb (snd x) (snd y)) g1 g2
                          && opt_eqb Z.eqb e1 e2
                      | _, _ => false
                      end
                  end)
               (canon_of gen_negcmp s) (canon_of gen_negcmp f)
  end.

Fixpoint canon_mismatches (n : N) (l : list c07case) : list N :=
  match l with
  | [] => []
  | c :: t => if canon_agrees c then canon_mismatches (n + 1) t else n :: canon_mismatches (n + 1) t
  end.
