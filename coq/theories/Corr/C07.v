(* Corr/C07.v -- correspondence runner for C07.  A case carries the flat stream F the passes saw,
   the implementation's AST after each of the four passes (run one by one on F), and the AST the
   default decompilation produced; [model_of] recomputes each of them with the model. *)
From TV Require Import Base.I32 Model.Structure Gen.StructTable.
Open Scope nat_scope.

(* KStruct: everything as terms (replays, diagnosis).  KHash: the flat stream as a term and the
   implementation's five results (after each pass, and the default decompilation) as hashes of their
   token encoding -- elaborating the six programs of a case as Coq terms dominates the run time otherwise. *)
Inductive c07case :=
| KStruct (f p1 p2 p3 p4 s : list stmt)
| KHash (f : list stmt) (hs : list N).

Definition opt_eqb {A} (eqb : A -> A -> bool) (a b : option A) : bool :=
  match a, b with
  | None, None => true
  | Some x, Some y => eqb x y
  | _, _ => false
  end.

Section ListEqb.
  Context {A : Type}.
  Variable eqb : A -> A -> bool.
  Fixpoint list_eqb (l1 l2 : list A) : bool :=
    match l1, l2 with
    | [], [] => true
    | x :: t1, y :: t2 => eqb x y && list_eqb t1 t2
    | _, _ => false
    end.
End ListEqb.

Definition cond_eqb (a b : cond) : bool :=
  match a, b with
  | CBin o1 a1 b1, CBin o2 a2 b2 => binop_eqb o1 o2 && Nat.eqb a1 a2 && Nat.eqb b1 b2
  | CCnt o1 a1 b1, CCnt o2 a2 b2 => binop_eqb o1 o2 && Nat.eqb a1 a2 && Nat.eqb b1 b2
  | COther n1, COther n2 => Nat.eqb n1 n2
  | _, _ => false
  end.

Definition jk_eqb (a b : jk) : bool :=
  match a, b with
  | JU, JU => true
  | JC c1, JC c2 => cond_eqb c1 c2
  | _, _ => false
  end.

Definition diff_eqb : diff -> diff -> bool := opt_eqb Nat.eqb.

Fixpoint stmt_eqb (a b : stmt) : bool :=
  match a, b with
  | SIns d1 i1 r1, SIns d2 i2 r2 => diff_eqb d1 d2 && Nat.eqb i1 i2 && list_eqb Nat.eqb r1 r2
  | SIntr d1 n1, SIntr d2 n2 => diff_eqb d1 d2 && Nat.eqb n1 n2
  | SNo, SNo => true
  | SLabel l1, SLabel l2 => Nat.eqb l1 l2
  | STime a1 t1, STime a2 t2 => Bool.eqb a1 a2 && Z.eqb t1 t2
  | SJump d1 k1 l1 t1, SJump d2 k2 l2 t2 => diff_eqb d1 d2 && jk_eqb k1 k2 && Nat.eqb l1 l2 && opt_eqb Z.eqb t1 t2
  | SBreak d1 k1, SBreak d2 k2 => diff_eqb d1 d2 && jk_eqb k1 k2
  | SLoop k1 b1, SLoop k2 b2 => jk_eqb k1 k2 && list_eqb stmt_eqb b1 b2
  | SChain bs1 e1, SChain bs2 e2 =>
      (fix go (l1 l2 : list (cond * list stmt)) : bool :=
         match l1, l2 with
         | [], [] => true
         | (c1, x) :: t1, (c2, y) :: t2 => cond_eqb c1 c2 && list_eqb stmt_eqb x y && go t1 t2
         | _, _ => false
         end) bs1 bs2
      && match e1, e2 with
         | None, None => true
         | Some x, Some y => list_eqb stmt_eqb x y
         | _, _ => false
         end
  | _, _ => false
  end.
Definition prog_eqb : list stmt -> list stmt -> bool := list_eqb stmt_eqb.

(* the faithful setting: a negated count jump does not compile *)
Definition CNTNEG : bool := false.
Definition run_gen (q : spass) : list stmt -> list stmt := run_pass gen_negcmp gen_guards q.

(* which of the six comparisons fail: 1 = loop pass, 2 = if/else pass (on the implementation's P1), 3 = break
   pass (on P2), 4 = unused labels (on P3), 5 = the composition in the generated pass order vs the default
   decompilation, 6 = the input is not a flat bookended stream *)
(* token encoding; the harness (c07.rs: e_stmt) produces the same tokens from the implementation's AST *)
Definition binop_index (op : binop) : N :=
  match op with
  | Add => 0 | Sub => 1 | Mul => 2 | Div => 3 | Rem => 4 | Eq => 5 | Ne => 6 | Lt => 7 | Le => 8 | Gt => 9 | Ge => 10
  | BitOr => 11 | BitXor => 12 | BitAnd => 13 | LogicOr => 14 | LogicAnd => 15 | ShiftLeft => 16
  | ShiftRightSigned => 17 | ShiftRightUnsigned => 18
  end%N.
Definition e_nat (n : nat) : N := N.of_nat n.
Definition e_diff (d : diff) : N := match d with None => 0%N | Some k => (N.of_nat k + 1)%N end.
Definition e_cond (c : cond) : list N :=
  match c with
  | CBin op a b => [0%N; binop_index op; e_nat a; e_nat b]
  | CCnt op a b => [1%N; binop_index op; e_nat a; e_nat b]
  | COther n => [2%N; e_nat n]
  end.
Definition e_jk (k : jk) : list N := match k with JU => [0%N] | JC c => 1%N :: e_cond c end.
Definition e_z (t : Z) : list N := [if (t <? 0)%Z then 1%N else 0%N; Z.abs_N t].
Fixpoint e_stmt (s : stmt) : list N :=
  match s with
  | SIns d i r => 0%N :: e_diff d :: e_nat i :: e_nat (length r) :: map e_nat r
  | SIntr d n => [1%N; e_diff d; e_nat n]
  | SNo => [2%N]
  | SLabel l => [3%N; e_nat l]
  | STime a t => 4%N :: (if a then 1%N else 0%N) :: e_z t
  | SJump d k l t => 5%N :: e_diff d :: e_jk k ++ [e_nat l] ++ match t with None => [0%N] | Some t => 1%N :: e_z t end
  | SBreak d k => 6%N :: e_diff d :: e_jk k
  | SLoop k b => 7%N :: e_jk k ++ e_nat (length b) :: flat_map e_stmt b
  | SChain bs els =>
      8%N :: e_nat (length bs)
      :: flat_map (fun cb => e_cond (fst cb) ++ e_nat (length (snd cb)) :: flat_map e_stmt (snd cb)) bs
      ++ match els with None => [0%N] | Some b => 1%N :: e_nat (length b) :: flat_map e_stmt b end
  end.
Definition e_prog (p : list stmt) : list N := e_nat (length p) :: flat_map e_stmt p.
Definition HASH_P : N := 2305843009213693951%N.
Definition hash_prog (p : list stmt) : N :=
  fold_left (fun h t => ((h * 1000003 + t + 1) mod HASH_P)%N) (e_prog p) 7%N.

(* token encoding of a canonical stream (harness: hash_canon) *)
Definition e_state (x : option state) : list N :=
  match x with None => [0%N] | Some (i, t) => 1%N :: e_nat i :: e_z t end.
Definition e_item (it : citem) : list N :=
  match it with
  | (t, d, b) =>
      e_z t ++ e_diff d ::
      match b with
      | BIns i refs => 0%N :: e_nat i :: e_nat (length refs) :: flat_map e_state refs
      | BIntr n => [1%N; e_nat n]
      | BJump k tgt ex =>
          2%N :: match k with KU => [0%N] | KIf c => 1%N :: e_cond c | KUnless c => 2%N :: e_cond c end
          ++ e_state tgt ++ match ex with None => [0%N] | Some t => 1%N :: e_z t end
      end
  end.
Definition hash_canon (l : list citem) : N :=
  fold_left (fun h t => ((h * 1000003 + t + 1) mod HASH_P)%N) (e_nat (length l) :: flat_map e_item l) 7%N.

(* comparisons 8 and 9: the model's canonical stream ([canon_of], on which the theorems rest) against the
   implementation's own flattening -- desugar_blocks + time pass + label resolution done by the harness --
   of the flat decompilation (8) and of the reconstructed program (9) *)
Definition failing (c : c07case) : list nat :=
  match c with
  | KHash f hs =>
      let m1 := run_gen PLoop f in
      let m2 := run_gen PIfElse m1 in
      let m3 := run_gen PBreak m2 in
      let m4 := run_gen PUnused m3 in
      let ms := structure_with gen_negcmp gen_guards gen_pass_order f in
      (fix go (k : nat) (ms : list (list stmt)) (hs : list N) : list nat :=
         match ms, hs with
         | [], [] => []
         | m :: ms', h :: hs' => (if N.eqb (hash_prog m) h then [] else [k]) ++ go (S k) ms' hs'
         | _, _ => [7]
         end) 1 [m1; m2; m3; m4; ms] (firstn 5 hs)
      ++ (if is_flat f then [] else [6])
      ++ match skipn 5 hs with
         | [hf; hs'] =>
             (if N.eqb (hash_canon (canon_of gen_negcmp CNTNEG f)) hf then [] else [8])
             ++ (if N.eqb (hash_canon (canon_of gen_negcmp CNTNEG ms)) hs' then [] else [9])
         | _ => [7]
         end
  | KStruct f p1 p2 p3 p4 s =>
      (if prog_eqb (run_gen PLoop f) p1 then [] else [1])
      ++ (if prog_eqb (run_gen PIfElse p1) p2 then [] else [2])
      ++ (if prog_eqb (run_gen PBreak p2) p3 then [] else [3])
      ++ (if prog_eqb (run_gen PUnused p3) p4 then [] else [4])
      ++ (if prog_eqb (structure_with gen_negcmp gen_guards gen_pass_order f) s then [] else [5])
      ++ (if is_flat f then [] else [6])
  end.

Definition model_of (c : c07case) : bool := is_nil (failing c).

Fixpoint mismatches (n : N) (l : list c07case) : list N :=
  match l with
  | [] => []
  | c :: t => if model_of c then mismatches (n + 1) t else n :: mismatches (n + 1) t
  end.

(* the model's own consequence of the theorem, evaluated on the implementation's input: the canonical
   stream of the reconstructed program equals that of the flat one (used by the check as a second,
   model-level oracle when a proof breaks) *)
Definition canon_agrees_with (cn : bool) (c : c07case) : bool :=
  let '(f, s) := match c with
                 | KStruct f _ _ _ _ s => (f, s)
                 | KHash f _ => (f, structure_with gen_negcmp gen_guards gen_pass_order f)   (* = the implementation's, by the hash *)
                 end in
      list_eqb (fun a b =>
                  match a, b with
                  | (t1, d1, b1), (t2, d2, b2) =>
                      Z.eqb t1 t2 && diff_eqb d1 d2 &&
                      match b1, b2 with
                      | BIns i1 r1, BIns i2 r2 =>
                          Nat.eqb i1 i2 && list_eqb (opt_eqb (fun x y => Nat.eqb (fst x) (fst y) && Z.eqb (snd x) (snd y))) r1 r2
                      | BIntr n1, BIntr n2 => Nat.eqb n1 n2
                      | BJump k1 g1 e1, BJump k2 g2 e2 =>
                          match k1, k2 with
                          | KU, KU => true
                          | KIf c1, KIf c2 | KUnless c1, KUnless c2 => cond_eqb c1 c2
                          | _, _ => false
                          end
                          && opt_eqb (fun x y => Nat.eqb (fst x) (fst y) && Z.eqb (snd x) (snd y)) g1 g2
                          && opt_eqb Z.eqb e1 e2
                      | _, _ => false
                      end
                  end)
               (canon_of gen_negcmp cn s) (canon_of gen_negcmp cn f).
Definition canon_agrees : c07case -> bool := canon_agrees_with CNTNEG.

Fixpoint canon_mismatches (n : N) (l : list c07case) : list N :=
  match l with
  | [] => []
  | c :: t => if canon_agrees c then canon_mismatches (n + 1) t else n :: canon_mismatches (n + 1) t
  end.

(* both evaluations in one pass over the cases: model/implementation disagreements as i, canonical-stream
   disagreements as 1000000 + i *)
(* canonical streams that differ even for a compiler that could lower a negated count jump *)
Fixpoint canon_mismatches_ideal (n : N) (l : list c07case) : list N :=
  match l with
  | [] => []
  | c :: t => if canon_agrees_with true c then canon_mismatches_ideal (n + 1) t else n :: canon_mismatches_ideal (n + 1) t
  end.
Definition both_mismatches (n : N) (l : list c07case) : list N :=
  mismatches n l ++ map (N.add 1000000) (canon_mismatches n l) ++ map (N.add 2000000) (canon_mismatches_ideal n l).
