(* Corr/C03.v -- correspondence runner for C03: each case is one script that went through the
   implementation's writer and reader; [model_of] recomputes both with the model over the generated
   format tables and compares bytes and instructions. *)
From TV Require Import Base.I32 Model.Container Gen.InstrHeader.
Open Scope Z_scope.

(* ISame: the implementation returned exactly what was asked for *)
Inductive ires (A : Type) := IOk (a : A) | IErr | IPanic | ISame.
Arguments IOk {A} a. Arguments IErr {A}. Arguments IPanic {A}. Arguments ISame {A}.

(* byte strings are lists of segments: n copies of a byte, or n bytes given as one little-endian number *)
Inductive seg := Rp (b n : Z) | Rw (n v : Z).
Fixpoint unrle (l : list seg) : list Z :=
  match l with
  | [] => []
  | Rp b n :: t => repeat b (Z.to_nat n) ++ unrle t
  | Rw n v :: t => le_encode (Z.to_nat n) v ++ unrle t
  end.

Definition mkI (time opcode mask : Z) (args : list seg) (diff pop extra argc : Z) : instr :=
  mkInstr time opcode mask (unrle args) diff pop extra argc.

(* an instruction whose argument bytes are [len] bytes at offset [off] of the bytes the implementation
   wrote (the harness has compared them with the requested blob before using this form: it only saves
   repeating the bytes in the case file) *)
Inductive cinstr := CI (time opcode mask : Z) (args : list seg) (diff pop extra argc : Z)
                  | CS (time opcode mask : Z) (off len : Z) (diff pop extra argc : Z).
Definition slice (reg : list Z) (off len : Z) : list Z := firstn (Z.to_nat len) (skipn (Z.to_nat off) reg).
Definition of_cinstr (reg : list Z) (c : cinstr) : instr :=
  match c with
  | CI t o m a d p e n => mkInstr t o m (unrle a) d p e n
  | CS t o m off len d p e n => mkInstr t o m (slice reg off len) d p e n
  end.

(* one script: the format of its instructions, whether another script follows it in the file (then the
   reader is given the offset of that script as end offset), its offset, the instructions asked for,
   what the writer did (the bytes of the file from the script's offset on) and what the reader returned *)
Inductive c03case :=
| KScript (f : fmt) (next : bool) (start : Z) (l : list cinstr) (w : ires (list seg)) (r : ires (list cinstr))
(* a string list of a stack-ECL file: the strings as the bytes of their Shift-JIS encoding, the bytes that must
   follow the list in the file (the next magic), and the bytes of the file from the start of the list *)
| KStrList (ss : list (list seg)) (follow : list seg) (region : list seg).

Fixpoint zlist_eqb (a b : list Z) : bool :=
  match a, b with
  | [], [] => true
  | x :: t1, y :: t2 => (x =? y) && zlist_eqb t1 t2
  | _, _ => false
  end.
Fixpoint prefixb (a b : list Z) : bool :=
  match a, b with
  | [], _ => true
  | x :: t1, y :: t2 => (x =? y) && prefixb t1 t2
  | _, _ => false
  end.
Definition instr_eqb (a b : instr) : bool :=
  (i_time a =? i_time b) && (i_opcode a =? i_opcode b) && (i_mask a =? i_mask b) && zlist_eqb (i_args a) (i_args b) &&
  (i_diff a =? i_diff b) && (i_pop a =? i_pop b) && (i_extra a =? i_extra b) && (i_argc a =? i_argc b).
Fixpoint instrs_eqb (a b : list instr) : bool :=
  match a, b with
  | [], [] => true
  | x :: t1, y :: t2 => instr_eqb x y && instrs_eqb t1 t2
  | _, _ => false
  end.

Definition agree_read (asked : list instr) (m : outcome (list instr)) (i : ires (list instr)) : bool :=
  match m, i with
  | Ok a, IOk b => instrs_eqb a b
  | Ok a, ISame => instrs_eqb a asked
  | Err _, IErr => true
  | Panic _, IPanic => true
  | _, _ => false
  end.

Definition map_ires {A B} (g : A -> B) (i : ires A) : ires B :=
  match i with IOk a => IOk (g a) | IErr => IErr | IPanic => IPanic | ISame => ISame end.

Definition model_of (c : c03case) : bool :=
  match c with
  | KStrList ss follow region =>
      let reg := unrle region in
      let strs := map unrle ss in
      prefixb (write_string_list strs ++ unrle follow) reg &&
      match read_string_list (length strs) reg with
      | Some (back, rest) => prefixb (unrle follow) rest &&
          (fix eq (a b : list (list Z)) : bool :=
             match a, b with [], [] => true | x :: t1, y :: t2 => zlist_eqb x y && eq t1 t2 | _, _ => false end) back strs
      | None => false
      end
  | KScript f next start cl w r =>
      let reg := match w with IOk segs => unrle segs | _ => [] end in
      let l := map (of_cinstr reg) cl in
      match write_instrs f l, w with
      | Ok mw, IOk _ =>
          prefixb mw reg &&
          agree_read l (read_instrs f reg start (if next then Some (start + Z.of_nat (length mw)) else None))
                     (map_ires (map (of_cinstr reg)) r)
      | Err _, IErr => true
      | Panic _, IPanic => true
      | _, _ => false
      end
  end.

Fixpoint mismatches (n : N) (l : list c03case) : list N :=
  match l with
  | [] => []
  | c :: t => if model_of c then mismatches (n + 1) t else n :: mismatches (n + 1) t
  end.

(* for the report: which header fields of which generated format are unchecked (1 time, 2 opcode, 3 mask,
   4 difficulty, 5 pop, 6 extra, 7 argc, 8 size; 11.. = the same field when the writer stores a literal
   instead of the field), and whether the format's end marker can be forged (10) *)
Definition fld_code (g : fld) : Z :=
  match g with
  | FTime => 1 | FOpcode => 2 | FMask => 3 | FDiff => 4 | FPop => 5 | FExtra => 6 | FArgc => 7
  | FArgsLen => 8 | FInstrSize => 8 | FConst _ => 9
  end.
Fixpoint unchecked_codes (f : fmt) (ws : list wfield) (rs : list rfield) : list Z :=
  match ws, rs with
  | w :: t1, r :: t2 =>
      (if pair_checked f w r then [] else [(if is_const (w_fld w) then 10 else 0) + fld_code (r_fld r)]) ++ unchecked_codes f t1 t2
  | _, _ => []
  end.
Definition unchecked_report : list (list Z) :=
  map (fun f => unchecked_codes f (f_write f) (f_read f) ++ (if terminal_forgeable f then [10] else [])) gen_formats.
Definition status_report : list bool := map all_checked gen_formats.
Definition fmt_ok_report : list bool := map fmt_ok gen_formats.
