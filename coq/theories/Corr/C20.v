(* Corr/C20.v -- correspondence runner for C20: each case carries what truth-cli wrote (read back by the
   harness's own walkers over the output bytes); [model_of] recomputes it with Model/Ids.v. *)
From TV Require Import Base.I32 Base.F32 Model.Ops Model.Expr Gen.OpTable Model.Ids Gen.Ids Model.IdsExpr.
Open Scope Z_scope.

Inductive ires (A : Type) := IOk (a : A) | IErr | IPanic.
Arguments IOk {A} a. Arguments IErr {A}. Arguments IPanic {A}.

Definition sx (n : nat) (id : option expr) : sprite_src := {| ss_name := n; ss_id := id |}.
Definition sc (n : nat) (num : option Z) : script_src := {| sc_name := n; sc_number := num |}.
Definition te (s : option nat) (f : Z) : tentry := {| te_script := s; te_flags := f |}.
Definition mk_sparse (len : nat) (tbl : list (nat * tentry)) (d : tentry) : sparse :=
  {| sp_len := len; sp_tbl := tbl; sp_default := d |}.

Inductive c20case :=
| KAnm (consts : list (nat * expr)) (entries : list (list sprite_src)) (scripts : list script_src) (uses : list use_src)
       (r : ires (list Z * list Z * list Z))     (* sprite ids, script numbers (i32), argument values (u32) *)
| KEcl (names uses : list nat) (numbers : list (option Z)) (r : ires (list Z * list nat))
| KPos (names uses : list nat) (r : ires (list Z))
| KMsg (has_flags : bool) (s : sparse) (scripts : list (nat * Z)) (r : ires (list (Z * Z)))
| KSparse (dense : list tentry) (s : sparse).

Definition T := gen_idtable.

(* transcendental functions are never generated *)
Definition libm0 (_ : unop) (_ : Z) : Z := 0.
Definition FUEL : nat := 200.

Fixpoint list_eqb {A} (eqb : A -> A -> bool) (l1 l2 : list A) : bool :=
  match l1, l2 with
  | [], [] => true
  | x :: t1, y :: t2 => eqb x y && list_eqb eqb t1 t2
  | _, _ => false
  end.

Definition agree {A B} (eqb : A -> B -> bool) (m : outcome A) (i : ires B) : bool :=
  match m, i with
  | Ok a, IOk b => eqb a b
  | Err _, IErr => true
  | Panic _, IPanic => true
  | _, _ => false
  end.

Definition zz_eqb (a b : Z * Z) : bool := (fst a =? fst b) && (snd a =? snd b).

Definition sparse_eqb (a b : sparse) : bool :=
  Nat.eqb (sp_len a) (sp_len b) &&
  list_eqb (fun x y : nat * tentry => Nat.eqb (fst x) (fst y) && tentry_eqb (snd x) (snd y)) (sp_tbl a) (sp_tbl b) &&
  tentry_eqb (sp_default a) (sp_default b).

Definition model_of (c : c20case) : bool :=
  match c with
  | KAnm consts entries scripts uses r =>
      agree (fun a b : list Z * list Z * list Z =>
               list_eqb Z.eqb (fst (fst a)) (fst (fst b)) && list_eqb Z.eqb (snd (fst a)) (snd (fst b)) && list_eqb Z.eqb (snd a) (snd b))
        (compile_anm_src gen_optable libm0 FUEL T
           {| as_consts := consts; as_entries := entries; as_scripts := scripts; as_uses := uses |}) r
  | KEcl names uses numbers r =>
      agree (fun a b : list Z * list nat => list_eqb Z.eqb (fst a) (fst b) && list_eqb Nat.eqb (snd a) (snd b))
        (do args <- compile_positions (it_sub_const T) names uses;
         do idxs <- timeline_indices T numbers; Ok (args, idxs)) r
  | KPos names uses r => agree (list_eqb Z.eqb) (compile_positions (it_std_object T) names uses) r
  | KMsg hf s scripts r => agree (list_eqb zz_eqb) (compile_msg T hf s scripts) r
  | KSparse dense s => sparse_eqb (sparsify dense) s
  end.

Fixpoint mismatches (n : N) (l : list c20case) : list N :=
  match l with
  | [] => []
  | c :: t => if model_of c then mismatches (n + 1) t else n :: mismatches (n + 1) t
  end.
