(* Corr/C11.v -- correspondence runner for C11: each case carries the implementation's observed
   result; [check] recomputes it with the model. *)
From TV Require Import Base.I32 Base.F32 Model.Ops Model.Expr Spec.MachineOps Gen.OpTable.
Open Scope Z_scope.

Inductive ires (A : Type) := IOk (a : A) | IErr | IPanic.
Arguments IOk {A} a. Arguments IErr {A}. Arguments IPanic {A}.

Inductive c11case :=
| KBin (op : binop) (a b : value) (r : ires value)
| KUn (op : unop) (a : value) (r : ires (option value))
| KSimp (defs : list (nat * expr)) (es : list expr) (r : ires (list expr))
| KEval (regs : list (Z * value)) (e : expr) (diff : nat) (r : ires value).

Fixpoint list_eqb {A} (eqb : A -> A -> bool) (l1 l2 : list A) : bool :=
  match l1, l2 with
  | [], [] => true
  | x :: t1, y :: t2 => eqb x y && list_eqb eqb t1 t2
  | _, _ => false
  end.

Definition value_eqb (a b : value) : bool :=
  match a, b with
  | VInt x, VInt y => x =? y
  | VFloat x, VFloat y => fcanon x =? fcanon y
  | VStr x, VStr y => list_eqb Z.eqb x y
  | _, _ => false
  end.

Definition sigil_eqb (a b : option sigil) : bool :=
  match a, b with
  | None, None | Some SgInt, Some SgInt | Some SgFloat, Some SgFloat => true
  | _, _ => false
  end.

Fixpoint expr_eqb (a b : expr) : bool :=
  match a, b with
  | ELitI x, ELitI y => x =? y
  | ELitF x, ELitF y => fcanon x =? fcanon y
  | ELitS x, ELitS y => list_eqb Z.eqb x y
  | EReg s1 r1, EReg s2 r2 => sigil_eqb s1 s2 && (r1 =? r2)
  | EVar s1 i1, EVar s2 i2 => sigil_eqb s1 s2 && Nat.eqb i1 i2
  | EEnum i1, EEnum i2 => Nat.eqb i1 i2
  | EUn o1 x, EUn o2 y => unop_eqb o1 o2 && expr_eqb x y
  | EBin a1 o1 b1, EBin a2 o2 b2 => binop_eqb o1 o2 && expr_eqb a1 a2 && expr_eqb b1 b2
  | ETern c1 l1 r1, ETern c2 l2 r2 => expr_eqb c1 c2 && expr_eqb l1 l2 && expr_eqb r1 r2
  | EDiff l1, EDiff l2 =>
      (fix go (l1 l2 : list (option expr)) : bool :=
         match l1, l2 with
         | [], [] => true
         | None :: t1, None :: t2 => go t1 t2
         | Some x :: t1, Some y :: t2 => expr_eqb x y && go t1 t2
         | _, _ => false
         end) l1 l2
  | ECall f1 l1, ECall f2 l2 =>
      Nat.eqb f1 f2 &&
      (fix go (l1 l2 : list expr) : bool :=
         match l1, l2 with
         | [], [] => true
         | x :: t1, y :: t2 => expr_eqb x y && go t1 t2
         | _, _ => false
         end) l1 l2
  | EOpaque n1, EOpaque n2 => Nat.eqb n1 n2
  | _, _ => false
  end.

Definition agree {A B} (eqb : A -> B -> bool) (m : outcome A) (i : ires B) : bool :=
  match m, i with
  | Ok a, IOk b => eqb a b
  | Err _, IErr => true
  | Panic _, IPanic => true
  | _, _ => false
  end.

Definition opt_value_eqb (a b : option value) : bool :=
  match a, b with
  | Some x, Some y => value_eqb x y
  | None, None => true
  | _, _ => false
  end.

(* transcendental functions are never generated in correspondence cases *)
Definition libm0 (_ : unop) (_ : Z) : Z := 0.

Definition builtin_defs : list (nat * expr) :=
  [(1000%nat, ELitF CANON_NAN); (1001%nat, ELitF 2139095040); (1002%nat, ELitF 1078530011)].

Fixpoint zassoc (l : list (Z * value)) (k : Z) : value :=
  match l with
  | [] => VInt 0
  | (k', v) :: t => if k =? k' then v else zassoc t k
  end.

Definition FUEL : nat := 400.

Definition model_of (c : c11case) : bool :=
  match c with
  | KBin op a b r => agree value_eqb (binop_eval gen_optable op a b) r
  | KUn op a r => agree opt_value_eqb (unop_eval libm0 gen_optable op a) r
  | KSimp defs es r =>
      agree (list_eqb expr_eqb) (const_pipeline gen_optable libm0 FUEL (defs ++ builtin_defs) es) r
  | KEval regs e d r =>
      agree value_eqb (eval gen_optable libm0 (zassoc regs) (fun _ => VInt 0) (fun _ => None) d e) r
  end.

(* indices of the cases on which model and implementation disagree *)
Fixpoint mismatches (n : N) (l : list c11case) : list N :=
  match l with
  | [] => []
  | c :: t => if model_of c then mismatches (n + 1) t else n :: mismatches (n + 1) t
  end.

(* The same operator cases against the independent specification (Spec/MachineOps.v) instead of
   the generated table: when the table-vs-spec theorem breaks, this finds the operand pair. *)
Definition spec_bf (op : binop) : bf_term :=
  match op with
  | Add => BF_add | Sub => BF_sub | Mul => BF_mul | Div => BF_div | Rem => BF_rem
  | Eq => BF_eq | Ne => BF_ne | Lt => BF_lt | Le => BF_le | Gt => BF_gt | Ge => BF_ge
  | _ => BF_typeerr
  end.

Definition spec_of (c : c11case) : bool :=
  match c with
  | KBin op (VInt a) (VInt b) r =>
      match spec_bi op a b, r with
      | Some z, IOk (VInt z') => z =? z'
      | None, IPanic => true          (* the operator itself is undefined; its callers guard it *)
      | _, _ => false
      end
  | KBin op (VFloat a) (VFloat b) r => agree value_eqb (eval_bf (spec_bf op) a b) r
  | KUn op (VInt a) r =>
      match spec_ui op a, r with
      | Some z, IOk (Some (VInt z')) => z =? z'
      | Some _, _ => false
      | None, _ => true
      end
  | _ => true
  end.

Fixpoint spec_mismatches (n : N) (l : list c11case) : list N :=
  match l with
  | [] => []
  | c :: t => if spec_of c then spec_mismatches (n + 1) t else n :: spec_mismatches (n + 1) t
  end.
