(* Corr/C12.v -- correspondence runner for C12 (and the string-argument part of C15): each case carries
   what the implementation did; [model_of] recomputes it with Model/Abi.v over Gen/ArgCodec.v.
   Shift-JIS is instantiated by a finite table observed from encoding_rs for exactly the strings of
   the case (the model itself is parametric in it). *)
From TV Require Import Base.I32 Model.Abi Model.Intrinsic Gen.ArgCodec.
Open Scope Z_scope.

Inductive ires (A : Type) := IOk (a : A) | IErr | IPanic.
Arguments IOk {A} a. Arguments IErr {A}. Arguments IPanic {A}.

Fixpoint list_eqb {A} (eqb : A -> A -> bool) (l1 l2 : list A) : bool :=
  match l1, l2 with
  | [], [] => true
  | x :: t1, y :: t2 => eqb x y && list_eqb eqb t1 t2
  | _, _ => false
  end.
Definition opt_eqb {A} (eqb : A -> A -> bool) (a b : option A) : bool :=
  match a, b with Some x, Some y => eqb x y | None, None => true | _, _ => false end.

Definition zl_eqb := list_eqb Z.eqb.

(* strings of the cases are written packed: n code points of 21 bits each, little-endian, in one literal *)
Fixpoint cps (n : nat) (z : Z) : list Z :=
  match n with O => [] | S k => (z mod 2097152) :: cps k (z / 2097152) end.

Fixpoint tlookup {B} (k : list Z) (t : list (list Z * B)) : option B :=
  match t with [] => None | (k', b) :: r => if zl_eqb k k' then Some b else tlookup k r end.

(* unknown strings: unencodable / undecodable (the harness lists every string it used) *)
Definition sj_enc (t : list (list Z * option bytes)) (s : list Z) : option bytes :=
  match tlookup s t with Some r => r | None => None end.
Definition sj_dec (t : list (bytes * option (list Z))) (b : bytes) : option (list Z) :=
  match tlookup b t with Some r => r | None => None end.

Definition aval_eqb (a b : aval) : bool :=
  match a, b with
  | AInt x, AInt y => x =? y
  | AFloat x, AFloat y => x =? y
  | AStr x, AStr y => zl_eqb x y
  | _, _ => false
  end.
Definition arg_eqb (a b : arg) : bool := aval_eqb (a_val a) (a_val b) && Bool.eqb (a_reg a) (a_reg b).

Definition iobs := (bytes * Z * option Z)%type.
Definition iobs_eqb (a b : iobs) : bool :=
  let '(b1, m1, x1) := a in let '(b2, m2, x2) := b in zl_eqb b1 b2 && (m1 =? m2) && opt_eqb Z.eqb x1 x2.

(* warnings are compared as sets of classes *)
Definition nat_mem (n : nat) (l : list nat) : bool := existsb (Nat.eqb n) l.
Definition wset_eqb (a b : list nat) : bool :=
  forallb (fun x => nat_mem x b) a && forallb (fun x => nat_mem x a) b.

Inductive c12case :=
(* a script of calls compiled in one go (the furigana state is threaded through the calls) *)
| KComp (has_regs lang_arg0 : bool) (sigs : list (list sparam)) (calls : list (nat * list arg))
        (sj : list (list Z * option bytes)) (r : ires (list iobs * list nat))
(* one raw instruction decompiled to `ins_N(...)` *)
| KDecomp (lang_arg0 : bool) (ps : list sparam) (blob : bytes) (mask : Z) (extra : option Z)
        (sjd : list (bytes * option (list Z))) (r : ires (list arg * list nat))
(* an intrinsic statement lowered through IntrinsicBuilder::into_vec *)
| KPlace (kind : ikind) (ps : list sparam) (parts : builder) (r : ires iobs).

Definition agree {A B} (eqb : A -> B -> bool) (m : outcome A) (i : ires B) : bool :=
  match m, i with
  | Ok a, IOk b => eqb a b
  | Err _, IErr => true
  | Panic _, IPanic => true
  | _, _ => false
  end.

Fixpoint all_abis (cd : codec) (lang_arg0 : bool) (sigs : list (list sparam)) : option (list (list enc)) :=
  match sigs with
  | [] => Some []
  | ps :: t => match abi_of_params cd lang_arg0 ps, all_abis cd lang_arg0 t with
               | Some s, Some r => Some (s :: r)
               | _, _ => None
               end
  end.

Fixpoint compile_calls (cd : codec) (enc_fn : list Z -> option bytes) (has_regs : bool) (abis : list (list enc))
    (calls : list (nat * list arg)) (st : option bytes) : outcome (list iobs * list nat) :=
  match calls with
  | [] => Ok ([], [])
  | (k, args) :: t =>
      match nth_error abis k with
      | None => Err E_CALL
      | Some sig =>
          if negb (check_call cd sig args) then Err E_CALL
          else
            do x <- encode_args enc_fn cd has_regs sig args st;
            let '(r, st') := x in
            do y <- compile_calls cd enc_fn has_regs abis t st';
            let '(l, w) := y in
            Ok ((r_blob r, r_mask r, r_extra r) :: l, r_warn r ++ w)
      end
  end.

Definition comp_eqb (a b : list iobs * list nat) : bool :=
  list_eqb iobs_eqb (fst a) (fst b) && wset_eqb (snd a) (snd b).
Definition decomp_eqb (a b : list arg * list nat) : bool :=
  list_eqb arg_eqb (fst a) (fst b) && wset_eqb (snd a) (snd b).

Definition model_of (c : c12case) : bool :=
  match c with
  | KComp has_regs lang_arg0 sigs calls sj r =>
      match all_abis gen_codec lang_arg0 sigs with
      | None => match r with IErr => true | _ => false end
      | Some abis => agree comp_eqb (compile_calls gen_codec (sj_enc sj) has_regs abis calls None) r
      end
  | KDecomp lang_arg0 ps blob mask extra sjd r =>
      match abi_of_params gen_codec lang_arg0 ps with
      | None => match r with IErr => true | _ => false end
      | Some sig => agree decomp_eqb (decode_call (sj_dec sjd) gen_codec sig (mkres blob mask extra [])) r
      end
  | KPlace kind ps parts r =>
      match abi_of_params gen_codec false ps with
      | None => match r with IErr => true | _ => false end
      | Some sig => agree iobs_eqb (lower_intrinsic gen_codec kind sig parts) r
      end
  end.

Fixpoint mismatches (n : N) (l : list c12case) : list N :=
  match l with
  | [] => []
  | c :: t => if model_of c then mismatches (n + 1) t else n :: mismatches (n + 1) t
  end.
