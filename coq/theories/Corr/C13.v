(* Corr/C13.v -- correspondence runner for C13: each case carries what the implementation did;
   [model_of] recomputes it with Model/Time.v. *)
From TV Require Import Base.I32 Model.Time.
Open Scope Z_scope.

Inductive ires (A : Type) := IOk (a : A) | IErr | IPanic.
Arguments IOk {A} a. Arguments IErr {A}. Arguments IPanic {A}.

Inductive c13case :=
(* passes::semantics::time_and_difficulty::run on a parsed (nested) body: times of all statements, visiting order *)
| KPass (prog : stmts) (r : ires (list Z))
(* compile_olde_ecl on a whole program: marker instructions and runs of other instructions with their times *)
| KCompile (prog : stmts) (r : ires (list item))
(* decompile_olde_ecl on a script with the given stored times and jumps (target index, time argument):
   the emitted label/time-label/instruction statements and the printed `@ t` of every goto *)
| KDecomp (times : list Z) (jumps : list (nat * option Z)) (r : ires (list estmt * list (option Z))).

Fixpoint list_eqb {A} (eqb : A -> A -> bool) (l1 l2 : list A) : bool :=
  match l1, l2 with
  | [], [] => true
  | x :: t1, y :: t2 => eqb x y && list_eqb eqb t1 t2
  | _, _ => false
  end.

Definition item_eqb (a b : item) : bool :=
  match a, b with
  | IMark i t, IMark j u => (i =? j) && (t =? u)
  | IAux t, IAux u => t =? u
  | _, _ => false
  end.

Definition estmt_eqb (a b : estmt) : bool :=
  match a, b with
  | ELabel i, ELabel j => i =? j
  | EAbs t, EAbs u => t =? u
  | ERel t, ERel u => t =? u
  | EInstr i, EInstr j => i =? j
  | _, _ => false
  end.

Definition optz_eqb (a b : option Z) : bool :=
  match a, b with Some x, Some y => x =? y | None, None => true | _, _ => false end.

Definition agree {A B} (eqb : A -> B -> bool) (m : outcome A) (i : ires B) : bool :=
  match m, i with
  | Ok a, IOk b => eqb a b
  | Err _, IErr => true
  | Panic _, IPanic => true
  | _, _ => false
  end.

Definition goto_print (times : list Z) (jumps : list (nat * option Z)) (j : nat * option Z) : option Z :=
  match snd j with
  | Some a =>
      match label_for times jumps (fst j) with
      | Some lb => raise_goto_time a (l_time lb)
      | None => Some a
      end
  | None => None
  end.

Definition decomp_model (times : list Z) (jumps : list (nat * option Z)) : outcome (list estmt * list (option Z)) :=
  do es <- decompile_labels (script_einstrs times jumps);
  Ok (es, map (goto_print times jumps) jumps).

Definition model_of (c : c13case) : bool :=
  match c with
  | KPass prog r => agree (list_eqb Z.eqb) (do rs <- time_pass prog; Ok (map snd rs)) r
  | KCompile prog r => agree (list_eqb item_eqb) (compile_items prog) r
  | KDecomp times jumps r =>
      agree (fun a b => list_eqb estmt_eqb (fst a) (fst b) && list_eqb optz_eqb (snd a) (snd b))
            (decomp_model times jumps) r
  end.

Fixpoint mismatches (n : N) (l : list c13case) : list N :=
  match l with
  | [] => []
  | c :: t => if model_of c then mismatches (n + 1) t else n :: mismatches (n + 1) t
  end.

(* list notation for case terms *)
Fixpoint sl (l : list stmt) : stmts := match l with [] => SNil | x :: r => SCons x (sl r) end.
Fixpoint bl (l : list stmts) : blocks := match l with [] => BNil | x :: r => BCons x (bl r) end.
