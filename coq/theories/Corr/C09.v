(* Corr/C09.v -- correspondence runner for C09: each case carries what the implementation did
   (passes::type_check::run, Expr::compute_ty, AstVm::eval(..).ty()); the model recomputes it. *)
From TV Require Import Base.I32 Base.F32 Model.Ops Model.Expr Model.TypeCheck Spec.TypingRules
  Gen.OpTable Gen.OpClass Gen.TcDispatch Proofs.TypingExpr.
Open Scope Z_scope.

Inductive ires (A : Type) := IOk (a : A) | IErr | IPanic.
Arguments IOk {A} a. Arguments IErr {A}. Arguments IPanic {A}.

(* the typing environment, as association lists *)
Record genv := {
  g_regs : list (Z * vty);                          (* registers not listed are untyped *)
  g_vars : list (nat * vty);                        (* named variables by DefId *)
  g_enums : list (nat * sty);
  g_fns : list (fname * (bool * option sig));       (* is instruction(-alias), signature *)
}.

Definition fname_eqb (a b : fname) : bool :=
  match a, b with
  | FIns x, FIns y => x =? y
  | FNamed x, FNamed y => Nat.eqb x y
  | _, _ => false
  end.
Fixpoint zlook {A} (l : list (Z * A)) (k : Z) (d : A) : A :=
  match l with [] => d | (k', v) :: t => if k =? k' then v else zlook t k d end.
Fixpoint nlook {A} (l : list (nat * A)) (k : nat) (d : A) : A :=
  match l with [] => d | (k', v) :: t => if Nat.eqb k k' then v else nlook t k d end.
Fixpoint flook {A} (l : list (fname * A)) (k : fname) (d : A) : A :=
  match l with [] => d | (k', v) :: t => if fname_eqb k k' then v else flook t k d end.

Definition env_of (g : genv) : env := {|
  reg_ty := fun r => zlook (g_regs g) r Untyped;
  var_ty := fun id => nlook (g_vars g) id Untyped;
  enum_ty := fun en => nlook (g_enums g) en TInt;
  fn_sig := fun f => snd (flook (g_fns g) f (false, None));
  fn_is_ins := fun f => fst (flook (g_fns g) f (false, None)) |}.

Inductive c09case :=
| KProg (g : genv) (items : list stmt) (r : ires unit)            (* type_check::run on a file *)
| KCty (g : genv) (e : texpr) (r : ires ety)                      (* Expr::compute_ty of an accepted expression *)
| KDyn (g : genv) (regs : list (Z * value)) (vars : list (nat * value)) (e : texpr) (diff : nat) (r : ires sty)
                                                                  (* AstVm::eval(e).ty() of an accepted expression *)
| KCv (g : genv) (defs : list (nat * texpr)) (id : nat) (r : ires sty)
                                                                  (* type of the value evaluate_const_vars caches for const id *)
| KFold (g : genv) (e : texpr) (r : ires sty).                    (* type of the literal const_simplify folds e to *)

Definition agree_tc (m : tcres) (i : ires unit) : bool :=
  match m, i with TOk, IOk _ | TErr, IErr | TPanic, IPanic => true | _, _ => false end.

Definition libm0 (_ : unop) (_ : Z) : Z := 0.
Definition CFUEL : nat := 200.

Definition model_of (c : c09case) : bool :=
  match c with
  | KProg g items r => agree_tc (check_file gen_optypes (env_of g) gen_tctable items) r
  | KCty g e r =>
      match compute_ty gen_optypes (env_of g) e, r with
      | Ok t, IOk t' => ety_eqb t t'
      | Panic _, IPanic => true
      | _, _ => false
      end
  | KDyn g regs vars e d r =>
      (* the model's evaluator gives a value of the same type as the implementation's; and that type
         is the one the checker predicts *)
      match r with
      | IOk t' =>
          match eval gen_optable libm0 (fun r => zlook regs r (VInt 0)) (fun id => nlook vars id (VInt 0))
                     (fun _ => None) d (to_expr e),
                compute_ty gen_optypes (env_of g) e with
          | Ok v, Ok (Value t) => sty_eqb (type_of_value v) t' && sty_eqb t t'
          | _, _ => false
          end
      | _ => true      (* the VM did not produce a value: nothing is claimed *)
      end
  | KCv g defs id r =>
      (* the model's const evaluator (Model/Expr.ceval: the DFS evaluator of context/consts.rs, whose cache
         only memoises completely evaluated consts) gives a value of the type the implementation cached, and
         that is the const's declared type *)
      match r with
      | IOk t' =>
          match ceval gen_optable libm0 (assoc (map (fun p => (fst p, to_expr (snd p))) defs)) CFUEL [] (EVar None id),
                var_ty (env_of g) id with
          | Ok v, Typed t => sty_eqb (type_of_value v) t' && sty_eqb t t'
          | _, _ => false
          end
      | _ => true
      end
  | KFold g e r =>
      match r with
      | IOk t' => match compute_ty gen_optypes (env_of g) e with Ok (Value t) => sty_eqb t t' | _ => false end
      | _ => true
      end
  end.

Fixpoint mismatches (n : N) (l : list c09case) : list N :=
  match l with
  | [] => []
  | c :: t => if model_of c then mismatches (n + 1) t else n :: mismatches (n + 1) t
  end.

(* ---- the reference typer: the declarative rules, decided by the checker instantiated with the
   specified tables (Proofs.TypingSound.reference_typer_decides_wt) ---- *)
Definition accepted {A} (i : ires A) : bool := match i with IOk _ => true | _ => false end.

Definition spec_of (c : c09case) : bool :=
  match c with
  | KProg g items r =>
      Bool.eqb (tcres_eqb (check_file spec_optypes (env_of g) spec_tctable items) TOk) (accepted r)
  | KCty g e r =>
      (* compute_ty must be the type check_expr assigns *)
      match check_expr spec_optypes (env_of g) e, r with
      | Ok t, IOk t' => ety_eqb t t'
      | Ok _, _ => false
      | _, _ => true
      end
  | KDyn g regs vars e d r =>
      match r, check_expr spec_optypes (env_of g) e with
      | IOk t', Ok (Value t) => sty_eqb t t'
      | IOk _, Ok Void => false
      | _, _ => true
      end
  | KCv g _ id r =>
      (* the checker's type of a const is its declared type *)
      match r, var_ty (env_of g) id with
      | IOk t', Typed t => sty_eqb t t'
      | IOk _, Untyped => false
      | _, _ => true
      end
  | KFold g e r =>
      match r, check_expr spec_optypes (env_of g) e with
      | IOk t', Ok (Value t) => sty_eqb t t'
      | IOk _, Ok Void => false
      | _, _ => true
      end
  end.

Fixpoint spec_mismatches (n : N) (l : list c09case) : list N :=
  match l with
  | [] => []
  | c :: t => if spec_of c then spec_mismatches (n + 1) t else n :: spec_mismatches (n + 1) t
  end.

(* ---- why a program is outside the guard of check_iff_wt_guarded: the codes of the table rows /
   table entries it depends on that are not as specified ---- *)
Definition skind_code (k : skind) : N :=
  match k with
  | K_Item => 1 | K_Jump => 2 | K_CondJump => 3 | K_Return => 4 | K_CondChain => 5 | K_Loop => 6
  | K_While => 7 | K_Times => 8 | K_Expr => 9 | K_Block => 10 | K_Assignment => 11
  | K_Declaration => 12 | K_CallSub => 13 | K_InterruptLabel => 14 | K_AbsTimeLabel => 15
  | K_RelTimeLabel => 16 | K_Label => 17 | K_ScopeEnd => 18 | K_NoInstruction => 19
  end%N.
Definition ikind_code (k : ikind) : N :=
  match k with IK_Func => 21 | IK_Script => 22 | IK_Meta => 23 | IK_ConstVar => 24 end%N.
Definition CODE_ENUM : N := 30.      (* compute_ty of an enum const of a non-int enum *)
Definition CODE_ZIP : N := 31.       (* arguments zipped with padding parameters *)

Section Explain.
  Variable T : optypes.
  Variable D : tctable.
  Variable G : env.

  Fixpoint ecodes (e : texpr) : list N :=
    match e with
    | TLitI _ | TLitF _ | TLitS _ | TVar _ | TXcr _ | TLabelProp => []
    | TEnum en _ => if enum_ok T G en then [] else [CODE_ENUM]
    | TBin a _ b => ecodes a ++ ecodes b
    | TUn _ x => ecodes x
    | TTern c l r => ecodes c ++ ecodes l ++ ecodes r
    | TDiff first rest => ecodes first ++ flat_map (fun c => match c with Some x => ecodes x | None => [] end) rest
    | TCall f ps args =>
        (if call_ok T G f then [] else [CODE_ZIP]) ++ flat_map (fun p => ecodes (snd p)) ps ++ flat_map ecodes args
    end.

  Definition srow_code (top : bool) (s : stmt) : list N :=
    if top || srow_ok (kind_of s) (tc_stmt D (kind_of s)) then [] else [skind_code (kind_of s)].
  Definition irow_code (k : ikind) : list N :=
    if irow_ok k (tc_item D k) then [] else [ikind_code k].

  Fixpoint scodes (top : bool) (s : stmt) : list N :=
    srow_code top s ++
    match s with
    | SFunc _ code => irow_code IK_Func ++ match code with Some b => flat_map (scodes false) b | None => [] end
    | SScript code => irow_code IK_Script ++ flat_map (scodes false) code
    | SMeta es => irow_code IK_Meta ++ flat_map ecodes es
    | SConst _ vars => irow_code IK_ConstVar ++ flat_map (fun p => ecodes (snd p)) vars
    | SJump | SAbsTime | SLabel | SScopeEnd | SNoInstr => []
    | SCondJump c => ecodes c
    | SReturn v => match v with Some e => ecodes e | None => [] end
    | SCondChain cbs els =>
        flat_map (fun cb => ecodes (fst cb) ++ flat_map (scodes false) (snd cb)) cbs ++
        match els with Some b => flat_map (scodes false) b | None => [] end
    | SLoop b => flat_map (scodes false) b
    | SWhile c b => ecodes c ++ flat_map (scodes false) b
    | STimes _ n b => ecodes n ++ flat_map (scodes false) b
    | SExpr e => ecodes e
    | SBlock b => flat_map (scodes false) b
    | SAssign _ _ e => ecodes e
    | SDecl _ vars => flat_map (fun p => match snd p with Some e => ecodes e | None => [] end) vars
    | SCallSub args => flat_map ecodes args
    | SInterrupt e => ecodes e
    | SRelTime e => ecodes e
    end.
End Explain.

Fixpoint dedup (l : list N) : list N :=
  match l with
  | [] => []
  | x :: t => if existsb (N.eqb x) t then dedup t else x :: dedup t
  end.

(* the codes of a case, as one number: sum of 2^code (0 = inside the guard) *)
Definition explain_codes (c : c09case) : list N :=
  match c with
  | KProg g items _ => dedup (flat_map (scodes gen_optypes gen_tctable (env_of g) true) items)
  | KCty g e _ => dedup (ecodes gen_optypes (env_of g) e)
  | KDyn g _ _ e _ _ => dedup (ecodes gen_optypes (env_of g) e)
  | KCv g defs _ _ => dedup (flat_map (fun p => ecodes gen_optypes (env_of g) (snd p)) defs)
  | KFold g e _ => dedup (ecodes gen_optypes (env_of g) e)
  end.
Definition explain (c : c09case) : N := fold_right (fun k acc => (acc + 2 ^ k)%N) 0%N (explain_codes c).
Definition explain_all (_ : N) (l : list c09case) : list N := map explain l.

(* the status of the side conditions on the generated tables, for the driver *)
Definition table_status : (bool * bool * list N * list N) * (ct_enum * call_zip) :=
  ((optypes_ok gen_optypes, walk_ok gen_tctable,
    map skind_code (bad_srows gen_tctable), map ikind_code (bad_irows gen_tctable)),
   (gen_ct_enum, gen_call_zip)).

(* one pass: bit 0 = model differs from the implementation, bit 1 = reference typer differs from the
   implementation, bits 2.. = the explanation (see [explain]) when the reference typer differs *)
Definition verdict (c : c09case) : N :=
  ((if model_of c then 0 else 1) +
   (if spec_of c then 0 else 2 + 4 * explain c))%N.
Definition verdicts (_ : N) (l : list c09case) : list N := map verdict l.
