(* Corr/C15.v -- correspondence runner for C15: string arguments go through the C12 runner (compile ->
   RawInstr -> decompile); metadata paths and names through real files (write_anm/read_anm,
   write_std/read_std); string literals through the formatter and the parser. *)
From TV Require Import Base.I32 Model.Abi Model.Intrinsic Model.StrLit Gen.ArgCodec Gen.StrEscape Corr.C12.
Open Scope Z_scope.

Inductive c15case :=
| KArg (c : c12case)
(* the string written as a block-padded path / a fixed-size name and what was read back *)
| KPath (bs : Z) (s : list Z) (sj : list (list Z * option bytes)) (sjd : list (bytes * option (list Z))) (r : ires (list Z))
| KName (buf : Z) (s : list Z) (sj : list (list Z * option bytes)) (sjd : list (bytes * option (list Z))) (r : ires (list Z))
(* a literal as printed by fmt.rs (code points incl. the quotes) and as parsed back (None = parse error) *)
| KLit (s : list Z) (printed : list Z) (reread : option (list Z)).

Definition model_of15 (c : c15case) : bool :=
  match c with
  | KArg c' => model_of c'
  | KPath bs s sj sjd r =>
      agree zl_eqb (do b <- write_path (sj_enc sj) s bs; do x <- read_path (sj_dec sjd) bs b; Ok (fst x)) r
  | KName buf s sj sjd r =>
      agree zl_eqb (do b <- write_name (sj_enc sj) s buf; do x <- read_name (sj_dec sjd) buf b; let '(s', _, _) := x in Ok s') r
  | KLit s printed reread =>
      zl_eqb (print_literal gen_esc s) printed &&
      opt_eqb zl_eqb (match read_literal gen_esc printed with Some (s', []) => Some s' | _ => None end) reread
  end.

Fixpoint mismatches (n : N) (l : list c15case) : list N :=
  match l with
  | [] => []
  | c :: t => if model_of15 c then mismatches (n + 1) t else n :: mismatches (n + 1) t
  end.
