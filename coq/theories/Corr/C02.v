(* Corr/C02.v -- correspondence runner for C02: the lowered instruction stream.
   The implementation's RawInstrs are decoded by the harness (which built the mapfile and hence
   knows each opcode's intrinsic kind and ABI) into the canonical form below; the model's
   LowerStmt stream is brought to the same form by a small register assignment (same pop/push
   discipline as assign_registers) and by resolving labels to instruction indices. *)
From TV Require Import Base.I32 Base.F32 Model.Ops Model.Expr Model.Lower Model.LowerSem Model.LowerProg Gen.OpTable.
Open Scope Z_scope.

Inductive carg := CReg (t : ty) (r : Z) | CImm (v : value) | CIdx (n : nat) | CTime (t : Z).

Inductive cop :=
| OAssign (aop : assignop) (t : ty) | OBin (op : binop) (t : ty) | OUn (op : unop) (t : ty)
| OCondJmp (op : binop) (t : ty) | OCmp (t : ty) | OCmpJmp (op : binop) | OCountJmp (op : binop)
| OJmp | OInterrupt | OCall (opcode : Z).

Record cinstr := mkci { ci_time : Z; ci_mask : Z; ci_op : cop; ci_args : list carg }.

Inductive lres := LOk (l : list cinstr) | LErr | LPanic.

Record config := mkcfg {
  c_avail : list ikind;
  c_auto_casts : bool;
  c_rty : list (Z * ty);          (* register types from the mapfile *)
  c_lty : list (nat * ty);        (* declared types of source locals *)
  c_pool_int : list Z;            (* general_use_regs, in order *)
  c_pool_float : list Z;
  c_temp_base : nat;              (* first DefId used for temporaries / gensyms *)
}.

(* final state of an AstVm run: time, real time, instruction log (oldest first), observed registers *)
Record rres := mkrr { rr_time : Z; rr_real : Z; rr_log : list (Z * Z * list value); rr_regs : list (Z * value) }.
Inductive runres := ROk (r : rres) | RFail | RSkip.

Inductive c02case :=
| KLower (cfg : config) (stmts : list (Z * Z * sstmt)) (r : lres)
(* AstVm on the source body and on the raised compiled code, per (difficulty, initial registers) *)
| KRun (cfg : config) (stmts : list (Z * Z * sstmt)) (runs : list (nat * list (Z * value) * runres * runres)).

(* ---- decidable equalities ---- *)
Definition ty_eq := ty_eqb.
Fixpoint list_eqb {A} (eqb : A -> A -> bool) (l1 l2 : list A) : bool :=
  match l1, l2 with
  | [], [] => true
  | x :: t1, y :: t2 => eqb x y && list_eqb eqb t1 t2
  | _, _ => false
  end.
Definition value_eqb (a b : value) : bool :=
  match a, b with
  | VInt x, VInt y => x =? y
  | VFloat x, VFloat y => fcanon x =? fcanon y
  | VStr x, VStr y => list_eqb Z.eqb x y
  | _, _ => false
  end.
Definition aop_eqb (a b : assignop) : bool :=
  match a, b with None, None => true | Some x, Some y => binop_eqb x y | _, _ => false end.
Definition ikind_eqb (a b : ikind) : bool :=
  match a, b with
  | KJmp, KJmp | KInterrupt, KInterrupt => true
  | KAssignOp o1 t1, KAssignOp o2 t2 => aop_eqb o1 o2 && ty_eqb t1 t2
  | KBinOp o1 t1, KBinOp o2 t2 => binop_eqb o1 o2 && ty_eqb t1 t2
  | KUnOp o1 t1, KUnOp o2 t2 => unop_eqb o1 o2 && ty_eqb t1 t2
  | KCountJmp o1, KCountJmp o2 => binop_eqb o1 o2
  | KCondJmp o1 t1, KCondJmp o2 t2 => binop_eqb o1 o2 && ty_eqb t1 t2
  | KCmp t1, KCmp t2 => ty_eqb t1 t2
  | KCmpJmp o1, KCmpJmp o2 => binop_eqb o1 o2
  | _, _ => false
  end.
Definition carg_eqb (a b : carg) : bool :=
  match a, b with
  | CReg t1 r1, CReg t2 r2 => ty_eqb t1 t2 && (r1 =? r2)
  | CImm v1, CImm v2 => value_eqb v1 v2
  | CIdx n1, CIdx n2 => Nat.eqb n1 n2
  | CTime t1, CTime t2 => t1 =? t2
  | _, _ => false
  end.
Definition cop_eqb (a b : cop) : bool :=
  match a, b with
  | OAssign o1 t1, OAssign o2 t2 => aop_eqb o1 o2 && ty_eqb t1 t2
  | OBin o1 t1, OBin o2 t2 => binop_eqb o1 o2 && ty_eqb t1 t2
  | OUn o1 t1, OUn o2 t2 => unop_eqb o1 o2 && ty_eqb t1 t2
  | OCondJmp o1 t1, OCondJmp o2 t2 => binop_eqb o1 o2 && ty_eqb t1 t2
  | OCmp t1, OCmp t2 => ty_eqb t1 t2
  | OCmpJmp o1, OCmpJmp o2 => binop_eqb o1 o2
  | OCountJmp o1, OCountJmp o2 => binop_eqb o1 o2
  | OJmp, OJmp | OInterrupt, OInterrupt => true
  | OCall a, OCall b => a =? b
  | _, _ => false
  end.
Definition cinstr_eqb (a b : cinstr) : bool :=
  (ci_time a =? ci_time b) && (ci_mask a =? ci_mask b) && cop_eqb (ci_op a) (ci_op b)
  && list_eqb carg_eqb (ci_args a) (ci_args b).

(* ---- model side ---- *)
Fixpoint zassoc_ty (l : list (Z * ty)) (k : Z) : ty :=
  match l with [] => TInt | (k', t) :: r => if k =? k' then t else zassoc_ty r k end.
Definition nassoc_ty (l : list (nat * ty)) (k : nat) : ty :=
  match assoc l k with Some t => t | None => TInt end.

(* registers mentioned at the top level of instruction arguments (get_explicitly_used_regs) *)
Definition targ_reg (a : targ) : list Z := match a with TVar _ (VReg r) => [r] | _ => [] end.
Definition tinstr_args (i : tinstr) : list targ :=
  match i with
  | IAssignOp _ _ d s => [d; s]
  | IBinOp _ _ d a b => [d; a; b]
  | IUnOp _ _ d a => [d; a]
  | ICondJmp _ _ a b _ _ => [a; b]
  | ICmp _ a b => [a; b]
  | ICountJmp _ x _ _ => [x]
  | ICall _ args => args
  | _ => []
  end.
Definition explicit_regs (code : list lstmt) : list Z :=
  flat_map (fun s => match s with LInstr _ _ i => flat_map targ_reg (tinstr_args i) | _ => [] end) code.

Definition zmem (x : Z) (l : list Z) : bool := existsb (Z.eqb x) l.

(* label table: label -> (index of the next instruction, time of the label) *)
Fixpoint label_table (code : list lstmt) (idx : nat) : list (label * (nat * Z)) :=
  match code with
  | [] => []
  | LInstr _ _ _ :: r => label_table r (S idx)
  | LLabel t l :: r => (l, (idx, t)) :: label_table r idx
  | _ :: r => label_table r idx
  end.
Fixpoint lookup_label (tbl : list (label * (nat * Z))) (l : label) : option (nat * Z) :=
  match tbl with [] => None | (l', x) :: r => if label_eqb l l' then Some x else lookup_label r l end.

Section Canon.
  Variable tbl : list (label * (nat * Z)).

  Definition arg_c (regs : list (nat * Z)) (a : targ) : option carg :=
    match a with
    | TImm v => Some (CImm v)
    | TVar t (VReg r) => Some (CReg t r)
    | TVar t (VLoc d) => match assoc regs d with Some r => Some (CReg t r) | None => None end
    | TOffsetOf l => match lookup_label tbl l with Some (i, _) => Some (CIdx i) | None => None end
    | TTimeOf l => match lookup_label tbl l with Some (_, t) => Some (CTime t) | None => None end
    | TDiff _ => None
    end.

  Fixpoint args_c (regs : list (nat * Z)) (l : list targ) : option (list carg) :=
    match l with
    | [] => Some []
    | a :: r => match arg_c regs a, args_c regs r with Some x, Some xs => Some (x :: xs) | _, _ => None end
    end.

  Definition jump_c (l : label) (jt : option Z) : option (list carg) :=
    match lookup_label tbl l with
    | Some (i, t) => Some [CIdx i; CTime (match jt with Some x => x | None => t end)]
    | None => None
    end.

  Definition instr_c (regs : list (nat * Z)) (time mask : Z) (i : tinstr) : option cinstr :=
    let mk op args := match args with Some a => Some (mkci time mask op a) | None => None end in
    let app a b := match a, b with Some x, Some y => Some (x ++ y) | _, _ => None end in
    match i with
    | IAssignOp aop t d s => mk (OAssign aop t) (args_c regs [d; s])
    | IBinOp op t d a b => mk (OBin op t) (args_c regs [d; a; b])
    | IUnOp op t d a => mk (OUn op t) (args_c regs [d; a])
    | ICondJmp op t a b l jt => mk (OCondJmp op t) (app (args_c regs [a; b]) (jump_c l jt))
    | ICmp t a b => mk (OCmp t) (args_c regs [a; b])
    | ICmpJmp op l jt => mk (OCmpJmp op) (jump_c l jt)
    | ICountJmp op x l jt => mk (OCountJmp op) (app (args_c regs [x]) (jump_c l jt))
    | IJmp l jt => mk OJmp (jump_c l jt)
    | IInterrupt n => mk OInterrupt (Some [CImm (VInt n)])
    | ICall opc args => mk (OCall opc) (args_c regs args)
    end.

  (* assign_registers: pop from the front of the (filtered) pool, push back on free *)
  Fixpoint assign (code : list lstmt) (pi pf : list Z) (regs : list (nat * Z)) (tys : list (nat * ty))
    : outcome (list cinstr) :=
    match code with
    | [] => Ok []
    | LAlloc d t :: r =>
        match t with
        | TInt => match pi with x :: pi' => assign r pi' pf ((d, x) :: regs) ((d, t) :: tys) | [] => Err E_UNSUPPORTED end
        | TFloat => match pf with x :: pf' => assign r pi pf' ((d, x) :: regs) ((d, t) :: tys) | [] => Err E_UNSUPPORTED end
        end
    | LFree d :: r =>
        match assoc regs d, assoc tys d with
        | Some x, Some TInt => assign r (x :: pi) pf (filter (fun p => negb (Nat.eqb (fst p) d)) regs) tys
        | Some x, Some TFloat => assign r pi (x :: pf) (filter (fun p => negb (Nat.eqb (fst p) d)) regs) tys
        | _, _ => Panic P_EXPECT
        end
    | LLabel _ _ :: r => assign r pi pf regs tys
    | LInstr time mask i :: r =>
        match instr_c regs time mask i with
        | Some c => match assign r pi pf regs tys with Ok cs => Ok (c :: cs) | e => e end
        | None => Panic P_EXPECT
        end
    end.
End Canon.

Definition mem_ikind (l : list ikind) (k : ikind) : bool := existsb (ikind_eqb k) l.

Definition FUEL : nat := 200.

Fixpoint lower_all (cfg : config) (stmts : list (Z * Z * sstmt)) (s : lst) : outcome (list lstmt * lst) :=
  match stmts with
  | [] => Ok ([], s)
  | (time, mask, st) :: rest =>
      match lower_stmt (mem_ikind (c_avail cfg)) (c_auto_casts cfg) (zassoc_ty (c_rty cfg)) (nassoc_ty (c_lty cfg))
                       time mask FUEL st s with
      | Ok (c1, s1) =>
          match lower_all cfg rest s1 with
          | Ok (c2, s2) => Ok (c1 ++ c2, s2)
          | e => e
          end
      | e => e
      end
  end.

Definition model_lower (cfg : config) (stmts : list (Z * Z * sstmt)) : outcome (list cinstr) :=
  match lower_all cfg stmts (mklst (c_temp_base cfg) []) with
  | Ok (code, _) =>
      let ex := explicit_regs code in
      let pi := filter (fun r => negb (zmem r ex)) (c_pool_int cfg) in
      let pf := filter (fun r => negb (zmem r ex)) (c_pool_float cfg) in
      assign (label_table code 0) code pi pf [] []
  | Err t => Err t
  | Panic t => Panic t
  | OutOfFuel => OutOfFuel
  end.

(* ---- runs: Model.LowerProg against AstVm ---- *)
Definition libm0 (_ : unop) (_ : Z) : Z := 0.
Definition RUN_FUEL : nat := 64.

Fixpoint zassoc_v (l : list (Z * value)) (k : Z) : option value :=
  match l with [] => None | (k', v) :: r => if k =? k' then Some v else zassoc_v r k end.

Definition init_pst (cfg : config) (init : list (Z * value)) : pst :=
  mkpst (mkmem (fun r => match zassoc_v init r with Some v => v | None => default_of (zassoc_ty (c_rty cfg) r) end)
               (fun d => default_of (nassoc_ty (c_lty cfg) d))) 0 0 [].

Definition log_eqb (a b : Z * Z * list value) : bool :=
  let '(t1, o1, v1) := a in let '(t2, o2, v2) := b in (t1 =? t2) && (o1 =? o2) && list_eqb value_eqb v1 v2.

Definition run_agree (o : outcome pst) (r : runres) : bool :=
  match r with
  | RSkip => true
  | RFail => match o with Ok _ => false | _ => true end
  | ROk x =>
      match o with
      | Ok st =>
          (p_time st =? rr_time x) && (p_real st =? rr_real x) && list_eqb log_eqb (rev (p_log st)) (rr_log x)
          && forallb (fun rv => value_eqb (regs (p_mem st) (fst rv)) (snd rv)) (rr_regs x)
      | _ => false
      end
  end.

Definition model_run (cfg : config) (stmts : list (Z * Z * sstmt)) (run : nat * list (Z * value) * runres * runres) : bool :=
  let '(d, init, src, tgt) := run in
  let rty := zassoc_ty (c_rty cfg) in
  let lty := nassoc_ty (c_lty cfg) in
  let st0 := init_pst cfg init in
  run_agree (sprog gen_optable libm0 rty lty d (Some d) false RUN_FUEL stmts Exec st0) src
  && match tgt with
     | RSkip => true
     | _ =>
         match lower_all cfg stmts (mklst (c_temp_base cfg) []) with
         | Ok (code, _) => run_agree (wprog gen_optable libm0 lty (Some d) RUN_FUEL code Exec st0 None) tgt
         | _ => false
         end
     end.

Definition model_of (c : c02case) : bool :=
  match c with
  | KLower cfg stmts r =>
      match model_lower cfg stmts, r with
      | Ok l, LOk l' => list_eqb cinstr_eqb l l'
      | Err _, LErr => true
      | Panic _, LPanic => true
      | _, _ => false
      end
  | KRun cfg stmts runs => forallb (model_run cfg stmts) runs
  end.

Fixpoint mismatches (n : N) (l : list c02case) : list N :=
  match l with
  | [] => []
  | c :: t => if model_of c then mismatches (n + 1) t else n :: mismatches (n + 1) t
  end.
