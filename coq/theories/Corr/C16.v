(* Corr/C16.v -- correspondence runner for C16: each case carries what the implementation did
   (Ok with the observed value / error diagnostic / panic); [model_of] recomputes it with the model. *)
From TV Require Import Base.I32 Model.BinScript Model.Labels Model.Texture Gen.InstrFmt Gen.TexFmt.
Open Scope Z_scope.

Inductive ires (A : Type) := IOk (a : A) | IErr | IPanic.
Arguments IOk {A} a. Arguments IErr {A}. Arguments IPanic {A}.

Inductive c16case :=
| KRead (f : fmtname) (script : list Z) (r : ires (list rinstr))          (* script bytes behind a container prefix *)
| KTex (fmt w h len ox oy : Z) (r : ires unit)                            (* truanm extract of one texture *)
| KLab (decoder : nat) (instrs : list (Z * Z * list Z)) (r : ires unit)   (* STD script of (time, opcode, 3 args): decompile *)
.

Fixpoint list_eqb {A} (eqb : A -> A -> bool) (l1 l2 : list A) : bool :=
  match l1, l2 with
  | [], [] => true
  | x :: t1, y :: t2 => eqb x y && list_eqb eqb t1 t2
  | _, _ => false
  end.

Definition rinstr_eqb (a b : rinstr) : bool :=
  (ri_time a =? ri_time b) && (ri_opcode a =? ri_opcode b) && (ri_mask a =? ri_mask b) && list_eqb Z.eqb (ri_args a) (ri_args b).

Definition agree {A B} (eqb : A -> B -> bool) (m : outcome A) (i : ires B) : bool :=
  match m, i with
  | Ok a, IOk b => eqb a b
  | Err _, IErr => true
  | Panic _, IPanic => true
  | _, _ => false
  end.

Definition fmtname_eqb (a b : fmtname) : bool :=
  match a, b with
  | FAnm06, FAnm06 | FAnm07, FAnm07 | FStd06, FStd06 | FStd10, FStd10 | FMsg, FMsg | FEcl06, FEcl06
  | FTl06, FTl06 | FTl08, FTl08 | FEcl10, FEcl10 => true
  | _, _ => false
  end.

Fixpoint lookup_fmt (n : fmtname) (l : list (fmtname * ifmt)) : ifmt :=
  match l with [] => fmt_unrec | (m, F) :: t => if fmtname_eqb n m then F else lookup_fmt n t end.

(* the STD instruction set used by the label cases: opcode 4 = "ot_" (jump), everything else three plain words *)
Definition std_einstrs (instrs : list (Z * Z * list Z)) : list einstr :=
  (fix go (l : list (Z * Z * list Z)) (off : Z) : list einstr :=
     match l with
     | [] => []
     | (t, op, args) :: rest =>
         mkEI off t (if op =? 4 then [JOffset; JTime; JOther] else [JOther; JOther; JOther]) args :: go rest (off + 20)
     end) instrs 0.

Definition model_of (c : c16case) : bool :=
  match c with
  | KRead f script r => agree (list_eqb rinstr_eqb) (read_script (lookup_fmt f gen_formats) script None) r
  | KTex fmt w h len ox oy r =>
      agree (fun _ _ => true) (produce_image gen_color_formats gen_extract_guard gen_extract_bound (mkTex fmt w h len ox oy)) r
  | KLab d instrs r =>
      agree (fun _ _ => true)
            (label_pass_and_lookups (nth d gen_decoders DL_unrec) (std_einstrs instrs) (map (fun _ => 20) instrs)) r
  end.

Fixpoint mismatches (n : N) (l : list c16case) : list N :=
  match l with
  | [] => []
  | c :: t => if model_of c then mismatches (n + 1) t else n :: mismatches (n + 1) t
  end.

(* what the check reads off the generated tables on every run *)
Definition unsafe_formats : list fmtname :=
  map fst (filter (fun p => negb (size_safe (snd p))) gen_formats).
Definition unsafe_decoders : list nat :=
  map fst (filter (fun p => negb (dl_safe (snd p))) (combine (seq 0 (length gen_decoders)) gen_decoders)).
