(* Corr/C17.v -- correspondence runner for C17: each case carries what the implementation did
   (observed through truth's public extract/compile path by harness/src/bin/c17.rs); [model_of]
   recomputes it with Model/Pixel.v over the generated table. *)
From TV Require Import Base.I32 Base.F32 Model.Pixel Gen.Pixel Gen.TexFmt.
Open Scope Z_scope.

Inductive ires (A : Type) := IOk (a : A) | IErr | IPanic.
Arguments IOk {A} a. Arguments IErr {A}. Arguments IPanic {A}.

Definition tx (w h : nat) (fmt : Z) (data : list Z) : texture :=
  {| t_w := w; t_h := h; t_fmt := fmt; t_data := data |}.

(* explicit fields of a script entry: img_width img_height img_format has_data offset_x offset_y *)
Record cspec := sp { cs_w : option nat; cs_h : option nat; cs_fmt : option Z; cs_has : option bool;
                     cs_ox : option nat; cs_oy : option nat }.

Definition se (path : nat) (ox oy : nat) (t : option texture) : sentry :=
  {| se_path := path; se_ox := ox; se_oy := oy; se_tex := t |}.

Inductive csrc :=
| CAnm (es : list sentry)
| CDir (files : list (nat * texture)).    (* the ARGB_8888 texture (no offsets) the PNG file was extracted from *)

Inductive c17case :=
| KDec (f : cformat) (p0 : Z) (argb : list Z)
| KEnc (f : cformat) (argb : list Z) (ps : list Z)
| KRound (t : texture) (ox oy : nat) (s : cspec) (r : ires (list (option texture)))
| KSrc (dest : list (nat * cspec)) (srcs : list csrc) (r : ires (list (option texture))).

Definition T := gen_pixtable.

Definition of_opt {A} (o : option A) : soft A := match o with Some a => Explicit a | None => Missing end.
Definition specs_of (s : cspec) : wspecs :=
  {| s_w := of_opt (cs_w s); s_h := of_opt (cs_h s); s_fmt := of_opt (cs_fmt s); s_has := of_opt (cs_has s);
     s_ox := of_opt (cs_ox s); s_oy := of_opt (cs_oy s) |}.

(* in the correspondence a "PNG file" is the RGBA image itself: lossless encode/decode *)
Definition entry_of (d : nat * cspec) : wentry image :=
  {| we_path := fst d; we_specs := specs_of (snd d); we_loaded := LNone |}.

Definition png_of_tex (t : texture) : image :=
  match extract_image gen_extract_bound T 0 0 t with
  | Ok im => im
  | _ => {| iw := O; ih := O; irows := [] |}
  end.

Definition source_of (s : csrc) : source image :=
  match s with
  | CAnm es => SAnm es
  | CDir fs => SDir (map (fun pf : nat * texture => (fst pf, png_of_tex (snd pf))) fs)
  end.

Fixpoint list_eqb {A} (eqb : A -> A -> bool) (l1 l2 : list A) : bool :=
  match l1, l2 with
  | [], [] => true
  | x :: t1, y :: t2 => eqb x y && list_eqb eqb t1 t2
  | _, _ => false
  end.

Definition tex_eqb (a b : texture) : bool :=
  Nat.eqb (t_w a) (t_w b) && Nat.eqb (t_h a) (t_h b) && (t_fmt a =? t_fmt b) && list_eqb Z.eqb (t_data a) (t_data b).
Definition otex_eqb (a b : option texture) : bool :=
  match a, b with Some x, Some y => tex_eqb x y | None, None => true | _, _ => false end.

Definition agree {A B} (eqb : A -> B -> bool) (m : outcome A) (i : ires B) : bool :=
  match m, i with
  | Ok a, IOk b => eqb a b
  | Err _, IErr => true
  | Panic _, IPanic => true
  | _, _ => false
  end.

Fixpoint dec_ok (f : cformat) (p : Z) (l : list Z) : bool :=
  match l with
  | [] => true
  | a :: t => match (do c <- dec_px T f p; enc8888 T c) with Ok a' => (a' =? a) && dec_ok f (p + 1) t | _ => false end
  end.

Fixpoint enc_ok (f : cformat) (l : list Z) (ps : list Z) : bool :=
  match l, ps with
  | [], [] => true
  | a :: t, p :: tp => match (do c <- dec8888 T a; enc_px T f c) with Ok p' => (p' =? p) && enc_ok f t tp | _ => false end
  | _, _ => false
  end.

Definition model_of (c : c17case) : bool :=
  match c with
  | KDec f p0 argb => dec_ok f p0 argb
  | KEnc f argb ps => enc_ok f argb ps
  | KRound t ox oy s r =>
      agree (list_eqb otex_eqb)
        (do im <- extract_image gen_extract_bound T ox oy t;
         compile_textures image Some T [SDir [(O, im)]] [entry_of (O, s)]) r
  | KSrc dest srcs r =>
      agree (list_eqb otex_eqb)
        (compile_textures image Some T (map source_of srcs) (map entry_of dest)) r
  end.

Fixpoint mismatches (n : N) (l : list c17case) : list N :=
  match l with
  | [] => []
  | c :: t => if model_of c then mismatches (n + 1) t else n :: mismatches (n + 1) t
  end.
