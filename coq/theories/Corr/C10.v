(* Corr/C10.v -- correspondence runner for C10: each case carries the scope tree the harness read off
   the parsed AST, the definition the implementation recorded for every identifier occurrence
   (ctx.resolutions after assign_languages + resolve_names) and the number of diagnostics per class;
   [model_of] recomputes all of it with Model/Resolve.v. *)
From TV Require Import Base.I32 Model.ResolveSyntax Gen.RibTable Model.Resolve Model.ResolveRename.
Open Scope Z_scope.

Inductive obs :=
| ONone                      (* no resolution recorded *)
| OUser (n : Z)              (* a definition made by the program; n = the implementation's DefId *)
| OReg (l x : Z) | OIns (l x : Z) | OBuiltin (x : Z) | OEnum (e x : Z)
| OOther.                    (* something the harness could not classify *)

Record errs := Errs { e_unknown : Z; e_barrier : Z; e_redef : Z; e_ambig : Z; e_noenum : Z; e_noconst : Z }.

Inductive c10case :=
| KRes (g : genv) (fl sl : Z) (p : prog) (o : list (Z * obs)) (e : errs).

Fixpoint obs_of (id : Z) (l : list (Z * obs)) : obs :=
  match l with
  | [] => OOther
  | (i, o) :: t => if i =? id then o else obs_of id t
  end.

Definition obs_eqb (a b : obs) : bool :=
  match a, b with
  | ONone, ONone => true
  | OUser n, OUser m => n =? m
  | OReg l x, OReg l' x' | OIns l x, OIns l' x' | OEnum l x, OEnum l' x' => (l =? l') && (x =? x')
  | OBuiltin x, OBuiltin x' => x =? x'
  | _, _ => false
  end.

(* does the implementation's record for occurrence [id] agree with the model's result r? *)
Definition agrees (ol : list (Z * obs)) (id : Z) (r : res) : bool :=
  let o := obs_of id ol in
  match r with
  | ROk d =>
      match user_id d with
      | Some i => match o with OUser _ => obs_eqb o (obs_of i ol) | _ => false end   (* same class as the declaring occurrence *)
      | None =>
          match d with
          | DReg l x => obs_eqb o (OReg l x)
          | DIns l x => obs_eqb o (OIns l x)
          | DBuiltin x => obs_eqb o (OBuiltin x)
          | DEnum e x => obs_eqb o (OEnum e x)
          | _ => false
          end
      end
  | _ => obs_eqb o ONone
  end.

Definition count {A} (f : A -> bool) (l : list A) : Z := Z.of_nat (length (filter f l)).

Definition is_class (k : nat) (e : event) : bool :=
  match e, k with
  | EvRes _ RUnknown, 0%nat | EvRes _ (RBarrier _), 1%nat | EvRedef _, 2%nat
  | EvRes _ RAmbiguous, 3%nat | EvRes _ RNoEnum, 4%nat | EvRes _ RNoConst, 5%nat => true
  | _, _ => false
  end.

(* declaring occurrences: the ones that resolve to themselves *)
Definition decl_ids (evs : list event) : list Z :=
  flat_map (fun e => match e with
                     | EvRes id (ROk d) => match user_id d with Some i => if i =? id then [id] else [] | None => [] end
                     | _ => [] end) evs.

Fixpoint nodupz (l : list Z) : bool :=
  match l with [] => true | x :: t => negb (memz x t) && nodupz t end.

Definition user_num (o : obs) : list Z := match o with OUser n => [n] | _ => [] end.

Definition model_of (c : c10case) : bool :=
  match c with
  | KRes g fl sl p ol e =>
      let evs := resolve g fl sl p in
      let rs := res_events evs in
      (* the tree satisfies the well-formedness hypothesis of the renaming theorem *)
      wf_progb (prog_nm p) p &&
      (* exactly one result per occurrence, for exactly the occurrences the harness indexed *)
      (Nat.eqb (length rs) (length ol))
      && nodupz (map (fun e => match e with EvRes id _ => id | EvRedef id => id end) rs)
      && forallb (fun e => match e with EvRes id r => agrees ol id r | _ => true end) rs
      (* different declarations are different definitions *)
      && nodupz (flat_map (fun id => user_num (obs_of id ol)) (decl_ids evs))
      (* diagnostics per class *)
      && (count (is_class 0) evs =? e_unknown e) && (count (is_class 1) evs =? e_barrier e)
      && (count (is_class 2) evs =? e_redef e) && (count (is_class 3) evs =? e_ambig e)
      && (count (is_class 4) evs =? e_noenum e) && (count (is_class 5) evs =? e_noconst e)
  end.

(* indices of the cases on which model and implementation disagree *)
Fixpoint mismatches (n : N) (l : list c10case) : list N :=
  match l with
  | [] => []
  | c :: t => if model_of c then mismatches (n + 1) t else n :: mismatches (n + 1) t
  end.
