(* Corr/C18.v -- correspondence runner for C18: a case is one compiled script: the sizes of the
   instructions found in the written binary (with the source's labels placed between them) and the
   offsets that the debug-info JSON reports; [model_of] recomputes the offsets with Model.DebugInfo. *)
From TV Require Import Base.I32 Model.DebugInfo.
Open Scope Z_scope.

Inductive c18case :=
| KDbg (stmts : list dstmt) (offs : list Z) (labels : list (Z * Z)) (endo : Z).   (* labels: (time, offset) in source order *)

Fixpoint zl_eqb (a b : list Z) : bool :=
  match a, b with
  | [], [] => true
  | x :: t1, y :: t2 => (x =? y) && zl_eqb t1 t2
  | _, _ => false
  end.
Fixpoint zzl_eqb (a b : list (Z * Z)) : bool :=
  match a, b with
  | [], [] => true
  | (x1, x2) :: t1, (y1, y2) :: t2 => (x1 =? y1) && (x2 =? y2) && zzl_eqb t1 t2
  | _, _ => false
  end.

Definition model_of (c : c18case) : bool :=
  match c with
  | KDbg stmts offs labels endo =>
      let g := gather_sizes stmts in
      zl_eqb (g_instrs g) offs && zzl_eqb (map (fun p => (snd (fst p), snd p)) (g_labels g)) labels && (g_end g =? endo)
  end.

Fixpoint mismatches (n : N) (l : list c18case) : list N :=
  match l with
  | [] => []
  | c :: t => if model_of c then mismatches (n + 1) t else n :: mismatches (n + 1) t
  end.
