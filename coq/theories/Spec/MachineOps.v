(* Spec/MachineOps.v -- the documented machine semantics of the operators on 32-bit integers,
   written independently of the code's vocabulary: arithmetic on the unsigned representative
   modulo 2^32, truncating division, shift counts modulo 32, arithmetic vs logical right shift,
   C-style logical operators. [None] = the operation has no defined value. *)
From TV Require Import Base.I32 Model.Ops.
Open Scope Z_scope.

(* signed reading of a 32-bit pattern *)
Definition of_u32 (u : Z) : Z := if u <? two31 then u else u - two32.

Definition truth (b : bool) : Z := if b then 1 else 0.

Definition spec_bi (op : binop) (a b : Z) : option Z :=
  match op with
  | Add => Some (of_u32 ((u32 a + u32 b) mod two32))
  | Sub => Some (of_u32 ((u32 a - u32 b) mod two32))
  | Mul => Some (of_u32 ((u32 a * u32 b) mod two32))
  | Div => if b =? 0 then None
           else if (a =? I32_MIN) && (b =? -1) then Some I32_MIN   (* the one overflowing quotient wraps *)
           else Some (Z.quot a b)                                  (* truncation toward zero *)
  | Rem => if b =? 0 then None
           else if b =? -1 then Some 0
           else Some (Z.rem a b)                                   (* sign of the dividend *)
  | Eq => Some (truth (Z.eqb a b))
  | Ne => Some (truth (negb (Z.eqb a b)))
  | Lt => Some (truth (Z.ltb a b))
  | Le => Some (truth (Z.leb a b))
  | Gt => Some (truth (Z.gtb a b))
  | Ge => Some (truth (Z.geb a b))
  | BitOr => Some (Z.lor a b)          (* Z's bitwise operations are two's complement *)
  | BitXor => Some (Z.lxor a b)
  | BitAnd => Some (Z.land a b)
  | LogicOr => Some (if a =? 0 then b else a)     (* C-style: yields an operand *)
  | LogicAnd => Some (if a =? 0 then 0 else b)
  | ShiftLeft => Some (of_u32 ((u32 a * 2 ^ (b mod 32)) mod two32))
  | ShiftRightSigned => Some (a / 2 ^ (b mod 32))                  (* floor: sign-propagating *)
  | ShiftRightUnsigned => Some (of_u32 (u32 a / 2 ^ (b mod 32)))   (* zero-filling *)
  end.

Definition spec_ui (op : unop) (a : Z) : option Z :=
  match op with
  | Neg => Some (of_u32 ((0 - u32 a) mod two32))
  | Not => Some (truth (a =? 0))
  | BitNot => Some (- a - 1)
  | CastI => Some a
  | _ => None
  end.
