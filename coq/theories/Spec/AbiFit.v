(* Spec/AbiFit.v -- the vocabulary of the C12/C15 theorems: which argument values "fit" a signature,
   which signatures are covered, and the side conditions on the generated codec table under which
   the encoder and the decoder are inverse.  All decidable (bool), so that the instances for
   Gen/ArgCodec.v are discharged by vm_compute. *)
From TV Require Import Base.I32 Model.Abi.
Open Scope Z_scope.

(* ---- values ---- *)
(* an i32 fits an n-byte field read back as signed/unsigned; a 4-byte field holds every i32
   (`x as u32` followed by `read_u32() as i32` is the identity) *)
Definition fits_width (n : nat) (sg : bool) (v : Z) : bool :=
  in_i32b v && ((n =? 4)%nat || in_range n sg v).

Definition int_fits (cd : codec) (e : enc) (v : Z) : bool :=
  match e with
  | EInt _ _ _ true => let '(n, sg, _) := cd_arg0 cd in fits_width n sg v
  | EInt size signed _ false =>
      match find_enc_arm cd size signed with
      | Some arm => fits_width (ea_wbytes arm) (ea_wsigned arm) v
      | None => false
      end
  | EOff | ETime => let '(n, sg, _) := cd_enc_jump cd in fits_width n sg v
  | _ => false
  end.

Section Repertoire.
(* the code points that Shift-JIS represents unambiguously (measured against encoding_rs by the harness) *)
Variable repertoire : Z -> bool.

Definition good_string (s : list Z) : bool := forallb (fun c => repertoire c && negb (c =? 0)) s.

Definition arg_fits (cd : codec) (e : enc) (a : arg) : bool :=
  match e, a_val a with
  | EFloat _, AFloat b => (0 <=? b) && (b <? 2 ^ 32) && (negb (a_reg a) || f32_is_integral b)
  | EStr _ _ _ _ _, AStr s => good_string s
  | EInt _ _ _ _, AInt v | EOff, AInt v | ETime, AInt v => int_fits cd e v
  | _, _ => false
  end.

(* the same without the width condition: any i32 in an integer position *)
Definition arg_typed (e : enc) (a : arg) : bool :=
  match e, a_val a with
  | EFloat _, AFloat b => (0 <=? b) && (b <? 2 ^ 32) && (negb (a_reg a) || f32_is_integral b)
  | EStr _ _ _ _ _, AStr s => good_string s
  | EInt _ _ _ _, AInt v | EOff, AInt v | ETime, AInt v => in_i32b v
  | _, _ => false
  end.

Fixpoint args_typed (sig : list enc) (args : list arg) : bool :=
  match sig with
  | [] => match args with [] => true | _ => false end
  | e :: sig' =>
      if is_pad e then args_typed sig' args
      else match args with
           | a :: args' => arg_typed e a && args_typed sig' args'
           | [] => false
           end
  end.

(* the arguments are matched with the non-padding parameters, one each *)
Fixpoint args_fit (cd : codec) (sig : list enc) (args : list arg) : bool :=
  match sig with
  | [] => match args with [] => true | _ => false end
  | e :: sig' =>
      if is_pad e then args_fit cd sig' args
      else match args with
           | a :: args' => arg_fits cd e a && args_fit cd sig' args'
           | [] => false
           end
  end.
End Repertoire.

(* ---- signatures ---- *)
Definition str_ok (e : enc) : bool :=
  match e with
  | EStr (SBlock bs) _ _ _ _ | EStr (SPascal bs) _ _ _ _ => 0 <? bs
  | EStr (SFixed _ nulless) _ _ _ furibug => negb (nulless && furibug)
  | _ => true
  end.

Definition nparams (sig : list enc) : Z := count_if (fun e => negb (is_pad e)) sig.

(* validate() of abi.rs, string sizes that cannot panic or leak furigana bytes, at most as many
   parameters as the mask has bits, and timeline arg0 only in register-less languages *)
Definition sig_ok (cd : codec) (has_regs : bool) (sig : list enc) : bool :=
  validate sig && forallb str_ok sig && (nparams sig <=? cd_mask_bits cd)
  && (negb (existsb is_arg0 sig) || negb has_regs).

(* ---- the table ---- *)
Definition cast_rec (c : cast) : bool := match c with CastUnrec => false | _ => true end.
Definition width_ok (n : nat) : bool := (0 <? n)%nat && (n <=? 4)%nat.

Definition enc_arm_ok (cd : codec) (e : enc_arm) : bool :=
  match find_dec_arm cd (ea_size e) (ea_signed e) with
  | Some d => (da_len d =? Z.of_nat (ea_wbytes e)) && (da_rbytes d =? ea_wbytes e)%nat
              && Bool.eqb (da_rsigned d) (ea_wsigned e) && width_ok (ea_wbytes e) && cast_rec (ea_cast e)
  | None => false
  end.

Definition pad_ok (cd : codec) (p : Z * nat) : bool :=
  let '(size, n) := p in
  (Z.of_nat n =? size) && width_ok n &&
  match zassoc size (cd_dec_pad cd) with Some (n', _) => (n' =? n)%nat | None => false end.

Definition codec_ok (cd : codec) : bool :=
  forallb (enc_arm_ok cd) (cd_enc cd)
  && (let '(n, sg, c) := cd_enc_jump cd in let '(len, n', sg') := cd_dec_jump cd in
      width_ok n && cast_rec c && (len =? Z.of_nat n) && (n' =? n)%nat && Bool.eqb sg' sg)
  && forallb (pad_ok cd) (cd_enc_pad cd)
  && (let '(len, n) := cd_dec_float cd in (cd_enc_float cd =? 4)%nat && (len =? 4) && (n =? 4)%nat)
  && (let '(n, sg, c) := cd_arg0 cd in width_ok n && (n <? 4)%nat && cast_rec c)
  && (0 <? cd_mask_bits cd)
  && cd_nul_block cd && cd_nul_pascal cd && cd_nul_fixed cd && negb (cd_nul_nulless cd)
  && (cd_pascal_prefix cd =? 4)%nat.

(* every narrowing cast is range-checked: the condition under which no value is silently changed *)
Definition lossless (n : nat) (c : cast) : bool :=
  match c with CastChecked => true | CastNone | CastTrunc => (n =? 4)%nat | CastUnrec => false end.
Definition all_checked (cd : codec) : bool :=
  forallb (fun e => lossless (ea_wbytes e) (ea_cast e)) (cd_enc cd)
  && (let '(n, _, c) := cd_enc_jump cd in lossless n c)
  && (let '(n, _, c) := cd_arg0 cd in lossless n c).

(* ---- calls that the front end accepts (C12: no panic in encode_args) ---- *)
Definition bs_ok (e : enc) : bool :=
  match e with
  | EStr (SBlock bs) _ _ _ _ | EStr (SPascal bs) _ _ _ _ => negb (bs =? 0)
  | _ => true
  end.

(* the table has an arm for this encoding *)
Definition enc_known (cd : codec) (e : enc) : bool :=
  match e with
  | EInt size signed _ false => match find_enc_arm cd size signed with Some _ => true | None => false end
  | EPad size => match zassoc size (cd_enc_pad cd) with Some _ => true | None => false end
  | _ => true
  end.

(* every format character of int_from_attrs / other_from_attrs leads to an arm of encode_args *)
Definition chars_covered (cd : codec) : bool :=
  forallb (fun p => match find_enc_arm cd (fst (snd p)) (snd (snd p)) with Some _ => true | None => false end) (cd_chars cd)
  && forallb (fun p => match zassoc (snd p) (cd_enc_pad cd) with Some _ => true | None => false end) (cd_pad_chars cd).

Definition typed_pair (e : enc) (a : arg) : bool :=
  aty_eqb (ty_of_enc e) (ty_of_arg a) && (reg_ok e || negb (a_reg a)).

(* the arguments have the types (and const-ness) of the non-padding parameters, one each *)
Fixpoint typed_call (sig : list enc) (args : list arg) : bool :=
  match sig with
  | [] => match args with [] => true | _ => false end
  | e :: sig' =>
      if is_pad e then typed_call sig' args
      else match args with
           | a :: args' => typed_pair e a && typed_call sig' args'
           | [] => false
           end
  end.

(* no padding before a parameter: the signatures on which matching arguments against all parameters
   (padding included) coincides with matching them against the non-padding parameters *)
Fixpoint trailing_pad_only (sig : list enc) : bool :=
  match sig with
  | [] => true
  | e :: sig' => if is_pad e then forallb is_pad sig' else trailing_pad_only sig'
  end.

(* block sizes are written as unsigned numbers in a mapfile *)
Definition params_nonneg (ps : list sparam) : bool :=
  forallb (fun p => match p with PStr (SBlock bs) _ _ _ _ | PStr (SPascal bs) _ _ _ _ => 0 <=? bs | _ => true end) ps.
