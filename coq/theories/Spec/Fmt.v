(* Spec/Fmt.v -- what property C08 says, independently of how the formatter and parser work:
   which expressions the property ranges over ([pr_expr]), what the parser is expected to give
   back for a printed expression ([unfold]: the parser has no negative literals, no IntFormat,
   and INF/NAN/true/false are names), and when two expressions denote the same script ([fold]:
   literal signs folded, builtin constants replaced by their values, formatting hints erased). *)
From TV Require Import Base.I32 Gen.FmtTables Model.Fmt Model.FmtLex Model.FmtParse.
Open Scope Z_scope.

Definition binops : list string :=
  ["+"; "-"; "*"; "/"; "%"; "=="; "!="; "<"; "<="; ">"; ">="; "|"; "^"; "&"; "||"; "&&"; "<<"; ">>"; ">>>"]%string.
Definition fn_unops : list string :=
  ["$"; "%"; "int"; "float"; "sin"; "cos"; "tan"; "asin"; "acos"; "atan"; "sqrt"]%string.

Fixpoint all_chars (p : ascii -> bool) (s : string) : bool :=
  match s with EmptyString => true | String c r => p c && all_chars p r end.

(* an identifier the parser can produce: [a-zA-Z_][a-zA-Z0-9_]*, not a keyword (contextual keywords
   allowed), not of the form ins_... *)
Definition valid_ident (s : string) : bool :=
  match s with
  | String c _ => is_ident_start c && all_chars is_ident_char s
                  && match ident_of (word_tok s) with Some _ => true | None => false end
  | EmptyString => false
  end.

Definition pr_var (v : fvar) : bool :=
  match v with VNamed _ n => valid_ident n | VReg _ r => in_i32b r end.

Definition first_char (s : string) : option ascii := match s with String c _ => Some c | _ => None end.

(* may the text [s] directly follow the prefix operator [op]?  `-` glues with `-` (to `--`);
   `!` glues with the characters of a difficulty string; `-` and `!` glue with `=` (no expression
   starts with `=`); and the grammar allows a single prefix operator per level, so a literal that
   prints with its own `-` cannot follow any. *)
Definition follows_ok (op : string) (s : string) : bool :=
  match first_char s with
  | Some c => negb (Ascii.eqb c "-"%char) && negb (Ascii.eqb c "="%char)
              && (negb (String.eqb op "!") || negb (is_diff_char c))
  | None => false
  end.

Section WithFd.
Variable fd : Z -> string.

Fixpoint pr_expr (e : fexpr) : bool :=
  match e with
  | FTern c l r => pr_expr c && pr_expr l && pr_expr r
  | FBin a op b => mem_str op binops && pr_expr a && pr_expr b
  | FUn op x =>
      if mem_str op prefix_unops then pr_expr x && (gen_unop_guard || follows_ok op (print_expr fd false x))
      else mem_str op fn_unops && pr_expr x
  | FXcr _ _ v => pr_var v
  | FVar v => pr_var v
  | FCall n ps args =>
      match n with
      | CNormal s => valid_ident s && negb (String.eqb s "rad")
      | CIns op => (0 <=? op) && (op <? 65536)
      end
      && forallb (fun p => mem_str (fst p) pseudo_kinds && pr_expr (snd p)) ps
      && forallb pr_expr args
  | FDiff cs =>
      match cs with
      | Some _ :: _ :: _ => forallb (fun c => match c with Some x => pr_expr x | None => true end) cs
      | _ => false
      end
  | FLitI v _ => in_i32b v
  | FLitF b => (0 <=? b) && (b <? two32)
  | FLitS _ => true
  | FLabelProp kw l => mem_str kw label_props && valid_ident l
  | FEnum a b => valid_ident a && valid_ident b
  end.

End WithFd.

Definition NAN_BITS : Z := 2143289344.   (* CANONICAL_NAN_BITS 0x7fc00000 *)
Definition INF_BITS : Z := 2139095040.

Definition named (s : string) : fexpr := FVar (VNamed None s).
Definition dec_fmt : intfmt := IF true RDec.

(* the parser's view of a printed integer literal *)
Definition unfold_int (v : Z) (f : intfmt) : fexpr :=
  let neg := FUn "-" (FLitI (wrap32 (u32 (- v))) dec_fmt) in
  let pos := FLitI v dec_fmt in
  match f with
  | IF true RBool => if v =? 0 then named "false" else if v =? 1 then named "true" else if v <? 0 then neg else pos
  | IF false RBool => if v =? 0 then named "false" else if v =? 1 then named "true" else pos
  | IF true _ => if v <? 0 then neg else pos
  | IF false _ => pos
  end.

Definition unfold_float (b : Z) : fexpr :=
  if f_is_nan b then named "NAN"
  else
    let body := if f_is_inf b then named "INF" else FLitF (f_abs b) in
    if f_sign b then FUn "-" body else body.

Fixpoint unfold (e : fexpr) : fexpr :=
  match e with
  | FTern c l r => FTern (unfold c) (unfold l) (unfold r)
  | FBin a op b => FBin (unfold a) op (unfold b)
  | FUn op x => FUn op (unfold x)
  | FCall n ps args => FCall n (map (fun p => (fst p, unfold (snd p))) ps) (map unfold args)
  | FDiff cs => FDiff (map (fun c => match c with Some x => Some (unfold x) | None => None end) cs)
  | FLitI v f => unfold_int v f
  | FLitF b => unfold_float b
  | _ => e
  end.

(* the same script: fold literal signs, builtin constants are their values, hints erased *)
Definition fold_neg (x : fexpr) : fexpr :=
  match x with
  | FLitI v _ => FLitI (wrap32 (- v)) dec_fmt
  | FLitF b => if f_is_nan b then FLitF NAN_BITS else FLitF (if f_sign b then f_abs b else b + 2147483648)
  | _ => FUn "-" x
  end.

Fixpoint fold (e : fexpr) : fexpr :=
  match e with
  | FTern c l r => FTern (fold c) (fold l) (fold r)
  | FBin a op b => FBin (fold a) op (fold b)
  | FUn op x => if String.eqb op "-" then fold_neg (fold x) else FUn op (fold x)
  | FCall n ps args => FCall n (map (fun p => (fst p, fold (snd p))) ps) (map fold args)
  | FDiff cs => FDiff (map (fun c => match c with Some x => Some (fold x) | None => None end) cs)
  | FLitI v _ => FLitI v dec_fmt
  | FLitF b => FLitF b
  | FVar (VNamed None n) =>
      if String.eqb n "INF" then FLitF INF_BITS
      else if String.eqb n "NAN" then FLitF NAN_BITS
      else if String.eqb n "true" then FLitI 1 dec_fmt
      else if String.eqb n "false" then FLitI 0 dec_fmt
      else e
  | _ => e
  end.

(* no NaN other than the canonical one: the class excluded by finding #11 *)
Fixpoint no_odd_nan (e : fexpr) : bool :=
  match e with
  | FTern c l r => no_odd_nan c && no_odd_nan l && no_odd_nan r
  | FBin a _ b => no_odd_nan a && no_odd_nan b
  | FUn _ x => no_odd_nan x
  | FCall _ ps args => forallb (fun p => no_odd_nan (snd p)) ps && forallb no_odd_nan args
  | FDiff cs => forallb (fun c => match c with Some x => no_odd_nan x | None => true end) cs
  | FLitF b => negb (f_is_nan b) || (b =? NAN_BITS)
  | _ => true
  end.
