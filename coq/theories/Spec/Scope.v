(* Spec/Scope.v -- C10: the documented scoping rules, stated without ribs.

   An environment is a function from spellings to what they denote at one point of the program.
   The rules (README "Name resolution" / comments in src/resolve/mod.rs):
     * a block first brings all of its const items (variables) and function items (functions)
       into scope, for the whole block, whatever their position ([enter_v], [enter_f]);
     * a local declaration [int x = e] extends the environment for the statements after it;
       [e] itself is read in the environment before the declaration ([s_decls]);
     * a nested block sees the environment of the point where it stands, and whatever it
       declares ends with it (the environment is simply not passed back);
     * the body of a function and the initialiser of a const see the surrounding environment
       with every local variable and parameter made unusable ([hide]); a hidden local still
       shadows an outer const of the same spelling, and using it is an error;
     * parameters are in scope in the whole body ([bind_occs mk_param]);
     * the language a name is looked up with is the function language inside non-const functions,
       the script language inside scripts, and none inside const functions, const initialisers
       and meta ([func_lang]);
     * what is not bound by the program is looked up globally (Model.Resolve.global_var/global_fun);
     * one block must not declare two locals, two consts or two functions of the same spelling, and a
       function must not have two parameters of the same spelling ([no_redeclaration]).
   The result is, for every identifier occurrence, what it denotes. *)
From TV Require Import Base.I32 Model.ResolveSyntax Gen.RibTable Model.Resolve.
Open Scope Z_scope.

Definition env := ident -> lres.
Definition env0 : env := fun _ => LNone.

Definition bind (e : env) (x : ident) (d : def) : env :=
  fun y => if y =? x then LFound d else e y.

Definition is_local_def (d : def) : bool :=
  match d with DLocal _ | DParam _ => true | _ => false end.

Definition hide_res (r : lres) : lres :=
  match r with
  | LFound d => if is_local_def d then LHidden d else LFound d
  | r => r
  end.
Definition hide (e : env) : env := fun y => hide_res (e y).

Fixpoint bind_occs (mk : occ -> def) (e : env) (os : list occ) : env :=
  match os with
  | [] => e
  | o :: t => bind_occs mk (bind e (oname o) (mk o)) t
  end.

Fixpoint bind_funcs (e : env) (fs : list (occ * nat)) : env :=
  match fs with
  | [] => e
  | (f, n) :: t => bind_funcs (bind e (oname f) (DFunc (oid f) n)) t
  end.

Definition enter_v (ve : env) (its : list item) : env := bind_occs mk_const ve (const_occs its).
Definition enter_f (fe : env) (its : list item) : env := bind_funcs fe (func_occs its).

(* every declaration denotes itself *)
Definition self_event (d : def) (o : occ) : event := EvRes (oid o) (ROk d).
Definition item_self_events (its : list item) : list event :=
  map (fun o => self_event (mk_const o) o) (const_occs its)
  ++ map (fun fn => self_event (DFunc (oid (fst fn)) (snd fn)) (fst fn)) (func_occs its).

Section Spec.
  Variable g : genv.
  Variables fl sl : lang.

  Definition s_uses (ve fe : env) (al : option lang) (us : list use) : list event :=
    map (use_event g ve fe al) us.

  Fixpoint s_decls (ve fe : env) (al : option lang) (vars : list (occ * list use)) : list event * env :=
    match vars with
    | [] => ([], ve)
    | (o, init) :: t =>
        let '(e2, ve2) := s_decls (bind ve (oname o) (mk_local o)) fe al t in
        (s_uses ve fe al init ++ self_event (mk_local o) o :: e2, ve2)
    end.

  Fixpoint s_stmts (ve fe : env) (al : option lang) (b : block) {struct b} : list event :=
    match b with
    | BNil => []
    | BCons s rest =>
        match s with
        | SUses us => s_uses ve fe al us ++ s_stmts ve fe al rest
        | SDecl vars => let '(e, ve') := s_decls ve fe al vars in e ++ s_stmts ve' fe al rest
        | SBlock b' =>
            item_self_events (block_items b')
            ++ s_stmts (enter_v ve (block_items b')) (enter_f fe (block_items b')) al b'
            ++ s_stmts ve fe al rest
        | SItem i => s_item ve fe i ++ s_stmts ve fe al rest
        end
    end
  with s_item (ve fe : env) (i : item) {struct i} : list event :=
    match i with
    | IConst vars => flat_map (fun v => s_uses (hide ve) fe None (snd v)) vars
    | IFunc q f ps body =>
        map (fun p => self_event (mk_param p) p) ps
        ++ item_self_events (block_items body)
        ++ s_stmts (enter_v (bind_occs mk_param (hide ve) ps) (block_items body)) (enter_f fe (block_items body))
                   (func_lang fl q) body
    | IFuncDecl q f ps => map (fun p => EvRes (oid p) RSkipped) ps
    | IScript b =>
        item_self_events (block_items b)
        ++ s_stmts (enter_v ve (block_items b)) (enter_f fe (block_items b)) (Some sl) b
    | IMeta us => s_uses ve fe None us
    end.

  Definition s_block (ve fe : env) (al : option lang) (b : block) : list event :=
    item_self_events (block_items b) ++ s_stmts (enter_v ve (block_items b)) (enter_f fe (block_items b)) al b.

  Definition scope_spec (p : prog) : list event :=
    match p with
    | PFile items => item_self_events items ++ flat_map (s_item (enter_v env0 items) (enter_f env0 items)) items
    | PBlock b => s_block env0 env0 (Some fl) b
    end.

  (* [binds p id r]: occurrence [id] of program p denotes r under the rules above *)
  Definition binds (p : prog) (id : Z) (r : res) : Prop := In (EvRes id r) (scope_spec p).
End Spec.

(* ---- redeclaration ---- *)

Fixpoint local_names (b : block) : list ident :=
  match b with
  | BNil => []
  | BCons (SDecl vars) t => map (fun v => oname (fst v)) vars ++ local_names t
  | BCons _ t => local_names t
  end.

Definition const_names (its : list item) : list ident := map oname (const_occs its).
Definition func_names (its : list item) : list ident := map (fun fn => oname (fst fn)) (func_occs its).

(* the names one block declares itself *)
Definition heads_ok (b : block) : Prop :=
  NoDup (local_names b) /\ NoDup (const_names (block_items b)) /\ NoDup (func_names (block_items b)).

Fixpoint nr_sub (b : block) : Prop :=
  match b with
  | BNil => True
  | BCons s t =>
      match s with
      | SBlock b' => heads_ok b' /\ nr_sub b'
      | SItem i => nr_item i
      | _ => True
      end /\ nr_sub t
  end
with nr_item (i : item) : Prop :=
  match i with
  | IFunc _ _ ps body => NoDup (map oname ps) /\ heads_ok body /\ nr_sub body
  | IScript b => heads_ok b /\ nr_sub b
  | _ => True
  end.

Definition nr_block (b : block) : Prop := heads_ok b /\ nr_sub b.

Definition no_redeclaration (p : prog) : Prop :=
  match p with
  | PFile items => NoDup (const_names items) /\ NoDup (func_names items) /\ Forall nr_item items
  | PBlock b => nr_block b
  end.
