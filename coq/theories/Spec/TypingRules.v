(* Spec/TypingRules.v -- the declarative typing rules of truth scripts, transcribed from
   doc/syntax.md and the property text of C09 (operand types per operator class, int-only
   conditions and counters, matching assignment and declaration types, call arity and parameter
   types, sigils only on numeric variables, void only as an expression statement), independent
   of the checker's code; and the tables the checker's source is expected to contain. *)
From TV Require Import Base.I32 Model.Ops Model.Expr Model.TypeCheck.
Open Scope Z_scope.

(* ---- operators ---- *)
Definition spec_bin_class (op : binop) : opclass :=
  match op with
  | Add | Sub | Mul | Div | Rem => OC_Arithmetic
  | Eq | Ne | Lt | Le | Gt | Ge => OC_Comparison
  | BitOr | BitXor | BitAnd => OC_Bitwise
  | LogicOr | LogicAnd => OC_Logical
  | ShiftLeft | ShiftRightSigned | ShiftRightUnsigned => OC_Shift
  end.
Definition spec_un_class (op : unop) : opclass :=
  match op with
  | Not => OC_Logical | Neg => OC_Arithmetic | BitNot => OC_Bitwise
  | Sin | Cos | Tan | Asin | Acos | Atan | Sqrt => OC_FloatMath
  | EncodeI | EncodeF => OC_TySigil
  | CastI | CastF => OC_Cast
  end.

Definition numeric (t : sty) : Prop := t = TInt \/ t = TFloat.

(* [bin_typing op t r]: both operands of type t, result of type r *)
Definition bin_typing (op : binop) (t r : sty) : Prop :=
  match spec_bin_class op with
  | OC_Arithmetic => numeric t /\ r = t
  | OC_Comparison => numeric t /\ r = TInt
  | OC_Bitwise | OC_Logical | OC_Shift => t = TInt /\ r = TInt
  | _ => False
  end.

Definition un_typing (op : unop) (t r : sty) : Prop :=
  match op with
  | Neg => numeric t /\ r = t
  | Not | BitNot => t = TInt /\ r = TInt
  | Sin | Cos | Tan | Asin | Acos | Atan | Sqrt => t = TFloat /\ r = TFloat
  | EncodeI | CastI => numeric t /\ r = TInt
  | EncodeF | CastF => numeric t /\ r = TFloat
  end.

Definition spec_pseudo_ty (k : pseudo) : sty :=
  match k with PK_blob => TString | _ => TInt end.

Definition spec_assign_binop (op : assignop) : option binop :=
  match op with
  | AO_Assign => None
  | AO_Add => Some Add | AO_Sub => Some Sub | AO_Mul => Some Mul | AO_Div => Some Div
  | AO_Rem => Some Rem | AO_BitOr => Some BitOr | AO_BitXor => Some BitXor
  | AO_BitAnd => Some BitAnd | AO_ShiftLeft => Some ShiftLeft
  | AO_ShiftRightSigned => Some ShiftRightSigned | AO_ShiftRightUnsigned => Some ShiftRightUnsigned
  end.

(* ---- variables: sigils only on numeric (or untyped) variables ---- *)
Definition inherent (G : env) (n : vname) : vty :=
  match n with VReg r => reg_ty G r | VNamed id => var_ty G id end.

Inductive var_has_type (G : env) : var -> sty -> Prop :=
| VT_plain n t : inherent G n = Typed t -> var_has_type G (Var None n) t
| VT_sigil sg n : inherent G n <> Typed TString -> var_has_type G (Var (Some sg) n) (sty_of_sigil sg).

Definition sigil_ok (G : env) (v : var) : Prop :=
  match v with Var (Some _) n => inherent G n <> Typed TString | Var None _ => True end.

(* ---- expressions ---- *)
Inductive has_type (G : env) : texpr -> ety -> Prop :=
| HT_int z : has_type G (TLitI z) (Value TInt)
| HT_float b : has_type G (TLitF b) (Value TFloat)
| HT_str s : has_type G (TLitS s) (Value TString)
| HT_var v t : var_has_type G v t -> has_type G (TVar v) (Value t)
| HT_enum en id : has_type G (TEnum en id) (Value (enum_ty G en))
| HT_bin a op b t r :
    has_type G a (Value t) -> has_type G b (Value t) -> bin_typing op t r ->
    has_type G (TBin a op b) (Value r)
| HT_un op x t r :
    has_type G x (Value t) -> un_typing op t r -> has_type G (TUn op x) (Value r)
| HT_xcr v : var_has_type G v TInt -> has_type G (TXcr v) (Value TInt)
| HT_tern c l r t :
    has_type G c (Value TInt) -> has_type G l (Value t) -> has_type G r (Value t) ->
    has_type G (TTern c l r) (Value t)
| HT_diff first rest t :
    has_type G first (Value t) -> cases_typed G rest t -> has_type G (TDiff first rest) (Value t)
| HT_label : has_type G TLabelProp (Value TInt)
(* a raw instruction given as a blob of bytes: no positional arguments, void *)
| HT_call_blob f ps :
    pseudos_typed G ps -> fn_is_ins G f = true -> has_blob ps = true ->
    has_type G (TCall f ps []) Void
(* a call: as many arguments as the signature has non-defaulted parameters, matched in order *)
| HT_call f ps args s :
    pseudos_typed G ps -> (ps <> [] -> fn_is_ins G f = true) -> has_blob ps = false ->
    fn_sig G f = Some s -> args_typed G args (filter nondefault (sg_params s)) ->
    has_type G (TCall f ps args) (sg_ret s)
with cases_typed (G : env) : list (option texpr) -> sty -> Prop :=
| CT_nil t : cases_typed G [] t
| CT_none rest t : cases_typed G rest t -> cases_typed G (None :: rest) t
| CT_some x rest t : has_type G x (Value t) -> cases_typed G rest t -> cases_typed G (Some x :: rest) t
with pseudos_typed (G : env) : list (pseudo * texpr) -> Prop :=
| PT_nil : pseudos_typed G []
| PT_cons k x rest :
    has_type G x (Value (spec_pseudo_ty k)) -> pseudos_typed G rest -> pseudos_typed G ((k, x) :: rest)
with args_typed (G : env) : list texpr -> list (vty * bool) -> Prop :=
| AT_nil : args_typed G [] []
| AT_cons a args p ps t :
    has_type G a (Value t) -> (fst p = Untyped \/ fst p = Typed t) -> args_typed G args ps ->
    args_typed G (a :: args) (p :: ps).

Scheme has_type_mind := Induction for has_type Sort Prop
  with cases_typed_mind := Induction for cases_typed Sort Prop
  with pseudos_typed_mind := Induction for pseudos_typed Sort Prop
  with args_typed_mind := Induction for args_typed Sort Prop.

(* ---- declarations ---- *)
Definition kw_ty (kw : tykw) : option sty :=
  match kw with KwInt => Some TInt | KwFloat => Some TFloat | KwString => Some TString | _ => None end.

(* [wt_declarator G kw v init]: `kw v;` or `kw v = init;` *)
Definition wt_declarator (G : env) (kw : tykw) (v : var) (init : option texpr) : Prop :=
  kw <> KwVoid /\
  sigil_ok G v /\
  (forall t, kw_ty kw = Some t -> var_has_type G v t) /\
  (forall e, init = Some e -> exists t, var_has_type G v t /\ has_type G e (Value t)).

(* ---- statements; [cur] is the return type of the enclosing function, if any ---- *)
Inductive wt_stmt (G : env) : option ety -> stmt -> Prop :=
| WT_func cur ret b : wt_block G (Some ret) b -> wt_stmt G cur (SFunc ret (Some b))
| WT_func_decl cur ret : wt_stmt G cur (SFunc ret None)
| WT_script cur b : wt_block G cur b -> wt_stmt G cur (SScript b)
| WT_meta cur es : Forall (fun e => exists t, has_type G e t) es -> wt_stmt G cur (SMeta es)
| WT_const cur kw vars :
    Forall (fun p => wt_declarator G kw (fst p) (Some (snd p))) vars -> wt_stmt G cur (SConst kw vars)
| WT_jump cur : wt_stmt G cur SJump
| WT_condjump cur c : has_type G c (Value TInt) -> wt_stmt G cur (SCondJump c)
| WT_return_void : wt_stmt G (Some Void) (SReturn None)
| WT_return_value t e : has_type G e (Value t) -> wt_stmt G (Some (Value t)) (SReturn (Some e))
| WT_condchain cur cbs : wt_condblocks G cur cbs -> wt_stmt G cur (SCondChain cbs None)
| WT_condchain_else cur cbs b :
    wt_condblocks G cur cbs -> wt_block G cur b -> wt_stmt G cur (SCondChain cbs (Some b))
| WT_loop cur b : wt_block G cur b -> wt_stmt G cur (SLoop b)
| WT_while cur c b : has_type G c (Value TInt) -> wt_block G cur b -> wt_stmt G cur (SWhile c b)
| WT_times cur n b : has_type G n (Value TInt) -> wt_block G cur b -> wt_stmt G cur (STimes None n b)
| WT_times_clobber cur v n b :
    has_type G n (Value TInt) -> var_has_type G v TInt -> wt_block G cur b ->
    wt_stmt G cur (STimes (Some v) n b)
| WT_expr cur e : has_type G e Void -> wt_stmt G cur (SExpr e)
| WT_block cur b : wt_block G cur b -> wt_stmt G cur (SBlock b)
| WT_assign cur v e t :
    var_has_type G v t -> has_type G e (Value t) -> wt_stmt G cur (SAssign v AO_Assign e)
| WT_assign_op cur v op bop e t r :
    spec_assign_binop op = Some bop -> var_has_type G v t -> has_type G e (Value t) ->
    bin_typing bop t r -> wt_stmt G cur (SAssign v op e)
| WT_decl cur kw vars :
    Forall (fun p => wt_declarator G kw (fst p) (snd p)) vars -> wt_stmt G cur (SDecl kw vars)
| WT_interrupt cur e : has_type G e (Value TInt) -> wt_stmt G cur (SInterrupt e)
| WT_abstime cur : wt_stmt G cur SAbsTime
| WT_reltime cur e : has_type G e (Value TInt) -> wt_stmt G cur (SRelTime e)
| WT_label cur : wt_stmt G cur SLabel
| WT_scopeend cur : wt_stmt G cur SScopeEnd
| WT_noinstr cur : wt_stmt G cur SNoInstr
(* no rule for SCallSub: `@f(..)` / `f(..) async` is reserved syntax *)
with wt_block (G : env) : option ety -> list stmt -> Prop :=
| WB_nil cur : wt_block G cur []
| WB_cons cur s b : wt_stmt G cur s -> wt_block G cur b -> wt_block G cur (s :: b)
with wt_condblocks (G : env) : option ety -> list (texpr * list stmt) -> Prop :=
| WC_nil cur : wt_condblocks G cur []
| WC_cons cur c b rest :
    has_type G c (Value TInt) -> wt_block G cur b -> wt_condblocks G cur rest ->
    wt_condblocks G cur ((c, b) :: rest).

Definition is_item (s : stmt) : Prop := ikind_of s <> None.
Definition wt_file (G : env) (items : list stmt) : Prop :=
  Forall (fun s => is_item s /\ wt_stmt G None s) items.

(* ---- the tables the source is expected to contain ---- *)
Definition spec_bin_req (c : opclass) : req :=
  match c with
  | OC_Arithmetic | OC_Comparison => RQ_numeric
  | OC_Bitwise | OC_Logical | OC_Shift => RQ_int
  | _ => RQ_unreachable
  end.
Definition spec_bin_res (c : opclass) : res :=
  match c with
  | OC_Arithmetic => RS_arg
  | OC_Comparison | OC_Bitwise | OC_Logical | OC_Shift => RS_int
  | _ => RS_unreachable
  end.
Definition spec_un_req (op : unop) : req :=
  match op with
  | Neg | EncodeI | EncodeF | CastI | CastF => RQ_numeric
  | Not | BitNot => RQ_int
  | Sin | Cos | Tan | Asin | Acos | Atan | Sqrt => RQ_float
  end.
Definition spec_un_res (op : unop) : res :=
  match op with
  | Neg => RS_arg
  | Not | BitNot | EncodeI | CastI => RS_int
  | Sin | Cos | Tan | Asin | Acos | Atan | Sqrt | EncodeF | CastF => RS_float
  end.
Definition spec_pseudo_req (k : pseudo) : req :=
  match k with PK_blob => RQ_string | _ => RQ_int end.

Definition spec_optypes : optypes := {|
  ot_bin_class := spec_bin_class; ot_un_class := spec_un_class;
  ot_bin_req := spec_bin_req; ot_bin_res := spec_bin_res;
  ot_un_req := spec_un_req; ot_un_res := spec_un_res;
  ot_pseudo_req := spec_pseudo_req; ot_assign_binop := spec_assign_binop;
  ot_ct_enum := CT_enum_ty; ot_call_zip := CZ_nondefault |}.

(* the expected row of Visitor::visit_stmt for each statement kind *)
Definition spec_srow (k : skind) : drow :=
  match k with
  | K_Item | K_CondChain | K_CondJump | K_While | K_Jump | K_Loop | K_Block => D_Walk
  | K_Return => D_Check CF_return false
  | K_Assignment => D_Check CF_assignment false
  | K_Expr => D_Check CF_expr false
  | K_Times => D_Check CF_times true
  | K_Declaration => D_Check CF_declaration false
  | K_InterruptLabel | K_RelTimeLabel => D_Check CF_cond false
  | K_CallSub => D_Reject
  | K_AbsTimeLabel | K_Label | K_ScopeEnd | K_NoInstruction => D_Skip
  end.
Definition spec_irow (k : ikind) : irow :=
  match k with
  | IK_Func => I_FuncWalk
  | IK_Script | IK_Meta => I_Walk
  | IK_ConstVar => I_Check CF_constvar
  end.
(* what ast::walk_stmt / ast::walk_item are transcribed as in Model/TypeCheck.check_stmt *)
Definition spec_walk_stmt (k : skind) : list wcall :=
  match k with
  | K_Item => [WC_item]
  | K_Jump => [WC_jump]
  | K_CondJump => [WC_cond; WC_jump]
  | K_Return => [WC_optexpr]
  | K_CondChain => [WC_condblocks; WC_optblock]
  | K_Loop => [WC_block]
  | K_While => [WC_cond; WC_block]
  | K_Times => [WC_optvar; WC_expr; WC_block]
  | K_Expr => [WC_expr]
  | K_Block => [WC_block]
  | K_Assignment => [WC_var; WC_expr]
  | K_Declaration => [WC_declvars]
  | K_CallSub => [WC_exprs]
  | K_InterruptLabel => [WC_expr]
  | K_RelTimeLabel => [WC_expr]
  | K_AbsTimeLabel | K_Label | K_ScopeEnd | K_NoInstruction => []
  end.
Definition spec_walk_item (k : ikind) : list wcall :=
  match k with
  | IK_Func => [WC_optrootblock]
  | IK_Script => [WC_rootblock]
  | IK_Meta => [WC_meta]
  | IK_ConstVar => [WC_constvars]
  end.
Definition spec_tctable : tctable := {|
  tc_stmt := spec_srow; tc_item := spec_irow;
  tc_walk_stmt := spec_walk_stmt; tc_walk_item := spec_walk_item |}.

(* ---- decidable equalities on table entries ---- *)
Definition opclass_eqb (a b : opclass) : bool :=
  match a, b with
  | OC_Arithmetic, OC_Arithmetic | OC_Comparison, OC_Comparison | OC_Bitwise, OC_Bitwise
  | OC_Shift, OC_Shift | OC_Logical, OC_Logical | OC_FloatMath, OC_FloatMath
  | OC_TySigil, OC_TySigil | OC_Cast, OC_Cast | OC_DirectAssignment, OC_DirectAssignment => true
  | _, _ => false
  end.
Definition req_eqb (a b : req) : bool :=
  match a, b with
  | RQ_numeric, RQ_numeric | RQ_int, RQ_int | RQ_float, RQ_float | RQ_string, RQ_string
  | RQ_unreachable, RQ_unreachable => true
  | _, _ => false
  end.
Definition res_eqb (a b : res) : bool :=
  match a, b with
  | RS_arg, RS_arg | RS_int, RS_int | RS_float, RS_float | RS_unreachable, RS_unreachable => true
  | _, _ => false
  end.
Definition checkfn_eqb (a b : checkfn) : bool :=
  match a, b with
  | CF_return, CF_return | CF_assignment, CF_assignment | CF_expr, CF_expr | CF_times, CF_times
  | CF_declaration, CF_declaration | CF_cond, CF_cond | CF_constvar, CF_constvar => true
  | _, _ => false
  end.
Definition drow_eqb (a b : drow) : bool :=
  match a, b with
  | D_Walk, D_Walk | D_Skip, D_Skip | D_Unimpl, D_Unimpl | D_Reject, D_Reject => true
  | D_Check f w, D_Check f' w' => checkfn_eqb f f' && Bool.eqb w w'
  | _, _ => false
  end.
Definition irow_eqb (a b : irow) : bool :=
  match a, b with
  | I_Walk, I_Walk | I_FuncWalk, I_FuncWalk | I_Skip, I_Skip => true
  | I_Check f, I_Check f' => checkfn_eqb f f'
  | _, _ => false
  end.
Definition wcall_eqb (a b : wcall) : bool :=
  match a, b with
  | WC_item, WC_item | WC_jump, WC_jump | WC_cond, WC_cond | WC_expr, WC_expr
  | WC_optexpr, WC_optexpr | WC_exprs, WC_exprs | WC_block, WC_block | WC_optblock, WC_optblock
  | WC_condblocks, WC_condblocks | WC_var, WC_var | WC_optvar, WC_optvar
  | WC_declvars, WC_declvars | WC_constvars, WC_constvars | WC_rootblock, WC_rootblock
  | WC_optrootblock, WC_optrootblock | WC_meta, WC_meta => true
  | _, _ => false
  end.
Fixpoint wcalls_eqb (a b : list wcall) : bool :=
  match a, b with
  | [], [] => true
  | x :: a', y :: b' => wcall_eqb x y && wcalls_eqb a' b'
  | _, _ => false
  end.
Definition obinop_eqb (a b : option binop) : bool :=
  match a, b with Some x, Some y => binop_eqb x y | None, None => true | _, _ => false end.

Definition all_pseudos : list pseudo := [PK_mask; PK_pop; PK_blob; PK_arg0; PK_nargs].
Definition all_assignops : list assignop :=
  [AO_Assign; AO_Add; AO_Sub; AO_Mul; AO_Div; AO_Rem; AO_BitOr; AO_BitXor; AO_BitAnd; AO_ShiftLeft;
   AO_ShiftRightSigned; AO_ShiftRightUnsigned].
Definition all_opclasses : list opclass :=
  [OC_Arithmetic; OC_Comparison; OC_Bitwise; OC_Shift; OC_Logical; OC_FloatMath; OC_TySigil; OC_Cast;
   OC_DirectAssignment; OC_unrec].

(* ---- the side conditions on the generated tables (decided by vm_compute) ---- *)
(* the operator tables say what the rules above say *)
Definition optypes_ok (T : optypes) : bool :=
  forallb (fun op => opclass_eqb (ot_bin_class T op) (spec_bin_class op)) all_binops &&
  forallb (fun op => opclass_eqb (ot_un_class T op) (spec_un_class op)) all_unops &&
  forallb (fun op => req_eqb (ot_bin_req T (spec_bin_class op)) (spec_bin_req (spec_bin_class op))) all_binops &&
  forallb (fun op => res_eqb (ot_bin_res T (spec_bin_class op)) (spec_bin_res (spec_bin_class op))) all_binops &&
  forallb (fun op => req_eqb (ot_un_req T op) (spec_un_req op)) all_unops &&
  forallb (fun op => res_eqb (ot_un_res T op) (spec_un_res op)) all_unops &&
  forallb (fun k => req_eqb (ot_pseudo_req T k) (spec_pseudo_req k)) all_pseudos &&
  forallb (fun op => obinop_eqb (ot_assign_binop T op) (spec_assign_binop op)) all_assignops.

(* a row of visit_stmt is right for its kind: the kinds without sub-terms may be walked or skipped *)
Definition srow_ok (k : skind) (r : drow) : bool :=
  match k with
  | K_Jump | K_AbsTimeLabel | K_Label | K_ScopeEnd | K_NoInstruction =>
      drow_eqb r D_Walk || drow_eqb r D_Skip
  | K_CallSub => drow_eqb r D_Reject || drow_eqb r D_Unimpl     (* reserved syntax: never accepted *)
  | _ => drow_eqb r (spec_srow k)
  end.
Definition irow_ok (k : ikind) (r : irow) : bool := irow_eqb r (spec_irow k).

Definition walk_ok (D : tctable) : bool :=
  forallb (fun k => wcalls_eqb (tc_walk_stmt D k) (spec_walk_stmt k)) all_skinds &&
  forallb (fun k => wcalls_eqb (tc_walk_item D k) (spec_walk_item k)) all_ikinds.

(* "every statement kind that has sub-statements or sub-expressions is walked or checked" *)
Definition dispatch_complete (D : tctable) : bool :=
  forallb (fun k => srow_ok k (tc_stmt D k)) all_skinds &&
  forallb (fun k => irow_ok k (tc_item D k)) all_ikinds.

Definition bad_srows (D : tctable) : list skind := filter (fun k => negb (srow_ok k (tc_stmt D k))) all_skinds.
Definition bad_irows (D : tctable) : list ikind := filter (fun k => negb (irow_ok k (tc_item D k))) all_ikinds.
