(* Spec/ImageSources.v -- declarative description of which image-source entry applies to which script
   entry (the documented rule of WorkingAnmFile::apply_image_source), independent of the queue-popping
   model in Model/Pixel.v. *)
From TV Require Import Base.I32 Model.Pixel.

(* number of earlier script entries with the same path as entry i *)
Definition rank (paths : list nat) (i : nat) : nat :=
  count_occ Nat.eq_dec (firstn i paths) (nth i paths O).

(* "the first one with that path in `other` applies to the first one with that path in `self`, and so on":
   entry i of the script is matched with the rank-th source entry carrying its path *)
Definition matched (q : list sentry) (paths : list nat) (i : nat) : option sentry :=
  nth_error (filter (fun s => Nat.eqb (se_path s) (nth i paths O)) q) (rank paths i).

Section S.
  Variable pngfile : Type.

  (* the image a source has for script entry i, if any *)
  Definition supplies (s : source pngfile) (paths : list nat) (i : nat) : option (loaded pngfile) :=
    match s with
    | SAnm q => match matched q paths i with
                | Some se => match se_tex se with Some t => Some (LAnm t) | None => None end
                | None => None
                end
    | SDir fs => match lookup_file pngfile (nth i paths O) fs with Some f => Some (LImg f) | None => None end
    end.

  (* the source has nothing at all for script entry i (no entry with its path is left / no such file) *)
  Definition no_match (s : source pngfile) (paths : list nat) (i : nat) : Prop :=
    match s with
    | SAnm q => matched q paths i = None
    | SDir fs => lookup_file pngfile (nth i paths O) fs = None
    end.

  (* what one source does to script entry i *)
  Definition source_update (s : source pngfile) (paths : list nat) (i : nat) (d : wentry pngfile) : wentry pngfile :=
    match s with
    | SAnm q => match matched q paths i with Some se => update_from_anm pngfile d se | None => d end
    | SDir fs => update_from_dir pngfile fs d
    end.
End S.
