#!/usr/bin/env python3
# gen-out: InstrHeader.v
"""Translate the nine `impl InstrFormat for ...` blocks (write_instr / read_instr /
write_terminal_instr / instr_header_size / has_terminal_instr), RawInstr::DEFAULTS and the integer
aliases of src/raw.rs into Gen/InstrHeader.v: per format the ordered header field list with, per field,
the value written, its Rust type, the on-disk type and the cast kind (AsCast for `as _`/no cast,
Checked for `fit_header_field(..)?`), and the same for the read side.  Also compares the framing
functions llir::read_instrs / write_instrs / InstrFormat::instr_size and the little-endian primitives
of src/io.rs with the text the model (Model/Container.v) was written against.
usage: instrheader.py <repo> <out.v>"""
import sys, re
from rsparse import *

ITY = {'i8': 'I8', 'u8': 'U8', 'i16': 'I16', 'u16': 'U16', 'i32': 'I32', 'u32': 'U32', 'usize': 'U64', 'u64': 'U64'}
BITS = {'I8': 8, 'U8': 8, 'I16': 16, 'U16': 16, 'I32': 32, 'U32': 32, 'U64': 64}
SIGNED = {'I8', 'I16', 'I32'}

def sub_range(a, b):
    lo = lambda t: -(1 << (BITS[t] - 1)) if t in SIGNED else 0
    hi = lambda t: (1 << (BITS[t] - 1)) - 1 if t in SIGNED else (1 << BITS[t]) - 1
    return lo(b) <= lo(a) and hi(a) <= hi(b)

def cast(t, v):
    b = BITS[t]; v %= 1 << b
    return v - (1 << b) if t in SIGNED and v >= 1 << (b - 1) else v

# (file, impl type name, Coq name, variants)   variants: {suffix: game-substitution}
FORMATS = [
    ('src/formats/anm/read_write.rs', 'InstrFormat06', 'anm_v0'),
    ('src/formats/anm/read_write.rs', 'InstrFormat07', 'anm_v2'),
    ('src/formats/msg.rs', 'MsgHooks', 'msg'),
    ('src/formats/std.rs', 'StdHooks06', 'std06'),
    ('src/formats/std.rs', 'StdHooks10', 'std10'),
    ('src/formats/ecl/ecl_06.rs', 'OldeEclHooks', 'ecl06'),     # two variants: Th06 and the others
    ('src/formats/ecl/ecl_06.rs', 'TimelineFormat06', 'tl06'),
    ('src/formats/ecl/ecl_06.rs', 'TimelineFormat08', 'tl08'),
    ('src/formats/ecl/ecl_10.rs', 'ModernEclHooks', 'ecl10'),
]

class Unrec(Exception):
    pass

def split_stmts(body):
    """statements of a block at depth 0: split at ';' and after a '}' that closes an if/for/match statement"""
    out = []; i = 0; n = len(body); start = 0; depth = 0
    while i < n:
        c = body[i]
        if c == '"':
            i += 1
            while i < n and body[i] != '"':
                if body[i] == '\\': i += 1
                i += 1
        elif c in '({[':
            if c == '{' and depth == 0:
                head = body[start:i].strip()
                if re.match(r'(if|for|match|else)\b', head) and not re.match(r'let\b', head):
                    e = matching_brace(body, i)
                    j = e + 1
                    # else / else if chains
                    while True:
                        m = re.match(r'\s*else\s*(if\b[^{]*)?\{', body[j:])
                        if not m: break
                        ob = j + m.end() - 1
                        e = matching_brace(body, ob); j = e + 1
                    out.append(body[start:j].strip()); start = j; i = j; continue
            depth += 1
        elif c in ')}]':
            depth -= 1
        elif c == ';' and depth == 0:
            s = body[start:i].strip()
            if s: out.append(s)
            start = i + 1
        i += 1
    s = body[start:].strip()
    if s: out.append(s)
    return out

def fn_body(impl, name):
    b, _ = block_after(impl, r'fn\s+%s\s*\([^)]*\)\s*(->\s*[\w:<>]+\s*)?' % name)
    return b

def parse_int(s):
    s = s.strip().replace('_', '')
    m = re.fullmatch(r'\(?(-?)(0x[0-9a-fA-F]+|\d+)(?:(i8|u8|i16|u16|i32|u32))?\)?(?:as(\w+))?', nows(s))
    if not m: return None
    v = int(m.group(2), 0)
    if m.group(1): v = -v
    if m.group(3): v = cast(ITY[m.group(3)], v)
    if m.group(4):
        if m.group(4) not in ITY: return None
        v = cast(ITY[m.group(4)], v)
    return v

class Ctx:
    def __init__(self, repo):
        self.notes = []
        raw = strip_comments(open(repo + '/src/raw.rs').read())
        self.alias = {m.group(1): m.group(2) for m in re.finditer(r'pub\s+type\s+(\w+)\s*=\s*(\w+)\s*;', raw)}
        llir = strip_comments(open(repo + '/src/llir/mod.rs').read())
        self.llir = llir
        sb, _ = block_after(llir, r'pub\s+struct\s+RawInstr\s*')
        self.field_ty = {}
        if sb is None:
            self.notes.append('unrecognised: struct RawInstr not found')
        else:
            for m in re.finditer(r'pub\s+(\w+)\s*:\s*([^,\n]+),', sb):
                ty = m.group(2).strip()
                opt = re.fullmatch(r'Option<(.+)>', ty)
                if opt: ty = opt.group(1)
                ty = ty.replace('raw::', '')
                ty = self.alias.get(ty, ty)
                self.field_ty[m.group(1)] = ITY.get(ty)
        need = {'time': 'FTime', 'opcode': 'FOpcode', 'param_mask': 'FMask', 'difficulty': 'FDiff', 'pop': 'FPop',
                'extra_arg': 'FExtra', 'arg_count': 'FArgc'}
        self.FLD = need
        for k in need:
            if not self.field_ty.get(k):
                self.notes.append('unrecognised: RawInstr field %s has no known integer type' % k)
                self.field_ty[k] = 'I32'
        # DEFAULTS
        self.defaults = {}
        db, _ = block_after(llir, r'pub\s+const\s+DEFAULTS\s*:\s*RawInstr\s*=\s*RawInstr\s*')
        tad = strip_comments(open(repo + '/src/passes/semantics/time_and_difficulty.rs').read())
        m = re.search(r'pub\s+const\s+DEFAULT_DIFFICULTY_MASK_BYTE\s*:\s*[\w:]+\s*=\s*([^;]+);', tad)
        ddm = parse_int(m.group(1)) if m else None
        if db is None:
            self.notes.append('unrecognised: RawInstr::DEFAULTS not found')
        else:
            for part in split_top(db, ','):
                part = part.strip()
                if not part: continue
                m = re.fullmatch(r'(\w+)\s*:\s*(.+)', part, re.S)
                if not m:
                    self.notes.append('unrecognised: DEFAULTS entry ' + nows(part)); continue
                k, v = m.group(1), m.group(2).strip()
                if k == 'args_blob':
                    if nows(v) != 'Vec::new()': self.notes.append('unrecognised: DEFAULTS args_blob ' + nows(v))
                elif k == 'extra_arg':
                    if v == 'None': self.defaults[k] = None
                    else: self.notes.append('unrecognised: DEFAULTS extra_arg ' + nows(v))
                elif v.endswith('DEFAULT_DIFFICULTY_MASK_BYTE') and ddm is not None:
                    self.defaults[k] = ddm
                elif parse_int(v) is not None:
                    self.defaults[k] = parse_int(v)
                else:
                    self.notes.append('unrecognised: DEFAULTS entry ' + nows(part))
        for k in need:
            if k not in self.defaults:
                self.notes.append('unrecognised: no default for RawInstr field ' + k)
                self.defaults[k] = 0 if k != 'extra_arg' else None

def split_top(s, sep):
    out = []; depth = 0; start = 0
    for i, c in enumerate(s):
        if c in '({[': depth += 1
        elif c in ')}]': depth -= 1
        elif c == sep and depth == 0:
            out.append(s[start:i]); start = i + 1
    out.append(s[start:])
    return out

# ---------------------------------------------------------------------------------------------
# write side

def w_expr(ctx, expr, disk, game):
    """-> (fld, mem, cast)"""
    e = nows(expr)
    checked = False
    m = re.fullmatch(r'(?:llir::)?fit_header_field\(emitter,"[^"]*",(.+)\)\?', e)
    if m:
        checked = True; e = m.group(1)
    m = re.fullmatch(r'matchself\.game\{Game::Th06=>([^,]+),_=>(.+?),?\}', e)
    if m:
        e = m.group(1) if game == 'th06' else m.group(2)
        if 'fit_header_field(' in e:
            mm = re.fullmatch(r'(?:llir::)?fit_header_field\(emitter,"[^"]*",(.+)\)\?', e)
            if mm: checked = True; e = mm.group(1)
    ascast = None
    m = re.fullmatch(r'(.+?)as(_|i8|u8|i16|u16|i32|u32|usize|u64)', e)
    if m and not re.fullmatch(r'\(?-?[\dx_a-fA-F]+', m.group(1)):
        e, ascast = m.group(1), m.group(2)
    table = {
        'instr.time': 'time', 'instr.opcode': 'opcode', 'instr.param_mask': 'param_mask', 'instr.difficulty': 'difficulty',
        'instr.pop': 'pop', 'instr.arg_count': 'arg_count', 'instr.extra_arg.unwrap_or(0)': 'extra_arg',
    }
    if e in table:
        k = table[e]
        fld, mem = ctx.FLD[k], ctx.field_ty[k]
    elif e == 'instr.args_blob.len()':
        fld, mem = 'FArgsLen', 'U64'
    elif e == 'self.instr_size(instr)':
        fld, mem = 'FInstrSize', 'U64'
    elif e == 'self.instr_header_size()':
        fld, mem = 'FHDR', 'U64'
    elif parse_int(e) is not None:
        v = parse_int(e)
        # a literal takes the type of the parameter
        if not (cast(disk, v) == v):
            raise Unrec('literal %s does not fit %s' % (e, disk))
        return ('(FConst (%d))' % v, disk, 'AsCast')
    else:
        raise Unrec('write expression ' + e)
    if ascast is not None and ascast != '_' and ITY[ascast] != disk:
        raise Unrec('cast to %s passed to write_%s' % (ascast, disk))
    if ascast is None and not checked and mem != disk:
        raise Unrec('uncast %s (%s) passed to write_%s' % (e, mem, disk))
    return (fld, mem, 'Checked' if checked else 'AsCast')

def parse_write(ctx, body, game, hdr):
    fields = []; fixed = None; args_seen = False; guard = None; fixed_diag = False
    for st in split_stmts(body):
        s = nows(st)
        if s in ('Ok(())',): continue
        m = re.fullmatch(r'f\.write_(i8|u8|i16|u16|i32|u32)\((.*)\)\??', s, re.S)
        if m and not args_seen:
            disk = ITY[m.group(1)]
            inner = st[st.index('(') + 1: st.rindex(')')]
            fld, mem, ck = w_expr(ctx, inner, disk, game)
            if fld == 'FHDR': fld = '(FConst (%d))' % hdr; mem = disk
            fields.append((fld, mem, disk, ck)); continue
        m = re.fullmatch(r'f\.write_all\(&\[0;(\d+)\]\)\??', s)
        if m and not args_seen:
            fields += [('(FConst (0))', 'U8', 'U8', 'AsCast')] * int(m.group(1)); continue
        if re.fullmatch(r'f\.write_all\(&instr\.args_blob\)\??', s):
            args_seen = True; continue
        m = re.fullmatch(r'assert_eq!\(instr\.args_blob\.len\(\),(\d+)\)', s)
        if m:
            fixed = int(m.group(1)); continue
        m = re.fullmatch(r'ifinstr\.args_blob\.len\(\)!=(\d+)\{returnErr\(emitter(\.as_sized\(\))?\.emit\(error!\(.*\)\)\);?\}', s)
        if m:
            fixed = int(m.group(1)); fixed_diag = True; continue
        m = re.fullmatch(r'(?:llir::)?reject_end_marker_lookalike\(emitter,(.*)\)\?', s)
        if m and not fields:
            guard = []
            for term in m.group(1).split('&&'):
                mm = re.fullmatch(r'instr\.(time|opcode|param_mask|difficulty|pop|arg_count|extra_arg\.unwrap_or\(0\))==(.+)', term)
                if not mm or parse_int(mm.group(2)) is None: raise Unrec('end-marker guard term ' + term)
                k = mm.group(1).replace('.unwrap_or(0)', '')
                guard.append((ctx.FLD[k], cast(ctx.field_ty[k], parse_int(mm.group(2)))))
            continue
        raise Unrec('write_instr statement ' + s[:120])
    if not args_seen:
        raise Unrec('write_instr never writes args_blob')
    return fields, fixed, guard, fixed_diag

def parse_twrite(ctx, body, hdr):
    out = []
    def one(st, rep):
        s = nows(st)
        if s == 'Ok(())': return
        m = re.fullmatch(r'f\.write_(i8|u8|i16|u16|i32|u32)\((.*)\)\??', s)
        if not m: raise Unrec('write_terminal_instr statement ' + s[:100])
        disk = ITY[m.group(1)]
        e = m.group(2)
        v = parse_int(e)
        if v is None and re.fullmatch(r'self\.instr_header_size\(\)as_', e): v = hdr
        if v is None: raise Unrec('write_terminal_instr value ' + e)
        out.extend([(disk, v)] * rep)
    for st in split_stmts(body):
        m = re.fullmatch(r'for\s+_\s+in\s+0\.\.(\d+)\s*\{(.*)\}', st.strip(), re.S)
        if m:
            for st2 in split_stmts(m.group(2)): one(st2, int(m.group(1)))
        else:
            one(st, 1)
    return out

# ---------------------------------------------------------------------------------------------
# read side

WARN_IF = re.compile(r'if[^{]*\{\s*emitter(\.as_sized\(\))?\.emit\(warning!\(.*\)\)\.ignore\(\);?\s*\}$', re.S)

def parse_read(ctx, body, game, hdr):
    """-> (rfields[(fld, disk, mem)], eof_first, argrule, tkind, tafter, tafter_args, tcond)"""
    vars_ = []          # [name, disk, vartype]  in read order
    eof_first = False
    argrule = None; args_read = False
    tkind = 'TNone'; tafter = 0; tafter_args = False; tcond_src = None
    struct_src = None
    fixed_assert = None; fixed_rdiag = False
    derived = {}        # args_size -> ('checked', sizevar)
    stmts = split_stmts(body)
    def vtype(cast_to, disk):
        if cast_to is None: return disk
        if cast_to == '_': return None     # inferred from use
        return ITY[cast_to]
    for st in stmts:
        s = nows(st)
        m = re.fullmatch(r'let(\w+)=matchf\.read_(i16)_or_eof\(\)\{Ok\(Some\((\w+)\)\)=>(\w+)(?:as(\w+))?,Ok\(None\)=>returnOk\(ReadInstr::EndOfFile\),Err\(e\)=>returnErr\(e\),?\}', s)
        if m:
            if vars_: raise Unrec('read_*_or_eof is not the first read')
            eof_first = True
            vars_.append([m.group(1), ITY[m.group(2)], vtype(m.group(5), ITY[m.group(2)])]); continue
        m = re.fullmatch(r'let(\w+)=f\.read_(i8|u8|i16|u16|i32|u32)\(\)\?(?:as(\w+))?', s)
        if m and not args_read:
            vars_.append([m.group(1), ITY[m.group(2)], vtype(m.group(3), ITY[m.group(2)])]); continue
        m = re.fullmatch(r'let(\w+)=usize::from\(f\.read_(u8|u16|u32)\(\)\?\)', s)
        if m and not args_read:
            vars_.append([m.group(1), ITY[m.group(2)], 'U64']); continue
        m = re.fullmatch(r'for\w+in0\.\.(\d+)\{letbyte=f\.read_u8\(\)\?;ifbyte!=0\{emitter\.as_sized\(\)\.emit\(warning!\(.*\)\)\.ignore\(\);\}\}', s)
        if m and not args_read:
            for k in range(int(m.group(1))): vars_.append(['_pad%d' % k, 'U8', 'U8'])
            continue
        if WARN_IF.match(st.strip()) and 'return' not in s:
            continue
        m = re.fullmatch(r'let(\w+)=(\w+)\.checked_sub\(self\.instr_header_size\(\)\)\.ok_or_else\(\|\|\{emitter\.as_sized\(\)\.emit\(error!\(.*\)\)\}\)\?', s)
        if m:
            derived[m.group(1)] = m.group(2); continue
        m = re.fullmatch(r'assert_eq!\((\w+),(\d+)\)', s)
        if m:
            fixed_assert = (m.group(1), int(m.group(2))); continue
        m = re.fullmatch(r'if(\w+)!=(\d+)\{returnErr\(emitter(\.as_sized\(\))?\.emit\(error!\(.*\)\)\);?\}', s)
        if m:
            fixed_assert = (m.group(1), int(m.group(2))); fixed_rdiag = True; continue
        m = re.fullmatch(r'letargs_blob=f\.read_byte_vec\((.+)\)\?', s)
        if m:
            e = m.group(1); args_read = True
            if e in derived: argrule = ('ArgsBySizeChecked', derived[e])
            elif re.fullmatch(r'(\w+)-self\.instr_header_size\(\)', e): argrule = ('ArgsBySizePanic', e.split('-')[0])
            elif re.fullmatch(r'(\w+)(asusize)?', e) and not e.isdigit(): argrule = ('ArgsByLen', re.sub(r'asusize$', '', e))
            elif e.isdigit() and fixed_assert and fixed_assert[1] == int(e): argrule = ('ArgsFixed %d' % int(e), fixed_assert[0])
            else: raise Unrec('read_byte_vec argument ' + e)
            continue
        # terminal tests
        m = re.fullmatch(r'if(.+?)\{returnOk\(ReadInstr::Terminal\);?\}', s)
        if m:
            if tkind != 'TNone': raise Unrec('two end-marker tests')
            tkind = 'TTerminal'; tafter = len(vars_); tafter_args = args_read; tcond_src = m.group(1); continue
        m = re.fullmatch(r'if(.+?)\{Ok\(ReadInstr::(Terminal|MaybeTerminal\(instr\))\)\}else\{Ok\(ReadInstr::Instr\(instr\)\)\}', s)
        if m:
            if tkind != 'TNone': raise Unrec('two end-marker tests')
            tkind = 'TTerminal' if m.group(2) == 'Terminal' else 'TMaybe'
            tafter = len(vars_); tafter_args = args_read; tcond_src = m.group(1); continue
        m = re.fullmatch(r'let\s+instr\s*=\s*RawInstr\s*\{(.*)\}', st.strip(), re.S)
        if m:
            struct_src = m.group(1); continue
        m = re.fullmatch(r'Ok\(\s*ReadInstr::Instr\(\s*RawInstr\s*\{(.*)\}\s*\)\s*\)', st.strip(), re.S)
        if m:
            struct_src = m.group(1); continue
        if s == 'Ok(ReadInstr::Instr(instr))': continue
        raise Unrec('read_instr statement ' + s[:140])
    if struct_src is None: raise Unrec('no RawInstr literal in read_instr')
    if argrule is None: raise Unrec('read_instr never reads args_blob')
    # struct literal: which variable feeds which field
    feeds = {}   # var -> field
    has_defaults = False
    for part in split_top(struct_src, ','):
        p = part.strip()
        if not p: continue
        if p == '..RawInstr::DEFAULTS': has_defaults = True; continue
        m = re.fullmatch(r'(\w+)(?:\s*:\s*(.+))?', p, re.S)
        if not m: raise Unrec('RawInstr literal entry ' + p)
        k, v = m.group(1), m.group(2)
        if v is not None: v = v.strip()
        if k == 'args_blob':
            if v not in (None, 'args_blob'): raise Unrec('RawInstr literal entry ' + p)
            continue
        if k not in ctx.FLD: raise Unrec('RawInstr literal field ' + k)
        if v is None: v = k
        mm = re.fullmatch(r'(?:Some\(\s*)?(\w+)(?:\s+as\s+(?:_|\w+)|\.into\(\))?\s*\)?', v)
        if v == 'None' and k == 'extra_arg':
            if ctx.defaults.get(k, 0) is not None: raise Unrec('extra_arg: None differs from DEFAULTS')
            continue
        if parse_int(v) is not None:
            if ctx.defaults.get(k) != parse_int(v): raise Unrec('literal %s: %s differs from DEFAULTS' % (k, v))
            continue
        if not mm: raise Unrec('RawInstr literal entry ' + p)
        if (k == 'extra_arg') != v.startswith('Some('): raise Unrec('RawInstr literal entry ' + p)
        feeds[mm.group(1)] = k
    names = [v[0] for v in vars_]
    for v in feeds:
        if v not in names: raise Unrec('RawInstr literal uses unknown variable ' + v)
    if not has_defaults:
        missing = [k for k in ctx.FLD if k not in feeds.values() and not (k == 'extra_arg')]
        # all fields must be given explicitly (extra_arg: None handled above)
        for k in missing: raise Unrec('RawInstr literal lacks field %s and ..DEFAULTS' % k)
    sizevar = argrule[1]
    rfields = []
    for name, disk, vt in vars_:
        if name in feeds:
            k = feeds[name]
            mem = ctx.field_ty[k]
            # the variable is converted (as / into / inferred) to the field type; conversions that lose
            # information between the variable and the field are not in the vocabulary
            # disk -> variable type -> field type; the model composes the two casts into `cast mem (cast disk x)`,
            # which is the same function when every on-disk value is a value of the variable's type
            if not sub_range(disk, vt or mem): raise Unrec('variable %s (%s) cannot hold every %s' % (name, vt, disk))
            rfields.append([ctx.FLD[k], disk, mem, name, vt or mem])
        elif name == sizevar:
            f = 'FArgsLen' if argrule[0].startswith(('ArgsByLen', 'ArgsFixed')) else 'FInstrSize'
            # `as usize` on use or on definition: negative values become huge
            rfields.append([f, disk, 'U64', name, vt or 'U64'])
        else:
            rfields.append(['(FConst (0))', disk, disk, name, vt or disk])
    if sizevar not in names: raise Unrec('size variable %s is not read' % sizevar)
    # end-marker condition
    tcond = []
    if tcond_src is not None:
        m = re.fullmatch(r'\((.+)\)==\((.+)\)', tcond_src)
        if m: lhs, rhs = m.group(1).split(','), split_top(m.group(2), ',')
        else:
            m = re.fullmatch(r'(\w+)==(.+)', tcond_src)
            if not m: raise Unrec('end-marker test ' + tcond_src)
            lhs, rhs = [m.group(1)], [m.group(2)]
        if len(lhs) != len(rhs): raise Unrec('end-marker test ' + tcond_src)
        for a, b in zip(lhs, rhs):
            rf = [r for r in rfields if r[3] == a]
            v = parse_int(b)
            if not rf or v is None: raise Unrec('end-marker test operand %s == %s' % (a, b))
            r = rf[0]
            if names.index(a) >= tafter and not tafter_args: raise Unrec('end-marker test uses %s before it is read' % a)
            if r[0].startswith('(FConst'): raise Unrec('end-marker test on dropped variable ' + a)
            # compare in the variable's type; express in the field's type (conversion var -> field is injective: widening)
            # the comparison is made in the variable's type; the model compares the field values, which is
            # equivalent when variable -> field is injective on the on-disk values (no narrowing)
            if cast(r[4], v) != v or cast(r[1], v) != v: raise Unrec('end-marker literal %s out of range of %s/%s' % (b, r[4], r[1]))
            if BITS[r[2]] < BITS[r[1]]: raise Unrec('end-marker test on %s after a narrowing conversion' % a)
            tcond.append((r[0], cast(r[2], v)))
    return [(r[0], r[1], r[2]) for r in rfields], eof_first, argrule[0], tkind, tafter, tafter_args, tcond, fixed_rdiag

# ---------------------------------------------------------------------------------------------
# framing text the model was written against (whitespace-free)

EXPECT = {
 'read_instrs': 'letmutpossible_terminal=None;letmutcur_offset=starting_offset;letmutinstrs=vec![];lethas_terminal_instr=format.has_terminal_instr();letwarn_missing_end_of_script=||{emitter.emit(warning!("missing end-of-script marker will be added on recompilation")).ignore()};forindexin0..{ifletSome(end_offset)=end_offset{matchcur_offset.cmp(&end_offset){std::cmp::Ordering::Less=>{},std::cmp::Ordering::Equal=>{ifhas_terminal_instr&&possible_terminal.is_none(){warn_missing_end_of_script();}break;},std::cmp::Ordering::Greater=>{returnErr(emitter.emit(error!("script read past expected end at offset {:#x} (we\'re now at offset {:#x}!)",end_offset,cur_offset,)));},}}letinstr_kind=emitter.chain_with(|f|write!(f,"in instruction {}",index),|emitter|{format.read_instr(r,emitter)})?;letis_maybe_terminal=matches!(instr_kind,ReadInstr::MaybeTerminal(_));matchinstr_kind{ReadInstr::EndOfFile=>{ifhas_terminal_instr&&possible_terminal.is_none(){warn_missing_end_of_script();}break;},ReadInstr::MaybeTerminal(instr)|ReadInstr::Instr(instr)=>{ifletSome(prev_instr)=possible_terminal.take(){instrs.push(prev_instr);}cur_offset+=format.instr_size(&instr)asraw::BytePos;ifis_maybe_terminal{possible_terminal=Some(instr);}else{instrs.push(instr);}},ReadInstr::Terminal=>break,}}Ok(instrs)',
 'write_instrs': 'for(index,instr)ininstrs.iter().enumerate(){emitter.chain_with(|f|write!(f,"in instruction {}",index),|emitter|{format.write_instr(f,emitter,instr)})?;}ifformat.has_terminal_instr(){emitter.chain_with(|f|write!(f,"writing script end marker"),|emitter|{format.write_terminal_instr(f,emitter)})?;}Ok(())',
 'instr_size': 'self.instr_header_size()+instr.args_blob.len()',
 'has_terminal_instr': 'true',
 'read_byte_vec': 'letmutbuf=vec![0;len];self.read_exact(&mutbuf)?;Ok(buf)',
}

def nows_keep_strings(s):
    out = []; i = 0; n = len(s)
    while i < n:
        c = s[i]
        if c == '"':
            j = i + 1
            while j < n and s[j] != '"':
                if s[j] == '\\': j += 1
                j += 1
            out.append(s[i:j + 1]); i = j + 1
        elif c.isspace(): i += 1
        else: out.append(c); i += 1
    return ''.join(out)

def check_framing(ctx, repo):
    llir = ctx.llir
    for name, pat in (('read_instrs', r'pub\s+fn\s+read_instrs\s*\([^)]*\)\s*->\s*ReadResult<Vec<RawInstr>>\s*'),
                      ('write_instrs', r'pub\s+fn\s+write_instrs\s*\([^)]*\)\s*->\s*WriteResult\s*'),
                      ('instr_size', r'fn\s+instr_size\s*\(&self,\s*instr:\s*&RawInstr\)\s*->\s*usize\s*'),
                      ('has_terminal_instr', r'fn\s+has_terminal_instr\s*\(&self\)\s*->\s*bool\s*')):
        b, _ = block_after(llir, pat)
        if b is None or nows_keep_strings(b) != EXPECT[name]:
            ctx.notes.append('unrecognised: llir::%s differs from the text the model was written against' % name)
    io = strip_comments(open(repo + '/src/io.rs').read())
    for ty in ('i8', 'u8', 'i16', 'u16', 'i32', 'u32'):
        le = '' if ty in ('i8', 'u8') else '::<Le>'
        r = 'fnread_%s(&mutself)->Result<%s,Self::Err>{ReadBytesExt::read_%s%s(self._bin_read_reader()).map_err(|e|self._bin_read_io_error(e))}' % (ty, ty, ty, le)
        w = 'fnwrite_%s(&mutself,x:%s)->Result<(),Self::Err>{WriteBytesExt::write_%s%s(self._bin_write_writer(),x).map_err(|e|self._bin_write_io_error(e))}' % (ty, ty, ty, le)
        flat = nows(io)
        if r not in flat: ctx.notes.append('unrecognised: io.rs read_%s is not the little-endian byteorder read' % ty)
        if w not in flat: ctx.notes.append('unrecognised: io.rs write_%s is not the little-endian byteorder write' % ty)
    if 'usebyteorder::{LittleEndianasLe,ReadBytesExt,WriteBytesExt};' not in nows(io):
        ctx.notes.append('unrecognised: io.rs no longer imports byteorder::LittleEndian as Le')
    b, _ = block_after(io, r'fn\s+read_byte_vec\s*\(&mut self,\s*len:\s*usize\)\s*->\s*Result<Vec<u8>,\s*Self::Err>\s*')
    if b is None or nows(b) != EXPECT['read_byte_vec']:
        ctx.notes.append('unrecognised: io.rs read_byte_vec differs from the text the model was written against')
    b, _ = block_after(io, r'fn\s+read_i16_or_eof\s*\(&mut self\)\s*->\s*Result<Option<i16>,\s*Self::Err>\s*')
    exp = 'typeOut=i16;constN:usize=std::mem::size_of::<Out>();letmutbuf=vec![];matchself._bin_read_reader().take(Nasu64).read_to_end(&mutbuf){Ok(0)=>Ok(None),Ok(N)=>Ok(Some(Out::from_le_bytes(buf.try_into().unwrap()))),Ok(_)=>Err(self._bin_read_io_error(io::Error::new(io::ErrorKind::UnexpectedEof,"incompleteword"))),Err(e)=>Err(self._bin_read_io_error(e))}'
    if b is None or nows(b) != exp:
        ctx.notes.append('unrecognised: io.rs read_i16_or_eof differs from the text the model was written against')

STRING_LIST_EXPECT = [
 ('src/formats/ecl/ecl_10.rs', 'write_string_list', r"fn\s+write_string_list<'a>\s*\([^{]*?\)\s*->\s*ReadResult<\(\)>\s*",
  'letmutnum_bytes_written=0;forstringinstrings{letencoded=Encoded::encode(&string,DEFAULT_ENCODING).map_err(|e|emitter.emit(e))?;writer.write_cstring(&encoded,1)?;num_bytes_written+=encoded.len()+1;}writer.align_to(num_bytes_written,4)?;Ok(())'),
 ('src/formats/ecl/ecl_10.rs', 'read_string_list', r'fn\s+read_string_list\s*\([^{]*?\)\s*->\s*ReadResult<Vec<Sp<String>>>\s*',
  'letmutnum_bytes_read=0;letstrings=(0..count).map(|_|{letencoded=reader.read_cstring_blockwise(1)?;num_bytes_read+=encoded.len()+1;letstring=encoded.decode(DEFAULT_ENCODING).map_err(|e|emitter.emit(e))?;Ok(sp!(string))}).collect::<Result<Vec<_>,_>>()?;letpadding=reader.align_to(num_bytes_read,4)?;ifpadding.into_iter().any(|b|b!=0){emitter.emit(warning!("unexpecteddatainpaddingafterlaststring")).ignore();}Ok(strings)'),
 ('src/io.rs', 'write_cstring', r'fn\s+write_cstring\s*\([^{]*?\)\s*->\s*Result<\(\),\s*Self::Err>\s*',
  'letmutto_write=s.clone();to_write.null_pad(block_size);BinWrite::write_all(self,&to_write.0)'),
 ('src/io.rs', 'null_pad', r'pub\s+fn\s+null_pad\s*\(&mut self,\s*block_size:\s*usize\)\s*',
  'letmin_size=self.0.len()+1;letfinal_len=matchmin_size%block_size{0=>min_size,r=>min_size+block_size-r,};self.0.resize(final_len,0);'),
 ('src/io.rs', 'read_cstring_blockwise', r'fn\s+read_cstring_blockwise\s*\([^{]*?\)\s*->\s*Result<Encoded,\s*Self::Err>\s*',
  'assert_ne!(block_size,0);letmutout=vec![];whileout.last()!=Some(&0){letold_end=out.len();out.resize(old_end+block_size,0);self.read_exact(&mutout[old_end..])?;}whileout.last()==Some(&0){out.pop();}Ok(Encoded(out))'),
]
ALIGN_EXPECT = ['assert_ne!(block_size,0);matchcount_already_read%block_size{0=>Ok(vec![]),r=>self.read_byte_vec(block_size-r),}',
                'assert_ne!(block_size,0);matchcount_already_written%block_size{0=>Ok(()),r=>self.write_all(&vec![0u8;block_size-r]),}']

def check_string_lists(ctx, repo):
    """the string-list functions that Model.Container.write_string_list / read_string_list restate"""
    cache = {}
    for path, name, pat, exp in STRING_LIST_EXPECT:
        if path not in cache:
            try: cache[path] = strip_comments(open(repo + '/' + path).read())
            except OSError: cache[path] = ''
        b, _ = block_after(cache[path], pat)
        if b is None or nows(b) != exp:
            ctx.notes.append('unrecognised: %s %s differs from the text the model was written against' % (path, name))
    io = cache.get('src/io.rs', '')
    found = []
    for m in re.finditer(r'fn\s+align_to\s*\([^{]*?\)\s*->\s*Result<[^{]*>\s*', io):
        b, _ = block_after(io, r'fn\s+align_to\s*\([^{]*?\)\s*->\s*Result<[^{]*>\s*', m.start())
        found.append(nows(b) if b else None)
    if found != ALIGN_EXPECT:
        ctx.notes.append('unrecognised: src/io.rs align_to (reader/writer) differs from the text the model was written against')

# ---------------------------------------------------------------------------------------------

def coq_instr(d):
    ex = '(0)' if d.get('extra_arg') is None else '(%d)' % d['extra_arg']
    return '(mkInstr (%d) (%d) (%d) [] (%d) (%d) %s (%d))' % (d['time'], d['opcode'], d['param_mask'], d['difficulty'], d['pop'], ex, d['arg_count'])

def unrec_fmt(name):
    return ('Definition gen_%s : fmt := mkFmt 0 [] [] false ArgsByLen TNone 0 false [] [] false false false gen_default.\n' % name)

def main(repo, out):
    ctx = Ctx(repo)
    check_framing(ctx, repo)
    check_string_lists(ctx, repo)
    text = '(* GENERATED by gen/instrheader.py from src/formats, src/llir/mod.rs, src/raw.rs -- do not edit *)\n'
    text += 'From TV Require Import Base.I32 Model.Container.\nOpen Scope Z_scope.\n'
    text += 'Definition gen_default : instr := %s.\n' % coq_instr(ctx.defaults)
    names = []
    for path, ty, name in FORMATS:
        variants = [('ecl06_th06', 'th06'), ('ecl06', 'other')] if name == 'ecl06' else [(name, 'other')]
        try:
            src = strip_comments(open(repo + '/' + path).read())
        except OSError:
            src = ''
        impl, _ = block_after(src, r'impl\s+InstrFormat\s+for\s+%s\s*' % ty)
        for vname, game in variants:
            names.append(vname)
            try:
                if impl is None: raise Unrec('impl InstrFormat for %s not found' % ty)
                hb = fn_body(impl, 'instr_header_size')
                if hb is None or parse_int(hb) is None: raise Unrec('instr_header_size')
                hdr = parse_int(hb)
                ht = fn_body(impl, 'has_terminal_instr')
                has_term = True if ht is None else {'true': True, 'false': False}.get(nows(ht))
                if has_term is None: raise Unrec('has_terminal_instr')
                wb = fn_body(impl, 'write_instr'); rb = fn_body(impl, 'read_instr'); tb = fn_body(impl, 'write_terminal_instr')
                if wb is None or rb is None or tb is None: raise Unrec('write_instr/read_instr/write_terminal_instr not found')
                wf, wfixed, guard, wdiag = parse_write(ctx, wb, game, hdr)
                rf, eof_first, argrule, tkind, tafter, tafter_args, tcond, rdiag = parse_read(ctx, rb, game, hdr)
                if guard is not None and sorted(guard) != sorted(tcond):
                    raise Unrec('end-marker guard %s differs from the reader\'s test %s' % (guard, tcond))
                if wfixed is not None and argrule != 'ArgsFixed %d' % wfixed:
                    raise Unrec('writer asserts %d argument bytes, reader uses %s' % (wfixed, argrule))
                if argrule.startswith('ArgsFixed') and wfixed is None:
                    raise Unrec('reader asserts a fixed argument size, writer does not')
                if has_term:
                    tw = parse_twrite(ctx, tb, hdr)
                    if tkind == 'TNone': raise Unrec('has_terminal_instr but read_instr has no end-marker test')
                else:
                    tw = []
                    if tkind != 'TNone': raise Unrec('no terminal instr but read_instr tests for one')
                    if 'panic!' not in tb: raise Unrec('write_terminal_instr of a format without terminal does not panic')
                text += 'Definition gen_%s : fmt := mkFmt %d\n  [%s]\n  [%s]\n  %s %s %s %d %s [%s]\n  [%s] %s %s %s gen_default.\n' % (
                    vname, hdr,
                    '; '.join('W %s %s %s %s' % f for f in wf),
                    '; '.join('R %s %s %s' % f for f in rf),
                    'true' if eof_first else 'false', '(%s)' % argrule if ' ' in argrule else argrule, tkind, tafter,
                    'true' if tafter_args else 'false',
                    '; '.join('(%s, %d)' % c for c in tcond),
                    '; '.join('(%s, %d)' % t for t in tw), 'true' if guard is not None else 'false',
                    'true' if wdiag else 'false', 'true' if rdiag else 'false')
            except Unrec as e:
                ctx.notes.append('unrecognised: %s (%s): %s' % (vname, ty, e))
                text += unrec_fmt(vname)
    text += 'Definition gen_formats : list fmt := [%s].\n' % '; '.join('gen_' + n for n in names)
    text += 'Definition gen_format_names_count : nat := %d%%nat.\n' % len(names)
    text += '(* translator notes:\n' + ''.join('   %s\n' % n.replace('*)', '* )') for n in ctx.notes) + '*)\n'
    write_if_changed(out, text)
    for n in ctx.notes: print('instrheader: ' + n)

if __name__ == '__main__':
    main(sys.argv[1], sys.argv[2])
