#!/usr/bin/env python3
# gen-out: DiffFlags.v
"""Translate the constants of DiffFlagDefs (src/context/diff_flags.rs) into Gen/DiffFlags.v:
NUM_BITS, the flag-name character ranges of diff_flag_char_pat!, the built-in digit names of
Default::default(), and the characters parse_diff_string treats specially.
usage: diffflags.py <repo> <out.v>"""
import sys, re
from rsparse import *

def main(repo, out):
    src = strip_comments(open(repo + '/src/context/diff_flags.rs').read())
    notes = []
    m = re.search(r'const\s+NUM_BITS\s*:\s*u32\s*=\s*(\d+)\s*;', src)
    if m: num_bits = int(m.group(1))
    else: notes.append('unrecognised NUM_BITS'); num_bits = 0
    m = re.search(r'macro_rules!\s*diff_flag_char_pat\s*\{\s*\(\s*\)\s*=>\s*\{([^}]*)\}\s*;?\s*\}', src)
    ranges = []
    if m:
        for alt in m.group(1).split('|'):
            alt = alt.strip()
            mm = re.fullmatch(r"'(.)'\s*\.\.=\s*'(.)'", alt)
            m1 = re.fullmatch(r"'(.)'", alt)
            if mm: ranges.append((ord(mm.group(1)), ord(mm.group(2))))
            elif m1: ranges.append((ord(m1.group(1)), ord(m1.group(1))))
            else: notes.append('unrecognised flag character pattern: ' + alt)
    else:
        notes.append('unrecognised diff_flag_char_pat')
    m = re.search(r'for\s*\(\s*bit\s*,\s*char\s*\)\s*in\s*"([^"]*)"\s*\.chars\(\)\s*\.enumerate\(\)\s*\{\s*out\.define_flag\(\s*char\s*,\s*bit\s+as\s+_\s*,\s*false\s*\)\s*;\s*\}', src)
    if m: names = [ord(c) for c in m.group(1)]
    else: notes.append('unrecognised default flag names'); names = []
    # the special characters of parse_diff_string, in match order
    body, _ = block_after(src, r'pub\s+fn\s+parse_diff_string\s*\([^)]*\)\s*->\s*Result<[^{]*')
    special = None
    if body is not None:
        mm = re.search(r"match\s+char\s*\{\s*'(.)'\s*=>\s*enable\s*=\s*false\s*,\s*'(.)'\s*=>\s*enable\s*=\s*true\s*,\s*'(.)'\s*=>\s*out\s*=\s*BitSet32::from_mask\(\s*match\s+enable\s*\{\s*false\s*=>\s*0\s*,\s*true\s*=>\s*\(1u32\s*<<\s*NUM_BITS\)\s*-\s*1\s*,?\s*\}\s*\)\s*,\s*diff_flag_char_pat!\(\)\s*=>\s*match\s+self\.by_name\.get\(&char\)\s*\{\s*Some\(&index\)\s*=>\s*out\.set_bit\(index\s+as\s+_\s*,\s*enable\)\s*,", body)
        if mm: special = (ord(mm.group(1)), ord(mm.group(2)), ord(mm.group(3)))
    if special is None:
        notes.append('unrecognised parse_diff_string arms'); special = (0, 0, 0)
    # define_flag: the three updates
    body, _ = block_after(src, r'pub\s+fn\s+define_flag\s*\([^)]*\)\s*')
    ok_def = body is not None and re.search(r'assert!\(index\s*<\s*NUM_BITS\);\s*assert!\(matches!\(name,\s*diff_flag_char_pat!\(\)\)\);\s*self\.flag_default_enable\.set_bit\(index\s+as\s+_,\s*enable\);\s*self\.by_name\.insert\(name,\s*index\s+as\s+_\);\s*self\.by_flag\.insert\(index\s+as\s+_,\s*name\);\s*$', body.strip())
    if not ok_def: notes.append('unrecognised define_flag body')
    # define_flag_from_mapfile: is a name that another flag currently prints as rejected?  (fix c14-flag-name-repoint)
    nsrc = re.sub(r'\s+', '', src)
    m = re.search(r"'\+'=>true,_=>returnErr\(invalid_definition\(\)\),\};(.*?)self\.define_flag\(name,index\.valueas_,enable\);Ok\(\(\)\)\}", nsrc)
    repoint = None
    if m:
        mid = m.group(1)
        if mid == '': repoint = False
        elif re.fullmatch(r"ifletSome\(\(&other,_\)\)=self\.by_flag\.iter\(\)\.find\(\|&\(&flag,&c\)\|c==name&&flag!=index\.valueasFlagIndex\)\{returnErr\(error!\(.*\)\);\}", mid): repoint = True
    if repoint is None: notes.append('unrecognised define_flag_from_mapfile tail'); repoint = False
    # llir/lower.rs elaborate_diff_switches: the mask arithmetic, and whether nested switches contribute explicit positions
    low = re.sub(r'\s+', '', strip_comments(open(repo + '/src/llir/lower.rs').read()))
    core = ('letinstr_diff_mask=instr.stmt_data.difficulty_mask&diff_flag_names.difficulty_bits();'
            'letinstr_aux_mask=instr.stmt_data.difficulty_mask&diff_flag_names.aux_bits();'
            'forcase_diff_maskinswitch_props.explicit_case_bitmasks(){'
            'letnew_diff_mask=instr_diff_mask&case_diff_mask;'
            'if!new_diff_mask.is_empty(){'
            'letnew_mask=new_diff_mask|instr_aux_mask;'
            'letcase_first_difficulty=case_diff_mask.into_iter().next().unwrap();'
            'letnew_args=select_diff_for_lower_args(args,case_first_differenceasu32);').replace('case_first_differenceasu32', 'case_first_difficultyasu32')
    elab_ok = core in low and 'ifswitch_props.num_difficulties<2{out.push(stmt);continue\'stmt;}' in low
    if not elab_ok: notes.append('unrecognised elaborate_diff_switches body')
    flat_meta = 'forarginargs{ifletLowerArg::DiffSwitch(cases)=&arg.value{switch_props.update(cases);}}' in low
    nested_meta = ('forarginargs{update_switch_props(&mutswitch_props,&arg.value);}' in low and
                   'fnupdate_switch_props(switch_props:&mutds_util::DiffSwitchMeta,arg:&LowerArg){ifletLowerArg::DiffSwitch(cases)=arg{switch_props.update(cases);forcaseincases.iter().flatten(){update_switch_props(switch_props,&case.value);}}}' in low)
    if flat_meta == nested_meta: notes.append('unrecognised collection of explicit switch positions')
    dsu = re.sub(r'\s+', '', strip_comments(open(repo + '/src/diff_switch_utils.rs').read()))
    sel_ok = ('assert!(difficulty<cases.len()asu32);(0..=difficultyasusize).rev().filter_map(move|i|cases[i].as_ref()).next().expect("there\'salwaysaneasyvalue")' in dsu and
              'letmutstops=self.explicit_difficulties.into_iter().chain(core::iter::once(self.num_difficultiesasu32));letmutprev=stops.next().expect("alwaysatleastonecase");stops.map(move|stop|{debug_assert!(prev<stop,"explicit_difficultiesnotsorted,orbadlen");letbitset=(prev..stop).collect();prev=stop;bitset})' in dsu)
    if not sel_ok: notes.append('unrecognised diff_switch_utils (select_diff_switch_case / explicit_case_bitmasks)')
    text = '(* GENERATED by gen/diffflags.py from src/context/diff_flags.rs, src/llir/lower.rs, src/diff_switch_utils.rs -- do not edit *)\n'
    text += 'From Coq Require Import NArith List.\nImport ListNotations.\nOpen Scope N_scope.\n'
    text += 'Definition gen_num_bits : nat := %d%%nat.\n' % num_bits
    text += 'Definition gen_flag_char_ranges : list (N * N) := [%s].\n' % '; '.join('(%d, %d)' % r for r in ranges)
    text += 'Definition gen_default_names : list N := [%s].\n' % '; '.join(str(c) for c in names)
    text += 'Definition gen_special_chars : N * N * N := (%d, %d, %d).  (* disable, enable, all *)\n' % special
    text += 'Definition gen_define_flag_recognised : bool := %s.\n' % ('true' if ok_def else 'false')
    text += 'Definition gen_repoint_check : bool := %s.  (* define_flag_from_mapfile rejects a name another flag prints as *)\n' % ('true' if repoint else 'false')
    text += 'Definition gen_elaborate_recognised : bool := %s.\n' % ('true' if (elab_ok and sel_ok) else 'false')
    text += 'Definition gen_nested_meta : bool := %s.  (* explicit positions are collected through nested switches *)\n' % ('true' if nested_meta else 'false')
    text += '(* translator notes:\n' + ''.join('   %s\n' % n.replace('*)', '* )') for n in notes) + '*)\n'
    write_if_changed(out, text)
    for n in notes: print('diffflags: ' + n)

if __name__ == '__main__':
    main(sys.argv[1], sys.argv[2])
