#!/usr/bin/env python3
# gen-out: TexFmt.v
"""Translate the colour format table (src/image/color.rs: FORMAT_* numbers, BYTES_PER_PIXEL, which format
transcodes by `Rc::clone`) and the presence of the size guard in produce_image_from_entry
(src/formats/anm/image_io.rs) into Gen/TexFmt.v.  usage: texfmt.py <repo> <out.v>"""
import sys, re, os
from rsparse import *

def main(repo, out):
    notes = []
    rows = []
    try: src = strip_comments(open(os.path.join(repo, 'src/image/color.rs')).read())
    except OSError: src = ''; notes.append('src/image/color.rs not found')
    consts = dict((m.group(1), int(m.group(2))) for m in re.finditer(r'const\s+(FORMAT_\w+)\s*:\s*u32\s*=\s*(\d+)\s*;', src))
    enum, _ = block_after(src, r'pub\s+enum\s+ColorFormat\s*')
    variants = []
    if enum is None: notes.append('enum ColorFormat not found')
    else:
        for part in enum.split(','):
            part = part.strip()
            if not part: continue
            m = re.fullmatch(r'(\w+)\s*=\s*(\w+)', part)
            if m and m.group(2) in consts: variants.append((m.group(1), consts[m.group(2)]))
            else: notes.append('unrecognised ColorFormat variant: ' + nows(part))
    # from_format_num must map exactly these numbers
    ffn, _ = block_after(src, r'pub\s+fn\s+from_format_num\s*\(\s*num\s*:\s*u32\s*\)\s*->\s*Option<Self>\s*')
    if ffn is None: notes.append('from_format_num not found')
    else:
        body, _ = block_after(ffn, r'match\s+num\s*')
        seen = set()
        for pat, rhs in split_arms(body or ''):
            m = re.fullmatch(r'Some\(Self::(\w+)\)', nows(rhs))
            if m and pat.strip() in consts and (m.group(1), consts[pat.strip()]) in variants: seen.add(m.group(1))
            elif pat.strip() == '_' and nows(rhs) == 'None': pass
            else: notes.append('unrecognised from_format_num arm: %s => %s' % (nows(pat), nows(rhs)))
        for v, _n in variants:
            if v not in seen: notes.append('no arm for %s in from_format_num' % v)
    bpp = {}
    for m in re.finditer(r'impl\s+ColorBytes\s+for\s+(\w+)\s*\{', src):
        cb = matching_brace(src, m.end() - 1)
        b = re.search(r'const\s+BYTES_PER_PIXEL\s*:\s*usize\s*=\s*(\d+)\s*;', src[m.end():cb])
        if b: bpp[m.group(1)] = int(b.group(1))
        else: notes.append('unrecognised BYTES_PER_PIXEL of ' + m.group(1))
    tr, _ = block_after(src, r'pub\s+fn\s+transcode_to_argb_8888\s*\([^)]*\)\s*->\s*Rc<Vec<u8>>\s*')
    ident = {}
    if tr is None: notes.append('transcode_to_argb_8888 not found')
    else:
        body, _ = block_after(tr, r'match\s+self\s*')
        for pat, rhs in split_arms(body or ''):
            m = re.fullmatch(r'ColorFormat::(\w+)', pat.strip())
            r = nows(rhs)
            if not m: notes.append('unrecognised transcode arm ' + nows(pat)); continue
            if r == 'Rc::clone(bytes)': ident[m.group(1)] = True
            elif r == 'Rc::new(Argb8888::encode(&%s::decode(bytes)))' % m.group(1): ident[m.group(1)] = False
            else: notes.append('unrecognised transcode rhs for %s: %s' % (m.group(1), r))
    dec, _ = block_after(src, r'fn\s+decode\s*\(\s*bytes\s*:\s*&\[u8\]\s*\)\s*->\s*Vec<Components>\s*')
    if dec is None or 'assert_eq!(bytes.len()%Self::BYTES_PER_PIXEL,0);' not in nows(dec):
        # the model has this assertion as a Panic outcome of the unguarded path
        notes.append('unrecognised ColorBytes::decode (length assertion changed): ' + (nows(dec)[:80] if dec else '<missing>'))
    for v, n in variants:
        if v not in bpp: notes.append('no arm for %s: BYTES_PER_PIXEL' % v); continue
        if v not in ident: notes.append('no arm for %s in transcode_to_argb_8888' % v); continue
        rows.append((n, bpp[v], ident[v]))
    # the guard
    guard = False
    bound = None
    try: isrc = strip_comments(open(os.path.join(repo, 'src/formats/anm/image_io.rs')).read())
    except OSError: isrc = ''; notes.append('src/formats/anm/image_io.rs not found')
    body, _ = block_after(isrc, r'fn\s+produce_image_from_entry\s*\([^)]*\)\s*->\s*Result<image::RgbaImage,\s*String>\s*')
    if body is None: notes.append('produce_image_from_entry not found')
    else:
        t = nows(body)
        i_tr = t.find('cformat.transcode_to_argb_8888(')
        m = re.search(r'let(\w+)=cformat\.bytes_per_pixel\(\)\*content_widthasusize\*content_heightasusize;iftexture_data\.data\.len\(\)!=\1\{returnErr\(', t)
        if m and 0 <= m.start() < i_tr: guard = True
        for needle in ('BgraImage::from_raw(content_width,content_height,&content_argb[..]).expect("sizeerror?!")',
                       'vec![0xFF;4*output_widthasusize*output_heightasusize]'):
            if needle not in t: notes.append('unrecognised produce_image_from_entry: missing `%s`' % needle)
        # the size of the padded output image: plain u32 additions (before fix d8a7ff5), or checked additions
        # with a bound on the number of pixels
        mb = re.search(r'constMAX_OUTPUT_PIXELS:u64=1<<(\d+);let\(output_width,output_height\)=match\(content_width\.checked_add\(offset_x\),'
                       r'content_height\.checked_add\(offset_y\)\)\{\(Some\(w\),Some\(h\)\)ifwasu64\*hasu64<=MAX_OUTPUT_PIXELS=>\(w,h\),_=>returnErr\(', t)
        if mb: bound = 1 << int(mb.group(1))
        elif 'letoutput_width=content_width+offset_x;' in t and 'letoutput_height=content_height+offset_y;' in t: bound = None
        else: notes.append('unrecognised produce_image_from_entry: the computation of output_width / output_height')
    text = '(* GENERATED by gen/texfmt.py from src/image/color.rs and src/formats/anm/image_io.rs -- do not edit *)\n'
    text += 'From TV Require Import Base.I32 Model.Texture.\nOpen Scope Z_scope.\n'
    text += 'Definition gen_color_formats : list cfmt := [%s].\n' % '; '.join('mkCF %d %d %s' % (n, b, 'true' if i else 'false') for n, b, i in rows)
    text += 'Definition gen_extract_guard : bool := %s.\n' % ('true' if guard else 'false')
    text += 'Definition gen_extract_bound : option Z := %s.\n' % ('Some %d' % bound if bound is not None else 'None')
    text += '(* translator notes:\n' + ''.join('   %s\n' % n.replace('*)', '* )') for n in notes) + '*)\n'
    write_if_changed(out, text)
    for n in notes: print('texfmt: ' + n)

if __name__ == '__main__':
    main(sys.argv[1], sys.argv[2])
