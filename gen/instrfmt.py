#!/usr/bin/env python3
# gen-out: InstrFmt.v
"""Translate every `impl InstrFormat for X` (header size, the sequence of header reads of `read_instr`, the
position and condition of the terminal test, the argument-size arithmetic) and every `decode_label` body
into Gen/InstrFmt.v.  usage: instrfmt.py <repo> <out.v>

The body of `read_instr` is consumed statement by statement with anchored patterns; anything that is not one
of the known statement shapes is reported as unrecognised (never skipped silently)."""
import sys, re, os
from rsparse import *

FILES = ['src/formats/anm/read_write.rs', 'src/formats/std.rs', 'src/formats/msg.rs',
         'src/formats/ecl/ecl_06.rs', 'src/formats/ecl/ecl_10.rs']
# the formats the model knows, in the order of the Coq list
EXPECTED = ['InstrFormat06', 'InstrFormat07', 'StdHooks06', 'StdHooks10', 'MsgHooks', 'OldeEclHooks',
            'TimelineFormat06', 'TimelineFormat08', 'ModernEclHooks']
COQ_NAME = {'InstrFormat06': 'FAnm06', 'InstrFormat07': 'FAnm07', 'StdHooks06': 'FStd06', 'StdHooks10': 'FStd10',
            'MsgHooks': 'FMsg', 'OldeEclHooks': 'FEcl06', 'TimelineFormat06': 'FTl06', 'TimelineFormat08': 'FTl08',
            'ModernEclHooks': 'FEcl10'}
FLD = {'u8': 'FU8', 'i8': 'FI8', 'u16': 'FU16', 'i16': 'FI16', 'u32': 'FU32', 'i32': 'FI32'}

def skip_call(t, i):
    """t[i] == '(' : index just after the matching ')'"""
    e = matching_brace(t, i)
    return -1 if e < 0 else e + 1

def parse_cond(c, fields):
    """`a==-1` or `(a,b)==(-1,4)` or `opcode==(-1_i16)asu16` -> [(field index, value)]"""
    names = [f[0] for f in fields]
    m = re.fullmatch(r'(\w+)==\(-1_i16\)asu16', c)
    if m and m.group(1) in names: return [(names.index(m.group(1)), 65535)]
    m = re.fullmatch(r'(\w+)==(-?\d+)', c)
    if m and m.group(1) in names: return [(names.index(m.group(1)), int(m.group(2)))]
    m = re.fullmatch(r'\(([\w,]+)\)==\(([-\d,]+)\)', c)
    if m:
        vs = m.group(1).split(','); ns = m.group(2).split(',')
        if len(vs) == len(ns) and all(v in names for v in vs):
            return [(names.index(v), int(n)) for v, n in zip(vs, ns)]
    return None

def parse_read_instr(body, notes, who):
    t = nows(body)
    i = 0
    fields = []          # (var, fld)
    eof_first = False
    term = None          # (pos, cond, kind)
    size_rule = None
    checked_var = None   # variable holding size.checked_sub(...) result -> source field
    asserted12 = None
    blob_seen = False
    def note(msg):
        notes.append('%s: unrecognised %s' % (who, msg))
    while i < len(t):
        rest = t[i:]
        m = re.match(r'let(\w+)=f\.read_(u8|i8|u16|i16|u32|i32)\(\)\?(?:as(\w+))?;', rest)
        if m and not blob_seen:
            fields.append((m.group(1), FLD[m.group(2)])); i += m.end(); continue
        m = re.match(r'let(\w+)=usize::from\(f\.read_(u8|u16|u32)\(\)\?\);', rest)
        if m and not blob_seen:
            fields.append((m.group(1), FLD[m.group(2)])); i += m.end(); continue
        m = re.match(r'let(\w+)=matchf\.read_(i16)_or_eof\(\)\{Ok\(Some\((\w+)\)\)=>\3(?:asi32)?,Ok\(None\)=>returnOk\(ReadInstr::EndOfFile\),Err\(e\)=>returnErr\(e\),\};', rest)
        if m and not fields:
            fields.append((m.group(1), FLD[m.group(2)])); eof_first = True; i += m.end(); continue
        m = re.match(r'if([^{}]+)\{returnOk\(ReadInstr::Terminal\);?\}', rest)
        if m and term is None and not blob_seen:
            c = parse_cond(m.group(1), fields)
            if c is None: note('terminal condition ' + m.group(1)); return None
            term = (len(fields), c, 'TTerminal'); i += m.end(); continue
        m = re.match(r'assert_eq!\((\w+),12\);', rest)
        if m and m.group(1) in [f[0] for f in fields]:
            asserted12 = m.group(1); i += m.end(); continue
        m = re.match(r'if(\w+)!=12\{returnErr\(emitter\.as_sized\(\)\.emit\(error!\(', rest)
        if m and m.group(1) in [f[0] for f in fields]:
            ob = rest.index('{'); cb = matching_brace(rest, ob)
            if cb > 0 and rest[ob + 1:cb].count('return') == 1:
                asserted12 = '=' + m.group(1); i += cb + 1; continue
        m = re.match(r'letargs_size=(\w+)\.checked_sub\(self\.instr_header_size\(\)\)\.ok_or_else\(', rest)
        if m and m.group(1) in [f[0] for f in fields]:
            e = skip_call(rest, m.end() - 1)
            if e > 0 and rest[e:e + 2] == '?;' and 'error!(' in rest[m.end():e] and 'panic' not in rest[m.end():e]:
                checked_var = m.group(1); i += e + 2; continue
        m = re.match(r'letargs_blob=f\.read_byte_vec\(([^;]+)\)\?;', rest)
        if m and not blob_seen:
            e = m.group(1); names = [f[0] for f in fields]
            m2 = re.fullmatch(r'(\w+)-self\.instr_header_size\(\)', e)
            if e == '12' and asserted12 and asserted12.startswith('='): size_rule = ('SzCheckedEq12', names.index(asserted12[1:]))
            elif e == '12' and asserted12: size_rule = ('SzAssert12', names.index(asserted12))
            elif e == 'args_size' and checked_var: size_rule = ('SzCheckedSub', names.index(checked_var))
            elif m2 and m2.group(1) in names: size_rule = ('SzUncheckedSub', names.index(m2.group(1)))
            elif re.fullmatch(r'(\w+?)(asusize)?', e) and re.fullmatch(r'(\w+?)(asusize)?', e).group(1) in names:
                size_rule = ('SzArgsize', names.index(re.fullmatch(r'(\w+?)(asusize)?', e).group(1)))
            else: note('argument size ' + e); return None
            blob_seen = True; i += m.end(); continue
        # warning-only blocks
        m = re.match(r'if[^{}]+\{emitter\.as_sized\(\)\.emit\(warning!\(', rest)
        if m:
            ob = rest.index('{'); cb = matching_brace(rest, ob)
            inner = rest[ob + 1:cb]
            if cb > 0 and inner.endswith(').ignore();') and inner.count('emit(') == 1:
                i += cb + 1; continue
        m = re.match(r'forpadding_byte_indexin0\.\.3\{letbyte=f\.read_u8\(\)\?;ifbyte!=0\{', rest)
        if m and not blob_seen:
            ob = rest.index('{'); cb = matching_brace(rest, ob)
            inner = rest[ob + 1:cb]
            if cb > 0 and inner.count('f.read_') == 1 and 'return' not in inner:
                fields += [('pad%d' % k, 'FU8') for k in range(3)]; i += cb + 1; continue
        m = re.match(r'letinstr=RawInstr\{', rest)
        if m and blob_seen:
            cb = matching_brace(rest, m.end() - 1)
            if cb > 0 and rest[cb + 1] == ';' and 'f.read' not in rest[:cb]:
                i += cb + 2; continue
        m = re.match(r'if([^{}]+)\{Ok\(ReadInstr::(MaybeTerminal\(instr\)|Terminal)\)\}else\{Ok\(ReadInstr::Instr\(instr\)\)\}$', rest)
        if m and blob_seen and term is None:
            c = parse_cond(m.group(1), fields)
            if c is None: note('final condition ' + m.group(1)); return None
            term = (len(fields) + 1, c, 'TMaybe' if m.group(2).startswith('Maybe') else 'TTerminal'); i = len(t); continue
        m = re.match(r'Ok\(ReadInstr::Instr\((RawInstr\{.*\}|instr)\)\)$', rest)
        if m and blob_seen and 'f.read' not in rest:
            i = len(t); continue
        note('statement: ' + rest[:90]); return None
    if not blob_seen or size_rule is None: note('no read_byte_vec'); return None
    names = [f[0] for f in fields]
    if 'time' not in names or 'opcode' not in names: note('no time/opcode header field'); return None
    return {'fields': fields, 'eof_first': eof_first, 'term': term or (0, [], 'TNone'), 'size': size_rule,
            'time': names.index('time'), 'opcode': names.index('opcode'),
            'mask': names.index('param_mask') if 'param_mask' in names else None}

DECODE = {'bitsas_': 'DL_abs', 'bitsasu64': 'DL_abs',
          'letrelative=bitsasi32asi64;(current_offsetasi64+relative)asu64': 'DL_rel',
          '(bits*20)asu64': 'DL_mul20_u32',
          'bitsasu64*20': 'DL_mul20_wide', '(bitsasu64)*20': 'DL_mul20_wide', 'u64::from(bits)*20': 'DL_mul20_wide'}

def main(repo, out):
    notes = []
    found = {}
    decode = {}
    for rel in FILES + ['src/llir/mod.rs']:
        try: src = strip_comments(open(os.path.join(repo, rel)).read())
        except OSError: notes.append('%s not found' % rel); continue
        for m in re.finditer(r'impl\s+InstrFormat\s+for\s+(\w+)\s*\{', src):
            name = m.group(1)
            if name in ('TestLanguage', 'TestInstrFormat') or rel == 'src/llir/mod.rs': continue
            cb = matching_brace(src, m.end() - 1)
            impl = src[m.end():cb]
            hm = re.search(r'fn\s+instr_header_size\s*\(&self\)\s*->\s*usize\s*\{\s*(\d+)\s*\}', impl)
            if not hm: notes.append('%s: unrecognised instr_header_size' % name); continue
            has_term = True
            tm = re.search(r'fn\s+has_terminal_instr\s*\(&self\)\s*->\s*bool\s*\{\s*(true|false)\s*\}', impl)
            if tm: has_term = tm.group(1) == 'true'
            body, _ = block_after(impl, r'fn\s+read_instr\s*\([^)]*\)\s*->\s*ReadResult<ReadInstr>\s*')
            if body is None: notes.append('%s: read_instr not found' % name); continue
            r = parse_read_instr(body, notes, name)
            if r is None: continue
            r['hdr'] = int(hm.group(1)); r['has_term'] = has_term
            found[name] = r
        for m in re.finditer(r'fn\s+decode_label\s*\(\s*&self\s*,\s*(\w+)\s*:\s*raw::BytePos\s*,\s*bits\s*:\s*raw::RawDwordBits\s*\)\s*->\s*raw::BytePos\s*\{', src):
            cb = matching_brace(src, m.end() - 1)
            b = nows(src[m.end():cb])
            # which type? the closest preceding `impl LanguageHooks for X` / trait default
            pre = src[:m.start()]
            im = list(re.finditer(r'(?:impl\s+LanguageHooks\s+for\s+(\w+)|pub\s+trait\s+(LanguageHooks))\s*\{', pre))
            who = (im[-1].group(1) or 'default') if im else '?'
            k = DECODE.get(b)
            if k is None: notes.append('decode_label of %s: unrecognised body %s' % (who, b)); k = 'DL_unrec'
            decode[who] = k
    for n in EXPECTED:
        if n not in found: notes.append('%s: no arm for this format (impl InstrFormat not found or unrecognised)' % n)
    for n in found:
        if n not in EXPECTED: notes.append('unrecognised new instruction format %s' % n)
    for who in ('default', 'StdHooks06', 'OldeEclHooks', 'ModernEclHooks'):
        if who not in decode: notes.append('decode_label of %s not found' % who); decode[who] = 'DL_unrec'
    for who in decode:
        if who not in ('default', 'StdHooks06', 'OldeEclHooks', 'ModernEclHooks'): notes.append('unrecognised new decode_label override in %s' % who)

    def coq_fmt(name):
        r = found.get(name)
        if r is None:
            return 'Definition gen_%s : ifmt := fmt_unrec.\n' % COQ_NAME[name]
        cond = '; '.join('(%d%%nat, %s)' % (i, ('(%d)' % v) if v < 0 else str(v)) for i, v in r['term'][1])
        return ('Definition gen_%s : ifmt := {| f_hdr := %d; f_fields := [%s]; f_eof_first := %s; f_time := %d; f_opcode := %d; f_mask := %s;\n'
                '  f_size := %s %d; f_term_pos := %d; f_term_cond := [%s]; f_term_kind := %s; f_has_terminal := %s |}.\n') % (
                COQ_NAME[name], r['hdr'], '; '.join(f[1] for f in r['fields']), 'true' if r['eof_first'] else 'false',
                r['time'], r['opcode'], ('Some %d%%nat' % r['mask']) if r['mask'] is not None else 'None',
                r['size'][0], r['size'][1], r['term'][0], cond, r['term'][2], 'true' if r['has_term'] else 'false')
    text = '(* GENERATED by gen/instrfmt.py from the `impl InstrFormat for ..` blocks and `decode_label` bodies -- do not edit *)\n'
    text += 'From TV Require Import Base.I32 Model.BinScript.\nOpen Scope Z_scope.\n'
    for n in EXPECTED: text += coq_fmt(n)
    text += 'Definition gen_formats : list (fmtname * ifmt) := [%s].\n' % '; '.join('(%s, gen_%s)' % (COQ_NAME[n], COQ_NAME[n]) for n in EXPECTED)
    text += 'Definition gen_decode_default : dlkind := %s.\n' % decode['default']
    text += 'Definition gen_decode_std06 : dlkind := %s.\n' % decode['StdHooks06']
    text += 'Definition gen_decode_ecl06 : dlkind := %s.\n' % decode['OldeEclHooks']
    text += 'Definition gen_decode_ecl10 : dlkind := %s.\n' % decode['ModernEclHooks']
    text += 'Definition gen_decoders : list dlkind := [gen_decode_default; gen_decode_std06; gen_decode_ecl06; gen_decode_ecl10].\n'
    text += '(* translator notes:\n' + ''.join('   %s\n' % n.replace('*)', '* )') for n in notes) + '*)\n'
    write_if_changed(out, text)
    for n in notes: print('instrfmt: ' + n)

if __name__ == '__main__':
    main(sys.argv[1], sys.argv[2])
