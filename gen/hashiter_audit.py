#!/usr/bin/env python3
"""Re-audit helper for C19 (not a table generator): prints a `mk_row` skeleton (Model/OrderSites.v syntax) for every
iteration site of the given tree(s).  usage: hashiter_audit.py <repo> [<repo2> ...]
Sites that differ only in their declaration digest are merged into one row with several acceptable digests.
Fill in pin / shape / tag after reading the code of each site."""
import sys
from hashiter import scan
from rsparse import coq_string

def main(argv):
    rows = {}
    order = []
    for repo in argv[1:]:
        sites = scan(repo)[0]
        for st in sites:
            k = (st['file'], st['fn'], st['kind'], st['header'], st['ord'], st['digest'], st['fndigest'])
            if k not in rows:
                rows[k] = {'decls': [], 'line': st['line'], 'decl': st['decl']}
                order.append(k)
            if st['decldigest'] not in rows[k]['decls']:
                rows[k]['decls'].append(st['decldigest'])
    for k in order:
        f, fn, kind, header, ordn, dg, fdg = k
        r = rows[k]
        print('  (* line %d; %s *)' % (r['line'], r['decl'].replace('*)', '* )').replace('(*', '( *')))
        print('  mk_row %s %s %s %s %d [%s] (PinStmt %s) (* fn: %s *) Unclassified "";' % (
            coq_string(f), coq_string(fn), coq_string(kind), coq_string(header), ordn,
            '; '.join(coq_string(d) for d in r['decls']), coq_string(dg), fdg))

if __name__ == '__main__':
    main(sys.argv)
