#!/usr/bin/env python3
# gen-out: StrEscape.v
"""Translate the two string-literal escape tables into Gen/StrEscape.v:
  src/fmt.rs                     impl Format for ast::LitString   ('\\0' => tmp.push_str(r#"\\0"#), ...)
  src/parse/lalrparser_util.rs   parse_string_literal              ('0' => out.push_str("\\0"), ...)
  src/parse/lexer.rs             the LitString token regex
usage: strescape.py <repo> <out.v>"""
import sys, re
from rsparse import *

NOTES = []
def note(s): NOTES.append(s)
CH = {'0': 0, 'n': 10, 'r': 13, '"': 34, '\\': 92}
def rust_char(lit):
    """value of a Rust char/str literal body like \\0 \\" \\\\ \\n \\r or a plain char"""
    if len(lit) == 1: return ord(lit)
    if len(lit) == 2 and lit[0] == '\\' and lit[1] in CH: return CH[lit[1]]
    return None

def main(repo, out):
    fmt = open(repo + '/src/fmt.rs').read()
    par = open(repo + '/src/parse/lalrparser_util.rs').read()
    lex = open(repo + '/src/parse/lexer.rs').read()
    fmt_pairs, parse_pairs = [], []
    m = re.search(r'impl\s+Format\s+for\s+ast::LitString\s*\{.*?for\s+c\s+in\s+self\.string\.chars\(\)\s*\{\s*match\s+c\s*\{(.*?)\n\s*\}\s*\}', fmt, re.S)
    if not m: note('not found: impl Format for ast::LitString')
    else:
        for line in m.group(1).split('\n'):
            line = line.strip().rstrip(',')
            if not line: continue
            mm = re.fullmatch(r"'(\\?.)'\s*=>\s*tmp\.push_str\(r#\"\\(.)\"#\)", line)
            if mm and rust_char(mm.group(1)) is not None: fmt_pairs.append((rust_char(mm.group(1)), ord(mm.group(2)))); continue
            if line == 'c => tmp.push(c)': continue
            note('unrecognised arm in Format for LitString: ' + line)
        if 'out.fmt(("\\"", tmp, "\\""))' not in fmt: note('unrecognised quoting in Format for LitString')
    # the printer is pinned: nothing but the escaping loop between the braces (a fast path that skips it would be new code)
    fb, _ = block_after(strip_comments(fmt), r'impl\s+Format\s+for\s+ast::LitString\s*')
    if fb is None or not re.fullmatch(r'fnfmt<W:Write>\(&self,out:&mutFormatter<W>\)->Result\{letmuttmp=String::with_capacity\(2\*self\.string\.len\(\)\+1\);'
                                      r'forcinself\.string\.chars\(\)\{matchc\{.*c=>tmp\.push\(c\),\}\}out\.fmt\(\("\\"",tmp,"\\""\)\)\}', nows(fb), re.S):
        note('unrecognised body of Format for ast::LitString (only the escaping loop is expected)')
    # metadata strings: ANM entry names through write_cstring / read_cstring_blockwise with block 16, STD names through 128-byte buffers
    try:
        rw = nows(strip_comments(open(repo + '/src/formats/anm/read_write.rs').read()))
        st = strip_comments(open(repo + '/src/formats/std.rs').read())
    except OSError:
        rw = ''; st = ''; note('not found: src/formats/anm/read_write.rs or src/formats/std.rs')
    for what, txt in (
        ('ANM path write', 'letpath_offset=w.pos()?-entry_pos;w.write_cstring(&Encoded::encode(&entry.path,DEFAULT_ENCODING).map_err(|e|emitter.emit(e))?,16)?;'),
        ('ANM path_2 write', 'ifletSome(path_2)=&entry.path_2{path_2_offset=w.pos()?-entry_pos;w.write_cstring(&Encoded::encode(path_2,DEFAULT_ENCODING).map_err(|e|emitter.emit(e))?,16)?;};'),
        ('ANM path read', 'letpath=reader.read_cstring_blockwise(16)?.decode(DEFAULT_ENCODING).map_err(|e|emitter.emit(e))?;'),
        ('ANM path_2 read', 'Some(n)=>{reader.seek_to(entry_pos+n.get())?;Some(reader.read_cstring_blockwise(16)?.decode(DEFAULT_ENCODING).map_err(|e|emitter.emit(e))?)},'),
    ):
        if txt not in rw: note('unrecognised %s in anm/read_write.rs' % what)
    for fn, txt in (('read_string_128', 'r.read_cstring_exact(128,emitter)?.decode(DEFAULT_ENCODING).map(|x|sp!(x)).map_err(|e|emitter.as_sized().emit(e))'),
                    ('write_string_128', 'letencoded=Encoded::encode_fixed_size(&s,DEFAULT_ENCODING,128).map_err(|e|emitter.as_sized().emit(e))?;f.write_all(&encoded.0)?;Ok(())')):
        bb, _ = block_after(st, r'fn\s+' + fn + r'\b[^{;]*')
        if bb is None or nows(bb) != txt: note('unrecognised %s in formats/std.rs' % fn)
    # mission.msg text lines (64-byte buffers under an additive cipher that the reader undoes) and the string lists of stack ECL
    try:
        mi = strip_comments(open(repo + '/src/formats/mission.rs').read()); e10 = strip_comments(open(repo + '/src/formats/ecl/ecl_10.rs').read())
    except OSError:
        mi = ''; e10 = ''; note('not found: src/formats/mission.rs or src/formats/ecl/ecl_10.rs')
    for src_, fn, txt in (
        (mi, 'write_mission_text_lines', 'for(line,s)intext.iter().enumerate(){letmutencoded=Encoded::encode_fixed_size(&s,DEFAULT_ENCODING,64).map_err(|e|emitter.emit(e))?;'
                                         'for(byte,c)inencoded.0.iter_mut().zip(cipher.bytes_for_line(line)){*byte=u8::wrapping_sub(*byte,c)}writer.write_all(&encoded.0)?;}Ok(())'),
        (mi, 'read_mission_text_lines', None),
        (e10, 'write_string_list', None), (e10, 'read_string_list', None)):
        bb, _ = block_after(src_, r'fn\s+' + fn + r'\b[^{;]*')
        nb_ = nows(bb or '')
        if txt is not None:
            if nb_ != txt: note('unrecognised %s' % fn)
        elif fn == 'read_mission_text_lines':
            if not ('letmutbytes=reader.read_byte_vec(64)?;for(byte,c)inbytes.iter_mut().zip(cipher.bytes_for_line(line)){*byte=u8::wrapping_add(*byte,c)}'
                    'letmutencoded=Encoded(bytes);encoded.trim_first_nul(emitter,true);encoded.decode(DEFAULT_ENCODING)') in nb_: note('unrecognised read_mission_text_lines')
        elif fn == 'write_string_list':
            if 'forstringinstrings{letencoded=Encoded::encode(&string,DEFAULT_ENCODING).map_err(|e|emitter.emit(e))?;writer.write_cstring(&encoded,1)?;num_bytes_written+=encoded.len()+1;}' not in nb_: note('unrecognised write_string_list in ecl_10.rs')
        else:
            if 'letencoded=reader.read_cstring_blockwise(1)?;num_bytes_read+=encoded.len()+1;letstring=encoded.decode(DEFAULT_ENCODING).map_err(|e|emitter.emit(e))?;Ok(sp!(string))' not in nb_: note('unrecognised read_string_list in ecl_10.rs')
    b, _ = block_after(par, r'pub\s+fn\s+parse_string_literal\b[^{]*')
    if b is None: note('not found: parse_string_literal'); b = ''
    mb, _ = block_after(b, r'if\s+escape\s*\{\s*escape\s*=\s*false;\s*match\s+c\s*')
    if mb is None: note('unrecognised escape handling in parse_string_literal'); mb = ''
    for pat, rhs in split_arms(mb):
        pat = pat.strip()
        if pat == '_': continue
        mm = re.fullmatch(r"'(\\?.)'", pat); rr = re.fullmatch(r'out\.push_str\("(\\?.)"\)', rhs.strip())
        if mm and rr and rust_char(mm.group(1)) is not None and rust_char(rr.group(1)) is not None:
            parse_pairs.append((rust_char(mm.group(1)), rust_char(rr.group(1))))
        else: note('unrecognised arm in parse_string_literal: %s => %s' % (pat, rhs.strip()))
    nb = nows(b)
    for what, txt in (('backslash starts an escape', "}elseifc=='\\\\'{escape=true;}else{out.push(c);}"),
                      ('quotes are stripped', 'forcinstring[1..string.len()-1].chars(){'),
                      ('no dangling escape', 'assert!(!escape);')):
        if txt not in nb: note('unrecognised parse_string_literal: ' + what)
    if '#[regex(r##""([^\\\\"]|\\\\.)*""##)] LitString' not in lex: note('unrecognised LitString token regex in lexer.rs')
    t = '(* GENERATED by gen/strescape.py from src/fmt.rs, src/parse/lalrparser_util.rs, src/parse/lexer.rs -- do not edit *)\n'
    t += 'From TV Require Import Base.I32 Model.StrLit.\nOpen Scope Z_scope.\n'
    t += 'Definition gen_esc : esc_table := {|\n  et_fmt := [%s];\n  et_parse := [%s]\n|}.\n' % (
        '; '.join('(%d, %d)' % p for p in fmt_pairs), '; '.join('(%d, %d)' % p for p in parse_pairs))
    t += 'Definition gen_esc_unrecognised : nat := %d%%nat.\n' % len(NOTES)
    t += '(* translator notes:\n' + ''.join('   %s\n' % n.replace('*)', '* )').replace('(*', '( *') for n in NOTES) + '*)\n'
    write_if_changed(out, t)
    for n in NOTES: print('strescape: ' + n)

if __name__ == '__main__':
    main(sys.argv[1], sys.argv[2])
