#!/usr/bin/env python3
# gen-out: HashIter.v
"""Inventory of every iteration over a randomly seeded hash container in /repo/src  ->  Gen/HashIter.v.
usage: hashiter.py <repo> <out.v> [--dump]

What counts as a *hashy name* (over-approximation, purely textual):
  * a type alias whose right-hand side mentions HashMap / HashSet / IdMap (fixpoint), e.g. IdMap itself; a tuple struct
    with such a field (then `self.N` inside its impls);
  * a struct field, fn parameter, closure parameter or `let` binding whose declared type mentions a hashy type;
  * a `let` binding whose initialiser mentions a hashy type (`IdMap::new()`, `.collect::<HashMap<..>>()`), calls a
    hashy function, or is an alias of a hashy place (`let x = &self.a.b;`, `.last().unwrap()`, `.clone()`; `.get(k)` /
    `.entry(k)..` / `[k]` when the container is nested);
  * the names bound by the pattern of a `for` over a nested hash container;
  * a function whose return type mentions a hashy type;
  * a function that returns an iterator (`Iterator`, `Iter`, `Keys`, `Values`, `Drain` in its return type) and whose body
    contains a site (fixpoint) -- the callers then iterate the hash container through it (site kind "call").
  A hash-typed FIELD name is global when it is used as a field (`x.enums`, whatever the type of x); the bare identifier
  counts only if the same name is a hash-typed parameter somewhere, or the enclosing fn destructures a struct that owns
  such a field (`let Visitor { next_numbers, .. } = self`).  `let`/parameter names are local to the enclosing `fn` item.
A *site* is an occurrence of
  * `for PAT in EXPR` where EXPR mentions a hashy name,
  * `RECV.m(` for m in ITER_METHODS where the receiver chain mentions a hashy name,
  * `.extend(ARG)`, `.chain(ARG)`, `.zip(ARG)`, `from_iter(ARG)` where ARG mentions a hashy name,
  * a call of an iterator-returning hashy function,
  * a formatting macro with a `?` (Debug) placeholder and a hashy name among its arguments, or bare `self` inside an
    impl of a struct that has a hash-typed field.
Each site is keyed line-independently by (file, enclosing fn, kind, normalised header text, occurrence number) and carries
three digests: of the declared types of the hashy names involved, of the whole enclosing statement (for a `for` loop:
header and body; otherwise the statement up to its `;`; for a "call": also the callee), and of the whole enclosing fn --
comments and string-literal contents excluded -- so that an edit of an audited consumer invalidates its classification
(Model/OrderSites.v).  Known blind spots: a hash container handed to a generic `impl IntoIterator` parameter, one whose
type is never written (`let x = Default::default()` never passed to a typed parameter), containers inside dependencies.
Files reachable only through `#[cfg(test)] mod x;` and inline `#[cfg(test)] mod x { .. }` are skipped and listed."""
import sys, re, os, hashlib
from rsparse import write_if_changed, coq_string

HASHY_TYPES0 = {'HashMap', 'HashSet', 'IdMap'}
ITER_METHODS = ['iter', 'iter_mut', 'keys', 'values', 'values_mut', 'into_iter', 'into_keys', 'into_values',
                'drain', 'retain', 'drain_filter', 'par_iter']
ARG_METHODS = ['extend', 'chain', 'zip', 'from_iter']
FMT_MACROS = ['format', 'write', 'writeln', 'print', 'println', 'eprint', 'eprintln', 'panic', 'error', 'warning',
              'bug', 'unreachable', 'assert', 'assert_eq', 'debug_assert', 'expect', 'log', 'trace', 'debug', 'info', 'warn']
ITER_RET = re.compile(r'\b(Iterator|IntoIterator|Iter|IterMut|Keys|Values|ValuesMut|Drain|IntoIter)\b')
IDENT = r'[A-Za-z_][A-Za-z0-9_]*'


def clean(src):
    """blank out comments and the contents of string / char literals, preserving offsets and newlines"""
    out = list(src)
    i, n = 0, len(src)
    def blank(a, b):
        for k in range(a, b):
            if out[k] != '\n': out[k] = ' '
    while i < n:
        c = src[i]
        if src.startswith('//', i):
            j = src.find('\n', i)
            j = n if j < 0 else j
            blank(i, j); i = j
        elif src.startswith('/*', i):
            depth, j = 1, i + 2
            while j < n and depth:
                if src.startswith('/*', j): depth += 1; j += 2
                elif src.startswith('*/', j): depth -= 1; j += 2
                else: j += 1
            blank(i, j); i = j
        elif c == 'r' and re.match(r'r#*"', src[i:i + 8]) and (i == 0 or not (src[i - 1].isalnum() or src[i - 1] == '_')):
            m = re.match(r'r(#*)"', src[i:])
            close = '"' + m.group(1)
            j = src.find(close, i + m.end())
            j = n if j < 0 else j
            blank(i + m.end(), j); i = j + len(close)
        elif c == '"':
            j = i + 1
            while j < n and src[j] != '"':
                if src[j] == '\\': j += 1
                j += 1
            blank(i + 1, min(j, n)); i = j + 1
        elif c == "'":
            # char literal or lifetime
            m = re.match(r"'(\\.[^']*|[^\\'])'", src[i:i + 12])
            if m:
                blank(i + 1, i + m.end() - 1); i += m.end()
            else:
                i += 1
        else:
            i += 1
    return ''.join(out)


def match_close(s, i):
    """index of the bracket closing s[i] in cleaned text"""
    pairs = {'{': '}', '(': ')', '[': ']'}
    depth = 0
    o = s[i]; c = pairs[o]
    n = len(s)
    k = i
    while k < n:
        ch = s[k]
        if ch == o: depth += 1
        elif ch == c:
            depth -= 1
            if depth == 0: return k
        k += 1
    return -1


def match_open(s, i):
    """index of the bracket opening the closer s[i]"""
    pairs = {'}': '{', ')': '(', ']': '['}
    c = s[i]; o = pairs[c]
    depth = 0
    k = i
    while k >= 0:
        ch = s[k]
        if ch == c: depth += 1
        elif ch == o:
            depth -= 1
            if depth == 0: return k
        k -= 1
    return -1


def skip_generics(s, i):
    """s[i] == '<' : index after the matching '>' (best effort; '->' is not a closer)"""
    depth = 0
    n = len(s)
    k = i
    while k < n:
        ch = s[k]
        if ch == '<': depth += 1
        elif ch == '>' and s[k - 1] != '-':
            depth -= 1
            if depth == 0: return k + 1
        elif ch in ';{': return k
        k += 1
    return n


def type_end(s, i):
    """end of a type expression starting at i (stops at a top-level , ; = ) { or `where`)"""
    depth_a = depth_p = 0
    n = len(s)
    k = i
    while k < n:
        ch = s[k]
        if ch == '<': depth_a += 1
        elif ch == '>' and s[k - 1] != '-':
            if depth_a == 0: return k
            depth_a -= 1
        elif ch in '([': depth_p += 1
        elif ch in ')]':
            if depth_p == 0: return k
            depth_p -= 1
        elif depth_a == 0 and depth_p == 0 and (ch in ',;={|' ):
            return k
        elif depth_a == 0 and depth_p == 0 and s.startswith('where', k) and not (s[k - 1].isalnum() or s[k - 1] == '_'):
            return k
        k += 1
    return n


class Fn:
    def __init__(self, name, start, body_open, body_close, ret, qual):
        self.name, self.start, self.body_open, self.body_close, self.ret, self.qual = name, start, body_open, body_close, ret, qual


def find_fns(s):
    fns = []
    for m in re.finditer(r'\bfn\s+(%s)' % IDENT, s):
        k = m.end()
        while k < len(s) and s[k].isspace(): k += 1
        if k < len(s) and s[k] == '<': k = skip_generics(s, k)
        while k < len(s) and s[k].isspace(): k += 1
        if k >= len(s) or s[k] != '(': continue
        pc = match_close(s, k)
        if pc < 0: continue
        # return type and body
        j = pc + 1
        b = j
        depth = 0
        while b < len(s):
            ch = s[b]
            if ch == '<': depth += 1
            elif ch == '>' and s[b - 1] != '-': depth = max(0, depth - 1)
            elif ch in '{;' and depth == 0: break
            b += 1
        if b >= len(s) or s[b] == ';':
            continue  # declaration without body
        ret = s[j:b]
        bc = match_close(s, b)
        if bc < 0: continue
        fns.append(Fn(m.group(1), m.start(), b, bc, ret, None))
        fns[-1].params = (k, pc)
    return fns


def find_impls(s):
    res = []
    for m in re.finditer(r'\b(impl|trait)\b', s):
        j = m.start() - 1
        while j >= 0 and s[j].isspace(): j -= 1
        if j >= 0 and s[j] in '>:(,<&=+': continue   # `impl Trait` in type position
        b = s.find('{', m.end())
        semi = s.find(';', m.end())
        if b < 0 or (0 <= semi < b): continue
        head = s[m.end():b]
        if '(' in head and 'Fn' not in head and m.group(1) == 'impl':
            # `impl Trait` in argument position etc.
            pass
        bc = match_close(s, b)
        if bc < 0: continue
        head = re.sub(r'\bwhere\b.*', '', head, flags=re.S)
        head = re.sub(r'<[^<>]*>', '', head); head = re.sub(r'<[^<>]*>', '', head)
        if ' for ' in head: head = head.split(' for ')[1]
        names = re.findall(IDENT, head)
        names = [x for x in names if x not in ('dyn', 'mut', 'crate', 'super', 'ast', 'context', 'self')]
        res.append((b, bc, names[-1] if names else '?'))
    return res


def norm(text):
    t = re.sub(r'\s+', ' ', text).strip()
    t = re.sub(r'\s*([(){}\[\],;.&|<>=!:+\-*/?])\s*', r'\1', t)
    return t


def receiver_start(s, dot):
    """s[dot] == '.' : start index of the receiver chain expression ending just before dot"""
    k = dot - 1
    while k >= 0:
        while k >= 0 and s[k].isspace(): k -= 1
        if k < 0: break
        ch = s[k]
        if ch in ')]':
            o = match_open(s, k)
            if o < 0: break
            k = o - 1
            # a call/index: continue with what precedes (identifier, turbofish, or nothing)
            # turbofish ::<...>
            j = k
            while j >= 0 and s[j].isspace(): j -= 1
            if j >= 0 and s[j] == '>':
                # try to skip generic args backwards
                depth = 0
                q = j
                while q >= 0:
                    if s[q] == '>': depth += 1
                    elif s[q] == '<':
                        depth -= 1
                        if depth == 0: break
                    q -= 1
                if q > 1 and s[q - 2:q] == '::':
                    k = q - 3
            continue
        if ch == '?':
            k -= 1; continue
        if ch.isalnum() or ch == '_':
            while k >= 0 and (s[k].isalnum() or s[k] == '_'): k -= 1
            # path separators / field access
            j = k
            while j >= 0 and s[j].isspace(): j -= 1
            if j >= 0 and s[j] == '.' and not (j > 0 and s[j - 1] == '.'):
                k = j - 1; continue
            if j >= 1 and s[j - 1:j + 1] == '::':
                k = j - 2; continue
            return k + 1
        if ch == '}':
            # block expression receiver (match {..}.iter()) : take the block and the keyword chain roughly
            o = match_open(s, k)
            return o if o >= 0 else k + 1
        break
    return k + 1


def stmt_extent(s, pos, fn):
    """(start, end) of the statement containing pos inside fn body: back to the previous ; { } at depth of pos,
    forward to the ; (or the end of the enclosing block) at the same depth"""
    lo = fn.body_open + 1 if fn else 0
    hi = fn.body_close if fn else len(s)
    k = pos
    depth = 0
    while k > lo:
        ch = s[k - 1]
        if ch in ')]}':
            depth += 1
        elif ch in '([{':
            if depth == 0: break
            depth -= 1
        elif ch == ';' and depth == 0:
            break
        k -= 1
    start = k
    k = pos
    depth = 0
    while k < hi:
        ch = s[k]
        if ch in '([{': depth += 1
        elif ch in ')]}':
            if depth == 0: break
            depth -= 1
        elif ch == ';' and depth == 0:
            k += 1; break
        k += 1
    return start, k


def test_only_files(root):
    """files pulled in only by `#[cfg(test)] mod x;`"""
    skip = set()
    for dp, dn, fn in os.walk(root):
        for f in fn:
            if not f.endswith('.rs'): continue
            p = os.path.join(dp, f)
            txt = clean(open(p, encoding='utf-8').read())
            for m in re.finditer(r'#\[cfg\(test\)\]\s*(?:pub\s+)?mod\s+(%s)\s*;' % IDENT, txt):
                base = dp if f in ('mod.rs', 'lib.rs', 'main.rs') else os.path.join(dp, f[:-3])
                for cand in (os.path.join(base, m.group(1) + '.rs'), os.path.join(base, m.group(1), 'mod.rs')):
                    if os.path.exists(cand):
                        skip.add(os.path.relpath(cand, root))
    return skip


def blank_test_mods(s):
    out = s
    for m in re.finditer(r'#\[cfg\(test\)\]\s*(?:pub\s+)?mod\s+%s\s*\{' % IDENT, s):
        b = m.end() - 1
        e = match_close(s, b)
        if e > 0:
            out = out[:b + 1] + re.sub(r'[^\n]', ' ', out[b + 1:e]) + out[e:]
    return out


def scan(repo):
    root = os.path.join(repo, 'src')
    notes = []
    skip = test_only_files(root)
    files = {}
    for dp, dn, fn in os.walk(root):
        for f in sorted(fn):
            if f.endswith('.rs'):
                rel = os.path.relpath(os.path.join(dp, f), root)
                if rel in skip: continue
                raw = open(os.path.join(dp, f), encoding='utf-8').read()
                files[rel] = (raw, blank_test_mods(clean(raw)))
    if not files:
        notes.append('hashiter: source tree not found under %s' % root)
    # ---- hashy type names (aliases, fixpoint)
    hashy_types = set(HASHY_TYPES0)
    changed = True
    while changed:
        changed = False
        for rel, (raw, s) in files.items():
            for m in re.finditer(r'\btype\s+(%s)\s*(?:<[^=;]*>)?\s*=\s*([^;]*);' % IDENT, s):
                if m.group(1) not in hashy_types and re.search(r'\b(%s)\b' % '|'.join(hashy_types), m.group(2)):
                    hashy_types.add(m.group(1)); changed = True
    base_ty_re = re.compile(r'\b(%s)\b' % '|'.join(sorted(hashy_types)))
    # tuple structs with a hashy positional field: the struct name is a hashy type, `self` is hashy in its impls
    tuple_structs = set()
    for rel, (raw, s) in files.items():
        for m in re.finditer(r'\bstruct\s+(%s)\s*(?:<[^(;{]*>)?\s*\(' % IDENT, s):
            pc = match_close(s, m.end() - 1)
            if pc > 0 and base_ty_re.search(s[m.end():pc]):
                tuple_structs.add(m.group(1))
    hashy_types |= tuple_structs
    # structs with a hashy named field: `{:?}` of `self` inside their impls prints the container in iteration order
    hashy_structs = set(tuple_structs)
    struct_extents = {}   # rel -> [(open, close, name)]
    for rel, (raw, s) in files.items():
        for m in re.finditer(r'\bstruct\s+(%s)\s*(?:<[^;{(]*>)?\s*(?:where[^{;]*)?\{' % IDENT, s):
            e = match_close(s, m.end() - 1)
            if e > 0:
                struct_extents.setdefault(rel, []).append((m.end() - 1, e, m.group(1)))
                if base_ty_re.search(s[m.end():e]):
                    hashy_structs.add(m.group(1))
    struct_fields = {}    # field name -> set of structs that declare it with a hashy type
    ty_re = re.compile(r'\b(%s)\b' % '|'.join(sorted(hashy_types)))
    # ---- per file structure
    info = {}
    for rel, (raw, s) in files.items():
        info[rel] = (find_fns(s), find_impls(s))
    def enclosing_fn(rel, pos):
        best = None
        for f in info[rel][0]:
            if f.start <= pos <= f.body_close and (best is None or f.start > best.start):
                best = f
        return best
    def outer_named(rel, pos):
        """qualified name: Impl::fn (outermost-to-innermost chain of fns)"""
        chain = sorted([f for f in info[rel][0] if f.start <= pos <= f.body_close], key=lambda f: f.start)
        imp = None
        for (b, e, nm) in info[rel][1]:
            if b <= pos <= e and (imp is None or b > imp[0]): imp = (b, e, nm)
        q = '::'.join(f.name for f in chain) if chain else '<top>'
        return (imp[2] + '::' + q) if imp else q
    # ---- hashy names
    global_names = {}   # name -> reason
    local_names = {}    # (rel, fn.start) -> {name: reason}
    hashy_fns = {}
    for rel, (raw, s) in files.items():
        fns = info[rel][0]
        # fields and parameters: `name: TYPE`
        for m in re.finditer(r'\b(%s)\s*:\s*(?!:)' % IDENT, s):
            if s[m.start() - 1:m.start()] == ':' : continue
            te = type_end(s, m.end())
            ty = s[m.end():te]
            if not ty_re.search(ty): continue
            name = m.group(1)
            f = enclosing_fn(rel, m.start())
            inparams = None
            for g in fns:
                if g.params[0] <= m.start() <= g.params[1]: inparams = g
            if inparams is not None:
                local_names.setdefault((rel, inparams.start), {})[name] = 'param: ' + norm(ty)
                # parameter names are also hashy everywhere (an untyped `let x = Default::default()` handed to such a
                # parameter is then still seen when it is iterated under the same name)
                global_names.setdefault(name, set()).add('param: ' + norm(ty))
            elif f is not None and f.body_open < m.start():
                # let with type annotation, closure parameter, or struct literal inside a fn body
                local_names.setdefault((rel, f.start), {})[name] = 'local: ' + norm(ty)
            else:
                global_names.setdefault(name, set()).add('field: ' + norm(ty))
                for (b, e, sn) in struct_extents.get(rel, []):
                    if b <= m.start() <= e: struct_fields.setdefault(name, set()).add(sn)
        for f in fns:
            if ty_re.search(f.ret):
                hashy_fns[f.name] = 'fn %s returns %s' % (rel, norm(f.ret))
    # let initialisers (need hashy_fns): fixpoint below together with iterator-returning fns
    def let_scan():
        ch = False
        fn_re = re.compile(r'\b(%s)\s*(?:::<[^()]*>)?\s*\(' % '|'.join(sorted(map(re.escape, hashy_fns)))) if hashy_fns else None
        for rel, (raw, s) in files.items():
            for m in re.finditer(r'\blet\s+(?:mut\s+)?(%s)\s*(?::[^=;]*)?=\s*' % IDENT, s):
                f = enclosing_fn(rel, m.start())
                if f is None: continue
                st, en = stmt_extent(s, m.end(), f)
                init = s[m.end():en]
                # only the head of the initialiser up to the first closure/block keeps this from exploding
                reason = None
                if ty_re.search(init): reason = 'let = ' + norm(init)[:60]
                elif fn_re and fn_re.search(init.split('{')[0]) and not re.search(r'\.(get|len|contains_key|contains|is_empty|remove|insert|entry)\s*\(', init.split('{')[0]):
                    reason = 'let = call of hashy fn: ' + norm(init)[:60]
                else:
                    reason = alias_of_container(rel, m.start(), init)
                if reason:
                    d = local_names.setdefault((rel, f.start), {})
                    if m.group(1) not in d:
                        d[m.group(1)] = reason; ch = True
        return ch
    # ---- sites
    destructured_cache = {}
    def destructured(rel, f, t):
        """fn f contains a struct pattern / literal `S { .. t .. }` of a struct S that declares a hash-typed field t"""
        key = (rel, f.start, t)
        if key not in destructured_cache:
            body = files[rel][1][f.start:f.body_close + 1]
            owners = struct_fields.get(t, set())
            ok = False
            if owners:
                for m in re.finditer(r'\b(?:%s)\s*(?:<[^{}()]*>)?\s*\{' % '|'.join(sorted(owners)), body):
                    e = match_close(body, m.end() - 1)
                    if e > 0 and re.search(r'(?<![\w.])%s\b' % re.escape(t), body[m.end():e]): ok = True; break
            destructured_cache[key] = ok
        return destructured_cache[key]
    def global_name_applies(rel, scopes, t, text):
        """a hash-typed field name counts when it is used as a field (`.t`); bare `t` counts only if the name is also a
        hash-typed parameter somewhere or the enclosing fn destructures a struct that owns such a field"""
        text = re.sub(r'\.\.=?', ' ', text)      # range operators are not field accesses
        if re.search(r'\.\s*%s\b' % re.escape(t), text): return True
        if not re.search(r'(?<![\w.])%s\b' % re.escape(t), text): return False
        if any(r.startswith('param:') for r in global_names[t]): return True
        return any(destructured(rel, f, t) for f in scopes)
    PRESERVING = {'last', 'first', 'last_mut', 'first_mut', 'unwrap', 'expect', 'as_ref', 'as_mut', 'clone', 'cloned', 'borrow',
                  'borrow_mut', 'unwrap_or_default', 'pop', 'take', 'as_deref', 'to_owned'}
    ELEMENT = {'get', 'get_mut', 'entry', 'or_default', 'or_insert_with', 'or_insert', 'remove', 'or_insert_with_key'}
    def alias_of_container(rel, pos, init):
        """`let x = <place>` where <place> is a hash container reached by field access / unwrap / last / clone ..., or an
        element of a nested one: returns the reason text, or None"""
        head = re.split(r'[{|]', init)[0].rstrip().rstrip(';').strip()
        head = re.sub(r'^(&\s*mut\s+|&|\*|mut\s+)+', '', head).strip()
        m = re.match(r'((?:%s)(?:\s*::\s*%s)*(?:\s*\.\s*(?:%s|\d+))*)' % (IDENT, IDENT, IDENT), head)
        if not m: return None
        rest = head[m.end():]
        base = m.group(1)
        # peel trailing field names that are really method names (followed by '(')
        if rest.startswith('('):
            k = base.rfind('.')
            if k < 0: return None
            rest = base[k:] + rest; base = base[:k]
        names = hashy_in(rel, pos, base)
        if not names: return None
        decl = decl_of(rel, pos, names)
        nested = len(base_ty_re.findall(decl)) >= 2 or 'Vec<' in decl
        while rest.strip():
            rest = rest.strip()
            if rest[0] == '?': rest = rest[1:]; continue
            if rest[0] == '[':
                e = match_close(rest, 0)
                if e < 0 or not nested: return None
                rest = rest[e + 1:]; continue
            mm = re.match(r'\.\s*(%s)\s*(?:::<[^()]*>)?\s*\(' % IDENT, rest)
            if not mm: return None
            e = match_close(rest, mm.end() - 1)
            if e < 0: return None
            if mm.group(1) in PRESERVING: pass
            elif mm.group(1) in ELEMENT and nested: pass
            else: return None
            rest = rest[e + 1:]
        return 'let = alias of ' + norm(base)[:50] + ' (' + decl[:80] + ')'
    def hashy_in(rel, pos, text):
        """the hashy names mentioned in text at position pos of file rel"""
        found = []
        toks = set(re.findall(IDENT, text))
        scopes = [f for f in info[rel][0] if f.start <= pos <= f.body_close]
        if 'self' in toks:
            for (b, e, nm) in info[rel][1]:
                if b <= pos <= e and nm in tuple_structs and re.search(r'\bself\s*\.\s*\d', text):
                    found.append('self.N'); break
        for t in toks:
            if t in global_names and global_name_applies(rel, scopes, t, text): found.append(t)
            elif t in hashy_fns and re.search(r'\b%s\s*(?:::<[^()]*>)?\s*\(' % re.escape(t), text): found.append(t + '()')
            else:
                for f in scopes:
                    if t in local_names.get((rel, f.start), {}):
                        found.append(t); break
        return sorted(found)
    pattern_added = [False]
    def decl_of(rel, pos, names):
        out = []
        scopes = [f for f in info[rel][0] if f.start <= pos <= f.body_close]
        for nm in names:
            why = []
            if nm in global_names: why += sorted(global_names[nm])
            if nm.endswith('()'): why.append(hashy_fns.get(nm[:-2], ''))
            if nm == 'self': why.append('Debug of a struct with a hash-typed field')
            for f in scopes:
                r = local_names.get((rel, f.start), {}).get(nm)
                if r and r not in why: why.append(r)
            out.append(nm + ':' + '|'.join(why))
        return ' ; '.join(out)
    def find_sites():
        sites = []
        for rel, (raw, s) in sorted(files.items()):
            # for loops
            for m in re.finditer(r'\bfor\s+', s):
                # find ` in ` at depth 0 before the body '{'
                k = m.end(); depth = 0; inpos = -1
                while k < len(s):
                    ch = s[k]
                    if ch in '([': depth += 1
                    elif ch in ')]': depth -= 1
                    elif ch == ';': break
                    elif ch == '{':
                        # struct pattern `Name { a, b }` -- only if the text before it ends with a type path
                        if not re.search(r'[A-Za-z0-9_>]\s*$', s[m.end():k]): break
                        e = match_close(s, k)
                        if e < 0 or not re.match(r'\s*(in\s|[),\]])', s[e + 1:e + 6]): break
                        k = e
                    elif depth == 0 and re.match(r'\sin\s', s[k:k + 4]):
                        inpos = k; break
                    k += 1
                if inpos < 0: continue   # `for<'a>` bounds, impl .. for ..
                # body '{' : first '{' at paren depth 0 that is not part of a struct literal; take first at depth 0
                k = inpos + 4; depth = 0
                while k < len(s):
                    ch = s[k]
                    if ch in '([': depth += 1
                    elif ch in ')]': depth -= 1
                    elif ch == '{' and depth == 0: break
                    elif ch == ';' and depth == 0: k = -1; break
                    k += 1
                if k < 0 or k >= len(s): continue
                expr = s[inpos + 4:k]
                names = hashy_in(rel, m.start(), expr)
                if not names: continue
                bc = match_close(s, k)
                # nested hash containers: the names bound by the pattern are hashy inside the enclosing fn
                f = enclosing_fn(rel, m.start())
                if f is not None:
                    nested = False
                    for nm in names:
                        why = ' '.join(sorted(global_names.get(nm, ()))) or local_names.get((rel, f.start), {}).get(nm) or ''
                        for g in info[rel][0]:
                            why = why or local_names.get((rel, g.start), {}).get(nm, '')
                        if len(base_ty_re.findall(why)) >= 2: nested = True
                    if nested:
                        for pn in re.findall(IDENT, s[m.end():inpos]):
                            if pn not in ('mut', 'ref', '_') and not pn[0].isupper():
                                d = local_names.setdefault((rel, f.start), {})
                                if pn not in d:
                                    d[pn] = 'bound by a for pattern over a nested hash container (%s)' % ','.join(names)
                                    pattern_added[0] = True
                header = 'for ' + norm(raw[m.end():k])
                sites.append(dict(file=rel, pos=m.start(), kind='for', header=header, names=names,
                                  span=(m.start(), bc + 1), fn=outer_named(rel, m.start())))
            # iteration methods
            for m in re.finditer(r'\.\s*(%s)\s*(?:::<[^()]*>)?\s*\(' % '|'.join(ITER_METHODS), s):
                rs = receiver_start(s, m.start())
                recv = s[rs:m.start()]
                names = hashy_in(rel, m.start(), recv)
                if not names: continue
                f = enclosing_fn(rel, m.start())
                st, en = stmt_extent(s, m.start(), f)
                header = norm(raw[rs:m.end()]) + ')'
                sites.append(dict(file=rel, pos=m.start(), kind=m.group(1), header=header, names=names,
                                  span=(st, en), fn=outer_named(rel, m.start())))
            # calls of functions that hand out an iterator over a hash container
            iter_fns = [k for k, v in hashy_fns.items() if 'returns an iterator' in v]
            if iter_fns:
                for m in re.finditer(r'\b(%s)\s*(?:::<[^()]*>)?\s*\(' % '|'.join(map(re.escape, sorted(iter_fns))), s):
                    if re.search(r'\bfn\s+$', s[max(0, m.start() - 8):m.start()]): continue
                    pc = match_close(s, m.end() - 1)
                    f = enclosing_fn(rel, m.start())
                    st, en = stmt_extent(s, m.start(), f)
                    rs = receiver_start(s, m.start() - 1) if s[m.start() - 1] == '.' else m.start()
                    sites.append(dict(file=rel, pos=m.start(), kind='call', header=norm(raw[rs:pc + 1]), names=[m.group(1) + '()'],
                                      span=(st, en), fn=outer_named(rel, m.start())))
            # argument-consuming adaptors
            for m in re.finditer(r'(?:\.\s*|\b)(%s)\s*(?:::<[^()]*>)?\s*\(' % '|'.join(ARG_METHODS), s):
                po = m.end() - 1
                pc = match_close(s, po)
                if pc < 0: continue
                arg = s[po + 1:pc]
                names = hashy_in(rel, m.start(), arg)
                if not names: continue
                # an argument that itself contains an iteration-method site on the same names is already listed
                if re.search(r'\.\s*(%s)\s*\(' % '|'.join(ITER_METHODS), arg): continue
                f = enclosing_fn(rel, m.start())
                st, en = stmt_extent(s, m.start(), f)
                sites.append(dict(file=rel, pos=m.start(), kind='arg:' + m.group(1), header=norm(raw[m.start():pc + 1]).lstrip('.'),
                                  names=names, span=(st, en), fn=outer_named(rel, m.start())))
            # Debug formatting
            for m in re.finditer(r'\b(%s)\s*!\s*\(' % '|'.join(FMT_MACROS), s):
                po = m.end() - 1
                pc = match_close(s, po)
                if pc < 0: continue
                rawargs = raw[po + 1:pc]
                if not re.search(r'\{[^{}]*:#?\??[^{}]*\?\}', rawargs): continue
                names = hashy_in(rel, m.start(), s[po + 1:pc])
                if re.search(r'\bself\b(?!\s*\.)', s[po + 1:pc]):
                    imp = None
                    for (b, e, nm) in info[rel][1]:
                        if b <= m.start() <= e and (imp is None or b > imp[0]): imp = (b, e, nm)
                    if imp and imp[2] in hashy_structs: names = names + ['self']
                if not names: continue
                f = enclosing_fn(rel, m.start())
                st, en = stmt_extent(s, m.start(), f)
                sites.append(dict(file=rel, pos=m.start(), kind='fmt-debug', header=norm(raw[m.start():pc + 1])[:160],
                                  names=names, span=(st, en), fn=outer_named(rel, m.start())))
        return sites
    # fixpoint: lets from hashy fns; fns returning iterators over hashy things
    for _ in range(8):
        ch = let_scan()
        pattern_added[0] = False
        sites = find_sites()
        ch = ch or pattern_added[0]
        for st in sites:
            rel = st['file']
            for f in info[rel][0]:
                if f.start <= st['pos'] <= f.body_close and ITER_RET.search(f.ret) and f.name not in hashy_fns:
                    hashy_fns[f.name] = 'fn %s returns an iterator over a hash container (%s)' % (rel, st['header'][:60])
                    ch = True
        if not ch: break
    sites = find_sites()
    sites.sort(key=lambda x: (x['file'], x['pos']))
    # keys must be unique: number repeated (file, fn, kind, header)
    seen = {}
    for st in sites:
        k = (st['file'], st['fn'], st['kind'], st['header'])
        seen[k] = seen.get(k, 0) + 1
        st['ord'] = seen[k]
        st['decl'] = decl_of(st['file'], st['pos'], st['names'])
        cs = files[st['file']][1]
        def dig(a, b):
            # digest of the cleaned text a..b (comments and string-literal contents blanked), whitespace-normalised
            return hashlib.sha1(norm(cs[a:b]).encode()).hexdigest()[:10]
        st['digest'] = dig(st['span'][0], st['span'][1])
        if st['kind'] == 'call':
            # the order handed over is decided inside the callee: its text is part of what was audited
            callee = st['names'][0][:-2]
            parts = [st['digest']]
            for rel2 in sorted(files):
                for g in info[rel2][0]:
                    if g.name == callee:
                        parts.append(hashlib.sha1(norm(files[rel2][1][g.start:g.body_close + 1]).encode()).hexdigest()[:10])
            st['digest'] = hashlib.sha1('+'.join(parts).encode()).hexdigest()[:10]
        f = enclosing_fn(st['file'], st['pos'])
        st['fndigest'] = dig(f.start, f.body_close + 1) if f else st['digest']
        st['decldigest'] = hashlib.sha1(st['decl'].encode()).hexdigest()[:10]
        st['line'] = files[st['file']][0].count('\n', 0, st['pos']) + 1
    return sites, hashy_types, global_names, hashy_fns, local_names, sorted(skip), notes


def main(argv):
    repo, out = argv[1], argv[2]
    sites, hashy_types, gnames, hfns, lnames, skipped, notes = scan(repo)
    text = '(* GENERATED by gen/hashiter.py from every file under src/ -- do not edit *)\n'
    text += 'From Coq Require Import String List.\nFrom TV Require Import Model.Order.\nImport ListNotations.\nOpen Scope string_scope.\n'
    text += '(* hashy types: %s *)\n' % ', '.join(sorted(hashy_types))
    text += 'Definition sites : list site := [\n'
    rows = []
    for st in sites:
        rows.append('  (* line %d; names: %s *)\n  mk_site %s %s %s %s %d %s %s %s' % (
            st['line'], st['decl'].replace('*)', '* )').replace('(*', '( *'), coq_string(st['file']), coq_string(st['fn']), coq_string(st['kind']),
            coq_string(st['header']), st['ord'], coq_string(st['decldigest']), coq_string(st['digest']), coq_string(st['fndigest'])))
    text += ';\n'.join(rows) + '\n].\n'
    text += '(* skipped test-only files: %s *)\n' % ', '.join(skipped)
    text += '(* global hashy names:\n' + ''.join('   %s : %s\n' % (k, ' | '.join(sorted(v)).replace('*)', '* )').replace('(*', '( *')) for k, v in sorted(gnames.items())) + '*)\n'
    text += '(* hashy functions:\n' + ''.join('   %s : %s\n' % (k, v.replace('*)', '* )')) for k, v in sorted(hfns.items())) + '*)\n'
    write_if_changed(out, text)
    for n in notes: print(n)
    if '--dump' in argv:
        for st in sites:
            print('%s:%d\t%s\t%s\t%s\t#%d\t%s\t%s\t[%s]' % (st['file'], st['line'], st['fn'], st['kind'], st['header'], st['ord'], st['decldigest'] + '/' + st['digest'] + '/' + st['fndigest'], '', st['decl']))
        print('GLOBAL', sorted(gnames)); print('FNS', sorted(hfns))
        for k, v in sorted(lnames.items()): print('LOCAL', k, v)

if __name__ == '__main__':
    main(sys.argv)
