"""Tiny helpers for reading specific `match` blocks out of Rust source text (tie 1 translators).
Deliberately narrow: anything unfamiliar is reported as unrecognised, never guessed."""
import re

def strip_comments(src):
    out = []
    i = 0
    n = len(src)
    while i < n:
        if src.startswith('//', i):
            j = src.find('\n', i)
            if j < 0: j = n
            i = j
        elif src.startswith('/*', i):
            j = src.find('*/', i + 2)
            i = n if j < 0 else j + 2
        elif src[i] == '"':
            j = i + 1
            while j < n and src[j] != '"':
                if src[j] == '\\': j += 1
                j += 1
            out.append(src[i:j + 1]); i = j + 1
        else:
            out.append(src[i]); i += 1
    return ''.join(out)

def matching_brace(src, open_idx):
    """index of the brace matching src[open_idx] ('{', '(' or '[')"""
    pairs = {'{': '}', '(': ')', '[': ']'}
    stack = []
    i = open_idx
    n = len(src)
    while i < n:
        c = src[i]
        if c == '"':
            i += 1
            while i < n and src[i] != '"':
                if src[i] == '\\': i += 1
                i += 1
        elif c == "'" and i + 2 < n and (src[i + 2] == "'" or (src[i + 1] == '\\' and src[i+3:i+4] == "'")):
            i += 3 if src[i + 2] == "'" else 4
            continue
        elif c in pairs:
            stack.append(pairs[c])
        elif c in '})]':
            if not stack or stack[-1] != c:
                return -1
            stack.pop()
            if not stack:
                return i
        i += 1
    return -1

def block_after(src, marker_regex, start=0):
    """text inside the first {...} following the first match of marker_regex (which should end just before '{')"""
    m = re.compile(marker_regex).search(src, start)
    if not m:
        return None, -1
    ob = src.find('{', m.end() - 1)
    if ob < 0:
        return None, -1
    cb = matching_brace(src, ob)
    if cb < 0:
        return None, -1
    return src[ob + 1:cb], cb

def split_arms(body):
    """split the body of a `match` into (pattern_text, rhs_text) pairs at depth 0"""
    arms = []
    i = 0
    n = len(body)
    while i < n:
        # pattern up to '=>'
        depth = 0
        j = i
        while j < n:
            c = body[j]
            if c in '({[': depth += 1
            elif c in ')}]': depth -= 1
            elif depth == 0 and body.startswith('=>', j): break
            j += 1
        if j >= n: break
        pat = body[i:j].strip()
        k = j + 2
        # skip whitespace
        while k < n and body[k].isspace(): k += 1
        if k < n and body[k] == '{':
            e = matching_brace(body, k)
            rhs = body[k:e + 1]
            k = e + 1
            # optional trailing comma
            m = re.match(r'\s*,', body[k:])
            if m: k += m.end()
        else:
            depth = 0
            e = k
            while e < n:
                c = body[e]
                if c in '({[': depth += 1
                elif c in ')}]': depth -= 1
                elif c == ',' and depth == 0: break
                e += 1
            rhs = body[k:e]
            k = e + 1
        arms.append((pat, rhs.strip()))
        i = k
    return arms

def nows(s):
    return re.sub(r'\s+', '', s)

def coq_string(s):
    return '"' + s.replace('"', '""') + '"'

def write_if_changed(path, text):
    try:
        if open(path).read() == text:
            return False
    except FileNotFoundError:
        pass
    import os
    os.makedirs(os.path.dirname(path), exist_ok=True)
    open(path, 'w').write(text)
    return True
