#!/usr/bin/env python3
# gen-out: OpClass.v
"""Translate the operator typing tables of the type checker into Gen/OpClass.v:
  ast/mod.rs          BinOpKind::class, UnOpKind::class, AssignOpKind::corresponding_binop
  passes/type_check.rs binop_check, _binop_ty, unop_check, _unop_ty, pseudo_check,
                       the EnumConst arm of Expr::compute_ty, the zip of arguments with parameters
                       in check_expr_call
usage: opclass.py <repo> <out.v>"""
import sys, re
from rsparse import *

BIN_SYMS = {'+': 'Add', '-': 'Sub', '*': 'Mul', '/': 'Div', '%': 'Rem', '==': 'Eq', '!=': 'Ne', '<': 'Lt',
            '<=': 'Le', '>': 'Gt', '>=': 'Ge', '|': 'BitOr', '^': 'BitXor', '&': 'BitAnd', '||': 'LogicOr',
            '&&': 'LogicAnd', '<<': 'ShiftLeft', '>>': 'ShiftRightSigned', '>>>': 'ShiftRightUnsigned'}
UN_SYMS = {'!': 'Not', '-': 'Neg', '~': 'BitNot', 'sin': 'Sin', 'cos': 'Cos', 'tan': 'Tan', 'asin': 'Asin',
           'acos': 'Acos', 'atan': 'Atan', 'sqrt': 'Sqrt', '$': 'EncodeI', '%': 'EncodeF', 'int': 'CastI',
           'float': 'CastF'}
ASSIGN_SYMS = {'=': 'AO_Assign', '+=': 'AO_Add', '-=': 'AO_Sub', '*=': 'AO_Mul', '/=': 'AO_Div', '%=': 'AO_Rem',
               '|=': 'AO_BitOr', '^=': 'AO_BitXor', '&=': 'AO_BitAnd', '<<=': 'AO_ShiftLeft',
               '>>=': 'AO_ShiftRightSigned', '>>>=': 'AO_ShiftRightUnsigned'}
PSEUDO_SYMS = {'mask': 'PK_mask', 'pop': 'PK_pop', 'blob': 'PK_blob', 'arg0': 'PK_arg0', 'nargs': 'PK_nargs'}
BINOPS = list(BIN_SYMS.values())
UNOPS = list(UN_SYMS.values())
ASSIGNOPS = list(ASSIGN_SYMS.values())
PSEUDOS = list(PSEUDO_SYMS.values())
CLASSES = ['Arithmetic', 'Comparison', 'Bitwise', 'Shift', 'Logical', 'FloatMath', 'TySigil', 'Cast', 'DirectAssignment']

def pats(pat, kind, syms, names):
    """alternatives of a match pattern -> list of constructor names ('_' for the wildcard), or None"""
    toks = []
    def repl(m):
        toks.append(m.group(1)); return ' @%d ' % (len(toks) - 1)
    k = (re.escape(kind) + r'\s+') if kind else ''
    pat2 = re.sub(r'token!\[\s*%s(\S+?)\s*\]' % k, repl, pat)
    out = []
    for p in pat2.split('|'):
        p = p.strip()
        if not p: continue
        m = re.fullmatch(r'@(\d+)', p)
        if m and toks[int(m.group(1))] in syms:
            out.append(syms[toks[int(m.group(1))]]); continue
        m = re.fullmatch(r'&?(?:\w+::)*(\w+)', p)
        if m and m.group(1) in names:
            out.append(m.group(1)); continue
        if p == '_':
            out.append('_'); continue
        return None
    return out

def table(body, kind, syms, names, rhs_fn, unrec, what, notes, prefix=''):
    res = {}
    if body is None:
        notes.append('%s: block not found' % what)
        return {n: unrec for n in names}
    for pat, rhs in split_arms(body):
        ops = pats(pat, kind, syms, names)
        term = rhs_fn(nows(rhs))
        if term is None:
            notes.append('%s: unrecognised rhs: %s' % (what, nows(rhs)[:80])); term = unrec
        if ops is None:
            notes.append('%s: unrecognised pattern: %s' % (what, nows(pat)[:80])); continue
        for o in ops:
            if o == '_':
                for n in names: res.setdefault(n, term)
            else:
                res.setdefault(o, term)
    for n in names:
        if n not in res:
            res[n] = unrec; notes.append('%s: no arm for %s' % (what, n))
    return res

def fn_body(src, name):
    b, _ = block_after(src, r'fn\s+%s\s*(?:<[^>]*>)?\s*\(' % re.escape(name))
    # block_after finds the first '{' after the marker: skip the parameter list first
    m = re.search(r'fn\s+%s\s*(?:<[^>]*>)?\s*\(' % re.escape(name), src)
    if not m: return None
    close = matching_brace(src, m.end() - 1)
    if close < 0: return None
    ob = src.find('{', close)
    if ob < 0: return None
    cb = matching_brace(src, ob)
    return src[ob + 1:cb] if cb > 0 else None

def match_body(fnb, scrutinee_regex):
    if fnb is None: return None
    b, _ = block_after(fnb, r'match\s+%s\s*' % scrutinee_regex)
    return b

def main(repo, out):
    ast = strip_comments(open(repo + '/src/ast/mod.rs').read())
    tc = strip_comments(open(repo + '/src/passes/type_check.rs').read())
    notes = []

    def class_rhs(r):
        m = re.fullmatch(r'(?:\w+::)*OpClass::(\w+)', r)
        return 'OC_' + m.group(1) if m and m.group(1) in CLASSES else None
    bin_impl, _ = block_after(ast, r'impl\s+BinOpKind\s*')
    un_impl, _ = block_after(ast, r'impl\s+UnOpKind\s*')
    as_impl, _ = block_after(ast, r'impl\s+AssignOpKind\s*')
    bin_class = table(match_body(fn_body(bin_impl or '', 'class'), 'self'), None, {}, BINOPS, class_rhs, 'OC_unrec', 'BinOpKind::class', notes)
    un_class = table(match_body(fn_body(un_impl or '', 'class'), 'self'), None, {}, UNOPS, class_rhs, 'OC_unrec', 'UnOpKind::class', notes)

    def abinop_rhs(r):
        if r == 'None': return 'None'
        m = re.fullmatch(r'Some\(token!\[(\S+?)\]\)', r)
        return '(Some %s)' % BIN_SYMS[m.group(1)] if m and m.group(1) in BIN_SYMS else None
    # AssignOpKind patterns are `token![+=]` (no kind word)
    as_tbl = table(match_body(fn_body(as_impl or '', 'corresponding_binop'), 'self'), None, ASSIGN_SYMS, [], abinop_rhs, 'None', 'AssignOpKind::corresponding_binop', notes)
    for n in ASSIGNOPS:
        if n not in as_tbl:
            as_tbl[n] = 'None'; notes.append('AssignOpKind::corresponding_binop: no arm for %s' % n)

    def req_rhs(first_arg):
        def f(r):
            m = re.fullmatch(r'self\.require_(numeric|int|float|string)\(%s,[^()]*\)\??' % first_arg, r)
            if m: return 'RQ_' + m.group(1)
            if re.fullmatch(r'unreachable!\(\)', r): return 'RQ_unreachable'
            return None
        return f
    def res_rhs(r):
        if r == 'compute_arg_ty()': return 'RS_arg'
        if r == 'ScalarType::Int': return 'RS_int'
        if r == 'ScalarType::Float': return 'RS_float'
        if re.fullmatch(r'unreachable!\(\)', r): return 'RS_unreachable'
        return None
    classes = ['OC_' + c for c in CLASSES]
    def class_table(body, rhs_fn, unrec, what):
        t = table(body, None, {}, CLASSES, rhs_fn, unrec, what, notes)
        return {'OC_' + k: v for k, v in t.items()}
    bin_req = class_table(match_body(fn_body(tc, 'binop_check'), r'op\.class\(\)'), req_rhs(r'arg_tys\.0'), 'RQ_unrec', 'binop_check')
    bin_res = class_table(match_body(fn_body(tc, '_binop_ty'), r'op\.class\(\)'), res_rhs, 'RS_unrec', '_binop_ty')
    # binop_check must go on to require both operands to have the same type
    bc = fn_body(tc, 'binop_check')
    if bc is None or not re.search(r'self\.require_same\(arg_tys,op\.span,arg_spans\)\?;Ok\(\(\)\)$', nows(bc)):
        notes.append('binop_check: unrecognised tail (expected require_same on both operand types)')
        bin_req = {k: 'RQ_unrec' for k in bin_req}
    un_req = table(match_body(fn_body(tc, 'unop_check'), r'op\.value'), 'unop', UN_SYMS, UNOPS, req_rhs('arg_ty'), 'RQ_unrec', 'unop_check', notes)
    un_res = table(match_body(fn_body(tc, '_unop_ty'), 'op'), 'unop', UN_SYMS, UNOPS, res_rhs, 'RS_unrec', '_unop_ty', notes)
    ps_req = table(match_body(fn_body(tc, 'pseudo_check'), r'kind\.value'), None, PSEUDO_SYMS, [], req_rhs('value_ty'), 'RQ_unrec', 'pseudo_check', notes)
    for n in PSEUDOS:
        if n not in ps_req:
            ps_req[n] = 'RQ_unrec'; notes.append('pseudo_check: no arm for %s' % n)

    # Expr::compute_ty, EnumConst arm
    ct = 'CT_enum_unrec'
    cb = match_body(fn_body(tc, 'compute_ty'), 'self')
    found = False
    for pat, rhs in (split_arms(cb) if cb else []):
        if re.search(r'Expr::EnumConst\b', pat):
            found = True
            r = nows(rhs)
            if r == 'ExprType::Value(ScalarType::Int)': ct = 'CT_enum_int'
            elif re.fullmatch(r'ExprType::Value\(ctx\.defs\.enum_ty\(&?enum_name\)\)', r) and re.search(r'\benum_name\b', pat): ct = 'CT_enum_ty'
            else: notes.append('compute_ty: unrecognised rhs of the EnumConst arm: %s' % r[:80])
    if not found: notes.append('compute_ty: EnumConst arm not found')

    # check_expr_call: what the arguments are zipped with
    cz = 'CZ_unrec'
    cc = fn_body(tc, 'check_expr_call')
    m = re.search(r'zip!\(1\.\.,args,(.*?)\)\.map\(\|\(param_num,arg,param\)\|', nows(cc or ''))
    if m:
        a = m.group(1)
        if a == '&siggy.params': cz = 'CZ_all'
        elif a in ('siggy.params.iter().filter(|param|param.default.is_none())', 'siggy.params.iter().filter(|p|p.default.is_none())'): cz = 'CZ_nondefault'
        else: notes.append('check_expr_call: unrecognised parameter list zipped with the arguments: %s' % a[:80])
    else:
        notes.append('check_expr_call: zip of arguments with parameters not found')
    # min_args / max_args: number of parameters without default
    defs = strip_comments(open(repo + '/src/context/defs.rs').read())
    mi = nows(fn_body(defs, 'min_args') or '')
    ma = nows(fn_body(defs, 'max_args') or '')
    if mi != 'self.params.iter().fold(0,|count,param|count+param.default.is_none()asusize)' or ma != 'self.min_args()':
        notes.append('Signature::min_args/max_args: unrecognised body')
        cz = 'CZ_unrec'

    def mk(name, ty, names, tbl):
        arms = ' '.join('| %s => %s' % (n, tbl[n]) for n in names)
        return 'Definition %s (x : %s) := match x with %s end.\n' % (name, ty, arms)
    text = '(* GENERATED by gen/opclass.py from src/ast/mod.rs, src/passes/type_check.rs, src/context/defs.rs -- do not edit *)\n'
    text += 'From TV Require Import Base.I32 Model.Ops Model.TypeCheck.\n'
    text += mk('gen_bin_class', 'binop', BINOPS, bin_class)
    text += mk('gen_un_class', 'unop', UNOPS, un_class)
    text += mk('gen_bin_req', 'opclass', classes, bin_req).replace(' end.', ' | OC_unrec => RQ_unrec end.')
    text += mk('gen_bin_res', 'opclass', classes, bin_res).replace(' end.', ' | OC_unrec => RS_unrec end.')
    text += mk('gen_un_req', 'unop', UNOPS, un_req)
    text += mk('gen_un_res', 'unop', UNOPS, un_res)
    text += mk('gen_pseudo_req', 'pseudo', PSEUDOS, ps_req)
    text += mk('gen_assign_binop', 'assignop', ASSIGNOPS, as_tbl)
    text += 'Definition gen_ct_enum : ct_enum := %s.\n' % ct
    text += 'Definition gen_call_zip : call_zip := %s.\n' % cz
    text += ('Definition gen_optypes : optypes := {| ot_bin_class := gen_bin_class; ot_un_class := gen_un_class; '
             'ot_bin_req := gen_bin_req; ot_bin_res := gen_bin_res; ot_un_req := gen_un_req; ot_un_res := gen_un_res; '
             'ot_pseudo_req := gen_pseudo_req; ot_assign_binop := gen_assign_binop; ot_ct_enum := gen_ct_enum; '
             'ot_call_zip := gen_call_zip |}.\n')
    text += '(* translator notes:\n' + ''.join('   %s\n' % n.replace('*)', '* )') for n in notes) + '*)\n'
    write_if_changed(out, text)
    for n in notes: print('opclass: ' + n)

if __name__ == '__main__':
    main(sys.argv[1], sys.argv[2])
