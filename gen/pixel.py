#!/usr/bin/env python3
# gen-out: Pixel.v
"""Translate the pixel-format conversions of src/image/color.rs (`From<X> for Components`,
`From<Components> for X`, `change_bit_depth`, BYTES_PER_PIXEL, FORMAT_* numbers) into
Gen/Pixel.v as small expression trees (Model/Pixel.v: pexpr / fexpr).
usage: pixel.py <repo> <out.v>

Every Rust expression is parsed (not pattern-matched), so that an edit such as `green >> 2` ->
`green >> 3` or `0.7152` -> `0.7151` changes the generated term.  Anything the tiny parser does
not understand becomes `PUnrec` / `FUnrec` (evaluates to Panic P_UNREC) and a note line."""
import sys, re, struct
from fractions import Fraction
from rsparse import *

NOTES = []
def note(s):
    NOTES.append(s)

# ------------------------------------------------------------------------------------------
# tokenizer / parser for the expression subset used in color.rs

TOK = re.compile(r'''\s*(?:
    (?P<num>0x[0-9A-Fa-f_]+|0b[01_]+|\d[\d_]*\.\d+(?:[eE][+-]?\d+)?|\d[\d_]*)
  | (?P<id>[A-Za-z_]\w*(?:\.\w+)*)
  | (?P<op><<|>>|::<|[-+*/%&|^()<>,])
)''', re.X)

class ParseError(Exception):
    pass

def tokenize(s):
    out = []; i = 0
    s = s.strip()
    while i < len(s):
        m = TOK.match(s, i)
        if not m or m.end() == i:
            raise ParseError('cannot tokenize at %r' % s[i:i + 20])
        if m.group('num') is not None: out.append(('num', m.group('num')))
        elif m.group('id') is not None: out.append(('id', m.group('id')))
        else: out.append(('op', m.group('op')))
        i = m.end()
        while i < len(s) and s[i].isspace(): i += 1
    return out

# AST: ('lit', text) ('var', name) ('bin', op, a, b) ('cast', ty, a) ('call', name, [generic consts], [args])
class P:
    def __init__(self, toks): self.t = toks; self.i = 0
    def peek(self): return self.t[self.i] if self.i < len(self.t) else (None, None)
    def eat(self, kind=None, val=None):
        k, v = self.peek()
        if k is None or (kind and k != kind) or (val is not None and v != val):
            raise ParseError('expected %s %s, got %s %s' % (kind, val, k, v))
        self.i += 1
        return v
    def parse(self):
        e = self.p_or()
        if self.i != len(self.t): raise ParseError('trailing tokens %r' % (self.t[self.i:],))
        return e
    def binlevel(self, ops, nxt):
        e = nxt()
        while self.peek() in [('op', o) for o in ops]:
            o = self.eat('op')
            e = ('bin', o, e, nxt())
        return e
    def p_or(self): return self.binlevel(['|'], self.p_xor)
    def p_xor(self): return self.binlevel(['^'], self.p_and)
    def p_and(self): return self.binlevel(['&'], self.p_shift)
    def p_shift(self): return self.binlevel(['<<', '>>'], self.p_add)
    def p_add(self): return self.binlevel(['+', '-'], self.p_mul)
    def p_mul(self): return self.binlevel(['*', '/', '%'], self.p_cast)
    def p_cast(self):
        e = self.p_atom()
        while self.peek() == ('id', 'as'):
            self.eat()
            ty = self.eat('id')
            e = ('cast', ty, e)
        return e
    def p_atom(self):
        k, v = self.peek()
        if k == 'num':
            self.eat(); return ('lit', v)
        if k == 'op' and v == '(':
            self.eat(); e = self.p_or(); self.eat('op', ')'); return e
        if k == 'op' and v == '-':
            self.eat(); return ('neg', self.p_cast())
        if k == 'id':
            self.eat()
            if self.peek() == ('op', '::<'):
                self.eat()
                gens = [self.eat('num')]
                while self.peek() == ('op', ','):
                    self.eat(); gens.append(self.eat('num'))
                self.eat('op', '>')
                self.eat('op', '(')
                args = [self.p_or()]
                while self.peek() == ('op', ','):
                    self.eat(); args.append(self.p_or())
                self.eat('op', ')')
                return ('call', v, gens, args)
            return ('var', v)
        raise ParseError('unexpected token %s %s' % (k, v))

def parse_expr(text):
    return P(tokenize(text)).parse()

def int_lit(text):
    t = text.replace('_', '')
    if t.startswith('0x'): return int(t, 16)
    if t.startswith('0b'): return int(t, 2)
    return int(t)

def f32_bits_of_decimal(text):
    """correctly rounded (nearest-even) binary32 of a decimal literal, as Rust's parser does"""
    q = Fraction(text.replace('_', ''))
    b = struct.unpack('<I', struct.pack('<f', float(q)))[0]
    def val(bits): return Fraction(struct.unpack('<f', struct.pack('<I', bits))[0])
    best = b
    for c in (b - 1, b + 1):
        if 0 <= c < 0x7f800000:
            d0, d1 = abs(val(best) - q), abs(val(c) - q)
            if d1 < d0 or (d1 == d0 and c % 2 == 0): best = c
    return best

WIDTH = {'u8': 8, 'u16': 16, 'u32': 32}
OPS = {'<<': 'OShl', '>>': 'OShr', '&': 'OAnd', '|': 'OOr', '+': 'OAdd', '-': 'OSub', '*': 'OMul'}
FOPS = {'+': 'FOAdd', '*': 'FOMul', '-': 'FOSub'}

class Tr:
    """typed translation to Coq terms; env: name -> (type, coq term or AST to substitute)"""
    def __init__(self, env, where):
        self.env = env; self.where = where
    def ty(self, e):
        k = e[0]
        if k == 'lit': return 'flit' if '.' in e[1] else 'lit'
        if k == 'var':
            if e[1] in self.env: return self.env[e[1]][0]
            raise ParseError('unknown variable %s' % e[1])
        if k == 'cast': return e[1]
        if k == 'call': return 'u8'
        if k == 'bin':
            a = self.ty(e[2])
            if e[1] in ('<<', '>>'): return a
            return a if a not in ('lit', 'flit') else self.ty(e[3])
        raise ParseError('untypable %r' % (e,))
    def isfloat(self, e):
        return self.ty(e) in ('f32', 'flit')
    def int(self, e):
        k = e[0]
        if k == 'lit':
            if '.' in e[1]: raise ParseError('float literal in integer context')
            return '(PLit %d)' % int_lit(e[1])
        if k == 'var':
            t, term = self.env[e[1]]
            if t not in WIDTH: raise ParseError('variable %s : %s in integer context' % (e[1], t))
            return term
        if k == 'cast':
            if e[1] not in WIDTH: raise ParseError('cast to %s in integer context' % e[1])
            if self.isfloat(e[2]): raise ParseError('float->int cast inside an integer expression')
            return '(PCast %d %s)' % (WIDTH[e[1]], self.int(e[2]))
        if k == 'call':
            if e[1] != 'change_bit_depth' or len(e[2]) != 2 or len(e[3]) != 1:
                raise ParseError('unknown call %s' % e[1])
            return '(PCbd %d %d %s)' % (int_lit(e[2][0]), int_lit(e[2][1]), self.int(e[3][0]))
        if k == 'bin':
            if e[1] not in OPS: raise ParseError('operator %s' % e[1])
            t = self.ty(e)
            w = WIDTH.get(t)
            if w is None: raise ParseError('cannot determine the width of (%s)' % e[1])
            return '(PBin %s %d %s %s)' % (OPS[e[1]], w, self.int(e[2]), self.int(e[3]))
        raise ParseError('unsupported integer expression %r' % (e,))
    def flt(self, e):
        k = e[0]
        if k == 'lit':
            if '.' not in e[1]: raise ParseError('integer literal in float context')
            return '(FLit %d)' % f32_bits_of_decimal(e[1])
        if k == 'var':
            t, term = self.env[e[1]]
            if t != 'f32': raise ParseError('variable %s : %s in float context' % (e[1], t))
            return term
        if k == 'cast':
            if e[1] != 'f32': raise ParseError('cast to %s in float context' % e[1])
            if self.isfloat(e[2]): return self.flt(e[2])
            if self.ty(e[2]) != 'u8': raise ParseError('int->f32 cast from %s' % self.ty(e[2]))
            return '(FOfInt %s)' % self.int(e[2])
        if k == 'bin':
            if e[1] not in FOPS: raise ParseError('float operator %s' % e[1])
            return '(FBin %s %s %s)' % (FOPS[e[1]], self.flt(e[2]), self.flt(e[3]))
        raise ParseError('unsupported float expression %r' % (e,))

def safe(f, where, unrec):
    try:
        return f()
    except ParseError as ex:
        note('unrecognised %s: %s' % (where, ex))
        return unrec
    except Exception as ex:  # narrow tool: never guess
        note('unrecognised %s: %r' % (where, ex))
        return unrec

# ------------------------------------------------------------------------------------------
# reading the impl blocks

def impl_fn_body(src, frm, to):
    """body of `impl From<frm> for to { fn from(PARAM) -> .. { BODY } }` -> (param_text, body)"""
    m = re.search(r'impl\s+From<%s>\s+for\s+%s\s*\{' % (frm, to), src)
    if not m: return None, None
    ob = src.find('{', m.end() - 1); cb = matching_brace(src, ob)
    impl = src[ob + 1:cb]
    m2 = re.search(r'fn\s+from\s*\(', impl)
    if not m2: return None, None
    op = impl.find('(', m2.end() - 1); cp = matching_brace(impl, op)
    param = impl[op + 1:cp]
    ob2 = impl.find('{', cp); cb2 = matching_brace(impl, ob2)
    return param.strip(), impl[ob2 + 1:cb2]

def split_stmts(body):
    """split at top-level ';' -> (list of statements, tail expression)"""
    parts = []; depth = 0; cur = ''
    for c in body:
        if c in '({[': depth += 1
        elif c in ')}]': depth -= 1
        if c == ';' and depth == 0:
            parts.append(cur.strip()); cur = ''
        else: cur += c
    return parts, cur.strip()

def struct_fields(text, name):
    """`Name { a: e1, b: e2, c }` -> dict (shorthand fields map to themselves)"""
    m = re.fullmatch(r'%s\s*\{(.*)\}' % name, text.strip(), re.S)
    if not m: return None
    out = {}; depth = 0; cur = ''; items = []
    for c in m.group(1):
        if c in '({[<': depth += 1
        elif c in ')}]>': depth -= 1
        if c == ',' and depth == 0: items.append(cur); cur = ''
        else: cur += c
    if cur.strip(): items.append(cur)
    for it in items:
        it = it.strip()
        if not it: continue
        if ':' in it and not it.split(':', 1)[1].startswith(':'):
            k, v = it.split(':', 1)
            out[k.strip()] = v.strip()
        else:
            out[it] = it
    return out

CH = {'red': 'VR', 'green': 'VG', 'blue': 'VB', 'alpha': 'VA'}
CHANS = ['red', 'green', 'blue', 'alpha']

def to_components(src, fmt, inner_ty):
    """From<fmt> for Components: per channel pexpr over PVar VIn"""
    res = {c: 'PUnrec' for c in CHANS}
    param, body = impl_fn_body(src, fmt, 'Components')
    if body is None:
        note('not found: impl From<%s> for Components' % fmt); return res
    env = {}
    m = re.fullmatch(r'(\w+)\s*:\s*%s' % fmt, param)
    m2 = re.fullmatch(r'%s\((\w+)\)\s*:\s*%s' % (fmt, fmt), param)
    if m: env[m.group(1) + '.0'] = (inner_ty, '(PVar VIn)')
    elif m2: env[m2.group(1)] = (inner_ty, '(PVar VIn)')
    else:
        note('unrecognised parameter of From<%s> for Components: %s' % (fmt, nows(param))); return res
    stmts, tail = split_stmts(body)
    for s in stmts:
        m = re.fullmatch(r'let\s+(\w+)\s*=\s*(.*)', s, re.S)
        if not m:
            note('unrecognised statement in From<%s> for Components: %s' % (fmt, nows(s))); return res
        name, text = m.group(1), m.group(2)
        def go():
            e = parse_expr(text); tr = Tr(env, fmt)
            return (tr.ty(e), tr.int(e))
        r = safe(go, 'let %s in From<%s> for Components' % (name, fmt), None)
        env[name] = r if r else ('u8', 'PUnrec')
    fields = struct_fields(tail, 'Components')
    if fields is None or set(fields) != set(CHANS):
        note('unrecognised result of From<%s> for Components: %s' % (fmt, nows(tail))); return res
    for c in CHANS:
        def go(c=c):
            e = parse_expr(fields[c]); tr = Tr(env, fmt)
            t = tr.ty(e)
            if t not in ('u8', 'lit'): raise ParseError('channel %s has type %s' % (c, t))
            return tr.int(e)
        res[c] = safe(go, 'channel %s of From<%s> for Components' % (c, fmt), 'PUnrec')
    return res

def from_components_env(param, stmts, fmt):
    """environment binding the channel names; handles `components.blue` and a destructuring let"""
    env = {}
    m = re.fullmatch(r'(\w+)\s*:\s*Components', param)
    if not m:
        note('unrecognised parameter of From<Components> for %s: %s' % (fmt, nows(param))); return None, stmts
    p = m.group(1)
    for c in CHANS: env['%s.%s' % (p, c)] = ('u8', '(PVar %s)' % CH[c])
    rest = []
    for s in stmts:
        m = re.fullmatch(r'let\s+Components\s*\{(.*)\}\s*=\s*%s' % p, s, re.S)
        if m:
            f = struct_fields('Components {' + m.group(1) + '}', 'Components')
            for k, v in (f or {}).items():
                if k in CH and v != '_' and re.fullmatch(r'\w+', v): env[v] = ('u8', '(PVar %s)' % CH[k])
        else: rest.append(s)
    return env, rest

def from_components_int(src, fmt, inner_ty):
    param, body = impl_fn_body(src, 'Components', fmt)
    if body is None:
        note('not found: impl From<Components> for %s' % fmt); return 'PUnrec'
    stmts, tail = split_stmts(body)
    env, stmts = from_components_env(param, stmts, fmt)
    if env is None: return 'PUnrec'
    for s in stmts:
        m = re.fullmatch(r'let\s+(\w+)\s*=\s*(.*)', s, re.S)
        if not m:
            note('unrecognised statement in From<Components> for %s: %s' % (fmt, nows(s))); return 'PUnrec'
        name, text = m.group(1), m.group(2)
        def go():
            e = parse_expr(text); tr = Tr(env, fmt)
            return (tr.ty(e), tr.int(e))
        r = safe(go, 'let %s in From<Components> for %s' % (name, fmt), None)
        env[name] = r if r else (inner_ty, 'PUnrec')
    m = re.fullmatch(r'%s\((.*)\)' % fmt, tail, re.S)
    if not m:
        note('unrecognised result of From<Components> for %s: %s' % (fmt, nows(tail))); return 'PUnrec'
    def go():
        e = parse_expr(m.group(1)); tr = Tr(env, fmt)
        if tr.ty(e) != inner_ty: raise ParseError('result has type %s, expected %s' % (tr.ty(e), inner_ty))
        return tr.int(e)
    return safe(go, 'result of From<Components> for %s' % fmt, 'PUnrec')

def from_components_gray(src):
    """From<Components> for Gray8: float expression whose saturating `as u8` is the byte"""
    fmt = 'Gray8'
    param, body = impl_fn_body(src, 'Components', fmt)
    if body is None:
        note('not found: impl From<Components> for Gray8'); return 'FUnrec'
    stmts, tail = split_stmts(body)
    env, stmts = from_components_env(param, stmts, fmt)
    if env is None: return 'FUnrec'
    result = None
    for s in stmts:
        m = re.fullmatch(r'let\s+(\w+)\s*=\s*(.*)', s, re.S)
        if not m:
            note('unrecognised statement in From<Components> for Gray8: %s' % nows(s)); return 'FUnrec'
        name, text = m.group(1), m.group(2)
        def go():
            e = parse_expr(text); tr = Tr(env, fmt)
            if e[0] == 'cast' and e[1] == 'u8' and tr.isfloat(e[2]):
                return ('sat8', tr.flt(e[2]))
            if tr.isfloat(e): return ('f32', tr.flt(e))
            return (tr.ty(e), tr.int(e))
        r = safe(go, 'let %s in From<Components> for Gray8' % name, None)
        env[name] = r if r else ('f32', 'FUnrec')
    m = re.fullmatch(r'Gray8\((\w+)\)', tail)
    if not m or m.group(1) not in env or env[m.group(1)][0] != 'sat8':
        note('unrecognised result of From<Components> for Gray8: %s (expected a `(float expr) as u8` local)' % nows(tail))
        return 'FUnrec'
    return env[m.group(1)][1]

def argb8888(src):
    """byte order of the u32: names in `let [..] = color.0.to_be_bytes()` and `from_be_bytes([..])`"""
    dec = enc = None
    param, body = impl_fn_body(src, 'Argb8888', 'Components')
    if body:
        m = re.search(r'let\s*\[([\w\s,]+)\]\s*=\s*(\w+)\.0\.to_be_bytes\(\)\s*;\s*Components\s*\{([\w\s,]+)\}\s*$', body.strip())
        if m:
            names = [x.strip() for x in m.group(1).split(',')]
            fields = [x.strip() for x in m.group(3).split(',') if x.strip()]
            if sorted(names) == sorted(CHANS) and sorted(fields) == sorted(CHANS): dec = names
    param, body = impl_fn_body(src, 'Components', 'Argb8888')
    if body:
        m = re.search(r'let\s+Components\s*\{([\w\s,]+)\}\s*=\s*(\w+)\s*;\s*Argb8888\(u32::from_be_bytes\(\[([\w\s,]+)\]\)\)\s*$', body.strip())
        if m:
            fields = [x.strip() for x in m.group(1).split(',') if x.strip()]
            names = [x.strip() for x in m.group(3).split(',')]
            if sorted(names) == sorted(CHANS) and sorted(fields) == sorted(CHANS): enc = names
    if dec is None: note('unrecognised From<Argb8888> for Components (expected `let [a,b,c,d] = color.0.to_be_bytes(); Components {..}`)')
    if enc is None: note('unrecognised From<Components> for Argb8888 (expected `Argb8888(u32::from_be_bytes([a,b,c,d]))`)')
    return dec, enc

def reader_width(src, fmt):
    """ColorBytes impl: BYTES_PER_PIXEL and the read/write primitive (little-endian u8/u16/u32)"""
    body, _ = block_after(src, r'impl\s+ColorBytes\s+for\s+%s\s*' % fmt)
    if body is None:
        note('not found: impl ColorBytes for %s' % fmt); return 0, 0
    m = re.search(r'const\s+BYTES_PER_PIXEL\s*:\s*usize\s*=\s*(\d+)\s*;', body)
    r = re.search(r'fn\s+read_color_bytes[^{]*\{\s*r\.read_u(\d+)\(\)\.map\(%s\)\s*\}' % fmt, body)
    w = re.search(r'fn\s+write_color_bytes[^{]*\{\s*w\.write_u(\d+)\(self\.0\)\s*\}', body)
    if not (m and r and w) or r.group(1) != w.group(1):
        note('unrecognised ColorBytes impl for %s' % fmt); return 0, 0
    return int(m.group(1)), int(r.group(1))

def cbd(src):
    body, _ = block_after(src, r'fn\s+change_bit_depth\s*<\s*const\s+IN\s*:\s*u32\s*,\s*const\s+OUT\s*:\s*u32\s*>\s*\(\s*x\s*:\s*u8\s*\)\s*->\s*u8\s*')
    if body is None:
        note('not found: fn change_bit_depth<const IN: u32, const OUT: u32>(x: u8) -> u8'); return 'PUnrec', 'PUnrec'
    m = re.fullmatch(r'assert!\(OUT<=IN\*2\);ifOUT<=IN\{(.*)\}else\{(.*)\}', nows(body))
    if not m:
        note('unrecognised shape of change_bit_depth: %s' % nows(body)); return 'PUnrec', 'PUnrec'
    # re-extract with whitespace for the parser
    m2 = re.search(r'if\s+OUT\s*<=\s*IN\s*\{(.*)\}\s*else\s*\{(.*)\}\s*$', body.strip(), re.S)
    env = {'x': ('u8', '(PVar VX)'), 'IN': ('u32', '(PVar VIN)'), 'OUT': ('u32', '(PVar VOUT)')}
    def go(text):
        def f():
            e = parse_expr(text); tr = Tr(env, 'cbd')
            if tr.ty(e) != 'u8': raise ParseError('result type %s' % tr.ty(e))
            return tr.int(e)
        return f
    return (safe(go(m2.group(1)), 'change_bit_depth downsizing branch', 'PUnrec'),
            safe(go(m2.group(2)), 'change_bit_depth upsizing branch', 'PUnrec'))

def format_numbers(src):
    out = {}
    consts = dict(re.findall(r'const\s+(FORMAT_\w+)\s*:\s*u32\s*=\s*(\d+)\s*;', src))
    body, _ = block_after(src, r'pub\s+enum\s+ColorFormat\s*')
    for name, c in re.findall(r'(\w+)\s*=\s*(FORMAT_\w+)', body or ''):
        if c in consts: out[name] = int(consts[c])
    fb, _ = block_after(src, r'pub\s+fn\s+from_format_num\s*\([^)]*\)\s*->\s*Option<Self>\s*')
    arms = dict((nows(p), nows(r)) for p, r in split_arms(block_after(fb or '', r'match\s+num\s*')[0] or ''))
    for name in ['Argb8888', 'Rgb565', 'Argb4444', 'Gray8']:
        c = [k for k, v in consts.items() if out.get(name) == int(v)]
        if name not in out or not c or arms.get(c[0]) != 'Some(Self::%s)' % name:
            note('unrecognised format number / from_format_num arm for %s' % name); out[name] = 0
    if arms.get('_') != 'None': note('unrecognised default arm of from_format_num')
    return out

def transcoders(src):
    """transcode_to/from_argb_8888 must be `Argb8888::encode(&X::decode(bytes))` / `X::encode(&Argb8888::decode(bytes))`"""
    ok = True
    for fn, pat in (('transcode_to_argb_8888', 'Rc::new(Argb8888::encode(&%s::decode(bytes)))'),
                    ('transcode_from_argb_8888', 'Rc::new(%s::encode(&Argb8888::decode(bytes)))')):
        fb, _ = block_after(src, r'pub\s+fn\s+%s\s*\([^)]*\)\s*->\s*Rc<Vec<u8>>\s*' % fn)
        arms = dict((nows(p), nows(r)) for p, r in split_arms(block_after(fb or '', r'match\s+self\s*')[0] or ''))
        if arms.get('ColorFormat::Argb8888') != 'Rc::clone(bytes)': ok = False
        for x in ['Rgb565', 'Argb4444', 'Gray8']:
            if arms.get('ColorFormat::' + x) != pat % x: ok = False
        if not ok: note('unrecognised arms of %s' % fn); break
    return ok

def main(repo, out):
    src = strip_comments(open(repo + '/src/image/color.rs').read())
    d565 = to_components(src, 'Rgb565', 'u16')
    e565 = from_components_int(src, 'Rgb565', 'u16')
    d4444 = to_components(src, 'Argb4444', 'u16')
    e4444 = from_components_int(src, 'Argb4444', 'u16')
    dG = to_components(src, 'Gray8', 'u8')
    eG = from_components_gray(src)
    dec8, enc8 = argb8888(src)
    down, up = cbd(src)
    nums = format_numbers(src)
    tc = transcoders(src)
    bpp = {f: reader_width(src, f) for f in ['Argb8888', 'Rgb565', 'Argb4444', 'Gray8']}
    for f, (b, w) in bpp.items():
        if b * 8 != w: note('unrecognised: BYTES_PER_PIXEL of %s is %d but it reads/writes a u%d' % (f, b, w))

    def chans(d): return '{| c_red := %s; c_green := %s; c_blue := %s; c_alpha := %s |}' % (d['red'], d['green'], d['blue'], d['alpha'])
    def order(names): return '[' + '; '.join(CH[n] for n in names) + ']' if names else '[]'
    t = '(* GENERATED by gen/pixel.py from src/image/color.rs -- do not edit *)\n'
    t += 'From TV Require Import Base.I32 Model.Pixel.\n'
    t += 'Definition gen_cbd_down : pexpr := %s.\nDefinition gen_cbd_up : pexpr := %s.\n' % (down, up)
    t += 'Definition gen_dec565 : chans := %s.\nDefinition gen_enc565 : pexpr := %s.\n' % (chans(d565), e565)
    t += 'Definition gen_dec4444 : chans := %s.\nDefinition gen_enc4444 : pexpr := %s.\n' % (chans(d4444), e4444)
    t += 'Definition gen_decG : chans := %s.\nDefinition gen_encG : fexpr := %s.\n' % (chans(dG), eG)
    t += 'Definition gen_dec8888_be : list pvar := %s.\nDefinition gen_enc8888_be : list pvar := %s.\n' % (order(dec8), order(enc8))
    t += 'Definition gen_fmt_num (f : cformat) : Z := match f with Argb8888 => %d | Rgb565 => %d | Argb4444 => %d | Gray8 => %d end.\n' % (
        nums['Argb8888'], nums['Rgb565'], nums['Argb4444'], nums['Gray8'])
    t += 'Definition gen_bpp (f : cformat) : Z := match f with Argb8888 => %d | Rgb565 => %d | Argb4444 => %d | Gray8 => %d end.\n' % (
        bpp['Argb8888'][0], bpp['Rgb565'][0], bpp['Argb4444'][0], bpp['Gray8'][0])
    t += 'Definition gen_transcoders_recognised : bool := %s.\n' % ('true' if tc else 'false')
    t += ('Definition gen_pixtable : pixtable := {| pt_cbd_down := gen_cbd_down; pt_cbd_up := gen_cbd_up; pt_dec565 := gen_dec565; '
          'pt_enc565 := gen_enc565; pt_dec4444 := gen_dec4444; pt_enc4444 := gen_enc4444; pt_decG := gen_decG; pt_encG := gen_encG; '
          'pt_dec8888_be := gen_dec8888_be; pt_enc8888_be := gen_enc8888_be; pt_fmt_num := gen_fmt_num; pt_bpp := gen_bpp; '
          'pt_transcoders := gen_transcoders_recognised |}.\n')
    t += '(* translator notes:\n' + ''.join('   %s\n' % n.replace('*)', '* )') for n in NOTES) + '*)\n'
    write_if_changed(out, t)
    for n in NOTES: print('pixel: ' + n)

if __name__ == '__main__':
    main(sys.argv[1], sys.argv[2])
