#!/usr/bin/env python3
# gen-out: Regs.v
"""Translate the register tables the scratch-register allocator depends on into Gen/Regs.v:
  * the Game enum order (src/game.rs),
  * ANM: Version::from_game, AnmHooks07::general_use_regs / instr_disables_scratch_regs (src/formats/anm/mod.rs),
  * old ECL: OldeEclHooks::general_use_regs / instr_disables_scratch_regs, the parameter registers of
    EosdSubFormat / PcbSubFormat and game_sub_format (src/formats/ecl/ecl_06.rs),
  * the trait defaults of LanguageHooks (src/llir/mod.rs),
  * which arguments get_explicitly_used_regs scans (src/llir/lower/stackless.rs).
Anything unfamiliar is reported as `unrecognised` (and becomes an entry of gen_unrecognised).
usage: regs.py <repo> <out.v>"""
import sys, re, os
from rsparse import *

notes = []
def unrec(what):
    notes.append('unrecognised: ' + what)

# the register-allocation loop of assign_registers, each_lower_arg, the per-script check after the loop and
# PersistentState::finish, whitespace- and comment-stripped, as Model/RegAlloc.v ([step], [subst_arg],
# [assign_registers], [assign_file]) restates them.  Any edit of these shows up as `unrecognised`.
PINNED_LOOP = 'match&mutstmt.value{&mutLowerStmt::RegAlloc{def_id}=>{has_used_scratch.get_or_insert(stmt.span);letrequired_ty=ctx.defs.var_inherent_ty(def_id).as_known_ty().expect("(bug!)untypedinstacklesslowerer");letreg=remaining_scratch_regs_by_ty[required_ty].pop().ok_or_else(||{script_too_complex(stmt,hooks,required_ty,&explicitly_used_regs,&implicitly_used_regs,&ctx)})?;implicitly_used_regs.insert(reg,(required_ty,stmt.span));assert!(local_regs.insert(def_id,reg).is_none());assert!(!clashing_names_for_regs.contains_key(&reg));ifletSome(debug_info)=&mutdebug_info{debug_info.locals.push(debug_info::Local{name:ctx.defs.var_name(def_id).to_string(),name_span:stmt.span.into(),r#type:ReadType::from_ty(required_ty).expect("string-typedregister?!").into(),bound_to:reg.into(),});}},LowerStmt::RegFree{def_id}=>{letinherent_ty=ctx.defs.var_inherent_ty(*def_id).as_known_ty().expect("(bug!)weallocatedaregsoitmusthaveatype");letreg=local_regs.remove(&def_id).expect("(bug!)RegFreewithoutRegAlloc!");assert!(implicitly_used_regs.remove(&reg).is_some());remaining_scratch_regs_by_ty[inherent_ty].push(reg);},LowerStmt::Instr(instr)=>{ifletSome(how_bad)=hooks.instr_disables_scratch_regs(instr.opcode){matchhow_bad{HowBadIsIt::OhItsJustThisOneFunction=>{has_anti_scratch_ins.get_or_insert(stmt.span);},HowBadIsIt::ItsWaterElf=>{global_scratch_results.has_anti_scratch_ins.get_or_insert(stmt.span);},}}ifletLowerArgs::Known(args)=&mutinstr.args{forarginargs{each_lower_arg(arg,&mut|arg|{ifletLowerArg::Local{def_id,storage_ty}=arg.value{arg.value=LowerArg::Raw(SimpleArg::from_reg(local_regs[&def_id],storage_ty));}})}}},LowerStmt::Label{..}=>{},}'
PINNED_EACH_LOWER_ARG = 'func(arg);ifletLowerArg::DiffSwitch(cases)=&mutarg.value{forcaseincases{ifletSome(case)=case{each_lower_arg(case,func);}}}'
PINNED_POST_LOOP = 'ifletSome(anti_span)=has_anti_scratch_ins{ifletSome(used_span)=has_used_scratch{returnErr(ctx.emitter.emit(error!(message("scratchregistersaredisabledinthisscript"),primary(used_span,"thisfancyexpressionrequiresascratchregister"),primary(anti_span,"thisdisablesscratchregisters"),)))}}'
PINNED_FINISH = 'ifletSome(anti_span)=self.has_anti_scratch_ins{ifletSome(used_span)=self.has_used_scratch{returnErr(ctx.emitter.emit(error!(message("scratchregistersaredisabledinthisentirefile"),primary(used_span,"thisfancyexpressionrequiresascratchregister"),secondary(anti_span,"Patchoulihastaintedthisentirefile"),)))}}Ok(())'

def check_pinned(stackless):
    def norm(x): return re.sub(r'\s', '', x)
    m = re.search(r'\bfn assign_registers\b', stackless)
    if not m:
        unrec('assign_registers not found'); return
    i = stackless.find('for stmt in code {', m.end())
    if i < 0:
        unrec('assign_registers: allocation loop not found')
    else:
        ob = stackless.find('{', i); cb = matching_brace(stackless, ob)
        if norm(stackless[ob + 1:cb]) != PINNED_LOOP:
            unrec('assign_registers: the RegAlloc/RegFree/Instr loop differs from the modelled one')
    j = stackless.find('if let Some(anti_span) = has_anti_scratch_ins', m.end())
    if j < 0:
        unrec('assign_registers: per-script scratch-forbidding check not found')
    else:
        ob = stackless.find('{', j); cb = matching_brace(stackless, ob)
        if norm(stackless[j:cb + 1]) != PINNED_POST_LOOP:
            unrec('assign_registers: the per-script scratch-forbidding check differs from the modelled one')
    for name, rx, pinned in (('each_lower_arg', r'\bfn each_lower_arg\b[^{]*', PINNED_EACH_LOWER_ARG),
                             ('PersistentState::finish', r'\bfn finish\(self[^{]*', PINNED_FINISH)):
        mm = re.search(rx, stackless)
        if not mm:
            unrec('%s not found' % name); continue
        ob = mm.end(); cb = matching_brace(stackless, ob)
        if norm(stackless[ob + 1:cb]) != pinned:
            unrec('%s differs from the modelled one' % name)

def z(i):
    return '(%d)' % i if i < 0 else '%d' % i

def fn_body(src, impl_marker, fn_name):
    """body of `fn fn_name` inside the block following impl_marker"""
    m = re.search(impl_marker, src)
    if not m:
        return None
    ob = src.find('{', m.end() - 1)
    cb = matching_brace(src, ob)
    if cb < 0:
        return None
    blk = src[ob + 1:cb]
    m2 = re.search(r'\bfn\s+%s\b[^{;]*' % fn_name, blk)
    if not m2:
        return ''
    if blk[m2.end():m2.end() + 1] != '{':
        return ''
    ob2 = m2.end()
    cb2 = matching_brace(blk, ob2)
    return blk[ob2 + 1:cb2] if cb2 > 0 else None

def split_arms(body):
    """split `pat => expr, pat => expr` at top level"""
    arms = []
    i = 0; n = len(body)
    while i < n:
        j = body.find('=>', i)
        if j < 0: break
        pat = body[i:j].strip()
        k = j + 2
        while k < n and body[k].isspace(): k += 1
        # expression: up to top-level comma
        depth = 0; e = k
        while e < n:
            ch = body[e]
            if ch in '({[': depth += 1
            elif ch in ')}]': depth -= 1
            elif ch == ',' and depth == 0: break
            e += 1
        arms.append((pat, body[k:e].strip()))
        i = e + 1
    return arms

def parse_vec(e):
    e = e.strip()
    m = re.fullmatch(r'vec!\[(.*)\]', e, re.S)
    if not m: return None
    inner = m.group(1).strip().rstrip(',')
    if not inner: return []
    out = []
    for it in inner.split(','):
        it = it.strip()
        if not it: continue
        m2 = re.fullmatch(r'(?:R|RegId)\(\s*(-?[\d_]+)\s*\)', it)
        if not m2: return None
        out.append(int(m2.group(1).replace('_', '')))
    return out

def parse_enum_map(e, what):
    """enum_map::enum_map!{ ScalarType::Int => vec![..], ScalarType::Float => .., ScalarType::String => .. } or { _ => vec![] }"""
    m = re.fullmatch(r'enum_map::enum_map!\s*[\{\(](.*)[\}\)]', e.strip(), re.S)
    if not m:
        unrec('%s: not an enum_map!: %s' % (what, e[:60])); return None
    res = {}
    for pat, ex in split_arms(m.group(1)):
        v = parse_vec(ex)
        if v is None:
            unrec('%s: arm %s => %s' % (what, pat, ex[:60])); return None
        if pat == '_':
            for t in ('Int', 'Float', 'String'): res.setdefault(t, v)
        else:
            m2 = re.fullmatch(r'ScalarType::(Int|Float|String)', pat)
            if not m2:
                unrec('%s: pattern %s' % (what, pat)); return None
            res[m2.group(1)] = v
    if set(res) != {'Int', 'Float', 'String'}:
        unrec('%s: missing types %s' % (what, sorted(res))); return None
    return res

def main():
    repo, out = sys.argv[1], sys.argv[2]
    rd = lambda p: strip_comments(open(os.path.join(repo, p)).read())
    game_rs, anm, ecl, llir, stackless = (rd('src/game.rs'), rd('src/formats/anm/mod.rs'), rd('src/formats/ecl/ecl_06.rs'),
                                           rd('src/llir/mod.rs'), rd('src/llir/lower/stackless.rs'))
    # ---- Game enum
    m = re.search(r'pub enum Game\s*\{(.*?)\}', game_rs, re.S)
    games = [g.strip() for g in m.group(1).split(',') if g.strip()] if m else []
    if not games or not all(re.fullmatch(r'\w+', g) for g in games):
        unrec('Game enum'); games = []
    gidx = {g: i for i, g in enumerate(games)}

    # ---- trait defaults
    dflt = fn_body(llir, r'pub trait LanguageHooks\s*', 'general_use_regs')
    if dflt is None or re.sub(r'\s', '', dflt) != 'enum_map::enum_map!(_=>vec![])':
        unrec('LanguageHooks::general_use_regs default: %r' % (dflt or '')[:80])
    dflt2 = fn_body(llir, r'pub trait LanguageHooks\s*', 'instr_disables_scratch_regs')
    if dflt2 is None or re.sub(r'\s', '', dflt2) != 'None':
        unrec('LanguageHooks::instr_disables_scratch_regs default: %r' % (dflt2 or '')[:80])

    # ---- ANM
    anm_ver = {}
    b = fn_body(anm, r'impl Version\s*', 'from_game')
    mm = re.search(r'match game\s*\{(.*)\}', b or '', re.S)
    if mm:
        for pat, ex in split_arms(mm.group(1)):
            mv = re.fullmatch(r'Version::(V\d+)', ex)
            if not mv: unrec('Version::from_game arm %s => %s' % (pat, ex)); continue
            for g in pat.split('|'):
                g = g.strip()
                if g not in gidx: unrec('Version::from_game game %s' % g); continue
                anm_ver[g] = mv.group(1)
    else:
        unrec('Version::from_game')
    mgh = re.search(r'fn game_hooks\(game: Game\)[^{]*\{(.*?)\n\}', anm, re.S)
    if not mgh or re.sub(r'\s', '', mgh.group(1)).find('matchversion{Version::V0=>Box::new(AnmHooks06{instr_format}),_=>Box::new(AnmHooks07{version,game,instr_format}),}') < 0:
        unrec('anm game_hooks: selection of AnmHooks06/AnmHooks07')
    if fn_body(anm, r'impl LanguageHooks for AnmHooks06\s*', 'general_use_regs') != '' or \
       fn_body(anm, r'impl LanguageHooks for AnmHooks06\s*', 'instr_disables_scratch_regs') != '':
        unrec('AnmHooks06 overrides general_use_regs / instr_disables_scratch_regs')
    anm_pools = {}   # version -> {ty: [regs]}
    b = fn_body(anm, r'impl LanguageHooks for AnmHooks07\s*', 'general_use_regs')
    mm = re.search(r'match self\.version\s*\{(.*)\}', b or '', re.S)
    if mm:
        for pat, ex in split_arms(mm.group(1)):
            if re.sub(r'\s', '', ex) == 'unreachable!()':
                if pat.strip() != 'Version::V0': unrec('AnmHooks07::general_use_regs unreachable for %s' % pat)
                continue
            em = parse_enum_map(ex, 'AnmHooks07::general_use_regs ' + pat)
            if em is None: continue
            for v in pat.split('|'):
                mv = re.fullmatch(r'Version::(V\d+)', v.strip())
                if not mv: unrec('AnmHooks07::general_use_regs pattern %s' % v); continue
                anm_pools[mv.group(1)] = em
    else:
        unrec('AnmHooks07::general_use_regs')
    for g, v in anm_ver.items():
        if v != 'V0' and v not in anm_pools: unrec('no arm in AnmHooks07::general_use_regs for %s (%s)' % (v, g))
    anm_anti = None
    b = fn_body(anm, r'impl LanguageHooks for AnmHooks07\s*', 'instr_disables_scratch_regs')
    mm = re.fullmatch(r'\(Game::(\w+)<=self\.game&&opcode==(\d+)\)\.then\(\|\|HowBadIsIt::(\w+)\)', re.sub(r'\s', '', b or ''))
    if mm and mm.group(1) in gidx and mm.group(3) in ('OhItsJustThisOneFunction', 'ItsWaterElf'):
        anm_anti = (gidx[mm.group(1)], int(mm.group(2)), mm.group(3))
    else:
        unrec('AnmHooks07::instr_disables_scratch_regs: %r' % (b or '')[:100])

    # ---- old ECL
    ecl_pools = {}; ecl_default = None
    b = fn_body(ecl, r'impl LanguageHooks for OldeEclHooks\s*', 'general_use_regs')
    mm = re.search(r'match self\.game\s*\{(.*)\}', b or '', re.S)
    if mm:
        for pat, ex in split_arms(mm.group(1)):
            em = parse_enum_map(ex, 'OldeEclHooks::general_use_regs ' + pat)
            if em is None: continue
            if pat.strip() == '_': ecl_default = em; continue
            for g in pat.split('|'):
                mg = re.fullmatch(r'Game::(\w+)', g.strip())
                if not mg or mg.group(1) not in gidx: unrec('OldeEclHooks::general_use_regs pattern %s' % g); continue
                ecl_pools[mg.group(1)] = em
    else:
        unrec('OldeEclHooks::general_use_regs')
    if ecl_default is None:
        unrec('OldeEclHooks::general_use_regs: no `_` arm'); ecl_default = {'Int': [], 'Float': [], 'String': []}
    ecl_anti = []
    b = fn_body(ecl, r'impl LanguageHooks for OldeEclHooks\s*', 'instr_disables_scratch_regs')
    mm = re.search(r'match \(self\.game, opcode\)\s*\{(.*)\}', b or '', re.S)
    if mm:
        for pat, ex in split_arms(mm.group(1)):
            exn = re.sub(r'\s', '', ex)
            if pat.strip() == '_':
                if exn != 'None': unrec('OldeEclHooks::instr_disables_scratch_regs default %s' % ex)
                continue
            mk = re.fullmatch(r'Some\(HowBadIsIt::(OhItsJustThisOneFunction|ItsWaterElf)\)', exn)
            if not mk: unrec('OldeEclHooks::instr_disables_scratch_regs arm => %s' % ex); continue
            for alt in pat.split('|'):
                alt = alt.strip()
                if not alt: continue
                ma = re.fullmatch(r'\(Game::(\w+),\s*(\d+)\)', alt)
                if not ma or ma.group(1) not in gidx: unrec('OldeEclHooks::instr_disables_scratch_regs pattern %s' % alt); continue
                ecl_anti.append((gidx[ma.group(1)], int(ma.group(2)), mk.group(1)))
    else:
        unrec('OldeEclHooks::instr_disables_scratch_regs')
    # timeline hooks must not override
    if fn_body(ecl, r'impl LanguageHooks for TimelineHooks\s*', 'general_use_regs') != '' or \
       fn_body(ecl, r'impl LanguageHooks for TimelineHooks\s*', 'instr_disables_scratch_regs') != '':
        unrec('TimelineHooks overrides general_use_regs / instr_disables_scratch_regs')

    # sub formats
    subfmt = {}
    b = re.search(r'fn game_sub_format\(game: Game\)[^{]*\{\s*match game\s*\{(.*?)\n    \}', ecl, re.S)
    if b:
        for pat, ex in split_arms(b.group(1)):
            if pat.strip() == '_': continue
            mf = re.fullmatch(r'Box::new\((\w+)\{game\}\)', re.sub(r'\s', '', ex))
            if not mf: unrec('game_sub_format arm => %s' % ex); continue
            for g in pat.split('|'):
                mg = re.fullmatch(r'Game::(\w+)', g.strip())
                if not mg or mg.group(1) not in gidx: unrec('game_sub_format pattern %s' % g); continue
                subfmt[mg.group(1)] = mf.group(1)
    else:
        unrec('game_sub_format')
    # EoSD
    eosd = None
    bm = fn_body(ecl, r'impl OldeSubFormat for EosdSubFormat\s*', 'max_params_per_type')
    bp = fn_body(ecl, r'impl OldeSubFormat for EosdSubFormat\s*', 'param_reg_id')
    mp = re.fullmatch(r'assert_eq!\(number,0\);matchty\{ReadType::Int=>RegId\((-?[\d_]+)\),ReadType::Float=>RegId\((-?[\d_]+)\),\}', re.sub(r'\s', '', bp or ''))
    if (bm or '').strip() == '1' and mp:
        eosd = (int(mp.group(1).replace('_', '')), int(mp.group(2).replace('_', '')))
    else:
        unrec('EosdSubFormat::param_reg_id / max_params_per_type')
    # PCB
    pcb = None
    bm = fn_body(ecl, r'impl OldeSubFormat for PcbSubFormat\s*', 'max_params_per_type')
    bp = re.sub(r'\s', '', fn_body(ecl, r'impl OldeSubFormat for PcbSubFormat\s*', 'param_reg_id') or '')
    mp = re.fullmatch(r'assert!\(number<self\.max_params_per_type\(\)\);letty_offset=matchty\{ReadType::Int=>(\d+),ReadType::Float=>(\d+),\};'
                      r'letparam_a_id=matchself\.game\{(.*?)_=>unreachable!\(\),\};RegId\(param_a_id\+ty_offset\+numberasi32\)', bp)
    if (bm or '').strip().isdigit() and mp:
        base = {}
        for arm in mp.group(3).split(','):
            if not arm: continue
            ma = re.fullmatch(r'Game::(\w+)=>(\d+)', arm)
            if not ma or ma.group(1) not in gidx: unrec('PcbSubFormat::param_reg_id arm %s' % arm); continue
            base[ma.group(1)] = int(ma.group(2))
        pcb = (int(bm.strip()), int(mp.group(1)), int(mp.group(2)), base)
    else:
        unrec('PcbSubFormat::param_reg_id / max_params_per_type')

    # ---- get_explicitly_used_regs: which arguments are scanned
    mfn = re.search(r'\bfn get_explicitly_used_regs\b[^{]*', stackless)
    deep = None
    if mfn:
        ob = mfn.end(); cb = matching_brace(stackless, ob)
        body = re.sub(r'\s', '', stackless[ob + 1:cb])
        fixed = ('fnvisit(arg:&Sp<LowerArg>,out:&mutBTreeMap<RegId,Span>){match&arg.value{LowerArg::Raw(raw)=>{ifletSome(reg)=raw.get_reg_id(){out.insert(reg,arg.span);}},'
                 'LowerArg::DiffSwitch(cases)=>{forcaseincases.iter().flatten(){visit(case,out);}},_=>{},}}'
                 'letmutout=BTreeMap::new();forstmtinfunc_body{ifletLowerStmt::Instr(LowerInstr{args:LowerArgs::Known(args),..})=&stmt.value{forarginargs{visit(arg,&mutout);}}}out')
        old = ('func_body.iter().filter_map(|stmt|match&stmt.value{LowerStmt::Instr(LowerInstr{args:LowerArgs::Known(args),..})=>Some(args),_=>None'
               '}).flat_map(|args|args.iter().filter_map(|arg|match&arg.value{LowerArg::Raw(raw)=>raw.get_reg_id().map(|reg|(reg,arg.span)),_=>None,})).collect()')
        if body == fixed:
            deep = True      # every Raw argument, also inside the cases of difficulty switches (commit 4000fd0)
        elif body == old:
            deep = False     # the scan before 4000fd0: top-level arguments only (defect #3)
        else:
            unrec('get_explicitly_used_regs body: %s' % body[:120])
    else:
        unrec('get_explicitly_used_regs not found')
    if deep is None: deep = True     # unrecognised: keep modelling the last recognised (current) scan; the note fails the tie

    check_pinned(stackless)

    # ---- emit
    L = []
    L.append('(* Gen/Regs.v -- GENERATED by gen/regs.py from src/game.rs, src/formats/anm/mod.rs,')
    L.append('   src/formats/ecl/ecl_06.rs, src/llir/mod.rs, src/llir/lower/stackless.rs. Do not edit. *)')
    L.append('From TV Require Import Base.I32 Model.RegAlloc.')
    L.append('Open Scope Z_scope.')
    L.append('')
    for g, i in gidx.items():
        L.append('Definition G_%s : Z := %d.' % (g, i))
    L.append('Definition gen_games : list Z := [%s].' % '; '.join(str(i) for i in gidx.values()))
    L.append('')
    L.append('Inductive langid := LAnm | LEcl | LTimeline.')
    L.append('')
    def pool_fn(name, table, default):
        L.append('Definition %s (g : Z) (t : ty) : list Z :=' % name)
        for g, em in table:
            L.append('  if g =? %d then match t with TInt => [%s] | TFloat => [%s] | TString => [%s] end else' % (
                g, '; '.join(z(r) for r in em['Int']), '; '.join(z(r) for r in em['Float']), '; '.join(z(r) for r in em['String'])))
        L.append('  match t with TInt => [%s] | TFloat => [%s] | TString => [%s] end.' % (
            '; '.join(z(r) for r in default['Int']), '; '.join(z(r) for r in default['Float']), '; '.join(z(r) for r in default['String'])))
    empty = {'Int': [], 'Float': [], 'String': []}
    pool_fn('anm_general', [(gidx[g], anm_pools[v]) for g, v in anm_ver.items() if v in anm_pools], empty)
    pool_fn('ecl_general', [(gidx[g], em) for g, em in ecl_pools.items()], ecl_default)
    L.append('Definition gen_general (l : langid) (g : Z) (t : ty) : list Z :=')
    L.append('  match l with LAnm => anm_general g t | LEcl => ecl_general g t | LTimeline => [] end.')
    L.append('')
    hb = {'OhItsJustThisOneFunction': 'ThisFunction', 'ItsWaterElf': 'WaterElf'}
    L.append('Definition anm_anti (g op : Z) : option howbad :=')
    v0 = [gidx[g] for g, v in anm_ver.items() if v == 'V0']
    cond_v0 = ' || '.join('(g =? %d)' % i for i in v0) or 'false'
    if anm_anti:
        L.append('  if %s then None else if (%d <=? g) && (op =? %d) then Some %s else None.' % (cond_v0, anm_anti[0], anm_anti[1], hb[anm_anti[2]]))
    else:
        L.append('  None.')
    L.append('Definition ecl_anti (g op : Z) : option howbad :=')
    for g, op, k in ecl_anti:
        L.append('  if (g =? %d) && (op =? %d) then Some %s else' % (g, op, hb[k]))
    L.append('  None.')
    L.append('Definition gen_anti (l : langid) (g op : Z) : option howbad :=')
    L.append('  match l with LAnm => anm_anti g op | LEcl => ecl_anti g op | LTimeline => None end.')
    L.append('')
    L.append('(* OldeSubFormat::param_reg_id / max_params_per_type of the sub format game_sub_format selects *)')
    L.append('Definition gen_max_params (g : Z) : Z :=')
    for g, f in subfmt.items():
        mx = 1 if f == 'EosdSubFormat' else (pcb[0] if pcb else 0)
        L.append('  if g =? %d then %d else' % (gidx[g], mx))
    L.append('  0.')
    L.append('Definition gen_param_reg (g : Z) (t : ty) (n : Z) : option Z :=')
    for g, f in subfmt.items():
        if f == 'EosdSubFormat' and eosd:
            L.append('  if g =? %d then (if n =? 0 then match t with TInt => Some %s | TFloat => Some %s | TString => None end else None) else' % (
                gidx[g], z(eosd[0]), z(eosd[1])))
        elif f == 'PcbSubFormat' and pcb and g in pcb[3]:
            L.append('  if g =? %d then (if (0 <=? n) && (n <? %d) then match t with TInt => Some (%d + %d + n) | TFloat => Some (%d + %d + n) | TString => None end else None) else' % (
                gidx[g], pcb[0], pcb[3][g], pcb[1], pcb[3][g], pcb[2]))
        else:
            unrec('sub format %s for %s' % (f, g))
    L.append('  None.')
    L.append('')
    L.append('(* does get_explicitly_used_regs look inside LowerArg::DiffSwitch? *)')
    L.append('Definition gen_explicit_deep : bool := %s.' % ('true' if deep else 'false'))
    L.append('')
    L.append('Definition gen_unrecognised : nat := %d.' % len(notes))
    write_if_changed(out, '\n'.join(L) + '\n')
    for n in notes:
        print(n)

if __name__ == '__main__':
    main()
