#!/usr/bin/env python3
# gen-out: OpTable.v
"""Translate BinOpKind::const_eval / UnOpKind::const_eval / handle_shift_rhs
(src/passes/const_simplify.rs) into Gen/OpTable.v.  usage: optable.py <repo> <out.v>"""
import sys, re
from rsparse import *

BIN_SYMS = {'+': 'Add', '-': 'Sub', '*': 'Mul', '/': 'Div', '%': 'Rem', '==': 'Eq', '!=': 'Ne', '<': 'Lt',
            '<=': 'Le', '>': 'Gt', '>=': 'Ge', '|': 'BitOr', '^': 'BitXor', '&': 'BitAnd', '||': 'LogicOr',
            '&&': 'LogicAnd', '<<': 'ShiftLeft', '>>': 'ShiftRightSigned', '>>>': 'ShiftRightUnsigned'}
UN_SYMS = {'!': 'Not', '-': 'Neg', '~': 'BitNot', 'sin': 'Sin', 'cos': 'Cos', 'tan': 'Tan', 'asin': 'Asin',
           'acos': 'Acos', 'atan': 'Atan', 'sqrt': 'Sqrt', '$': 'EncodeI', '%': 'EncodeF', 'int': 'CastI',
           'float': 'CastF'}
BINOPS = list(BIN_SYMS.values())
UNOPS = list(UN_SYMS.values())

BI = {
    'ScalarValue::Int(i32::wrapping_add(a,b))': 'BI_wadd', 'ScalarValue::Int(a.wrapping_add(b))': 'BI_wadd',
    'ScalarValue::Int(i32::wrapping_sub(a,b))': 'BI_wsub', 'ScalarValue::Int(a.wrapping_sub(b))': 'BI_wsub',
    'ScalarValue::Int(i32::wrapping_mul(a,b))': 'BI_wmul', 'ScalarValue::Int(a.wrapping_mul(b))': 'BI_wmul',
    'ScalarValue::Int(i32::wrapping_div(a,b))': 'BI_wdiv', 'ScalarValue::Int(a.wrapping_div(b))': 'BI_wdiv',
    'ScalarValue::Int(i32::wrapping_rem(a,b))': 'BI_wrem', 'ScalarValue::Int(a.wrapping_rem(b))': 'BI_wrem',
    'ScalarValue::Int((a==b)asi32)': 'BI_eq', 'ScalarValue::Int((a!=b)asi32)': 'BI_ne',
    'ScalarValue::Int((a<b)asi32)': 'BI_lt', 'ScalarValue::Int((a<=b)asi32)': 'BI_le',
    'ScalarValue::Int((a>b)asi32)': 'BI_gt', 'ScalarValue::Int((a>=b)asi32)': 'BI_ge',
    'ScalarValue::Int(ifa==0{b}else{a})': 'BI_lor', 'ScalarValue::Int(ifa!=0{a}else{b})': 'BI_lor',
    'ScalarValue::Int(ifa==0{0}else{b})': 'BI_land', 'ScalarValue::Int(ifa!=0{b}else{0})': 'BI_land',
    'ScalarValue::Int(a^b)': 'BI_xor', 'ScalarValue::Int(a&b)': 'BI_and', 'ScalarValue::Int(a|b)': 'BI_or',
    'ScalarValue::Int(a<<handle_shift_rhs(b))': 'BI_shl', 'ScalarValue::Int(a>>handle_shift_rhs(b))': 'BI_sar',
    'ScalarValue::Int((aasu32>>handle_shift_rhs(b))asi32)': 'BI_shru',
    'uncaught_type_error()': 'BI_typeerr',
}
BF = {
    'ScalarValue::Float(a+b)': 'BF_add', 'ScalarValue::Float(a-b)': 'BF_sub', 'ScalarValue::Float(a*b)': 'BF_mul',
    'ScalarValue::Float(a/b)': 'BF_div', 'ScalarValue::Float(a%b)': 'BF_rem',
    'ScalarValue::Int((a==b)asi32)': 'BF_eq', 'ScalarValue::Int((a!=b)asi32)': 'BF_ne',
    'ScalarValue::Int((a<b)asi32)': 'BF_lt', 'ScalarValue::Int((a<=b)asi32)': 'BF_le',
    'ScalarValue::Int((a>b)asi32)': 'BF_gt', 'ScalarValue::Int((a>=b)asi32)': 'BF_ge',
    'uncaught_type_error()': 'BF_typeerr',
}
UI = {
    'Some(ScalarValue::Int(i32::wrapping_neg(x)))': 'UI_neg', 'Some(ScalarValue::Int(x.wrapping_neg()))': 'UI_neg',
    'Some(ScalarValue::Int((x==0)asi32))': 'UI_not', 'Some(ScalarValue::Int(!x))': 'UI_bitnot',
    'Some(ScalarValue::Int(x))': 'UI_id', 'Some(ScalarValue::Float(xasf32))': 'UI_tofloat',
    'None': 'UI_none', 'uncaught_type_error()': 'UI_typeerr',
}
UF = {
    'Some(ScalarValue::Float(-x))': 'UF_neg',
    'Some(ScalarValue::Float(x.sin()))': 'UF_libm Sin', 'Some(ScalarValue::Float(x.cos()))': 'UF_libm Cos',
    'Some(ScalarValue::Float(x.tan()))': 'UF_libm Tan', 'Some(ScalarValue::Float(x.asin()))': 'UF_libm Asin',
    'Some(ScalarValue::Float(x.acos()))': 'UF_libm Acos', 'Some(ScalarValue::Float(x.atan()))': 'UF_libm Atan',
    'Some(ScalarValue::Float(x.sqrt()))': 'UF_sqrt', 'Some(ScalarValue::Int(xasi32))': 'UF_toint',
    'Some(ScalarValue::Float(x))': 'UF_id', 'None': 'UF_none', 'uncaught_type_error()': 'UF_typeerr',
}
SHIFT = {'xasu32%u32::BITS': 'ShMasked', 'xasu32%32': 'ShMasked', '(xasu32)%u32::BITS': 'ShMasked',
         'xasu32&31': 'ShMasked', 'xasu32': 'ShRaw'}

def parse_pats(pat, kind, syms, names):
    ops = []
    toks = []
    def repl(m):
        toks.append(m.group(1)); return ' @%d ' % (len(toks) - 1)
    pat2 = re.sub(r'token!\[\s*%s\s+(\S+?)\s*\]' % kind, repl, pat)
    for p in pat2.split('|'):
        p = p.strip()
        if not p: continue
        m = re.fullmatch(r'@(\d+)', p)
        if m and toks[int(m.group(1))] in syms:
            ops.append(syms[toks[int(m.group(1))]]); continue
        m = re.fullmatch(r'(?:\w+::)*(\w+)', p)
        if m and m.group(1) in names:
            ops.append(m.group(1)); continue
        if p == '_':
            ops.append('_'); continue
        return None
    return ops

def table(body, kind, syms, names, vocab, unrec):
    res = {}
    notes = []
    if body is None:
        return {n: unrec for n in names}, ['block not found']
    for pat, rhs in split_arms(body):
        ops = parse_pats(pat, kind, syms, names)
        term = vocab.get(nows(rhs))
        if term is None:
            notes.append('unrecognised rhs: ' + nows(rhs))
            term = unrec
        if ops is None:
            notes.append('unrecognised pattern: ' + nows(pat))
            continue
        for o in ops:
            if o == '_':
                for n in names: res.setdefault(n, term)
            else:
                res.setdefault(o, term)
    for n in names:
        if n not in res:
            res[n] = unrec
            notes.append('no arm for ' + n)
    return res, notes

def main(repo, out):
    src = strip_comments(open(repo + '/src/passes/const_simplify.rs').read())
    notes = []
    un_impl, _ = block_after(src, r'impl\s+ast::UnOpKind\s*')
    bin_impl, _ = block_after(src, r'impl\s+ast::BinOpKind\s*')
    ui_body = uf_body = bi_body = bf_body = None
    if un_impl:
        ui_body, _ = block_after(un_impl, r'ScalarValue::Int\(x\)\s*=>\s*match\s+self\s*')
        uf_body, _ = block_after(un_impl, r'ScalarValue::Float\(x\)\s*=>\s*match\s+self\s*')
    if bin_impl:
        bi_body, _ = block_after(bin_impl, r'\(ScalarValue::Int\(a\),\s*ScalarValue::Int\(b\)\)\s*=>\s*match\s+self\s*')
        bf_body, _ = block_after(bin_impl, r'\(ScalarValue::Float\(a\),\s*ScalarValue::Float\(b\)\)\s*=>\s*match\s+self\s*')
    bi, n1 = table(bi_body, 'binop', BIN_SYMS, BINOPS, BI, 'BI_unrec')
    bf, n2 = table(bf_body, 'binop', BIN_SYMS, BINOPS, BF, 'BF_unrec')
    ui, n3 = table(ui_body, 'unop', UN_SYMS, UNOPS, UI, 'UI_unrec')
    uf, n4 = table(uf_body, 'unop', UN_SYMS, UNOPS, UF, 'UF_unrec')
    notes += n1 + n2 + n3 + n4
    sh_body, _ = block_after(src, r'fn\s+handle_shift_rhs\s*\(\s*x\s*:\s*i32\s*\)\s*->\s*u32\s*')
    sh = SHIFT.get(nows(sh_body)) if sh_body is not None else None
    if sh is None:
        notes.append('unrecognised handle_shift_rhs: ' + (nows(sh_body) if sh_body else '<missing>'))
        sh = 'ShUnrec'
    def mk(name, ty, names, tbl):
        arms = ' '.join('| %s => %s' % (n, tbl[n]) for n in names)
        return 'Definition %s (op : %s) := match op with %s end.\n' % (name, ty, arms)
    text = '(* GENERATED by gen/optable.py from src/passes/const_simplify.rs -- do not edit *)\n'
    text += 'From TV Require Import Base.I32 Model.Ops.\n'
    text += 'Definition gen_shift : shamt := %s.\n' % sh
    text += mk('gen_bi', 'binop', BINOPS, bi) + mk('gen_bf', 'binop', BINOPS, bf)
    text += mk('gen_ui', 'unop', UNOPS, ui) + mk('gen_uf', 'unop', UNOPS, uf)
    text += 'Definition gen_optable : optable := {| ot_shift := gen_shift; ot_bi := gen_bi; ot_bf := gen_bf; ot_ui := gen_ui; ot_uf := gen_uf |}.\n'
    text += '(* translator notes:\n' + ''.join('   %s\n' % n.replace('*)', '* )') for n in notes) + '*)\n'
    write_if_changed(out, text)
    for n in notes: print('optable: ' + n)

if __name__ == '__main__':
    main(sys.argv[1], sys.argv[2])
