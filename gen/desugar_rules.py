#!/usr/bin/env python3
# gen-out: DesugarRules.v
"""Read three small decisions of block desugaring out of the Rust source into Gen/DesugarRules.v:
  * the `times` zero-test rule (`if let None | Some(0) = count_as_const`, src/passes/desugar_blocks.rs),
  * the counting-jump flavour used when the format has no counting jump (`unwrap_or(...)`, same file),
  * the order of preference between the two flavours (discover_alternatives, src/llir/intrinsic.rs),
  * whether AstVm assigns `time` at the three points the jump form reaches by falling through (src/vm.rs).
usage: desugar_rules.py <repo> <out.v>"""
import sys, re
from rsparse import *

FLAV = {'PredecNeZero': 'PredecNeZero', 'PredecGtZero': 'PredecGtZero'}

def main(repo, out):
    notes = []
    src = strip_comments(open(repo + '/src/passes/desugar_blocks.rs').read())
    isrc = strip_comments(open(repo + '/src/llir/intrinsic.rs').read())

    # (1) zero test
    none_case, consts = 'false', []
    m = re.search(r'if\s+let\s+([^={]+?)\s*=\s*count_as_const\s*\{', src)
    ok1 = False
    if m:
        ok1 = True
        for p in [x.strip() for x in m.group(1).split('|')]:
            if p == 'None': none_case = 'true'
            else:
                mm = re.fullmatch(r'Some\(\s*(-?\d+)\s*\)', p)
                if mm: consts.append(int(mm.group(1)))
                else:
                    ok1 = False
                    notes.append('unrecognised zero-test pattern: ' + p)
        # the statement guarded by it must be the conditional jump to the skip label
        body, _ = block_after(src, r'if\s+let\s+[^={]+?=\s*count_as_const\s*')
        if body is None or not re.search(r'if\s+expr_binop!\[#\(clobber\.clone\(\)\)\s*==\s*#\(0\)\]\s*goto\s+#\(skip_label\.clone\(\)\)', body):
            ok1 = False
            notes.append('unrecognised zero-test statement: ' + nows(body or '<missing>')[:200])
    else:
        notes.append('zero-test rule not found (if let ... = count_as_const)')
    zt = ' || '.join('(z =? %s)' % (c if c >= 0 else '(%d)' % c) for c in consts)
    zt = (zt + ' || false') if zt else 'false'

    # (2) fallback flavour
    m = re.search(r'preferred_count_jmp\s*\.\s*unwrap_or\(\s*alternatives::CountJmpKind::(\w+)\s*\)', src)
    fb = FLAV.get(m.group(1)) if m else None
    if fb is None:
        notes.append('fallback flavour not found (preferred_count_jmp.unwrap_or)')

    # (3) order of preference: the loop that sets preferred_count_jmp, last one wins
    order = None
    m = re.search(r'for\s+kind\s+in\s+vec!\[([^\]]*)\]\s*', isrc, re.S)
    if m:
        body, _ = block_after(isrc, r'for\s+kind\s+in\s+vec!\[[^\]]*\]\s*')
        ks = re.findall(r'CountJmpKind::(\w+)', m.group(1))
        if body and re.search(r'preferred_count_jmp\s*=\s*Some\(kind\)', body) and ks and all(k in FLAV for k in ks):
            order = [FLAV[k] for k in ks]
    if order is None:
        notes.append('preference order not found (for kind in vec![...] { ... preferred_count_jmp = Some(kind) })')

    # (4) AstVm at the three fall-through points (src/vm.rs): does it assign `time` there?
    vsrc = strip_comments(open(repo + '/src/vm.rs').read())
    resets = None
    chain, _ = block_after(vsrc, r'ast::StmtKind::CondChain\(chain\)\s*=>\s*')
    tn, _ = block_after(vsrc, r'ast::StmtKind::Times\s*\{\s*clobber:\s*None\s*,[^}]*\}\s*=>\s*')
    tc, _ = block_after(vsrc, r'ast::StmtKind::Times\s*\{\s*clobber:\s*Some\(clobber\)\s*,[^}]*\}\s*=>\s*')
    if chain and tn and tc:
        c, a, b = nows(chain), nows(tn), nows(tc)
        as_found = ('branch_taken=true;self.time=start_time(block);handle_block!(block);break;' in c
                    and c.endswith('self.time=end_time(chain.last_block());')
                    and 'for_in0..count{self.time=start_time(block);handle_block_of_breakable_stmt!(block);}' in a
                    and 'ifcount!=0{loop{self.time=start_time(block);handle_block_of_breakable_stmt!(block);' in b)
        patched = ('ifindex>0{self.time=start_time(block);}handle_block!(block);ran_last_block=else_block.is_none()&&index==cond_blocks.len()-1;break;' in c
                   and c.endswith('if!ran_last_block{self.time=end_time(chain.last_block());}')
                   and 'self.time=start_time(else_block);handle_block!(else_block);ran_last_block=true;' in c
                   and 'foriterationin0..count{self.time=ifiteration>0{start_time(block)}else{time_at_entry};handle_block_of_breakable_stmt!(block);}' in a
                   and 'lettime_at_entry=self.time;self.time=end_time(block);' in a
                   and 'self.time=time_at_entry;letmutfirst_iteration=true;loop{if!first_iteration{self.time=start_time(block);}first_iteration=false;handle_block_of_breakable_stmt!(block);' in b)
        if as_found and not patched: resets = 'true'
        elif patched and not as_found: resets = 'false'
    if resets is None:
        notes.append('unrecognised AstVm time assignments in the CondChain/Times arms of src/vm.rs')

    ok = ok1 and fb is not None and order is not None and resets is not None
    text = '(* GENERATED by gen/desugar_rules.py from src/passes/desugar_blocks.rs and src/llir/intrinsic.rs -- do not edit *)\n'
    text += 'From TV Require Import Base.I32 Model.Blocks.\nOpen Scope Z_scope.\n'
    text += 'Definition gen_rules_recognised : bool := %s.\n' % ('true' if ok else 'false')
    text += 'Definition gen_zero_test (c : option Z) : bool := match c with None => %s | Some z => %s end.\n' % (none_case, zt)
    text += 'Definition gen_fallback : flavour := %s.\n' % (fb or 'PredecNeZero')
    text += 'Definition gen_pref_order : list flavour := [%s].\n' % '; '.join(order or [])
    text += '(* does AstVm assign `time` where the jump form falls through? (true: vm.rs as found; false: with fixes/c06-astvm-time-reset.diff) *)\n'
    text += 'Definition gen_astvm_resets_time : bool := %s.\n' % (resets or 'true')
    text += '(* translator notes:\n' + ''.join('   %s\n' % n.replace('*)', '* )') for n in notes) + '*)\n'
    write_if_changed(out, text)
    for n in notes: print('desugar_rules: ' + n)

if __name__ == '__main__':
    main(sys.argv[1], sys.argv[2])
