#!/usr/bin/env python3
# gen-out: Ids.v
"""Translate the numbering rules behind names (property C20) into Gen/Ids.v:
  anm/mod.rs        gather_sprite_id_exprs / sequential_int_exprs  (compile-time sprite constants)
  anm/read_write.rs write_anm / write_entry                        (ids actually written: next_auto_sprite_id)
  anm/mod.rs        compile: script constants = position in gather_script_ids
  msg.rs            SparseScriptTable::densify, write_msg table -> offsets by name
  ecl/ecl_06.rs     sub constants = position; get_and_validate_timeline_indices auto numbering
  std.rs            write_instance: objects.get_index_of
usage: ids.py <repo> <out.v>
Numbers (start values, steps) are read out of the source; statement shapes are matched after
whitespace removal and anything unfamiliar is reported (never guessed)."""
import sys, re
from rsparse import *

NOTES = []
def note(s): NOTES.append(s)

def fn_body(src, name):
    body, _ = block_after(src, r'fn\s+%s\s*(?:<[^>]*>)?\s*\(' % name)
    if body is None: return None
    return body

def fn_body_full(src, name):
    """body of fn name(...) ... { } (block_after stops at the first '{', which must be the body)"""
    m = re.search(r'fn\s+%s\b' % name, src)
    if not m: return None
    op = src.find('(', m.end())
    cp = matching_brace(src, op)
    ob = src.find('{', cp)
    cb = matching_brace(src, ob)
    return src[ob + 1:cb]

def num(text, what):
    try:
        return int(text.replace('_', ''), 0)
    except Exception:
        note('unrecognised number in %s: %s' % (what, text)); return None

def main(repo, out):
    anm = strip_comments(open(repo + '/src/formats/anm/mod.rs').read())
    rw = strip_comments(open(repo + '/src/formats/anm/read_write.rs').read())
    msg = strip_comments(open(repo + '/src/formats/msg.rs').read())
    ecl = strip_comments(open(repo + '/src/formats/ecl/ecl_06.rs').read())
    std = strip_comments(open(repo + '/src/formats/std.rs').read())

    # --- compile-time sprite constants
    base0 = k0 = None; restart = 'false'; op = 'SeqUnrec'
    b = fn_body_full(anm, 'gather_sprite_id_exprs')
    if b is None: note('not found: gather_sprite_id_exprs')
    else:
        nb = nows(b)
        m = re.search(r'letmutauto_sprites=sequential_int_exprs\(sp!\((-?\w+)\.into\(\)\)\);', nb)
        if m: base0 = num(m.group(1), 'gather_sprite_id_exprs start')
        else: note('unrecognised initial sprite numbering in gather_sprite_id_exprs')
        if re.search(r'ifletSome\(id_expr\)=sprite\.id_expr\.cloned\(\)\{.*auto_sprites=sequential_int_exprs\(id_expr\);\};', nb) and \
           'letsprite_id=sp!(sprite_id_span=>auto_sprites.next().unwrap());' in nb and 'out.push((res_ident,sprite_id));' in nb:
            restart = 'true'
        else: note('unrecognised restart/next of the sprite numbering in gather_sprite_id_exprs')
        if 'forentry_fieldsinall_entries{' not in nb or nb.index('letmutauto_sprites') > nb.index('forentry_fieldsinall_entries{'):
            note('unrecognised: sprite numbering is no longer created once before the loop over entries'); restart = 'false'
    b = fn_body_full(anm, 'sequential_int_exprs')
    if b is None: note('not found: sequential_int_exprs')
    else:
        m = re.fullmatch(r'\((-?\w+)\.\.\)\.map\(move\|i\|\{letaddend:ast::Expr=i\.into\(\);rec_sp!\(Span::NULL=>expr_binop!\(#\(e\.clone\(\)\)(.)#addend\)\)\.value\}\)', nows(b))
        if m:
            k0 = num(m.group(1), 'sequential_int_exprs start')
            op = {'+': 'SeqAdd', '-': 'SeqSub'}.get(m.group(2), 'SeqUnrec')
            if op == 'SeqUnrec': note('unrecognised operator in sequential_int_exprs: ' + m.group(2))
        else: note('unrecognised shape of sequential_int_exprs: ' + nows(b)[:200])

    # --- ids written
    w0 = wstep = None; wcarry = 'false'; wwraps = 'false'
    b = fn_body_full(rw, 'write_anm')
    if b is None: note('not found: write_anm')
    else:
        nb = nows(b)
        m = re.search(r'letmutnext_auto_sprite_id=(-?\w+);for\(entry_index,entry\)infile\.entries\.iter\(\)\.enumerate\(\)\{', nb)
        if m and 'write_entry(w,emitter,&format,entry,&mutnext_auto_sprite_id)' in nb:
            w0 = num(m.group(1), 'write_anm start'); wcarry = 'true'
        else: note('unrecognised: next_auto_sprite_id is no longer one counter carried across entries in write_anm')
    b = fn_body_full(rw, 'write_entry')
    if b is None: note('not found: write_entry')
    else:
        m = re.search(r'letsprite_id=sprite\.id\.unwrap_or\(\*next_auto_sprite_id\);\*next_auto_sprite_id=sprite_id\+(\w+);write_sprite\(w,sprite_id,sprite\)\?;', nows(b))
        m2 = re.search(r'letsprite_id=sprite\.id\.unwrap_or\(\*next_auto_sprite_id\);\*next_auto_sprite_id=sprite_id\.wrapping_add\((\w+)\);write_sprite\(w,sprite_id,sprite\)\?;', nows(b))
        if m: wstep = num(m.group(1), 'write_entry step')
        elif m2: wstep = num(m2.group(1), 'write_entry step'); wwraps = 'true'
        else: note('unrecognised sprite id numbering in write_entry')
    b = fn_body_full(rw, 'write_sprite')
    if b is None or not nows(b).startswith('f.write_u32(sprite_id)?;'): note('unrecognised write_sprite (id field)')

    # --- position constants
    def pos_rule(src, pattern, what):
        if re.search(pattern, nows(src)): return 'PosIndex'
        note('unrecognised: ' + what); return 'PosUnrec'
    script_rule = pos_rule(fn_body_full(anm, 'compile') or '',
        r'for\(index,&\(refscript_name,_\)\)inscript_ids\.values\(\)\.enumerate\(\)\{letconst_value:Sp<ast::Expr>=sp!\(script_name\.span=>\(indexasi32\)\.into\(\)\);ctx\.define_enum_const\(script_name\.clone\(\),const_value,sp!\(auto_enum_names::anm_script\(\)\)\);\}',
        'ANM script constants are no longer the position in gather_script_ids')
    sub_rule = pos_rule(fn_body_full(ecl, 'compile') or '',
        r'for\(index,ident\)insub_idents\.values\(\)\.enumerate\(\)\{letconst_value:Sp<ast::Expr>=sp!\(ident\.span=>\(indexasi32\)\.into\(\)\);ctx\.define_enum_const\(ident\.clone\(\),const_value,sp!\(auto_enum_names::olde_ecl_sub\(\)\)\);\}',
        'old-ECL sub constants are no longer the position in gather_sub_ids')
    obj_rule = pos_rule(fn_body_full(std, 'write_instance') or '',
        r'^matchobjects\.get_index_of\(&inst\.object\)\{Some\(object_index\)=>f\.write_u16\(object_indexasu16\)\?,None=>returnErr\(',
        'STD instances no longer write objects.get_index_of(name)')

    # --- MSG
    dens = 'DensUnrec'
    b = fn_body_full(msg, 'densify')
    if b is not None and nows(b) == '(0..self.table_len.value).map(|index|{self.table.get(&index).unwrap_or_else(||&self.default).clone()}).collect()':
        dens = 'DensGetOrDefault'
    else: note('unrecognised SparseScriptTable::densify')
    b = fn_body_full(msg, 'write_msg')
    msgw = 'true'
    if b is None or not re.search(r'ScriptTableOffset::Zero=>0,ScriptTableOffset::Name\(refident\)=>\*script_offsets\.get\(ident\)\.ok_or_else\(', nows(b)) \
       or 'letscript_offset=w.pos()?-start_pos;script_offsets.insert(ident.clone(),script_offset);' not in nows(b):
        note('unrecognised table/offset writing in write_msg'); msgw = 'false'

    # --- timelines
    tl = 'TlUnrec'
    b = fn_body_full(ecl, 'get_and_validate_timeline_indices')
    if b is not None:
        nb = nows(b)
        m0 = re.search(r'letmutnext_auto_number=(\w+);', nb)
        if m0 and num(m0.group(1), 'timeline start') == 0 and \
           'Some(number)=>number.valueasusize,None=>{next_auto_number+=1;next_auto_number-1},' in nb and \
           'Some(number)ifnumber<0=>{' in nb and 'ifnum_unique_timeline_indices!=expected_unique_timeline_countasusize{' in nb and \
           re.search(r'for(?:timeline_indexin0\.\.expected_unique_timeline_count|&timeline_indexinast_spans_by_timeline\.keys\(\))\{matchast_spans_by_timeline\.get\(&timeline_index\)\.map_or\(0,\|x\|x\.len\(\)\)\{0=>\{\},1=>\{\},_=>\{', nb):
            tl = 'TlAutoCountsAutos'
    if tl == 'TlUnrec': note('unrecognised get_and_validate_timeline_indices')

    def z(v): return 'None' if v is None else '(Some (%d))' % v
    t = '(* GENERATED by gen/ids.py from anm/mod.rs, anm/read_write.rs, msg.rs, ecl/ecl_06.rs, std.rs -- do not edit *)\n'
    t += 'From TV Require Import Base.I32 Model.Ids.\n'
    t += ('Definition gen_idtable : idtable := {| it_const_base0 := %s; it_const_k0 := %s; it_const_op := %s; it_const_restart := %s;\n'
          '  it_writer_next0 := %s; it_writer_step := %s; it_writer_carry := %s; it_writer_wraps := %s;\n'
          '  it_script_const := %s; it_sub_const := %s; it_std_object := %s; it_msg_densify := %s; it_msg_offsets := %s; it_timeline := %s |}.\n') % (
        z(base0), z(k0), op, restart, z(w0), z(wstep), wcarry, wwraps, script_rule, sub_rule, obj_rule, dens, msgw, tl)
    t += '(* translator notes:\n' + ''.join('   %s\n' % n.replace('*)', '* )') for n in NOTES) + '*)\n'
    write_if_changed(out, t)
    for n in NOTES: print('ids: ' + n)

if __name__ == '__main__':
    main(sys.argv[1], sys.argv[2])
