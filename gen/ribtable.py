#!/usr/bin/env python3
# gen-out: RibTable.v
"""Translate the rib bookkeeping of name resolution (src/resolve/mod.rs, src/context/defs.rs) into
Gen/RibTable.v: which rib kinds hold locals / are barriers, the order of the initial (global) ribs,
which ribs every visitor method pushes, and the order of a few decisive steps.
usage: ribtable.py <repo> <out.v>"""
import sys, re
from rsparse import *

KINDS = {'Locals': 'TLocals', 'Params': 'TParams', 'LocalBarrier': 'TLocalBarrier', 'Items': 'TItems',
         'Mapfile': 'TMapfile', 'EnumConsts': 'TEnumConsts', 'BuiltinConsts': 'TBuiltinConsts', 'DummyRoot': 'TDummyRoot'}
GRIBS = {'ins_alias_ribs': 'GInsAliases', 'reg_alias_ribs': 'GRegAliases', 'builtin_const_rib': 'GBuiltinConsts',
         'enum_const_rib': 'GEnumConsts'}
NS = {'Vars': 'TVars', 'Funcs': 'TFuncs'}

def kind_of(pat):
    m = re.fullmatch(r'RibKind::(\w+)(\{.*\})?', nows(pat))
    return KINDS.get(m.group(1)) if m else None

def bool_match(body, notes, what):
    """arms `RibKind::X => true/false/Some(..)/None, _ => ...` -> list of kinds whose arm is true/Some"""
    if body is None:
        notes.append('%s: not found' % what); return None
    inner, _ = block_after(body, r'match\s+\*?self\s*')
    if inner is None:
        notes.append('%s: match not found' % what); return None
    yes = []; default = None; seen = set()
    for pat, rhs in split_arms(inner):
        r = nows(rhs)
        if r in ('true',) or r.startswith('Some('): val = True
        elif r in ('false', 'None'): val = False
        else:
            notes.append('%s: unrecognised rhs %s' % (what, r)); return None
        for p in pat.split('|'):
            p = p.strip()
            if not p: continue
            if p == '_':
                default = val; continue
            k = kind_of(p)
            if k is None:
                notes.append('%s: unrecognised pattern %s' % (what, nows(p))); return None
            if k not in seen:
                seen.add(k)
                if val: yes.append(k)
    for k in KINDS.values():
        if k not in seen:
            if default is None:
                notes.append('%s: no arm for %s' % (what, k)); return None
            if default: yes.append(k)
    return yes

def pushes(text, notes, what):
    """the sequence of enter_new_rib(Namespace::N, RibKind::K ..) calls in text"""
    if text is None:
        notes.append('%s: not found' % what); return None
    out = []
    for m in re.finditer(r'enter_new_rib\(\s*Namespace::(\w+)\s*,\s*RibKind::(\w+)', text):
        ns, k = NS.get(m.group(1)), KINDS.get(m.group(2))
        if ns is None or k is None:
            notes.append('%s: unrecognised rib %s %s' % (what, m.group(1), m.group(2))); return None
        out.append('(%s, %s)' % (ns, k))
    if 'enter_rib(' in text.replace('enter_new_rib(', ''):
        notes.append('%s: unrecognised enter_rib call' % what); return None
    return out

def before(text, a, b, notes, what):
    """True iff regex a first matches before regex b; both must occur"""
    if text is None:
        notes.append('%s: not found' % what); return None
    ma, mb = re.search(a, text), re.search(b, text)
    if not ma or not mb:
        notes.append('%s: step not found' % what); return None
    return ma.start() < mb.start()

def coq_list(l):
    return '[' + '; '.join(l) + ']'

def main(repo, out):
    notes = []
    src = strip_comments(open(repo + '/src/resolve/mod.rs').read())
    defs = strip_comments(open(repo + '/src/context/defs.rs').read())

    holds, _ = block_after(src, r'pub\s+fn\s+holds_locals\s*\(&self\)\s*->\s*bool\s*')
    barrier, _ = block_after(src, r'pub\s+fn\s+local_barrier_cause\s*\(&self\)\s*->\s*Option<&\'static\s+str>\s*')
    holds_l = bool_match(holds, notes, 'holds_locals')
    barrier_l = bool_match(barrier, notes, 'local_barrier_cause')

    init, _ = block_after(defs, r'pub\s+fn\s+initial_ribs\s*\(&self\)\s*->\s*Vec<rib::Rib>\s*')
    init_l = None
    if init is None:
        notes.append('initial_ribs: not found')
    else:
        init_l = []
        for m in re.finditer(r'vec\.(extend|push)\(\s*self\.global_ribs\.(\w+)', init):
            g = GRIBS.get(m.group(2))
            if g is None:
                notes.append('initial_ribs: unrecognised rib %s' % m.group(2)); init_l = None; break
            init_l.append(g)
        if init_l is not None and len(re.findall(r'vec\.(?:extend|push|insert)\(', init)) != len(init_l):
            notes.append('initial_ribs: unrecognised statement'); init_l = None

    vfile, _ = block_after(src, r'fn\s+visit_file\s*\(&mut\s+self,\s*script:\s*&ast::ScriptFile\)\s*')
    vblock, _ = block_after(src, r'fn\s+visit_block\s*\(&mut\s+self,\s*block:\s*&ast::Block\)\s*')
    vitem, _ = block_after(src, r'fn\s+visit_item\s*\(&mut\s+self,\s*item:\s*&Sp<ast::Item>\)\s*')
    vstmt, _ = block_after(src, r'fn\s+visit_stmt\s*\(&mut\s+self,\s*x:\s*&Sp<ast::Stmt>\)\s*')
    resolve, _ = block_after(src, r'pub\s+fn\s+resolve\s*\(&self,\s*ns:\s*Namespace,[^)]*\)\s*->\s*Result<DefId,\s*Diagnostic>\s*')
    func_arm = const_arm = script_arm = None
    if vitem is not None:
        inner, _ = block_after(vitem, r'match\s+&item\.value\s*')
        if inner is not None:
            for pat, rhs in split_arms(inner):
                p = nows(pat)
                if 'ast::Item::Func' in p: func_arm = rhs
                elif 'ast::Item::ConstVar' in p: const_arm = rhs
                elif 'ast::Item::Script' in p: script_arm = rhs
                else: notes.append('visit_item: unrecognised arm %s' % p)
    file_p = pushes(vfile, notes, 'visit_file')
    block_p = pushes(vblock, notes, 'visit_block')
    func_p = pushes(func_arm, notes, 'visit_item Func')
    const_p = pushes(const_arm, notes, 'visit_item ConstVar')
    script_p = pushes(script_arm, notes, 'visit_item Script')
    if script_arm is not None and 'walk_item' not in script_arm:
        notes.append('visit_item Script: unrecognised body')

    decl_arm = None
    if vstmt is not None:
        inner, _ = block_after(vstmt, r'match\s+x\.kind\s*')
        if inner is not None:
            for pat, rhs in split_arms(inner):
                if 'StmtKind::Declaration' in pat: decl_arm = rhs
    steps = {
        'gen_file_items_first': before(vfile, r'add_item_to_scope', r'visit_item', notes, 'visit_file order'),
        'gen_block_items_first': before(vblock, r'add_item_to_scope', r'visit_stmt', notes, 'visit_block order'),
        'gen_decl_init_first': before(decl_arm, r'visit_expr\(\s*init_value\s*\)', r'define_local', notes, 'declaration order'),
        'gen_barrier_checked_first': before(resolve, r'local_barrier_cause\(\)', r'rib\.defs\.get\(\s*cur_ident\s*\)', notes, 'resolve order'),
        'gen_params_before_body': before(func_arm, r'define_local', r'visit_block\(\s*code\s*\)', notes, 'function order'),
    }
    # the mapfile rib of another language is skipped, everything else that has the name decides
    skip_ok = None
    if resolve is not None:
        skip_ok = bool(re.search(r'if\s+alias_language\s*!=\s*Some\(\s*mapfile_language\s*\)\s*\{[^}]*continue\s+\'ribs', resolve)) \
                  and bool(re.search(r'rib\.kind\.holds_locals\(\)\s*&&\s*crossed_local_border\.is_some\(\)', resolve))
        if not skip_ok: notes.append('resolve: unrecognised barrier/mapfile conditions')

    # visit_call_args_with_signature_info: which arguments that are not matched with a parameter are visited?
    vargs, _ = block_after(src, r'fn\s+visit_call_args_with_signature_info\s*\(&mut\s+self,\s*call:\s*&ast::ExprCall,\s*siggy:\s*Option<&Signature>\)\s*')
    excess = None
    if vargs is None:
        notes.append('visit_call_args_with_signature_info: not found')
    else:
        inner, _ = block_after(vargs, r'match\s+siggy\s*')
        some_arm = none_arm = None
        if inner is not None:
            for pat, rhs in split_arms(inner):
                if nows(pat) == 'Some(siggy)': some_arm = nows(rhs)
                elif nows(pat) == 'None': none_arm = nows(rhs)
        head = 'letMatchedArgs{positional_pairs}=siggy.match_params_to_args(&call.args);'
        body = 'self.ty_color_stack.push(param.ty_color.clone().map(|x|x.value));self.visit_expr(arg);self.ty_color_stack.pop();'
        zipped = head + 'for(param,arg)inpositional_pairs{' + body + '}'
        counted = head + 'letmutnum_matched=0;for(param,arg)inpositional_pairs{num_matched+=1;' + body + '}'
        after_params = ['forargincall.args.iter().skip(siggy.params.len()){self.visit_expr(arg);}']
        after_matched = ['forargincall.args.iter().skip(num_matched){self.visit_expr(arg);}']
        if none_arm != 'call.args.iter().for_each(|arg|self.visit_expr(arg))' or some_arm is None:
            notes.append('visit_call_args_with_signature_info: unrecognised arms')
        elif some_arm == '{' + zipped + '}':
            excess = 'ExNone'
        elif any(some_arm == '{' + zipped + r + '}' for r in after_params):
            excess = 'ExAfterParams'
        elif any(some_arm == '{' + counted + r + '}' for r in after_matched):
            excess = 'ExAfterMatched'
        else:
            notes.append('visit_call_args_with_signature_info: unrecognised Some arm')
    # Signature::match_params_to_args: are parameters with a default (padding) left out of the zip?
    mp, _ = block_after(defs, r'pub\s+fn\s+match_params_to_args<\'a>\s*\(&\'a\s+self,\s*args:\s*&\'a\s*\[Sp<ast::Expr>\]\)\s*->\s*MatchedArgs<\'a>\s*')
    zip_skips = None
    if mp is None:
        notes.append('match_params_to_args: not found')
    else:
        m = nows(mp)
        if m == 'letpositional_pairs=Box::new(self.params.iter().zip(args));MatchedArgs{positional_pairs}': zip_skips = False
        elif m == 'letpositional_pairs=Box::new(self.params.iter().filter(|param|param.default.is_none()).zip(args));MatchedArgs{positional_pairs}': zip_skips = True
        else: notes.append('match_params_to_args: unrecognised')

    def lst(name, ty, l):
        return 'Definition %s : list %s := %s.\n' % (name, ty, coq_list(l) if l is not None else '[] (* unrecognised *)')
    def bl(name, b):
        return 'Definition %s : bool := %s.\n' % (name, 'true' if b else 'false')
    text = '(* GENERATED by gen/ribtable.py from src/resolve/mod.rs and src/context/defs.rs -- do not edit *)\n'
    text += 'From TV Require Import Base.I32 Model.ResolveSyntax.\n'
    text += lst('gen_holds_locals', 'ribtag', holds_l) + lst('gen_barriers', 'ribtag', barrier_l)
    text += lst('gen_initial_ribs', 'gribtag', init_l)
    text += lst('gen_file_ribs', '(nstag * ribtag)', file_p) + lst('gen_block_ribs', '(nstag * ribtag)', block_p)
    text += lst('gen_func_ribs', '(nstag * ribtag)', func_p) + lst('gen_const_ribs', '(nstag * ribtag)', const_p)
    text += lst('gen_script_ribs', '(nstag * ribtag)', script_p)
    for k, v in steps.items(): text += bl(k, v)
    text += bl('gen_resolve_conditions', skip_ok)
    text += 'Definition gen_excess_mode : excess_mode := %s.\n' % (excess or 'ExNone (* unrecognised *)')
    text += bl('gen_zip_skips_padding', zip_skips)
    text += 'Definition gen_recognised : bool := %s.\n' % ('true' if not notes else 'false')
    text += '(* translator notes:\n' + ''.join('   %s\n' % n.replace('*)', '* )') for n in notes) + '*)\n'
    write_if_changed(out, text)
    for n in notes: print('ribtable: unrecognised: ' + n)

if __name__ == '__main__':
    main(sys.argv[1], sys.argv[2])
