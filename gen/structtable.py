#!/usr/bin/env python3
# gen-out: StructTable.v
"""Translate the parts of the control-flow reconstruction that are tables into Gen/StructTable.v:
  * BinOpKind::negate_comparison (src/ast/mod.rs)                         -> gen_negcmp
  * the order of the passes in postprocess_decompiled (src/passes/mod.rs) -> gen_pass_order
  * which preconditions decompile_loop.rs currently checks                 -> gen_guards
usage: structtable.py <repo> <out.v>"""
import sys, re
from rsparse import *

BIN_SYMS = {'+': 'Add', '-': 'Sub', '*': 'Mul', '/': 'Div', '%': 'Rem', '==': 'Eq', '!=': 'Ne', '<': 'Lt',
            '<=': 'Le', '>': 'Gt', '>=': 'Ge', '|': 'BitOr', '^': 'BitXor', '&': 'BitAnd', '||': 'LogicOr',
            '&&': 'LogicAnd', '<<': 'ShiftLeft', '>>': 'ShiftRightSigned', '>>>': 'ShiftRightUnsigned'}
BINOPS = list(BIN_SYMS.values())

PASSES = {
    'decompile_loop::decompile_loop(script,ctx)?': 'PLoop',
    'decompile_loop::decompile_if_else(script,ctx)?': 'PIfElse',
    'decompile_loop::decompile_break(script,ctx)?': 'PBreak',
    'unused_labels::run(script)?': 'PUnused',
    'sanity_check::validate_block_bookending(script)?': None,      # a check, not a transformation
}

# (flag, function whose body must contain it, whitespace-free text of the guard)
GUARDS = [
    ('g_diff', r'fn\s+from_stmt\s*\(', 'ifast.diff_label.is_some(){returnNone;}'),
    ('g_loop_time', r'fn\s+should_decompile_loop\s*\(', 'ifjmp.time_arg.is_some(){returnShouldDecompileLoop::No;}'),
    ('g_loop_intr', r'fn\s+should_decompile_loop\s*\(',
     'ifinterrupt_label_indices.iter().any(|&interrupt_i|{jmp.dest<=interrupt_i&&interrupt_i<jmp_src_index}){returnShouldDecompileLoop::No;}'),
    ('g_if_time', r'fn\s+_gather_cond_chain\s*\(', 'ifif_jmp.time_arg.is_some(){returnErr(NoCondChain);}'),
    ('g_if_dir', r'fn\s+_gather_cond_chain\s*\(', 'ifif_jmp.direction_given_src(src)==Direction::Backwards{returnErr(NoCondChain);}'),
    ('g_if_rc', r'fn\s+_gather_cond_chain\s*\(', 'ifif_jmp.dest_refcount>1{returnErr(NoCondChain);}'),
    ('g_if_cnt', r'fn\s+as_binop_cond\s*\(', 'if!matches!(a.value,ast::Expr::XcrementOp{..})'),
    ('g_un_time', r'fn\s+_gather_cond_chain\s*\(', 'ifuncond_jmp.time_arg.is_some(){returnErr(NoCondChain);}'),
    ('g_un_kind', r'fn\s+_gather_cond_chain\s*\(', 'if!matches!(uncond_jmp.kind,JmpKind::Uncond){returnErr(NoCondChain);}'),
    ('g_un_dir', r'fn\s+_gather_cond_chain\s*\(', 'ifuncond_jmp.direction_given_src(uncond_src)==Direction::Backwards{returnErr(NoCondChain);}'),
    ('g_end_same', r'fn\s+_gather_cond_chain\s*\(', 'if*known_end.get_or_insert(uncond_jmp.dest)!=uncond_jmp.dest{returnErr(NoCondChain);}'),
    ('g_end_last', r'fn\s+_gather_cond_chain\s*\(', 'ifletSome(expected_end)=known_end{ifif_jmp.dest!=expected_end{returnErr(NoCondChain);}}'),
    ('g_else_order', r'fn\s+_gather_cond_chain\s*\(', 'ifend_label_index<else_start_index{returnErr(NoCondChain);}'),
    ('g_chain_intr', r'fn\s+reject_potentially_confusing_cond_chain\s*\(',
     'ifcontext.interrupt_label_indices.iter().any(|&i|stmt_range.contains(&i)){returnErr(NoCondChain);}'),
    ('g_brk_time', r'impl\s+VisitMut\s+for\s+MakeBreakVisitor\s*', 'ifletast::StmtJumpKind::Goto(ast::StmtGoto{destination,time:None})=jump{'),
    ('g_brk_same', r'impl\s+VisitMut\s+for\s+MakeBreakVisitor\s*', 'ifcur_loop_id==jump_end_loop_id{'),
]

def fn_body(src, marker):
    m = re.compile(marker).search(src)
    if not m: return None
    ob = src.find('{', m.end())
    # skip over a return type / where clause: the body is the first '{' at paren depth 0 after the signature
    depth = 0
    i = m.end() - 1 if src[m.end() - 1] == '(' else m.end()
    n = len(src)
    while i < n:
        c = src[i]
        if c in '([': depth += 1
        elif c in ')]': depth -= 1
        elif c == '{' and depth == 0:
            e = matching_brace(src, i)
            return src[i + 1:e] if e > 0 else None
        i += 1
    return None

def main(repo, out):
    notes = []
    # ---- negate_comparison
    ast_src = strip_comments(open(repo + '/src/ast/mod.rs').read())
    body = fn_body(ast_src, r'pub\s+fn\s+negate_comparison\s*\(')
    neg = {}
    if body is None:
        notes.append('negate_comparison: block not found')
    else:
        mb, _ = block_after(body, r'match\s+self\s*')
        if mb is None:
            notes.append('negate_comparison: match not found')
        else:
            for pat, rhs in split_arms(mb):
                p = nows(pat); r = nows(rhs)
                if p == '_':
                    if r != 'None': notes.append('negate_comparison: unrecognised default arm: ' + r)
                    continue
                mp = re.fullmatch(r'token!\[(?:binop)?(\S+?)\]', p)
                mr = re.fullmatch(r'Some\(token!\[(?:binop)?(\S+?)\]\)', r)
                if mp and mp.group(1) in BIN_SYMS and mr and mr.group(1) in BIN_SYMS:
                    neg.setdefault(BIN_SYMS[mp.group(1)], BIN_SYMS[mr.group(1)])
                elif mp and mp.group(1) in BIN_SYMS and r == 'None':
                    pass
                else:
                    notes.append('negate_comparison: unrecognised arm: %s => %s' % (p, r))
    # ---- pass order
    mod_src = strip_comments(open(repo + '/src/passes/mod.rs').read())
    pbody = fn_body(mod_src, r'pub\s+fn\s+postprocess_decompiled\s*<[^{]*?>\s*\(')
    order = []
    if pbody is None:
        notes.append('postprocess_decompiled: block not found')
    else:
        bb, _ = block_after(pbody, r'if\s+decompile_options\.blocks\s*')
        if bb is None:
            notes.append('postprocess_decompiled: `if decompile_options.blocks` not found')
        else:
            for st in bb.split(';'):
                t = nows(st)
                if not t: continue
                if t in PASSES:
                    if PASSES[t]: order.append(PASSES[t])
                else:
                    notes.append('postprocess_decompiled: unrecognised statement in the blocks branch: ' + t)
        # the structuring passes must not also run outside the `blocks` branch
        rest = nows(pbody.replace(bb or '', ''))
        for k, v in PASSES.items():
            if v and k in rest:
                notes.append('postprocess_decompiled: unrecognised: %s outside the blocks branch' % k)
    # ---- guards
    dl_src = strip_comments(open(repo + '/src/passes/decompile_loop.rs').read())
    flags = {}
    for name, marker, text in GUARDS:
        b = fn_body(dl_src, marker)
        if b is None:
            notes.append('decompile_loop.rs: block not found for ' + name)
            flags[name] = False
            continue
        flags[name] = text in nows(b)
        if not flags[name]:
            notes.append('guard absent (flag off): ' + name)
    arms = ' '.join('| %s => Some %s' % (k, neg[k]) for k in BINOPS if k in neg)
    text = '(* GENERATED by gen/structtable.py from src/ast/mod.rs, src/passes/mod.rs, src/passes/decompile_loop.rs -- do not edit *)\n'
    text += 'From TV Require Import Base.I32 Model.Structure.\n'
    text += 'Definition gen_negcmp (op : binop) : option binop := match op with %s | _ => None end.\n' % arms
    text += 'Definition gen_pass_order : list spass := [%s].\n' % '; '.join(order)
    text += 'Definition gen_guards : guards := {| %s |}.\n' % '; '.join(
        '%s := %s' % (n, 'true' if flags[n] else 'false') for n, _, _ in GUARDS)
    text += '(* translator notes:\n' + ''.join('   %s\n' % n.replace('*)', '* )') for n in notes) + '*)\n'
    write_if_changed(out, text)
    for n in notes: print('structtable: ' + n)

if __name__ == '__main__':
    main(sys.argv[1], sys.argv[2])
