#!/usr/bin/env python3
# gen-out: FmtTables.v
"""Read the tables property C08 depends on out of the Rust/LALRPOP sources into Gen/FmtTables.v:
the lexer's fixed tokens and regexes (src/parse/lexer.rs), the operator spellings (src/ast/mod.rs),
the precedence tiers and keyword tables of the expression grammar (src/parse/lalrparser.lalrpop),
the escape tables of the string printer and parser (src/fmt.rs, src/parse/lalrparser_util.rs), the
prefix/function-style operator split of the expression printer and whether the printer guards a prefix
operator against an operand that would fuse with it (src/fmt.rs).
usage: fmttables.py <repo> <out.v>"""
import sys, re
from rsparse import *

notes = []
def note(s): notes.append(s)

def cq(s):
    return '"' + s.replace('"', '""') + '"'
def clist(xs, f=cq):
    return '[' + '; '.join(f(x) for x in xs) + ']'

def lexer_tables(src):
    fixed, regexes, skips = [], [], []
    pending = []
    in_enum = False
    for line in src.splitlines():
        if 'pub enum Token' in line: in_enum = True; continue
        if not in_enum: continue
        s = line.strip()
        m = re.match(r'#\[token\("((?:[^"\\]|\\.)*)"\)\]\s*(\w+)\s*,', s)
        if m:
            fixed.append(m.group(1)); continue
        m = re.match(r'#\[regex\(r##"(.*)"##(?:\s*,\s*(\w+))?\)\]', s)
        if m:
            rest = s[m.end():].strip()
            mv = re.match(r'(\w+)\(', rest)
            if mv: regexes.append((mv.group(1), m.group(1)))
            else: pending.append((m.group(1), m.group(2)))
            continue
        if s.startswith('Error,'):
            skips = pending; pending = []
            continue
        if s.startswith('VirtualDispatch'): break
    if pending: note('unrecognised: regex attributes without a variant: %s' % pending)
    if not fixed or not regexes: note('unrecognised: lexer token enum not found')
    return fixed, regexes, skips

def strum_enum(src, name):
    body, _ = block_after(src, r'pub\s+enum\s+%s\s*' % name)
    if body is None:
        note('unrecognised: enum %s not found' % name); return []
    return re.findall(r'#\[strum\(serialize\s*=\s*"([^"]*)"\)\]\s*(\w+)', body)

def grammar_tables(src):
    src = strip_comments(src)
    def nonterm_ops(name):
        m = re.search(r'(?:#\[inline\]\s*)?\b%s\s*:\s*[\w:<>&\' ,()]+=\s*' % re.escape(name), src)
        if not m:
            note('unrecognised: nonterminal %s not found' % name); return []
        rest = src[m.end():]
        if rest.lstrip().startswith('{'):
            ob = src.find('{', m.end()); cb = matching_brace(src, ob)
            body = src[ob + 1:cb]
        else:
            body = rest[:rest.find(';')]
        pairs = re.findall(r'"([^"]+)"\s*=>\s*token!\[\s*(?:unop\s+|binop\s+)?([^\]\s]+)\s*\]', body)
        if not pairs: note('unrecognised: no alternatives in %s' % name)
        return pairs
    tiers = []
    m = re.search(r'\bExprNoColon\s*=\s*(\w+)\s*;', src)
    cur = m.group(1) if m else None
    left_unary = []
    guard = 0
    while cur and guard < 40:
        guard += 1
        mb = re.search(r'\b%s\s*=\s*LeftBinOp<\s*(\w+)\s*,\s*(\w+)\s*>\s*;' % cur, src)
        mu = re.search(r'\b%s\s*=\s*LeftUnOp<\s*(\w+)\s*,\s*(\w+)\s*>\s*;' % cur, src)
        if mb:
            tiers.append([t for t, _ in nonterm_ops(mb.group(1))]); cur = mb.group(2)
        elif mu:
            left_unary = [t for t, _ in nonterm_ops(mu.group(1))]
            if mu.group(2) != 'ExprTerm': note('unrecognised: LeftUnOp next tier is %s' % mu.group(2))
            break
        else:
            note('unrecognised: precedence chain broken at %s' % cur); break
    if not m: note('unrecognised: ExprNoColon not found')
    func_unops = nonterm_ops('FuncUnOpKeyword')
    label_props = [t for t in re.findall(r'"(\w+)"\s*=>\s*ast::LabelPropertyKeyword::\w+', src)]
    body, _ = block_after(src, r'\bIdentStr\s*:\s*&\'input\s+str\s*=\s*')
    contextual = re.findall(r'<s:\s*"(\w+)"\s*>', body) if body else []
    if not contextual: note('unrecognised: IdentStr contextual keywords not found')
    pseudo = re.findall(r'\(\s*"(\w+)"\s*,\s*token!\[\w+\]\s*\)', src)
    if not pseudo: note('unrecognised: PseudoArgKind PAIRS not found')
    # shape of the expression grammar that the parser specification hard-codes
    shape = {
        'ternary': bool(re.search(r'<cond:Box<Sp<ExprNoColon>>>\s*<question:TokenSpan<"\?">>\s*<left:Box<Sp<ExprTernaryRhs>>>\s*<colon:TokenSpan<":">>\s*<right:Box<Sp<ExprTernaryRhs>>>', src)),
        'diffswitch': bool(re.search(r'<first:Sp<ExprNoColon>>\s*<mut rest:\(":"\s*<\(<Sp<ExprNoColon>>\)\?>\)\+>', src)),
        'one_unary': bool(re.search(r'<op:Sp<Op>>\s*<e:Box<Sp<NextTier>>>\s*=>\s*ast::Expr::UnOp\(op,\s*e\)', src)),
        'trailing_sep': bool(re.search(r'SeparatedTrailing<T,\s*Sep>\s*:\s*Vec<T>\s*=\s*\{\s*=>\s*vec!\[\],\s*<SeparatedStrictNonempty<T,\s*Sep>>,\s*<SeparatedStrictNonempty<T,\s*Sep>>\s*Sep,\s*\}', src)),
    }
    for k, ok in shape.items():
        if not ok: note('unrecognised: grammar shape %s changed' % k)
    return tiers, left_unary, func_unops, label_props, contextual, pseudo

RUST_ESC = {'\\0': 0, '\\"': 34, '\\\\': 92, '\\n': 10, '\\r': 13, '\\t': 9, "\\'": 39}
def rust_char(lit):
    if lit in RUST_ESC: return RUST_ESC[lit]
    if len(lit) == 1: return ord(lit)
    return None

def fmt_tables(src_raw):
    src = strip_comments(src_raw)
    # string escapes of the printer
    body, _ = block_after(src, r'impl\s+Format\s+for\s+ast::LitString\s*')
    esc = []
    if body:
        mb, _ = block_after(body, r'match\s+c\s*')
        for pat, rhs in split_arms(mb or ''):
            pat = pat.strip()
            m = re.fullmatch(r"'((?:\\.|[^\\']))'", pat)
            mr = re.fullmatch(r'tmp\.push_str\(r#"(.*)"#\)', rhs.strip().rstrip(','))
            if m and mr and rust_char(m.group(1)) is not None:
                esc.append((rust_char(m.group(1)), mr.group(1)))
            elif pat == 'c' and nows(rhs).rstrip(',') == 'tmp.push(c)':
                pass
            else:
                note('unrecognised: string escape arm %s => %s' % (pat, nows(rhs)))
    if not esc: note('unrecognised: LitString escape table not found')
    # prefix / function-style unary operators and the fusing guard
    prefix, fnstyle, guard_un = [], [], False
    mb, _ = block_after(src, r'ast::Expr::UnOp\(op,\s*x\)\s*=>\s*match\s+op\.value\s*')
    arms = split_arms(mb) if mb else []
    if len(arms) != 2:
        note('unrecognised: UnOp printer arms (%d)' % len(arms))
    else:
        toks = lambda p: [t.strip() for t in re.findall(r'token!\[\s*(?:unop\s+)?([^\]]+?)\s*\]', p)]
        prefix, fnstyle = toks(arms[0][0]), toks(arms[1][0])
        r0, r1 = nows(arms[0][1]).rstrip(','), nows(arms[1][1]).rstrip(',')
        if r0 == 'out.fmt_optional_parens(|out|out.fmt((op,x)))':
            guard_un = False
        elif r0 == 'out.fmt_optional_parens(|out|{ifoperand_fuses_with_prefix_op(op.value,x){out.fmt((op,"(",SuppressParens(x),")"))}else{out.fmt((op,x))}})':
            guard_un = True
        else:
            note('unrecognised: prefix operator printer: ' + r0)
        if r1 != 'out.fmt((op,"(",SuppressParens(x),")"))':
            note('unrecognised: function-style operator printer: ' + r1)
    guard_fn_ok = True
    if guard_un:
        fb, _ = block_after(src, r'fn\s+operand_fuses_with_prefix_op\s*\([^)]*\)\s*->\s*bool\s*')
        want = "match(op,first_char_of_expr(operand)){(_,Some('-'))=>true,(ast::UnOpKind::Not,Some(c))=>\"*ENHLWXYZO4567\".contains(c),_=>false,}"
        if fb is None or nows(fb) != want:
            note('unrecognised: operand_fuses_with_prefix_op body: ' + (nows(fb) if fb else '<missing>')); guard_fn_ok = False
        fc, _ = block_after(src, r'fn\s+first_char_of_expr\s*\([^)]*\)\s*->\s*Option<char>\s*')
        if fc is None or nows(fc) != 'stringify(expr).chars().next()':
            note('unrecognised: first_char_of_expr body'); guard_fn_ok = False
    # relative time label
    mb, _ = block_after(src, r'ast::StmtKind::RelTimeLabel\s*\{\s*delta,\s*_absolute_time_comment\s*\}\s*=>\s*')
    rel = nows(mb) if mb else ''
    plain = 'ifletSome(time)=_absolute_time_comment{out.fmt_label(("+",delta,"://",time))?;}else{out.fmt_label(("+",delta,":"))?;}out.suppress_blank_line();Ok(())'
    guarded = "letdelta=matchfirst_char_of_expr(delta){Some('+')=>Either::This((\"(\",SuppressParens(delta),\")\")),_=>Either::That(delta),};" + plain
    if rel == plain: guard_rel = False
    elif rel == guarded: guard_rel = True
    else:
        note('unrecognised: RelTimeLabel printer: ' + rel[:200]); guard_rel = False
    if guard_un != guard_rel:
        note('unrecognised: the fusing guard is present in only one of the two places')
    m = re.search(r'const\s+INDENT\s*:\s*isize\s*=\s*(\d+)\s*;', src)
    indent = int(m.group(1)) if m else None
    if indent is None: note('unrecognised: INDENT not found')
    m = re.search(r'self\.target_width\s*=\s*width\s*-\s*1\s*;', src)
    if not m: note('unrecognised: Config::max_columns no longer computes width - 1')
    return esc, prefix, fnstyle, (guard_un and guard_rel and guard_fn_ok), indent or 0

def util_tables(src):
    src = strip_comments(src)
    body, _ = block_after(src, r'pub\s+fn\s+parse_string_literal\s*\([^{]*')
    unesc = []
    if body:
        mb, _ = block_after(body, r'match\s+c\s*')
        for pat, rhs in split_arms(mb or ''):
            pat = pat.strip()
            m = re.fullmatch(r"'((?:\\.|[^\\']))'", pat)
            mr = re.fullmatch(r'out\.push_str\("((?:\\.|[^"\\])*)"\)', rhs.strip().rstrip(','))
            if m and mr and rust_char(mr.group(1)) is not None and rust_char(m.group(1)) is not None:
                unesc.append((rust_char(m.group(1)), rust_char(mr.group(1))))
            elif pat == '_':
                pass
            else:
                note('unrecognised: unescape arm %s => %s' % (pat, nows(rhs)[:80]))
    if not unesc: note('unrecognised: parse_string_literal escape table not found')
    body, _ = block_after(src, r'pub\s+fn\s+parse_u32_literal\s*\([^{]*')
    radix = []
    if body:
        mb, _ = block_after(body, r'let\s+result\s*=\s*match\s+&string\[\.\.usize::min\(string\.len\(\),\s*2\)\]\s*')
        for pat, rhs in split_arms(mb or ''):
            r = nows(rhs).rstrip(',')
            pats = re.findall(r'"([^"]*)"', pat)
            m = re.fullmatch(r'u32::from_str_radix\(&string\[2\.\.\],(\d+)\)', r)
            if pats and m:
                for p in pats: radix.append((p, int(m.group(1))))
            elif pat.strip() == '_' and r == 'string.parse()':
                radix.append(('', 10))
            else:
                note('unrecognised: parse_u32_literal arm %s => %s' % (nows(pat), r))
    if not radix: note('unrecognised: parse_u32_literal not found')
    return unesc, radix

def main(repo, out):
    fixed, regexes, skips = lexer_tables(open(repo + '/src/parse/lexer.rs').read())
    astsrc = strip_comments(open(repo + '/src/ast/mod.rs').read())
    enums = {n: strum_enum(astsrc, n) for n in ('BinOpKind', 'UnOpKind', 'AssignOpKind', 'XcrementOpKind', 'PseudoArgKind', 'LabelPropertyKeyword', 'TypeKeyword', 'CondKeyword')}
    tiers, left_unary, func_unops, label_props, contextual, pseudo = grammar_tables(open(repo + '/src/parse/lalrparser.lalrpop').read())
    esc, prefix, fnstyle, guard, indent = fmt_tables(open(repo + '/src/fmt.rs').read())
    unesc, radix = util_tables(open(repo + '/src/parse/lalrparser_util.rs').read())
    t = '(* GENERATED by gen/fmttables.py from src/parse/lexer.rs, src/ast/mod.rs, src/parse/lalrparser.lalrpop,\n   src/fmt.rs, src/parse/lalrparser_util.rs -- do not edit *)\n'
    t += 'From Coq Require Import String List.\nImport ListNotations.\nLocal Open Scope string_scope.\n\n'
    t += 'Definition gen_fixed_tokens : list string :=\n  %s.\n' % clist(fixed)
    t += 'Definition gen_regexes : list (string * string) :=\n  %s.\n' % clist(regexes, lambda p: '(%s, %s)' % (cq(p[0]), cq(p[1])))
    t += 'Definition gen_skip_regexes : list (string * bool) :=\n  %s.\n' % clist(skips, lambda p: '(%s, %s)' % (cq(p[0]), 'true' if p[1] else 'false'))
    for n, pairs in enums.items():
        t += 'Definition gen_%s : list string := %s.\n' % (n, clist([a for a, _ in pairs]))
    t += 'Definition gen_tiers : list (list string) := %s.\n' % clist(tiers, clist)
    t += 'Definition gen_left_unops : list string := %s.\n' % clist(left_unary)
    t += 'Definition gen_func_unops : list (string * string) := %s.\n' % clist(func_unops, lambda p: '(%s, %s)' % (cq(p[0]), cq(p[1])))
    t += 'Definition gen_label_props : list string := %s.\n' % clist(label_props)
    t += 'Definition gen_contextual : list string := %s.\n' % clist(contextual)
    t += 'Definition gen_pseudo_kinds : list string := %s.\n' % clist(pseudo)
    t += 'Definition gen_print_prefix_unops : list string := %s.\n' % clist(prefix)
    t += 'Definition gen_print_fn_unops : list string := %s.\n' % clist(fnstyle)
    t += 'Definition gen_escapes : list (nat * string) := %s.\n' % clist(esc, lambda p: '(%d, %s)' % (p[0], cq(p[1])))
    t += 'Definition gen_unescapes : list (nat * nat) := %s.\n' % clist(unesc, lambda p: '(%d, %d)' % p)
    t += 'Definition gen_int_prefixes : list (string * nat) := %s.\n' % clist(radix, lambda p: '(%s, %d)' % (cq(p[0]), p[1]))
    t += 'Definition gen_indent : nat := %d.\n' % indent
    t += '(* does the expression printer parenthesize an operand that would fuse with the prefix operator / the `+` of a time label? *)\n'
    t += 'Definition gen_unop_guard : bool := %s.\n' % ('true' if guard else 'false')
    t += '(* translator notes:\n' + ''.join('   %s\n' % n.replace('*)', '* )').replace('(*', '( *').replace('"', "'") for n in notes) + '*)\n'
    write_if_changed(out, t)
    for n in notes: print('fmttables: ' + n)

if __name__ == '__main__':
    main(sys.argv[1], sys.argv[2])
