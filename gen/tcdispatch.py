#!/usr/bin/env python3
# gen-out: TcDispatch.v
"""Translate the dispatch of the type-check visitor into Gen/TcDispatch.v:
  passes/type_check.rs  Visitor::visit_stmt (one row per StmtKind), Visitor::visit_item (one row per Item
                        kind), and the other overridden visit methods (must be the known ones)
  ast/mod.rs            walk_stmt / walk_item (which visitor methods are called for each kind)
usage: tcdispatch.py <repo> <out.v>"""
import sys, re
from rsparse import *

SKINDS = ['Item', 'Jump', 'CondJump', 'Return', 'CondChain', 'Loop', 'While', 'Times', 'Expr', 'Block',
          'Assignment', 'Declaration', 'CallSub', 'InterruptLabel', 'AbsTimeLabel', 'RelTimeLabel', 'Label',
          'ScopeEnd', 'NoInstruction']
IKINDS = ['Func', 'Script', 'Meta', 'ConstVar']
IK_COQ = {'Func': 'IK_Func', 'Script': 'IK_Script', 'Meta': 'IK_Meta', 'ConstVar': 'IK_ConstVar'}

def fn_body(src, name):
    m = re.search(r'fn\s+%s\s*(?:<[^>]*>)?\s*\(' % re.escape(name), src)
    if not m: return None
    close = matching_brace(src, m.end() - 1)
    if close < 0: return None
    ob = src.find('{', close)
    if ob < 0: return None
    cb = matching_brace(src, ob)
    return src[ob + 1:cb] if cb > 0 else None

def unbrace(r):
    r = r.strip()
    while r.startswith('{') and matching_brace(r, 0) == len(r) - 1:
        r = r[1:-1].strip()
    return r

def kinds_of_pattern(pat, enum, names):
    out = []
    for p in pat.split('|'):
        p = p.strip()
        if not p: continue
        if p == '_':
            out.append(('_', p)); continue
        m = re.match(r'&?(?:ast::)?%s::(\w+)\b' % enum, p)
        if not m or m.group(1) not in names:
            return None
        out.append((m.group(1), p))
    return out

def errset(call):
    return 'ifletErr(e)=%s{self.errors.set(e);}' % call

def stmt_row(kind, pat, rhs):
    """classify one arm of visit_stmt for one kind"""
    r = nows(unbrace(rhs))
    p = nows(pat)
    def binds(*names):
        return all(re.search(r'\b%s\b' % n, pat) for n in names)
    if r == '': return 'D_Skip'
    if r in ('ast::walk_stmt(self,stmt)', 'ast::walk_stmt(self,stmt);'): return 'D_Walk'
    if re.fullmatch(r'unimplemented!\(.*\);?', r): return 'D_Unimpl'
    if re.fullmatch(r'lete=self\.ctx\.emitter\.emit\(error!\([^;]*\)\);self\.errors\.set\(e\);', r): return 'D_Reject'
    if kind in ('Block', 'Loop') and r in ('ast::walk_block(self,block)', 'ast::walk_block(self,block);') and binds('block'):
        return 'D_Walk'
    if kind == 'Return' and r == errset('self.check_stmt_return(keyword,value)') and binds('keyword', 'value'):
        return 'D_Check CF_return false'
    if kind == 'Assignment' and r == errset('self.check_stmt_assignment(var,*op,value)') and binds('var', 'op', 'value'):
        return 'D_Check CF_assignment false'
    if kind == 'Expr' and r == errset('self.check_stmt_expr(expr)') and binds('expr'):
        return 'D_Check CF_expr false'
    if kind == 'Times' and binds('clobber', 'count'):
        if r == errset('self.check_stmt_times(clobber,count)') + 'ast::walk_block(self,block);' and binds('block'):
            return 'D_Check CF_times true'
        if r == errset('self.check_stmt_times(clobber,count)'):
            return 'D_Check CF_times false'
    if kind == 'Declaration' and r == errset('self.check_stmt_declaration(*ty_keyword,vars)') and binds('ty_keyword', 'vars'):
        return 'D_Check CF_declaration false'
    if kind in ('InterruptLabel', 'RelTimeLabel', 'CondJump'):
        m = re.fullmatch(re.escape('ifletErr(e)=self.check_cond(') + r'(\w+)' + re.escape('){self.errors.set(e);}'), r)
        if m and binds(m.group(1)) and kind != 'CondJump':
            return 'D_Check CF_cond false'
    return None

FUNC_ITEM_BODY = ('letfunc_def_id=self.ctx.resolutions.expect_def(ident);self.cur_func_stack.push(FuncState{func_def_id,'
                  'missing_return:matches!(ty_keyword.expr_ty(),ExprType::Value(_)),});ast::walk_item(self,item);'
                  'letfinished_state=self.cur_func_stack.pop().expect("unbalancedstackusage");iffinished_state.missing_return{'
                  'self.emit(warning!(message("value-returningfunctionwithoutareturn"),primary(item,"hasnoreturnstatements"),)).ignore();}')

def item_row(kind, pat, rhs):
    r = nows(unbrace(rhs))
    if r in ('ast::walk_item(self,item)', 'ast::walk_item(self,item);'): return 'I_Walk'
    if r == '': return 'I_Skip'
    if kind == 'Func' and r == FUNC_ITEM_BODY and re.search(r'\bident\b', pat) and re.search(r'\bty_keyword\b', pat):
        return 'I_FuncWalk'
    if kind == 'ConstVar' and re.search(r'\bty_keyword\b', pat) and re.search(r'\bvars\b', pat):
        if r == 'forsp_pat![(var,expr)]invars{ifletErr(e)=self.check_single_var_decl(*ty_keyword,var,Some(expr)){self.errors.set(e);}}':
            return 'I_Check CF_constvar'
    return None

WALK_STMT = {
    'Item': {'v.visit_item(item)': ['WC_item']},
    'Jump': {'v.visit_jump(goto);': ['WC_jump']},
    'Return': {'ifletSome(value)=value{v.visit_expr(value);}': ['WC_optexpr']},
    'Loop': {'v.visit_block(block);': ['WC_block']},
    'CondJump': {'v.visit_cond(cond);v.visit_jump(jump);': ['WC_cond', 'WC_jump']},
    'CondChain': {'letStmtCondChain{cond_blocks,else_block}=chain;forCondBlock{cond,block,keyword:_}incond_blocks{v.visit_cond(cond);v.visit_block(block);}ifletSome(block)=else_block{v.visit_block(block);}': ['WC_condblocks', 'WC_optblock']},
    'While': {'v.visit_cond(cond);v.visit_block(block);': ['WC_cond', 'WC_block'], 'v.visit_block(block);v.visit_cond(cond);': ['WC_cond', 'WC_block']},
    'Times': {'ifletSome(clobber)=clobber{v.visit_var(clobber);}v.visit_expr(count);v.visit_block(block);': ['WC_optvar', 'WC_expr', 'WC_block']},
    'Expr': {'v.visit_expr(e);': ['WC_expr']},
    'Block': {'v.visit_block(block);': ['WC_block']},
    'Assignment': {'v.visit_var(var);v.visit_expr(value);': ['WC_var', 'WC_expr']},
    'Declaration': {'forsp_pat![(var,value)]invars{v.visit_var(var);ifletSome(value)=value{v.visit_expr(value);}}': ['WC_declvars']},
    'CallSub': {'forarginargs{v.visit_expr(arg);}': ['WC_exprs']},
    'Label': {'': []},
    'InterruptLabel': {'v.visit_expr(expr);': ['WC_expr']},
    'AbsTimeLabel': {'': []},
    'RelTimeLabel': {'v.visit_expr(delta);': ['WC_expr']},
    'ScopeEnd': {'': []},
    'NoInstruction': {'': []},
}
WALK_ITEM = {
    'Func': {'v.visit_res_ident(ident);ifletSome(code)=code{v.visit_root_block(code);}forsp_pat!(FuncParam{ident,ty_keyword:_,qualifier:_})inparams{ifletSome(ident)=ident{v.visit_res_ident(ident);}}': ['WC_optrootblock']},
    'Script': {'v.visit_root_block(code);': ['WC_rootblock']},
    'Meta': {'walk_meta_fields(v,fields);': ['WC_meta']},
    'ConstVar': {'forsp_pat![(var,expr)]invars{v.visit_var(var);v.visit_expr(expr);}': ['WC_constvars']},
}
VISITOR_METHODS = {
    'visit_expr': 'ifletErr(e)=self.check_expr(expr){self.errors.set(e);}',
    'visit_cond': 'ifletErr(e)=self.check_cond(cond){self.errors.set(e);}',
    'visit_jump': ('ast::walk_jump(self,jump);matchjump{ast::StmtJumpKind::Goto(ast::StmtGoto{destination,time})=>{'
                   'let_:&Option<Sp<i32>>=time;let_:&Sp<crate::ident::Ident>=destination;},'
                   'ast::StmtJumpKind::BreakContinue{..}=>{},}'),
}

def main(repo, out):
    tc = strip_comments(open(repo + '/src/passes/type_check.rs').read())
    ast = strip_comments(open(repo + '/src/ast/mod.rs').read())
    notes = []

    # ---- impl ast::Visit for Visitor
    impl, _ = block_after(tc, r"impl\s+ast::Visit\s+for\s+Visitor\s*<[^>]*>\s*")
    srows, irows = {}, {}
    if impl is None:
        notes.append('impl ast::Visit for Visitor: block not found')
        impl = ''
    methods = re.findall(r'\bfn\s+(visit_\w+)', impl)
    for m in methods:
        if m in ('visit_stmt', 'visit_item'): continue
        if m not in VISITOR_METHODS:
            notes.append('Visitor: unrecognised overridden method %s' % m)
        elif nows(fn_body(impl, m) or '') != VISITOR_METHODS[m]:
            notes.append('Visitor::%s: unrecognised body' % m)
    for m in list(VISITOR_METHODS) + ['visit_stmt', 'visit_item']:
        if m not in methods:
            notes.append('Visitor::%s not found' % m)

    vs = fn_body(impl, 'visit_stmt')
    body, _ = block_after(vs or '', r'match\s+&stmt\.value\.kind\s*')
    if body is None: notes.append('visit_stmt: match block not found')
    for pat, rhs in (split_arms(body) if body else []):
        ks = kinds_of_pattern(pat, 'StmtKind', SKINDS)
        if ks is None:
            notes.append('visit_stmt: unrecognised pattern: %s' % nows(pat)[:80]); continue
        for k, p in ks:
            targets = [x for x in SKINDS if x not in srows] if k == '_' else [k]
            for t in targets:
                if t in srows: continue
                row = stmt_row(t, p if k != '_' else '', rhs)
                if row is None:
                    notes.append('visit_stmt: unrecognised arm for %s: %s' % (t, nows(rhs)[:100])); row = 'D_Unrec'
                srows[t] = row
    for k in SKINDS:
        if k not in srows:
            srows[k] = 'D_Unrec'; notes.append('visit_stmt: no arm for %s' % k)

    vi = fn_body(impl, 'visit_item')
    body, _ = block_after(vi or '', r'match\s+&item\.value\s*')
    if body is None: notes.append('visit_item: match block not found')
    for pat, rhs in (split_arms(body) if body else []):
        ks = kinds_of_pattern(pat, 'Item', IKINDS)
        if ks is None:
            notes.append('visit_item: unrecognised pattern: %s' % nows(pat)[:80]); continue
        for k, p in ks:
            targets = [x for x in IKINDS if x not in irows] if k == '_' else [k]
            for t in targets:
                if t in irows: continue
                row = item_row(t, p, rhs)
                if row is None:
                    notes.append('visit_item: unrecognised arm for %s: %s' % (t, nows(rhs)[:100])); row = 'I_Unrec'
                irows[t] = row
    for k in IKINDS:
        if k not in irows:
            irows[k] = 'I_Unrec'; notes.append('visit_item: no arm for %s' % k)

    # ---- ast::walk_stmt / walk_item (inside the generate_visitor_stuff! macro)
    wstmt, witem = {}, {}
    ws = fn_body(ast, 'walk_stmt')
    body, _ = block_after(ws or '', r'match\s+kind\s*')
    if body is None: notes.append('walk_stmt: match block not found')
    for pat, rhs in (split_arms(body) if body else []):
        ks = kinds_of_pattern(pat, 'StmtKind', SKINDS)
        if ks is None:
            notes.append('walk_stmt: unrecognised pattern: %s' % nows(pat)[:80]); continue
        r = nows(unbrace(rhs)).replace('v.visit_loop_begin(loop_id);', '').replace('v.visit_loop_end(loop_id);', '')
        for k, p in ks:
            calls = WALK_STMT.get(k, {}).get(r)
            if calls is None:
                notes.append('walk_stmt: unrecognised arm for %s: %s' % (k, r[:100])); calls = ['WC_unrec']
            if k in wstmt and wstmt[k] != calls:
                notes.append('walk_stmt: arms for %s differ' % k); calls = ['WC_unrec']
            wstmt[k] = calls
    for k in SKINDS:
        if k not in wstmt:
            wstmt[k] = ['WC_unrec']; notes.append('walk_stmt: no arm for %s' % k)
    wi = fn_body(ast, 'walk_item')
    body, _ = block_after(wi or '', r'match\s+&\s*(?:\$\(\$mut\)\?)?\s*x\.value\s*')
    if body is None: notes.append('walk_item: match block not found')
    for pat, rhs in (split_arms(body) if body else []):
        ks = kinds_of_pattern(pat, 'Item', IKINDS)
        if ks is None:
            notes.append('walk_item: unrecognised pattern: %s' % nows(pat)[:80]); continue
        r = nows(unbrace(rhs))
        for k, p in ks:
            calls = WALK_ITEM.get(k, {}).get(r)
            if calls is None:
                notes.append('walk_item: unrecognised arm for %s: %s' % (k, r[:100])); calls = ['WC_unrec']
            witem[k] = calls
    for k in IKINDS:
        if k not in witem:
            witem[k] = ['WC_unrec']; notes.append('walk_item: no arm for %s' % k)
    # walk_block visits every statement; walk_file every item
    if nows(fn_body(ast, 'walk_block') or '') != 'forstmtin&$($mut)?x.0{v.visit_stmt(stmt);}':
        notes.append('walk_block: unrecognised body')
    if nows(fn_body(ast, 'walk_file') or '') != 'foritemin&$($mut)?x.items{v.visit_item(item)}':
        notes.append('walk_file: unrecognised body')

    def mk(name, ty, names, tbl, pre, fmt=lambda x: x):
        arms = ' '.join('| %s%s => %s' % (pre, n, fmt(tbl[n])) for n in names)
        return 'Definition %s (k : %s) := match k with %s end.\n' % (name, ty, arms)
    lst = lambda l: '[' + '; '.join(l) + ']'
    text = '(* GENERATED by gen/tcdispatch.py from src/passes/type_check.rs and src/ast/mod.rs -- do not edit *)\n'
    text += 'From TV Require Import Base.I32 Model.TypeCheck.\n'
    text += mk('gen_srow', 'skind', SKINDS, srows, 'K_')
    text += 'Definition gen_irow (k : ikind) := match k with %s end.\n' % ' '.join('| %s => %s' % (IK_COQ[n], irows[n]) for n in IKINDS)
    text += mk('gen_walk_stmt', 'skind', SKINDS, wstmt, 'K_', lst)
    text += 'Definition gen_walk_item (k : ikind) := match k with %s end.\n' % ' '.join('| %s => %s' % (IK_COQ[n], lst(witem[n])) for n in IKINDS)
    text += 'Definition gen_tctable : tctable := {| tc_stmt := gen_srow; tc_item := gen_irow; tc_walk_stmt := gen_walk_stmt; tc_walk_item := gen_walk_item |}.\n'
    text += '(* translator notes:\n' + ''.join('   %s\n' % n.replace('*)', '* )') for n in notes) + '*)\n'
    write_if_changed(out, text)
    for n in notes: print('tcdispatch: ' + n)

if __name__ == '__main__':
    main(sys.argv[1], sys.argv[2])
