#!/usr/bin/env python3
# gen-out: TimeLabels.v
"""Read the shape of the time-label rules out of the source into Gen/TimeLabels.v:
  src/passes/semantics/time_and_difficulty.rs  visit_stmt_shallow (absolute label sets, relative label
      wrapping_add), enter_root_block (a root block starts at time 0)
  src/llir/raise/late.rs   LabelEmitter::new (prev_time 0) and the order and guards of the three
      emission rules of emit_offset_and_time_labels_with
  src/llir/raise/early.rs  the "r"-label condition of generate_label_at_offset, the `@ t` filter
  src/llir/lower/intrinsic.rs  populate_time_args (missing `@ t` = timeof(label))
Model/Time.v hard-codes these rules; Model.Time.source_shape_ok compares.  usage: timelabels.py <repo> <out.v>"""
import sys, re
from rsparse import *

def nows(s): return re.sub(r'\s+', '', s)

def main(repo, out):
    notes = []
    td = nows(strip_comments(open(repo + '/src/passes/semantics/time_and_difficulty.rs').read()))
    late = nows(strip_comments(open(repo + '/src/llir/raise/late.rs').read()))
    early = nows(strip_comments(open(repo + '/src/llir/raise/early.rs').read()))
    intr = nows(strip_comments(open(repo + '/src/llir/lower/intrinsic.rs').read()))

    abs_sets = '&ast::StmtKind::AbsTimeLabel(value)=>{*self.time_stack.last_mut().expect("emptytimestack?!(bug)")=value.value;}' in td
    if not abs_sets: notes.append('unrecognised absolute time label rule')
    m = re.search(r'\*cur_time=cur_time\.(\w+)\(delta\);', td)
    rel = {'wrapping_add': 'RelWrappingAdd'}.get(m.group(1)) if m else None
    if rel is None: notes.append('unrecognised relative time label rule: ' + (m.group(1) if m else '<missing>')); rel = 'RelUnrec'
    m = re.search(r'pubfnenter_root_block\(&mutself\)\{self\.time_stack\.push\((-?\d+)\);', td)
    root = int(m.group(1)) if m else None
    if root is None: notes.append('unrecognised enter_root_block'); root = -999
    record_after = 'fnvisit_stmt(&mutself,stmt:&Sp<ast::Stmt>){ifletErr(e)=self.helper.enter_stmt(stmt){' in td and \
        'pubfnenter_stmt(&mutself,stmt:&Sp<ast::Stmt>)->Result<(),Diagnostic>{self.visit_stmt_shallow(stmt)?;' in td
    if not record_after: notes.append('unrecognised visit_stmt/enter_stmt order')

    m = re.search(r'fnnew\(\)->Self\{LabelEmitter\{prev_time:(-?\d+),\}\}', late)
    estart = int(m.group(1)) if m else None
    if estart is None: notes.append('unrecognised LabelEmitter::new'); estart = -999
    rules = []
    body = re.search(r'letprev_time=self\.prev_time;iftime!=prev_time\{(.*?)\}put_offset_label_here_if_it_has_time!\(time\);', late)
    if body:
        b = body.group(1)
        pats = [
            ('RuleCrossZero', 'ifprev_time<0&&0<=time{emit(make_stmt(ast::StmtKind::AbsTimeLabel(sp!(0))));iftime>0{emit(make_stmt(ast::StmtKind::RelTimeLabel{delta:sp!(time.into()),_absolute_time_comment:Some(time),}));}}'),
            ('RuleDecreaseAbs', 'elseiftime<prev_time{emit(make_stmt(ast::StmtKind::AbsTimeLabel(sp!(time))));}'),
            ('RuleIncreaseRel', 'elseifprev_time<time{emit(make_stmt(ast::StmtKind::RelTimeLabel{delta:sp!(time.wrapping_sub(prev_time).into()),_absolute_time_comment:Some(time),}));}'),
        ]
        pos = 0
        while pos < len(b):
            for name, p in pats:
                if b.startswith(p, pos):
                    rules.append(name); pos += len(p); break
            else:
                rules.append('RuleUnrec'); notes.append('unrecognised label emission rule: ' + b[pos:pos + 80]); break
    else:
        notes.append('unrecognised emit_offset_and_time_labels_with'); rules = ['RuleUnrec']
    label_first = 'put_offset_label_here_if_it_has_time!(self.prev_time);letprev_time=self.prev_time;' in late and \
        late.count('iflabel.time_label==$time{emit(make_stmt(ast::StmtKind::Label(sp!(label.label.clone()))));offset_label=None;}') == 1 and \
        'put_offset_label_here_if_it_has_time!(time);ifletSome(label)=&offset_label{panic!(' in late and 'self.prev_time=time;}' in late
    if not label_first: notes.append('unrecognised offset label placement')

    r_rule = 'lettime_args=time_args.iter().map(|&x|x.unwrap_or(next_time)).collect::<BTreeSet<_>>();ifprev_time<next_time&&time_args.len()==1&&time_args.iter().next().unwrap()==&prev_time{ifprev_offset==next_offset{returnLabel{label:ident!("label_{next_offset}"),time_label:prev_time};}returnLabel{label:ident!("label_{prev_offset}r"),time_label:prev_time};}Label{label:ident!("label_{next_offset}"),time_label:next_time}' in early
    if not r_rule: notes.append('unrecognised generate_label_at_offset')
    prev0 = 'letprev=matchdest_index{0=>(0,0),i=>(instr_offsets[i-1],script[i-1].time),};' in early
    if not prev0: notes.append('unrecognised generate_offset_labels (previous instruction)')
    goto_filter = 'Some(arg)=>Some(sp!(arg.expect_immediate_int())).filter(|&t|t!=label.time_label),' in early
    if not goto_filter: notes.append('unrecognised goto time filter')
    timeof = 'lettime_arg=matchgoto.time{Some(time)=>time.sp_map(|t|LowerArg::Raw(t.into())),None=>goto.destination.clone().sp_map(LowerArg::TimeOf),};' in intr
    if not timeof: notes.append('unrecognised populate_time_args')

    b = lambda x: 'true' if x else 'false'
    text = '(* GENERATED by gen/timelabels.py from time_and_difficulty.rs, raise/late.rs, raise/early.rs, lower/intrinsic.rs -- do not edit *)\n'
    text += 'From Coq Require Import ZArith List.\nImport ListNotations.\nOpen Scope Z_scope.\n'
    text += 'Inductive rel_rule := RelWrappingAdd | RelUnrec.\n'
    text += 'Inductive emit_rule := RuleCrossZero | RuleDecreaseAbs | RuleIncreaseRel | RuleUnrec.\n'
    text += 'Definition gen_abs_sets : bool := %s.\n' % b(abs_sets)
    text += 'Definition gen_rel_rule : rel_rule := %s.\n' % rel
    text += 'Definition gen_root_start : Z := %s.\n' % (root if root >= 0 else '(%d)' % root)
    text += 'Definition gen_label_applies_before_record : bool := %s.\n' % b(record_after)
    text += 'Definition gen_emitter_start : Z := %s.\n' % (estart if estart >= 0 else '(%d)' % estart)
    text += 'Definition gen_emit_rules : list emit_rule := [%s].\n' % '; '.join(rules)
    text += 'Definition gen_offset_label_placement : bool := %s.\n' % b(label_first)
    text += 'Definition gen_r_label_rule : bool := %s.\n' % b(r_rule and prev0)
    text += 'Definition gen_goto_time_rule : bool := %s.\n' % b(goto_filter and timeof)
    text += '(* translator notes:\n' + ''.join('   %s\n' % n.replace('*)', '* )') for n in notes) + '*)\n'
    write_if_changed(out, text)
    for n in notes: print('timelabels: ' + n)

if __name__ == '__main__':
    main(sys.argv[1], sys.argv[2])
