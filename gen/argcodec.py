#!/usr/bin/env python3
# gen-out: ArgCodec.v
"""Translate the per-encoding facts of argument encoding/decoding into Gen/ArgCodec.v:
  src/llir/abi.rs            int_from_attrs / other_from_attrs (format char -> size, signedness),
                             contributes_to_param_mask, is_always_immediate, string_from_attrs (bs=0 check),
                             AcceleratingByteMask::next
  src/ast/mod.rs             IntFormat constants (signedness of SIGNED / UNSIGNED / HEX)
  src/raw.rs                 ParamMask, ExtraArg
  src/llir/lower.rs          encode_args: the arms of `match *enc` (write width, signedness, cast kind), padding,
                             arg0, param-mask bookkeeping, the string arm (eager NUL set, order of steps)
  src/llir/raise/early.rs    decode_args_with_abi: the arms of `match *enc` (decrease_len amount, read width/type)
  src/io.rs                  null_pad, apply_xor_mask, trim_first_nul
  src/llir/lower/intrinsic.rs, src/llir/intrinsic.rs   how into_vec allocates / abi_parts counts
  src/context/defs.rs, src/passes/type_check.rs        how call arguments are matched to parameters
usage: argcodec.py <repo> <out.v>.  Everything that is not recognised is reported on stdout
(`argcodec: unrecognised ...`) and becomes CastUnrec / a false flag in the table."""
import sys, re
from rsparse import *

NOTES = []
def note(s): NOTES.append(s)

def rd(repo, rel):
    try:
        return strip_comments(open(repo + '/' + rel).read())
    except OSError:
        note('not found: ' + rel); return ''

def fn_body(src, name):
    b, _ = block_after(src, r'fn\s+' + name + r'\b[^{;]*')
    if b is None: note('not found: fn ' + name)
    return b or ''

def top_split(s, sep='|'):
    out, depth, cur = [], 0, ''
    for ch in s:
        if ch in '({[': depth += 1
        elif ch in ')}]': depth -= 1
        if ch == sep and depth == 0:
            out.append(cur); cur = ''
        else: cur += ch
    out.append(cur)
    return [x for x in (nows(y) for y in out) if x]

INT_TY = {'i8': (1, True), 'u8': (1, False), 'i16': (2, True), 'u16': (2, False), 'i32': (4, True), 'u32': (4, False)}
def b(x): return 'true' if x else 'false'

def strict_steps(text, steps, gaps, where):
    """[text] must be exactly `{` step_0 gap step_1 gap ... step_n `}`: every gap empty, except before the steps listed in
    [gaps] (index -> regex the gap must match in full).  Anything else between two steps (a new early-out, an extra
    statement) is reported: the arm is pinned, not merely searched."""
    pos = 0
    if not text.startswith('{'):
        note('unrecognised shape of %s' % where); return
    pos = 1
    for i, st in enumerate(steps):
        k = text.find(st, pos)
        if k < 0:
            note('unrecognised step (or order of steps) in %s: %s' % (where, st[:50])); return
        gap = text[pos:k]
        rule = gaps.get(i)
        if (rule is None and gap != '') or (rule is not None and not re.fullmatch(rule, gap)):
            note('unrecognised code between the steps of %s before `%s`: %s' % (where, st[:30], gap[:80])); return
        pos = k + len(st)
    if text[pos:] != '}':
        note('unrecognised code after the last step of %s: %s' % (where, text[pos:][:80]))

def main(repo, out):
    abi = rd(repo, 'src/llir/abi.rs'); astmod = rd(repo, 'src/ast/mod.rs'); raw = rd(repo, 'src/raw.rs')
    lower = rd(repo, 'src/llir/lower.rs'); early = rd(repo, 'src/llir/raise/early.rs'); io = rd(repo, 'src/io.rs')
    lintr = rd(repo, 'src/llir/lower/intrinsic.rs'); intr = rd(repo, 'src/llir/intrinsic.rs')
    defs = rd(repo, 'src/context/defs.rs'); tyck = rd(repo, 'src/passes/type_check.rs')

    # ---- IntFormat constants
    fmt_signed = {}
    for m in re.finditer(r'pub\s+const\s+(\w+)\s*:\s*IntFormat\s*=\s*IntFormat\s*\{\s*signed\s*:\s*(true|false)', astmod):
        fmt_signed[m.group(1)] = m.group(2) == 'true'

    # ---- int_from_attrs
    chars = []
    body = fn_body(abi, 'int_from_attrs')
    mb, _ = block_after(body, r'match\s+param\.format_char\.value\s*')
    for pat, rhs in split_arms(mb or ''):
        pat = pat.strip()
        if pat == '_':
            if nows(rhs) != 'returnOk(None)': note('unrecognised int_from_attrs default arm: ' + nows(rhs))
            continue
        m = re.fullmatch(r"'(.)'", pat); r = re.match(r'\(\s*(\d+)u8\s*,\s*IF::(\w+)\s*,', rhs)
        if not m or not r or r.group(2) not in fmt_signed:
            note('unrecognised int_from_attrs arm: %s => %s' % (nows(pat), nows(rhs))); continue
        chars.append((ord(m.group(1)), int(r.group(1)), fmt_signed[r.group(2)], m.group(1)))
    if not chars: note('unrecognised int_from_attrs table')
    if 'ifis_hex.is_some(){format.radix=ast::IntRadix::Hex;}' not in nows(body): note('unrecognised hex attribute handling in int_from_attrs')
    arg0_max = 0
    m = re.search(r'ifsize\.wrapping_sub\(1\)>=(\d+)\{returnErr', nows(body))
    if m: arg0_max = int(m.group(1))
    else: note('unrecognised arg0 size check in int_from_attrs')
    # ---- other_from_attrs
    pad_chars = []; other = {}
    mb, _ = block_after(fn_body(abi, 'other_from_attrs'), r'match\s+param\.format_char\.value\s*')
    for pat, rhs in split_arms(mb or ''):
        m = re.fullmatch(r"'(.)'", pat.strip()); r = nows(rhs)
        if pat.strip() == '_': continue
        mm = re.fullmatch(r'Ok\(Some\(ArgEncoding::Padding\{size:(\d+)\}\)\)', r)
        if m and mm: pad_chars.append((ord(m.group(1)), int(mm.group(1))))
        elif m and r in ('Ok(Some(ArgEncoding::JumpOffset))', 'Ok(Some(ArgEncoding::JumpTime))'): other[m.group(1)] = r
        else: note('unrecognised other_from_attrs arm: %s => %s' % (nows(pat), r))
    if other.get('o') != 'Ok(Some(ArgEncoding::JumpOffset))' or other.get('t') != 'Ok(Some(ArgEncoding::JumpTime))':
        note('unrecognised o/t arms in other_from_attrs')
    fb = nows(fn_body(abi, 'float_from_attrs'))
    if "'f'=>" not in fb or 'Ok(Some(ArgEncoding::Float{immediate:imm.is_some(),}))' not in fb: note('unrecognised float_from_attrs')
    # ---- string_from_attrs: which characters, bs=0 check
    sb = nows(fn_body(abi, 'string_from_attrs'))
    for ch, txt in (('z', "'z'=>(Some([0,0,0]),LenPrefixed(false),None)"), ('m', "'m'=>(None,LenPrefixed(false),None)"), ('p', "'p'=>(Some([0,0,0]),LenPrefixed(true),None)")):
        if txt not in sb: note('unrecognised string_from_attrs arm for ' + ch)
    for txt in ('(None,Some(bs),LenPrefixed(false))=>StringArgSize::ToBlobEnd{block_size:bs.valueas_,}',
                '(None,Some(bs),LenPrefixed(true))=>StringArgSize::Pascal{block_size:bs.valueas_,}',
                '(Some(len),None,LenPrefixed(false))=>StringArgSize::Fixed{len:len.valueas_,nulless:de.accept_flag("nulless")?.is_some(),}',
                '.map(|[mask,vel,accel]|AcceleratingByteMask{mask,vel,accel})'):
        if txt not in sb: note('unrecognised string_from_attrs size/mask construction: ' + txt[:40])
    bs_checked = bool(re.search(r'ifbs\.value==0\{returnErr\(', sb))
    nf_rejected = 'iflet(StringArgSize::Fixed{nulless:true,..},Some(furibug_span))=(size,furibug){returnErr(' in sb
    # ---- raw.rs
    m = re.search(r'pub\s+type\s+ParamMask\s*=\s*(\w+)\s*;', raw); mask_ty = m.group(1) if m else None
    m = re.search(r'pub\s+type\s+ExtraArg\s*=\s*(\w+)\s*;', raw); extra_ty = m.group(1) if m else None
    if mask_ty not in ('u8', 'u16', 'u32'): note('unrecognised raw::ParamMask: %s' % mask_ty); mask_ty = 'u16'
    if extra_ty not in INT_TY: note('unrecognised raw::ExtraArg: %s' % extra_ty); extra_ty = 'i16'
    mask_bits = 8 * INT_TY[mask_ty][0]
    # ---- contributes_to_param_mask / is_always_immediate
    cb = nows(fn_body(abi, 'contributes_to_param_mask'))
    pad_in_mask = False
    if cb != '!matches!(self,Self::Padding{..})': note('unrecognised contributes_to_param_mask: ' + cb)
    ib, _ = block_after(fn_body(abi, 'is_always_immediate'), r'match\s+self\s*')
    imm = {'str': False, 'off': False, 'time': False, 'pad': False, 'int': False, 'float': False}
    IMM_PAT = {'Self::String{..}': 'str', 'Self::JumpOffset': 'off', 'Self::JumpTime': 'time', 'Self::Padding{..}': 'pad',
               'Self::Integer{immediate:true,..}': 'int', 'Self::Float{immediate:true,..}': 'float'}
    NOT_PAT = {'Self::Integer{immediate:false,..}', 'Self::Float{immediate:false,..}'}
    for pat, rhs in split_arms(ib or ''):
        for p in top_split(pat):
            if p in IMM_PAT and nows(rhs) == 'true': imm[IMM_PAT[p]] = True
            elif p in NOT_PAT and nows(rhs) == 'false': pass
            else: note('unrecognised is_always_immediate arm: %s => %s' % (p, nows(rhs)))
    # ---- AcceleratingByteMask::next, io helpers
    nb = nows(fn_body(abi, 'next'))
    if nb != 'letvalue=self.mask;self.mask=u8::wrapping_add(self.mask,self.vel);self.vel=u8::wrapping_add(self.vel,self.accel);Some(value)':
        note('unrecognised AcceleratingByteMask::next: ' + nb)
    if nows(fn_body(io, 'apply_xor_mask')) != 'for(own_byte,mask_byte)inself.0.iter_mut().zip(mask){*own_byte^=mask_byte;}':
        note('unrecognised Encoded::apply_xor_mask')
    if nows(fn_body(io, 'null_pad')) != 'letmin_size=self.0.len()+1;letfinal_len=matchmin_size%block_size{0=>min_size,r=>min_size+block_size-r,};self.0.resize(final_len,0);':
        note('unrecognised Encoded::null_pad')
    tb = nows(fn_body(io, 'trim_first_nul'))
    if not (tb.startswith('letzero_idx=self.0.iter().position(|&x|x==0).unwrap_or_else(||{') and 'self.len()});' in tb
            and tb.endswith('ifwarn_on_data&&self.0[zero_idx..].iter().any(|&x|x!=0){emitter.as_sized().emit(warning!("stringwillbetruncatedatfirstnull")).ignore();}self.0.truncate(zero_idx);')):
        note('unrecognised Encoded::trim_first_nul')
    efs = nows(fn_body(io, 'encode_fixed_size'))
    if 'ifencoded.len()>=buf_size{returnErr(' not in efs or not efs.endswith('encoded.0.resize(buf_size,0);Ok(encoded)'): note('unrecognised Encoded::encode_fixed_size')
    if nows(fn_body(io, 'write_cstring')) != 'letmutto_write=s.clone();to_write.null_pad(block_size);BinWrite::write_all(self,&to_write.0)': note('unrecognised BinWrite::write_cstring')
    rcb = nows(fn_body(io, 'read_cstring_blockwise'))
    if rcb != 'assert_ne!(block_size,0);letmutout=vec![];whileout.last()!=Some(&0){letold_end=out.len();out.resize(old_end+block_size,0);self.read_exact(&mutout[old_end..])?;}whileout.last()==Some(&0){out.pop();}Ok(Encoded(out))':
        note('unrecognised BinRead::read_cstring_blockwise')
    if nows(fn_body(io, 'read_cstring_exact')) != 'letmutout=Encoded(self.read_byte_vec(num_bytes)?);out.trim_first_nul(emitter,true);Ok(out)': note('unrecognised BinRead::read_cstring_exact')

    # ---- encode_args
    eb = fn_body(lower, 'encode_args')
    ebn = nows(eb)
    WR = r'args_blob\.write_(\w+)\((.*)\)\.expect\("Cursor<Vec>failed\?!"\)'
    def cast_of(expr, src='arg'):
        e = nows(expr)
        if e == src + '.expect_raw().expect_int()': return 'CastNone'
        if e == src + '.expect_raw().expect_int()as_': return 'CastTrunc'
        if e == 'int_arg_in_range(emitter,%s)?' % src: return 'CastChecked'
        return None
    enc_arms = []; enc_jump = None; enc_float = None; enc_str = None; jump_pats = set()
    mb, _ = block_after(eb, r'match\s*\*enc\s*')
    if mb is None: note('not found: match *enc in encode_args')
    for pat, rhs in split_arms(mb or ''):
        pats = top_split(pat); r = nows(rhs)
        if r == 'unreachable!()':
            if set(pats) != {'ArgEncoding::Integer{arg0:true,..}', 'ArgEncoding::Padding{..}'}: note('unrecognised unreachable arm in encode_args: ' + '|'.join(pats))
            continue
        if r.startswith('panic!("unexpectedintegersize'):
            if pats != ['ArgEncoding::Integer{size,..}']: note('unrecognised panic arm in encode_args: ' + '|'.join(pats))
            continue
        if pats == ['ArgEncoding::Float{..}']:
            m = re.fullmatch(WR, r)
            if m and m.group(1) == 'f32' and m.group(2) == 'arg.expect_raw().expect_float()': enc_float = 4
            else: note('unrecognised Float arm in encode_args: ' + r)
            continue
        if len(pats) == 1 and pats[0].startswith('ArgEncoding::String{'):
            if pats[0] != 'ArgEncoding::String{size:size_spec,mask,furibug,ty_color:_}': note('unrecognised String pattern in encode_args: ' + pats[0])
            enc_str = rhs; continue
        m = re.fullmatch(WR, r)
        c = cast_of(m.group(2)) if m else None
        if not m or m.group(1) not in INT_TY or c is None:
            note('unrecognised integer arm in encode_args: %s => %s' % ('|'.join(pats), r)); c = 'CastUnrec'
            wb, ws = (0, True)
        else:
            wb, ws = INT_TY[m.group(1)]
        for p in pats:
            if p in ('ArgEncoding::JumpOffset', 'ArgEncoding::JumpTime'):
                jump_pats.add(p); enc_jump = (wb, ws, c); continue
            mm = re.fullmatch(r'ArgEncoding::Integer\{size:(\d+),format:ast::IntFormat\{signed:(true|false),radix:_\},\.\.\}', p)
            if not mm: note('unrecognised pattern in encode_args: ' + p); continue
            enc_arms.append((int(mm.group(1)), mm.group(2) == 'true', wb, ws, c))
    if jump_pats != {'ArgEncoding::JumpOffset', 'ArgEncoding::JumpTime'} or enc_jump is None:
        note('unrecognised JumpOffset/JumpTime arm in encode_args'); enc_jump = enc_jump or (0, True, 'CastUnrec')
    if enc_float is None: enc_float = 0
    # padding writes
    enc_pad = []
    m = re.search(r'ifletArgEncoding::Padding\{size\}=enc\{matchsize\{(.*?)\}continue;\}', ebn)
    if m:
        for a in m.group(1).split(','):
            if not a: continue
            mm = re.fullmatch(r'(\d+)=>args_blob\.write_(\w+)\(0\)\.expect\("Cursor<Vec>failed\?!"\)', a)
            if mm and mm.group(2) in INT_TY: enc_pad.append((int(mm.group(1)), INT_TY[mm.group(2)][0]))
            elif a != '_=>unreachable!()': note('unrecognised padding write in encode_args: ' + a)
    else: note('unrecognised padding handling in encode_args')
    # arg0
    arg0_cast = None
    m = re.search(r'ifextra_arg\.is_none\(\)\{assert!\(!first_normal_arg\.expect_raw\(\)\.is_reg,"checkedabove"\);extra_arg=Some\((.*?)\);\}else\{', ebn)
    if m: arg0_cast = cast_of(m.group(1), 'first_normal_arg')
    if arg0_cast is None: note('unrecognised arg0 handling in encode_args'); arg0_cast = 'CastUnrec'
    if 'matcharg_encodings_iter.peek(){Some(&ArgEncoding::Integer{arg0:true,..})=>{arg_encodings_iter.next();letfirst_normal_arg=args_iter.next().expect("typecheckeralreadycheckedarity");' not in ebn:
        note('unrecognised arg0 prologue in encode_args')
    # the rest of the control skeleton
    for what, txt in (
        ('register check', 'if!hooks.has_registers(){ifletSome(arg_that_is_reg)=args.iter().find(|arg|arg.expect_raw().is_reg){returnErr('),
        ('mask initialisation', 'letmutparam_mask:raw::ParamMask=0;letmutcurrent_param_mask_bit:raw::ParamMask=1;'),
        ('arity assertion', 'assert!(args_iter.len()<=arg_encodings_iter.len());forencinarg_encodings_iter.by_ref(){'),
        ('argument fetch', 'letarg=args_iter.next().expect("functionarityalreadychecked");'),
        ('arg_bit', 'letarg_bit=match&arg.value{LowerArg::Raw(raw)ifraw.is_reg=>current_param_mask_bit,LowerArg::Local{..}=>current_param_mask_bit,LowerArg::DiffSwitch{..}=>panic!("shouldbehandledearlier"),_=>0,};'),
        ('mask update', 'ifenc.contributes_to_param_mask(){ifenc.is_always_immediate()&&arg_bit!=0{'),
        ('mask update (2)', '}else{param_mask|=arg_bit;}current_param_mask_bit<<=1;}elseifarg_bit!=0{'),

        ('result', 'param_mask:matchinstr.user_param_mask{Some(user_provided_mask)=>user_provided_mask,None=>param_mask,},args_blob:args_blob.into_inner(),extra_arg,'),
    ):
        if txt not in ebn: note('unrecognised %s in encode_args' % what)
    # the too-many-arguments check: the original one can never fire (trailing_zeros of a u16 is at most 16); the repaired code
    # reports a register argument once every bit of the mask is taken
    old_chk = 'ifcurrent_param_mask_bit.trailing_zeros()>raw::ParamMask::BITSas_{returnErr(' in ebn
    new_chk = ('letarg_is_reg=matches!(&arg.value,LowerArg::Raw(SimpleArg{is_reg:true,..})|LowerArg::Local{..});'
               'ifarg_is_reg&&enc.contributes_to_param_mask()&&current_param_mask_bit==0{returnErr(') in ebn
    if old_chk and not new_chk: overflow_checked = False
    elif new_chk and not old_chk: overflow_checked = True
    else: note('unrecognised too-many-arguments check in encode_args'); overflow_checked = False
    # string arm
    nul = {'block': False, 'pascal': False, 'fixed': False, 'nulless': False}
    sn = nows(enc_str or '')
    if enc_str is None: note('not found: String arm in encode_args')
    sm, _ = block_after(enc_str or '', r'match\s+size_spec\s*')   # the first `match size_spec` (eager NUL)
    NULPAT = {'StringArgSize::ToBlobEnd{..}': 'block', 'StringArgSize::Pascal{..}': 'pascal',
              'StringArgSize::Fixed{nulless:false,..}': 'fixed', 'StringArgSize::Fixed{nulless:true,..}': 'nulless'}
    for pat, rhs in split_arms(sm or ''):
        r = nows(rhs)
        for p in top_split(pat):
            if p not in NULPAT: note('unrecognised size pattern in string arm: ' + p)
            elif r == "encoded.0.push(b'\\0')": nul[NULPAT[p]] = True
            elif r != '{}': note('unrecognised eager-NUL action: ' + r)
    STEPS = [
        'letstring=arg.expect_raw().expect_string();',
        'letmutencoded=Encoded::encode(&sp!(arg.span=>string),DEFAULT_ENCODING).map_err(|e|emitter.emit(e))?;',
        'matchsize_spec{',
        'iffuribug{ifletSome(furibug_bytes)=state.furibug_bytes.take(){encoded.0.extend(furibug_bytes.0);}}',
        'matchsize_spec{StringArgSize::ToBlobEnd{block_size}|StringArgSize::Pascal{block_size}=>{ifencoded.len()%block_size!=0{encoded.null_pad(block_size);}},',
        'StringArgSize::Fixed{len,nulless:_}=>{ifencoded.len()>len{returnErr(',
        'encoded.0.resize(len,b\'\\0\');},}',
        'encoded.apply_xor_mask(mask);',
        'iffuribug&&string.starts_with("|"){state.furibug_bytes=Some(encoded.clone());}',
        'ifmatches!(size_spec,StringArgSize::Pascal{..}){args_blob.write_u32(encoded.len()as_).expect("Cursor<Vec>failed?!");}',
        'args_blob.write_all(&encoded.0).expect("Cursor<Vec>failed?!");',
    ]
    NUL_ARMS = r"(\|?StringArgSize::\w+\{[^{}]*\}(\|StringArgSize::\w+\{[^{}]*\})*=>(encoded\.0\.push\(b'\\0'\)|\{\}),?)+\}"
    ERR_BODY = r"emitter\.emit\(error!\([^;]*\)\)\)\}"
    if enc_str is not None:
        strict_steps(sn, STEPS, {3: NUL_ARMS, 6: ERR_BODY}, 'the string arm of encode_args')

    # ---- decode_args_with_abi
    db = fn_body(early, 'decode_args_with_abi'); dbn = nows(db)
    dec_arms = []; dec_jump = None; dec_float = None; dec_str = None; djump = set(); dec_arg0_signed = None
    mb, _ = block_after(db, r'let\s+value\s*=\s*match\s*\*enc\s*')
    if mb is None: note('not found: match *enc in decode_args_with_abi')
    RD = r'\{decrease_len\(emitter,&mutremaining_len,(\d+)\)\?;ScalarValue::Int\(blob_reader\.read_(\w+)\(\)\.expect\("alreadycheckedlen"\)asi32\)\}'
    for pat, rhs in split_arms(mb or ''):
        pats = top_split(pat); r = nows(rhs)
        if r == 'unreachable!()':
            if pats != ['ArgEncoding::Padding{..}']: note('unrecognised unreachable arm in decode_args_with_abi: ' + '|'.join(pats))
            continue
        if r.startswith('panic!("unexpectedintegersize'):
            if pats != ['ArgEncoding::Integer{size,..}']: note('unrecognised panic arm in decode_args_with_abi')
            continue
        if pats == ['ArgEncoding::Integer{arg0:true,..}']:
            if r == '{letextra_arg=pseudo_arg0.take().expect("timelinearginsigfornon-timelinelanguage");ScalarValue::Int(extra_argas_)}':
                dec_arg0_signed = INT_TY[extra_ty][1]
            else: note('unrecognised arg0 arm in decode_args_with_abi: ' + r)
            continue
        if pats == ['ArgEncoding::Float{..}']:
            if r == '{decrease_len(emitter,&mutremaining_len,4)?;ScalarValue::Float(f32::from_bits(blob_reader.read_u32().expect("alreadycheckedlen")))}': dec_float = (4, 4)
            else: note('unrecognised Float arm in decode_args_with_abi: ' + r)
            continue
        if len(pats) == 1 and pats[0].startswith('ArgEncoding::String{'):
            if pats[0] != 'ArgEncoding::String{size:size_spec,mask,furibug,ty_color:_}': note('unrecognised String pattern in decode_args_with_abi')
            dec_str = r; continue
        m = re.fullmatch(RD, r)
        if not m or m.group(2) not in INT_TY:
            note('unrecognised integer arm in decode_args_with_abi: %s => %s' % ('|'.join(pats), r)); ln, rb, rs = 0, 0, True
        else:
            ln = int(m.group(1)); rb, rs = INT_TY[m.group(2)]
        for p in pats:
            if p in ('ArgEncoding::JumpOffset', 'ArgEncoding::JumpTime'): djump.add(p); dec_jump = (ln, rb, rs); continue
            mm = re.fullmatch(r'ArgEncoding::Integer\{arg0:false,size:(\d+),format:ast::IntFormat\{signed:(true|false),radix:_\},\.\.\}', p)
            if not mm: note('unrecognised pattern in decode_args_with_abi: ' + p); continue
            dec_arms.append((int(mm.group(1)), mm.group(2) == 'true', ln, rb, rs))
    if djump != {'ArgEncoding::JumpOffset', 'ArgEncoding::JumpTime'} or dec_jump is None:
        note('unrecognised JumpOffset/JumpTime arm in decode_args_with_abi'); dec_jump = dec_jump or (0, 0, True)
    if dec_float is None: dec_float = (0, 0)
    if dec_arg0_signed is None: dec_arg0_signed = True
    dec_pad = []
    m = re.search(r'ifletArgEncoding::Padding\{size\}=enc\{decrease_len\(emitter,&mutremaining_len,\*sizeasusize\)\?;letraw_value=matchsize\{(.*?)\};args\.push\(SimpleArg\{value:ScalarValue::Int\(raw_value\),is_reg:false\}\);continue;\}', dbn)
    if m:
        for a in m.group(1).split(','):
            if not a: continue
            mm = re.fullmatch(r'(\d+)=>blob_reader\.read_(\w+)\(\)\.expect\("alreadycheckedlen"\)asi32', a)
            if mm and mm.group(2) in INT_TY: dec_pad.append((int(mm.group(1)),) + INT_TY[mm.group(2)])
            elif a != '_=>unreachable!()': note('unrecognised padding read in decode_args_with_abi: ' + a)
    else: note('unrecognised padding handling in decode_args_with_abi')
    for what, txt in (
        ('initial state', 'letmutparam_mask=instr.param_mask;letmutblob_reader=std::io::Cursor::new(&instr.args_blob);letmutargs=vec![];letmutpseudo_arg0=instr.extra_arg;letmutremaining_len=instr.args_blob.len();'),
        ('decrease_len', 'if*remaining_len<amount{returnErr(emitter.emit(error!("notenoughbytesininstruction")));}*remaining_len-=amount;Ok(())'),
        ('mask consumption', 'letcan_be_param=ifenc.contributes_to_param_mask(){letvalue=!enc.is_always_immediate()&&param_mask&1==1;param_mask>>=1;value}else{false};'),
        ('is_reg', 'letis_reg=matchreg_style{RegisterEncodingStyle::ByParamMask=>can_be_param,'),
        ('leftover warning', 'ifblob_reader.position()!=blob_reader.get_ref().len()asu64{emitter.emit(warning!('),
        ('mask bits warning', 'ifparam_mask!=0&&matches!(reg_style,RegisterEncodingStyle::ByParamMask){emitter.emit(warning!('),
    ):
        if txt not in dbn: note('unrecognised %s in decode_args_with_abi' % what)
    DSTEPS = [
        'letread_len=matchsize_spec{StringArgSize::ToBlobEnd{..}=>remaining_len,StringArgSize::Pascal{..}=>{decrease_len(emitter,&mutremaining_len,4)?;blob_reader.read_u32().expect("alreadycheckedlen")asusize},StringArgSize::Fixed{len,nulless:_}=>len,};',
        'decrease_len(emitter,&mutremaining_len,read_len)?;',
        'letmutencoded=Encoded(blob_reader.read_byte_vec(read_len).expect("alreadycheckedlen"));',
        'encoded.apply_xor_mask(mask);',
        "ifletStringArgSize::Fixed{nulless:true,..}=size_spec{if!encoded.0.contains(&b'\\0'){encoded.0.push(b'\\0');}};",
        'letwarn_on_trimmed_data=!furibug;',
        'encoded.trim_first_nul(emitter,warn_on_trimmed_data);',
        'letstring=encoded.decode(DEFAULT_ENCODING).map_err(|e|emitter.emit(e))?;ScalarValue::String(string)',
    ]
    if dec_str is not None:
        strict_steps(dec_str, DSTEPS, {}, 'the string arm of decode_args_with_abi')
    else: note('not found: String arm in decode_args_with_abi')
    # raise_raw_ins_args: padding check and removal
    rb_ = nows(fn_body(early, 'raise_raw_ins_args'))
    for what, txt in (('arg count check', 'ifargs.len()!=encodings.len(){returnErr('),
                      ('nonzero padding check', 'matches!(enc,ArgEncoding::Padding{..})&&value.as_const_int().unwrap()!=0'),
                      ('padding removal', 'raised_args.retain(|_|!matches!(arg_iter.next().unwrap(),ArgEncoding::Padding{..}));')):
        if txt not in rb_: note('unrecognised %s in raise_raw_ins_args' % what)

    # ---- defect switches
    ivn = nows(fn_body(lintr, 'into_vec'))
    if 'letmutout_args=vec![None;num_instr_args];' in ivn and 'Ok(out_args.into_iter().map(|x|x.expect("argwasnotfilledin!(bug)")).collect::<Vec<_>>())' in ivn:
        place_with_padding = False
    elif 'letmutout_args=vec![None;num_encodings];' in ivn and 'filter(|(index,_)|!padding_indices.contains(index))' in ivn:
        place_with_padding = True
    else:
        note('unrecognised allocation in IntrinsicBuilder::into_vec'); place_with_padding = False
    fan = nows(fn_body(intr, 'from_abi'))
    if 'letmutencodings=abi.arg_encodings().enumerate().collect::<Vec<_>>();' not in fan or 'helper.find_and_remove_padding(&mutencodings);' not in fan or 'num_instr_args:encodings.len(),' not in fan:
        note('unrecognised index computation in IntrinsicInstrAbiParts::from_abi')
    mp = nows(fn_body(defs, 'match_params_to_args')); tc = nows(tyck)
    old_mp = 'letpositional_pairs=Box::new(self.params.iter().zip(args));' in mp
    new_mp = 'letpositional_pairs=Box::new(self.params.iter().filter(|param|param.default.is_none()).zip(args));' in mp
    old_tc = 'zip!(1..,args,&siggy.params).map(|(param_num,arg,param)|{' in tc
    new_tc = 'zip!(1..,args,siggy.params.iter().filter(|param|param.default.is_none())).map(|(param_num,arg,param)|{' in tc
    if old_mp and old_tc: skips = False
    elif new_mp and new_tc: skips = True
    else: note('unrecognised matching of call arguments to parameters (match_params_to_args / check_expr_call)'); skips = False
    if nows(fn_body(defs, 'min_args')) != 'self.params.iter().fold(0,|count,param|count+param.default.is_none()asusize)' or nows(fn_body(defs, 'max_args')) != 'self.min_args()':
        note('unrecognised Signature::min_args/max_args')
    sgn = nows(fn_body(abi, 'abi_to_signature'))
    for txt in ('|ArgEncoding::Integer{arg0:false,refty_color,..}=>Info{ty:ScalarType::Int,default:None,reg_ok:true,',
                '|ArgEncoding::Integer{arg0:true,refty_color,..}=>Info{ty:ScalarType::Int,default:None,reg_ok:false,',
                '|ArgEncoding::JumpOffset|ArgEncoding::JumpTime=>Info{ty:ScalarType::Int,default:None,reg_ok:false,',
                '|ArgEncoding::Padding{..}=>Info{ty:ScalarType::Int,default:Some(sp!(0.into())),reg_ok:false,',
                '|ArgEncoding::Float{..}=>Info{ty:ScalarType::Float,default:None,reg_ok:true,',
                '|ArgEncoding::String{..}=>Info{ty:ScalarType::String,default:None,reg_ok:true,'):
        if txt not in sgn: note('unrecognised abi_to_signature arm: ' + txt[:40])
    vb = nows(fn_body(abi, 'validate'))
    for txt in ("for&(char,count)in&[('o',o_count),('t',t_count)][..]{ifcount>1{", 'ift_count==1&&o_count==0{',
                'ifencodings.iter().skip(1).any(|c|matches!(c,Enc::Integer{arg0:true,..})){',
                'ifencodings.iter().rev().skip(1).any(|c|matches!(c,Enc::String{size:StringArgSize::ToBlobEnd{..},..})){'):
        if txt not in vb: note('unrecognised check in abi.rs validate: ' + txt[:40])

    # ---- output
    def lst(xs): return '[' + '; '.join(xs) + ']'
    t = '(* GENERATED by gen/argcodec.py from src/llir/{abi,lower,raise/early,intrinsic,lower/intrinsic}.rs, src/io.rs, src/raw.rs,\n   src/ast/mod.rs, src/context/defs.rs, src/passes/type_check.rs -- do not edit *)\n'
    t += 'From TV Require Import Base.I32 Model.Abi.\nOpen Scope Z_scope.\n'
    t += 'Definition gen_codec : codec := {|\n'
    t += '  cd_chars := %s;\n' % lst('(%d, (%d, %s)) (* %s *)' % (c, s, b(sg), ch) for c, s, sg, ch in chars)
    t += '  cd_arg0_maxsize := %d;\n' % arg0_max
    t += '  cd_pad_chars := %s;\n' % lst('(%d, %d)' % p for p in pad_chars)
    t += '  cd_enc := %s;\n' % lst('{| ea_size := %d; ea_signed := %s; ea_wbytes := %d%%nat; ea_wsigned := %s; ea_cast := %s |}' % (s, b(sg), wb, b(ws), c) for s, sg, wb, ws, c in enc_arms)
    t += '  cd_enc_jump := (%d%%nat, %s, %s);\n' % (enc_jump[0], b(enc_jump[1]), enc_jump[2])
    t += '  cd_enc_pad := %s;\n' % lst('(%d, %d%%nat)' % p for p in enc_pad)
    t += '  cd_enc_float := %d%%nat;\n' % enc_float
    t += '  cd_arg0 := (%d%%nat, %s, %s);\n' % (INT_TY[extra_ty][0], b(INT_TY[extra_ty][1]), arg0_cast)
    t += '  cd_dec := %s;\n' % lst('{| da_size := %d; da_signed := %s; da_len := %d; da_rbytes := %d%%nat; da_rsigned := %s |}' % (s, b(sg), ln, rb, b(rs)) for s, sg, ln, rb, rs in dec_arms)
    t += '  cd_dec_jump := (%d, %d%%nat, %s);\n' % (dec_jump[0], dec_jump[1], b(dec_jump[2]))
    t += '  cd_dec_pad := %s;\n' % lst('(%d, (%d%%nat, %s))' % (s, n, b(sg)) for s, n, sg in dec_pad)
    t += '  cd_dec_float := (%d, %d%%nat);\n' % dec_float
    t += '  cd_dec_arg0_signed := %s;\n' % b(dec_arg0_signed)
    t += '  cd_mask_bits := %d;\n  cd_pad_in_mask := %s;\n  cd_dec_arg0_in_mask := true;\n' % (mask_bits, b(pad_in_mask))
    t += '  cd_imm_str := %s; cd_imm_off := %s; cd_imm_time := %s; cd_imm_pad := %s; cd_imm_int := %s; cd_imm_float := %s;\n' % tuple(b(imm[k]) for k in ('str', 'off', 'time', 'pad', 'int', 'float'))
    t += '  cd_nul_block := %s; cd_nul_pascal := %s; cd_nul_fixed := %s; cd_nul_nulless := %s;\n' % tuple(b(nul[k]) for k in ('block', 'pascal', 'fixed', 'nulless'))
    t += '  cd_pascal_prefix := 4%nat;\n'
    t += '  cd_bs_checked := %s;\n  cd_nulless_furibug_rejected := %s;\n  cd_mask_overflow_checked := %s;\n  cd_place_with_padding := %s;\n  cd_match_skips_padding := %s\n|}.\n' % (b(bs_checked), b(nf_rejected), b(overflow_checked), b(place_with_padding), b(skips))
    t += 'Definition gen_unrecognised : nat := %d%%nat.\n' % len(NOTES)
    t += '(* translator notes:\n' + ''.join('   %s\n' % n.replace('*)', '* )').replace('(*', '( *') for n in NOTES) + '*)\n'
    write_if_changed(out, t)
    for n in NOTES: print('argcodec: ' + n)

if __name__ == '__main__':
    main(sys.argv[1], sys.argv[2])
