//! PRNG, panic capture, small helpers.

/// SplitMix64: every random choice in the harness derives from one state.
#[derive(Clone, Debug)]
pub struct Rng(pub u64);

impl Rng {
    pub fn new(seed: u64) -> Self { Rng(seed ^ 0x9E3779B97F4A7C15) }
    pub fn next_u64(&mut self) -> u64 {
        self.0 = self.0.wrapping_add(0x9E3779B97F4A7C15);
        let mut z = self.0;
        z = (z ^ (z >> 30)).wrapping_mul(0xBF58476D1CE4E5B9);
        z = (z ^ (z >> 27)).wrapping_mul(0x94D049BB133111EB);
        z ^ (z >> 31)
    }
    pub fn below(&mut self, n: u64) -> u64 { if n == 0 { 0 } else { self.next_u64() % n } }
    pub fn range(&mut self, lo: i64, hi: i64) -> i64 { lo + self.below((hi - lo + 1) as u64) as i64 }
    pub fn chance(&mut self, num: u64, den: u64) -> bool { self.below(den) < num }
    pub fn pick<'a, T>(&mut self, xs: &'a [T]) -> &'a T { &xs[self.below(xs.len() as u64) as usize] }
    pub fn fork(&mut self) -> Rng { Rng(self.next_u64()) }
}

/// Run `f`, turning a panic into `Err(message)`. The default panic hook is silenced while running.
pub fn catch<T>(f: impl FnOnce() -> T) -> Result<T, String> {
    use std::panic;
    let prev = panic::take_hook();
    panic::set_hook(Box::new(|_| {}));
    let r = panic::catch_unwind(panic::AssertUnwindSafe(f));
    panic::set_hook(prev);
    r.map_err(|e| {
        if let Some(s) = e.downcast_ref::<&str>() { s.to_string() }
        else if let Some(s) = e.downcast_ref::<String>() { s.clone() }
        else { "<non-string panic>".to_string() }
    })
}

pub fn seed_from_env() -> u64 {
    std::env::var("VERIF_SEED").ok().and_then(|s| s.parse::<u64>().ok()).unwrap_or(1)
}

/// Parse `--key value` style arguments.
pub fn arg_value(args: &[String], key: &str) -> Option<String> {
    args.iter().position(|a| a == key).and_then(|i| args.get(i + 1).cloned())
}

/// Root of the truth checkout the harness was built against (overridable for mutation sandboxes).
pub fn repo_root() -> String {
    std::env::var("VERIF_REPO").unwrap_or_else(|_| "/repo".to_string())
}

/// Scratch directory for a property (under /verif/work, or $VERIF_WORK).
pub fn work_dir(prop: &str) -> std::path::PathBuf {
    let base = std::env::var("VERIF_WORK").unwrap_or_else(|_| {
        let exe = std::env::current_exe().ok();
        // <verif>/harness/target/debug/<bin>  ->  <verif>/work
        exe.and_then(|e| e.ancestors().nth(4).map(|p| p.join("work").to_string_lossy().to_string()))
            .unwrap_or_else(|| "/verif/work".to_string())
    });
    let d = std::path::PathBuf::from(base).join(prop);
    let _ = std::fs::create_dir_all(&d);
    d
}
