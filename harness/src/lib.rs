//! Shared utilities for the verification harness binaries.
pub mod util;
