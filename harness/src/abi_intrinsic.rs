//! Intrinsic placement cases for C12: a statement that lowers to an intrinsic whose signature has padding in
//! arbitrary positions (IntrinsicInstrAbiParts::from_abi + IntrinsicBuilder::into_vec + encode_args).
use std::collections::BTreeMap;
use verif_harness::util::*;
use crate::common::*;

#[derive(Clone, Copy, Debug, PartialEq)]
enum Ty { I, F }
impl Ty { fn coq(self) -> &'static str { match self { Ty::I => "TInt", Ty::F => "TFloat" } } fn name(self) -> &'static str { match self { Ty::I => "int", Ty::F => "float" } } }

#[derive(Clone, Copy, Debug)]
enum Kind { Jmp, Interrupt, Assign(&'static str, Ty), Bin(&'static str, Ty), Un(Ty), CountJmp, CondJmp(&'static str, Ty) }

fn one_line(s: &str) -> String { s.replace('\n', "\u{23ce}").replace('\t', " ") }

pub fn run(rng: &mut Rng, n: usize) {
    let mut hist: BTreeMap<String, u64> = BTreeMap::new();
    let mut bump = |k: String, hist: &mut BTreeMap<String, u64>| { *hist.entry(k).or_insert(0) += 1; };
    for _ in 0..n {
        let mut r = rng.fork();
        let kind = match r.below(8) {
            0 => Kind::Jmp, 1 => Kind::Interrupt,
            2 => Kind::Assign(*r.pick(&["=", "+=", "-="]), if r.chance(1, 3) { Ty::F } else { Ty::I }),
            3 | 4 => Kind::Bin(*r.pick(&["+", "-", "*"]), if r.chance(1, 3) { Ty::F } else { Ty::I }),
            5 => Kind::Un(Ty::F), 6 => Kind::CountJmp, _ => Kind::CondJmp(*r.pick(&["==", "!=", "<"]), if r.chance(1, 3) { Ty::F } else { Ty::I }),
        };
        let ienc = |r: &mut Rng| P::Int { c: *r.pick(&['S', 'S', 'S', 'U', 's', 'C']), imm: false, arg0: false, hex: false };
        let of_ty = |t: Ty, r: &mut Rng| match t { Ty::I => ienc(r), Ty::F => if r.chance(1, 10) { ienc(r) } else { P::Float { imm: false } } };
        // logical parameters in the order from_abi wants them: outputs, then plain args
        let (outs, plains, has_jump): (Vec<Ty>, Vec<Ty>, bool) = match kind {
            Kind::Jmp => (vec![], vec![], true), Kind::Interrupt => (vec![], vec![Ty::I], false),
            Kind::Assign(_, t) => (vec![t], vec![t], false), Kind::Bin(_, t) => (vec![t], vec![t, t], false),
            Kind::Un(t) => (vec![t], vec![t], false), Kind::CountJmp => (vec![Ty::I], vec![], true), Kind::CondJmp(_, t) => (vec![], vec![t, t], true),
        };
        let mut ps: Vec<P> = vec![];
        for &t in &outs { ps.push(if t == Ty::F && r.chance(1, 4) { ienc(&mut r) } else { of_ty(t, &mut r) }); }
        for &t in &plains { ps.push(of_ty(t, &mut r)); }
        if has_jump {
            let at = r.below(ps.len() as u64 + 1) as usize;
            match r.below(4) { 0 => { ps.insert(at, P::Off); }, 1 => { ps.insert(at, P::Time); ps.insert(at + 1, P::Off); }, _ => { ps.insert(at, P::Off); ps.insert(at + 1, P::Time); } }
        }
        // padding anywhere
        let npad = match r.below(6) { 0 | 1 => 0, 2 | 3 => 1, 4 => 2, _ => 3 };
        let trailing_only = r.chance(1, 2);
        for _ in 0..npad { let at = if trailing_only { ps.len() } else { r.below(ps.len() as u64 + 1) as usize }; ps.insert(at, P::Pad(if r.chance(1, 2) { '_' } else { '-' })); }
        if r.chance(1, 15) && ps.len() >= 2 { let a = r.below(ps.len() as u64) as usize; let b_ = r.below(ps.len() as u64) as usize; ps.swap(a, b_); bump("shuffled".into(), &mut hist); }
        let pad_before_last = { let last = ps.iter().rposition(|p| !p.is_pad()); match last { Some(l) => ps[..l].iter().any(|p| p.is_pad()), None => false } };
        bump(format!("padding_{}", if npad == 0 { "none" } else if pad_before_last { "interior" } else { "trailing" }), &mut hist);

        // the statement and the builder contents
        let ireg = |r: &mut Rng| A { v: V::Int(*r.pick(&[10000, 10001, 10002, 10003])), reg: true };
        let freg = |r: &mut Rng| A { v: V::Float((*r.pick(&[10004, 10005, 10006, 10007]) as f32).to_bits()), reg: true };
        let reg = |t: Ty, r: &mut Rng| match t { Ty::I => ireg(r), Ty::F => freg(r) };
        let lit = |t: Ty, r: &mut Rng| match t { Ty::I => A::int(*r.pick(&[0, 1, -1, 5, 100, 200, 70000, -40000, 255])), Ty::F => A { v: V::Float(*r.pick(&[0x3fc00000u32, 0x40200000, 0xbf800000, 0x42c80000])), reg: false } };
        let (stmt, b_jump, b_plain, b_outs, kind_coq, decl): (String, Option<(A, Option<A>)>, Vec<A>, Vec<A>, String, String) = match kind {
            Kind::Jmp => {
                let t = if r.chance(1, 2) { Some(A::int(*r.pick(&[7, 0, 300, -1]))) } else { None };
                (format!("goto lbl{};", match &t { Some(a) => format!(" @ {}", a.src()), None => "".into() }), Some((A::int(0), t)), vec![], vec![], "IJmp".into(), "Jmp()".into())
            },
            Kind::Interrupt => { let v = A::int(*r.pick(&[1, 3, 7, 300])); (format!("interrupt[{}]:", v.src()), None, vec![v], vec![], "IInterruptLabel".into(), "Interrupt()".into()) },
            Kind::Assign(op, t) => {
                let o = reg(t, &mut r); let p = if r.chance(1, 3) { reg(t, &mut r) } else { lit(t, &mut r) };
                (format!("{} {} {};", o.src(), op, p.src()), None, vec![p], vec![o], format!("(IAssignOp {})", t.coq()), format!("AssignOp(op=\"{}\";type=\"{}\")", op, t.name()))
            },
            Kind::Bin(op, t) => {
                // keep the output distinct from the operands and at least one operand a register, so that neither const
                // folding nor the `a = a op b` shortcut applies
                let o = match t { Ty::I => A { v: V::Int(10000), reg: true }, Ty::F => A { v: V::Float((10004f32).to_bits()), reg: true } };
                let a = match t { Ty::I => A { v: V::Int(10001), reg: true }, Ty::F => A { v: V::Float((10005f32).to_bits()), reg: true } };
                let b_ = if r.chance(1, 2) { match t { Ty::I => A { v: V::Int(10002), reg: true }, Ty::F => A { v: V::Float((10006f32).to_bits()), reg: true } } } else { lit(t, &mut r) };
                (format!("{} = {} {} {};", o.src(), a.src(), op, b_.src()), None, vec![a, b_], vec![o], format!("(IBinOp {} {})", t.coq(), t.coq()), format!("BinOp(op=\"{}\";type=\"{}\")", op, t.name()))
            },
            Kind::Un(t) => {
                let o = A { v: V::Float((10004f32).to_bits()), reg: true }; let a = A { v: V::Float((10005f32).to_bits()), reg: true };
                (format!("{} = sin({});", o.src(), a.src()), None, vec![a], vec![o], format!("(IUnOp {} {})", t.coq(), t.coq()), "UnOp(op=\"sin\";type=\"float\")".into())
            },
            Kind::CountJmp => { let o = ireg(&mut r); (format!("if (--{}) goto lbl;", o.src()), Some((A::int(0), None)), vec![], vec![o], "ICountJmp".into(), "CountJmp()".into()) },
            Kind::CondJmp(op, t) => {
                let a = reg(t, &mut r); let b_ = if r.chance(1, 2) { reg(t, &mut r) } else { lit(t, &mut r) };
                (format!("if ({} {} {}) goto lbl;", a.src(), op, b_.src()), Some((A::int(0), None)), vec![a, b_], vec![], format!("(ICondJmp {})", t.coq()), format!("CondJmp(op=\"{}\";type=\"{}\")", op, t.name()))
            },
        };
        bump(format!("kind_{}", kind_coq.trim_matches(|c| c == '(' || c == ')').split(' ').next().unwrap()), &mut hist);
        let mapfile = Lang::Anm.mapfile(&[(900, sig_text(&ps))], &format!("!ins_intrinsics\n900 {}\n", decl));
        let text = Lang::Anm.source(&format!("lbl:\n    {}\n", stmt));
        let input = format!("anm12|{}|{}", one_line(&mapfile), one_line(&text));
        let res = compile(Lang::Anm, &mapfile, &text);
        bump(format!("compile_{}", res.class()), &mut hist);
        let opt = |x: &Option<A>| match x { Some(a) => format!("(Some ({}))", a.coq()), None => "None".into() };
        let builder = format!("{{| b_jump := {}; b_plain := {}; b_outputs := {} |}}",
                              match &b_jump { Some((o, t)) => format!("Some ({}, {})", o.coq(), opt(t)), None => "None".into() }, args_coq(&b_plain), args_coq(&b_outs));
        let obs = match &res {
            Outcome::Ok((c, _, _)) => { let ins = c.instrs(); if ins.len() != 1 { bump("skipped_multi_instr".into(), &mut hist); continue; } format!("(IOk {})", Obs::of(&ins[0]).coq()) },
            Outcome::Err(_) => "IErr".into(), Outcome::Panic(_) => "IPanic".into(),
        };
        println!("PLACE\tKPlace {} {} {} {}\t{}", kind_coq, sig_coq(&ps), builder, obs, input);
        match &res {
            Outcome::Panic(p) => println!("ORACLE-FAIL\t{}: panic while compiling an intrinsic statement\t{}\t{}", crate::panic_class(p), one_line(p), input),
            Outcome::Ok((c, _, _)) => {
                // (O) decompile with intrinsics on, print, recompile: same instruction
                match decompile(Lang::Anm, &mapfile, c, true) {
                    Outcome::Ok((file, _, _)) => {
                        let text2 = truth::fmt::stringify(&file);
                        match compile(Lang::Anm, &mapfile, &text2) {
                            Outcome::Ok((c2, _, _)) => {
                                let (a, b_): (Vec<Obs>, Vec<Obs>) = (c.instrs().iter().map(Obs::of).collect(), c2.instrs().iter().map(Obs::of).collect());
                                if a != b_ { println!("ORACLE-FAIL\tintrinsic-roundtrip: intrinsic statement changes under compile+decompile+compile\t{:?} vs {:?} via {}\t{}", a, b_, one_line(&text2), input); }
                            },
                            Outcome::Err(d) => println!("ORACLE-FAIL\tintrinsic-roundtrip: decompiled intrinsic statement does not recompile\t{} via {}\t{}", one_line(&d.chars().take(200).collect::<String>()), one_line(&text2), input),
                            Outcome::Panic(p) => println!("ORACLE-FAIL\tpanic: while recompiling a decompiled intrinsic statement\t{}\t{}", one_line(&p), input),
                        }
                    },
                    Outcome::Err(d) => println!("ORACLE-FAIL\tintrinsic-roundtrip: error while decompiling a compiled intrinsic statement\t{}\t{}", one_line(&d.chars().take(200).collect::<String>()), input),
                    Outcome::Panic(p) => println!("ORACLE-FAIL\tpanic: while decompiling a compiled intrinsic statement\t{}\t{}", one_line(&p), input),
                }
            },
            Outcome::Err(_) => {},
        }
    }
    println!("STATS\thist={:?}", hist);
}
