//! C15 harness: text in string arguments and metadata survives compile and decompile.
//!
//!   sjis            sweep of the two Shift-JIS premises of the theorems against encoding_rs over all of Unicode
//!   args <n> [all]  string arguments under every string encoding (cases for Corr/C12 wrapped by checks/c15.py)
//!   meta <n>        ANM entry paths and STD names through write_*/read_* on real files
//!   lit <n>         string literals through fmt.rs and the parser
use std::collections::BTreeMap;
use truth::ast;
use truth::Game;
use verif_harness::util::*;
#[path = "../abi_common.rs"]
mod common;
use common::*;

/// code points that encoding_rs encodes, and those among them that decode back to themselves
fn repertoire() -> (Vec<char>, Vec<char>) {
    let mut encodable = vec![]; let mut good = vec![];
    for cp in 0u32..0x110000 {
        if let Some(c) = char::from_u32(cp) {
            let s = c.to_string();
            if let Some(b) = sjis_encode(&s) {
                encodable.push(c);
                if sjis_decode(&b).as_deref() == Some(s.as_str()) { good.push(c); }
            }
        }
    }
    (encodable, good)
}

fn sjis_sweep(rng: &mut Rng) {
    let (encodable, good) = repertoire();
    let goodset: std::collections::BTreeSet<char> = good.iter().copied().collect();
    let ambiguous: Vec<char> = encodable.iter().copied().filter(|c| !goodset.contains(c)).collect();
    let mut checks = 0u64;
    // premise 2: no NUL byte unless the string has U+0000 -- per character (the encoder is stateless), then on strings
    for &c in &encodable {
        checks += 1;
        if c != '\0' && sjis_encode(&c.to_string()).unwrap().contains(&0) {
            println!("ORACLE-FAIL\tsjis-nonul: the encoding of a non-NUL character contains a NUL byte\tU+{:04X}\tU+{:04X}", c as u32, c as u32);
        }
    }
    // premise 1: decode(encode(s)) = s for strings over the repertoire: every character next to an ASCII character and next
    // to a two-byte character (the decoder is a prefix-code parser), then random strings
    let probe = ['a', '\\', '表', 'ｱ', '|'];
    for &c in &good {
        for &p in &probe {
            for s in [format!("{}{}", c, p), format!("{}{}", p, c)] {
                checks += 1;
                let ok = sjis_encode(&s).and_then(|b| sjis_decode(&b)).as_deref() == Some(s.as_str());
                if !ok { println!("ORACLE-FAIL\tsjis-inverse: decode(encode(s)) differs from s on the repertoire\t{:?}\t{:?}", s, s); }
            }
        }
    }
    for _ in 0..30000 {
        let n = 1 + rng.below(40) as usize;
        let s: String = (0..n).map(|_| *rng.pick(&good)).collect();
        checks += 1;
        match sjis_encode(&s) {
            Some(b) => {
                if sjis_decode(&b).as_deref() != Some(s.as_str()) { println!("ORACLE-FAIL\tsjis-inverse: decode(encode(s)) differs from s on the repertoire\t{:?}\t{:?}", s, s); }
                if !s.contains('\0') && b.contains(&0) { println!("ORACLE-FAIL\tsjis-nonul: NUL byte in the encoding of a NUL-free string\t{:?}\t{:?}", s, s); }
            },
            None => println!("ORACLE-FAIL\tsjis-inverse: a string over encodable characters is not encodable\t{:?}\t{:?}", s, s),
        }
    }
    // the repertoire for the generators of the other modes
    let dir = work_dir("c15");
    let txt: String = good.iter().map(|c| format!("{}\n", *c as u32)).collect();
    let _ = std::fs::write(dir.join("repertoire.txt"), txt);
    println!("SJIS\tencodable={}\trepertoire={}\tambiguous={}\tchecks={}\tsample_ambiguous={:?}", encodable.len(), good.len(), ambiguous.len(), checks,
             ambiguous.iter().take(12).map(|c| format!("U+{:04X}", *c as u32)).collect::<Vec<_>>());
}

fn load_repertoire() -> Vec<char> {
    let p = work_dir("c15").join("repertoire.txt");
    match std::fs::read_to_string(&p) {
        Ok(t) => t.lines().filter_map(|l| l.parse::<u32>().ok()).filter_map(char::from_u32).collect(),
        Err(_) => repertoire().1,
    }
}

// characters whose Shift-JIS trail byte is 0x5C or 0x7C, lead/trail bytes that look like ASCII punctuation, half-width kana
const SPECIAL: &str = "ソ表能十貼予構噂欺圭暴申曾箪―ポ|\\\"'ｱｲｳﾞﾟ～∥－￠￡￢¥‾";

fn string_of_bytes(rng: &mut Rng, pool: &[char], target: usize, cursor: &mut usize, sweep: bool) -> String {
    let mut s = String::new(); let mut n = 0usize;
    while n < target {
        let c = if sweep { let c = pool[*cursor % pool.len()]; *cursor += 1; c } else { *rng.pick(pool) };
        if c == '\0' { continue; }
        let k = sjis_encode(&c.to_string()).map(|b| b.len()).unwrap_or(1);
        if n + k > target { if k == 2 { s.push('x'); } break; }
        s.push(c); n += k;
    }
    s
}

fn args(rng: &mut Rng, n: usize, all: bool) {
    let mut h = Hist(BTreeMap::new());
    let good = load_repertoire();
    let special: Vec<char> = SPECIAL.chars().filter(|c| good.contains(c)).collect();
    let ascii: Vec<char> = (0x20u8..0x7f).map(|b| b as char).collect();
    let mut cursor = 0usize;
    let mut iter = 0usize;
    // `all`: keep going until every character of the repertoire has been used at least once
    while iter < n || (all && cursor < good.len()) {
        iter += 1;
        let mut r = rng.fork();
        let lang = if r.chance(1, 2) { Lang::Anm } else { Lang::Msg };
        let kind = r.below(5);
        let bs = *r.pick(&[1u32, 2, 4, 4, 8, 16, 3]);
        let len = *r.pick(&[8u32, 16, 16, 32, 64]);
        let sz = match kind { 0 | 1 => SSize::Block(bs), 2 => SSize::Pascal(bs), 3 => SSize::Fixed(len, false), _ => SSize::Fixed(len, true) };
        let furibug = r.chance(1, 3) && !matches!(sz, SSize::Fixed(_, true));
        let unit = match sz { SSize::Block(b) | SSize::Pascal(b) => b as usize, SSize::Fixed(l, _) => l as usize };
        let ncalls = if furibug { 2 + r.below(3) as usize } else { 1 };
        let mut strings = vec![];
        for _ in 0..ncalls {
            let target = match r.below(8) { 0 => 0, 1 => unit.saturating_sub(1), 2 => unit, 3 => unit + 1, 4 => (2 * unit).saturating_sub(1), 5 => r.below(300) as usize, _ => r.below(3 * unit as u64 + 2) as usize };
            let pool: &[char] = match r.below(6) { 0 => &ascii, 1 if !special.is_empty() => &special, _ => &good };
            let sweep = std::ptr::eq(pool.as_ptr(), good.as_ptr());
            let mut s = string_of_bytes(&mut r, pool, target, &mut cursor, sweep);
            if furibug && r.chance(1, 2) { s.insert(0, '|'); h.bump("furigana_line"); }
            strings.push(s);
        }
        // masks: every zero/non-zero shape of (mask, velocity, acceleration), 0xFF and wrap-around steps, random, or chosen so that a
        // byte of the text is masked to NUL
        let mut mask = gen_mask(&mut r, &mut h);
        if r.chance(1, 4) {
            if let Some(b) = sjis_encode(&strings[0]) { if !b.is_empty() { let k = r.below(b.len() as u64) as usize;
                // constant mask equal to byte k: that byte is stored as NUL
                mask = [b[k], 0, 0]; h.bump("mask_hits_a_text_byte"); } }
        }
        let ch = match sz { SSize::Pascal(_) => 'p', _ => if mask == [0, 0, 0] && r.chance(1, 2) { 'z' } else { 'm' } };
        let sig = vec![P::Str { ch, sz: sz.clone(), mask, furibug }];
        h.bump(match sz { SSize::Block(_) => "enc_block", SSize::Pascal(_) => "enc_pascal", SSize::Fixed(_, false) => "enc_fixed", SSize::Fixed(_, true) => "enc_nulless" });
        if furibug { h.bump("enc_furibug"); }
        let calls: Vec<(usize, Vec<A>)> = strings.into_iter().map(|s| (0usize, vec![A { v: V::Str(s), reg: false }])).collect();
        run_script(lang, &[sig], &calls, &mut h, &mut r, false);
    }
    h.0.insert("repertoire_chars_used".into(), cursor.min(good.len()) as u64);
    println!("STATS\thist={:?}", h.0);
}

fn table_for(s: &str) -> (String, String) {
    let sj = sj_table(&[s.to_string()]);
    let mut dec = vec![];
    if let Some(b) = sjis_encode(s) {
        let t: Vec<u8> = match b.iter().position(|&x| x == 0) { Some(i) => b[..i].to_vec(), None => b.clone() };
        for cand in [b.clone(), t, { let mut x = b.clone(); while x.last() == Some(&0) { x.pop(); } x }] {
            let r = match sjis_decode(&cand) { Some(x) => format!("Some {}", str_term(&x)), None => "None".into() };
            let e = format!("({}, {})", bytes_term(&cand), r);
            if !dec.contains(&e) { dec.push(e); }
        }
    }
    (sj, format!("[{}]", dec.join("; ")))
}

fn meta(rng: &mut Rng, n: usize) {
    let mut h = Hist(BTreeMap::new());
    let good = load_repertoire();
    let ascii: Vec<char> = (0x20u8..0x7f).map(|b| b as char).collect();
    let dir = work_dir("c15");
    let mut cursor = 0usize;
    for i in 0..n {
        let mut r = rng.fork();
        let is_anm = i % 2 == 0;
        let unit = if is_anm { 16 } else { 128 };
        let target = match r.below(9) { 0 => 1, 1 => unit - 1, 2 => unit, 3 => unit + 1, 4 => 2 * unit - 1, 5 => 2 * unit, 6 => 3 * unit, _ => 1 + r.below(2 * unit as u64 + 4) as usize };
        let pool: &[char] = if r.chance(1, 3) { &ascii } else { &good };
        let sweep = !std::ptr::eq(pool.as_ptr(), ascii.as_ptr());
        let mut s = string_of_bytes(&mut r, pool, target, &mut cursor, sweep);
        if s.is_empty() { s.push('a'); }
        if r.chance(1, 40) { s.push('⏄'); h.bump("unencodable"); }
        if r.chance(1, 50) { let mut cs: Vec<char> = s.chars().collect(); cs.insert(cs.len() / 2, '\0'); s = cs.into_iter().collect(); h.bump("with_nul"); }
        let (sj, sjd) = table_for(&s);
        let good_string = s.chars().all(|c| c != '\0' && good.contains(&c));
        // ANM entries have two names: the image path and (optionally) a second path written right behind it
        let second = is_anm && r.chance(1, 2);
        let res: Outcome<String> = if is_anm { h.bump(if second { "anm_path_2" } else { "anm_path" }); anm_path_roundtrip(&s, second, &dir) } else { h.bump("std_name"); std_name_roundtrip(&s, &dir) };
        let obs = match &res { Outcome::Ok(t) => format!("(IOk {})", str_term(t)), Outcome::Err(_) => "IErr".into(), Outcome::Panic(_) => "IPanic".into() };
        let input = format!("{} {}", if second { "anm-path_2" } else if is_anm { "anm-path" } else { "std-name" }, str_src(&s));
        println!("{}\t{} {} {} {} {} {}\t{}", if is_anm { "PATH" } else { "NAME" }, if is_anm { "KPath" } else { "KName" }, unit, str_term(&s), sj, sjd, obs, one_line(&input));
        match &res {
            Outcome::Panic(p) => println!("ORACLE-FAIL\tpanic: while writing or reading a file with this metadata string\t{}\t{}", one_line(p), one_line(&input)),
            Outcome::Ok(t) => {
                if good_string && t != &s { println!("ORACLE-FAIL\tmeta-roundtrip: a metadata string came back different\tread {:?}\t{}", t, one_line(&input)); }
                // a name that does not leave room for its NUL terminator in the fixed buffer must be rejected
                if !is_anm && sjis_encode(&s).map(|b| b.len() >= unit).unwrap_or(false) { println!("ORACLE-FAIL\tmeta-toolong: a name that does not fit its {}-byte buffer was written\tread {:?}\t{}", unit, t, one_line(&input)); }
            },
            Outcome::Err(d) => if good_string && sjis_encode(&s).map(|b| b.len() < unit || is_anm).unwrap_or(false) {
                println!("ORACLE-FAIL\tmeta-roundtrip: a representable metadata string that fits was rejected\t{}\t{}", one_line(&d.chars().take(200).collect::<String>()), one_line(&input));
            },
        }
    }
    println!("STATS\thist={:?}", h.0);
}

fn anm_path_roundtrip(s: &str, second: bool, dir: &std::path::Path) -> Outcome<String> {
    let names = if second { format!("path: \"subdir/image.png\", path_2: {}", str_src(s)) } else { format!("path: {}", str_src(s)) };
    let text = format!("entry {{ {}, has_data: false, img_width: 16, img_height: 16, img_format: 1, sprites: {{ sprite0: {{id: 0, x: 1.0, y: 2.0, w: 3.0, h: 4.0}} }} }}\nscript script0 {{\n}}\n", names);
    // only the TH06-era entry header has a slot for the second path
    let game = if second { Game::Th06 } else { Game::Th12 };
    let file = dir.join("meta.anm");
    let r = catch(|| -> Result<String, String> {
        let mut scope = truth::Builder::new().capture_diagnostics(true).build();
        let mut truth = scope.truth();
        let res = (|| -> Result<String, truth::ErrorReported> {
            truth.apply_mapfile_str("!anmmap\n", game)?;
            let ast = truth.parse::<ast::ScriptFile>("<input>", text.as_bytes())?.value;
            let mut t = truth.validate_defs()?;
            let w = t.compile_anm(game, &ast)?;
            let anm = t.finalize_anm(game, w)?;
            t.write_anm(game, &file, &anm)?;
            let back = t.read_anm(game, &file, false)?;
            Ok(if second { back.entries[0].path_2.as_ref().map(|p| p.value.clone()).unwrap_or_default() } else { back.entries[0].path.value.clone() })
        })();
        let diag = truth.get_captured_diagnostics().unwrap_or_default();
        res.map_err(|_| diag)
    });
    match r { Ok(Ok(s)) => Outcome::Ok(s), Ok(Err(d)) => Outcome::Err(d), Err(p) => Outcome::Panic(p) }
}

fn std_name_roundtrip(s: &str, dir: &std::path::Path) -> Outcome<String> {
    let text = format!("meta {{\n    unknown: 0,\n    stage_name: {},\n    bgm: [\n        {{path: \"bgm/a.mid\", name: \"dm\"}},\n        {{path: \" \", name: \" \"}},\n        {{path: \" \", name: \" \"}},\n        {{path: \" \", name: \" \"}},\n    ],\n    objects: {{}},\n    instances: [],\n}}\nscript main {{\n}}\n", str_src(s));
    let file = dir.join("meta.std");
    let r = catch(|| -> Result<String, String> {
        let mut scope = truth::Builder::new().capture_diagnostics(true).build();
        let mut truth = scope.truth();
        let res = (|| -> Result<String, truth::ErrorReported> {
            truth.apply_mapfile_str("!stdmap\n", Game::Th08)?;
            let ast = truth.parse::<ast::ScriptFile>("<input>", text.as_bytes())?.value;
            let mut t = truth.validate_defs()?;
            let std = t.compile_std(Game::Th08, &ast)?;
            t.write_std(Game::Th08, &file, &std)?;
            let back = t.read_std(Game::Th08, &file)?;
            match &back.extra { truth::std::StdExtra::Th06 { stage_name, .. } => Ok(stage_name.value.clone()), _ => Ok(String::new()) }
        })();
        let diag = truth.get_captured_diagnostics().unwrap_or_default();
        res.map_err(|_| diag)
    });
    match r { Ok(Ok(s)) => Outcome::Ok(s), Ok(Err(d)) => Outcome::Err(d), Err(p) => Outcome::Panic(p) }
}

fn lit(rng: &mut Rng, n: usize) {
    let mut h = Hist(BTreeMap::new());
    let good = load_repertoire();
    let nasty: Vec<char> = "\"\\\n\r\0\t'nr0 \u{7f}\u{85}\u{2028}".chars().collect();
    for _ in 0..n {
        let mut r = rng.fork();
        let len = r.below(12) as usize;
        let s: String = (0..len).map(|_| if r.chance(1, 2) { *r.pick(&nasty) } else if r.chance(1, 2) { *r.pick(&good) } else { char::from_u32(r.below(0x3000) as u32).unwrap_or('x') }).collect();
        let printed = truth::fmt::stringify_lit_str(&s);
        let reread: Option<String> = catch(|| {
            let mut scope = truth::Builder::new().capture_diagnostics(true).build();
            let mut truth = scope.truth();
            match truth.parse::<ast::Expr>("<lit>", printed.as_bytes()).ok().map(|e| e.value) {
                Some(ast::Expr::LitString(l)) => Some(l.string.clone()),
                _ => None,
            }
        }).ok().flatten();
        h.bump(if reread.is_some() { "lit_parsed" } else { "lit_rejected" });
        println!("LIT\tKLit {} {} {}\t{}", str_term(&s), str_term(&printed), match &reread { Some(t) => format!("(Some {})", str_term(t)), None => "None".into() }, one_line(&printed));
        if reread.as_deref() != Some(s.as_str()) { println!("ORACLE-FAIL\tliteral: a printed string literal does not read back as the same string\tread {:?}\t{}", reread, one_line(&printed)); }
    }
    println!("STATS\thist={:?}", h.0);
}

fn main() {
    let args_: Vec<String> = std::env::args().collect();
    truth::setup_for_test_harness();
    let mut rng = Rng::new(seed_from_env());
    let n = args_.get(2).and_then(|s| s.parse().ok()).unwrap_or(100);
    match args_.get(1).map(|s| s.as_str()) {
        Some("sjis") => sjis_sweep(&mut rng),
        Some("args") => args(&mut rng, n, args_.get(3).map(|s| s == "all").unwrap_or(false)),
        Some("meta") => meta(&mut rng, n),
        Some("lit") => lit(&mut rng, n),
        _ => { eprintln!("usage: c15 sjis | args <n> [all] | meta <n> | lit <n>"); std::process::exit(2); },
    }
}
