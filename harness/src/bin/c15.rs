//! C15 harness: text in string arguments and metadata survives compile and decompile.
//!
//!   sjis            sweep of the two Shift-JIS premises of the theorems against encoding_rs over all of Unicode
//!   args <n> [all]  string arguments under every string encoding (cases for Corr/C12 wrapped by checks/c15.py)
//!   meta <n>        ANM entry paths and STD names through write_*/read_* on real files
//!   lit <n>         string literals through fmt.rs and the parser
use std::collections::BTreeMap;
use truth::ast;
use truth::Game;
use verif_harness::util::*;
#[path = "../abi_common.rs"]
mod common;
use common::*;

/// code points that encoding_rs encodes, and those among them that decode back to themselves
fn repertoire() -> (Vec<char>, Vec<char>) {
    let mut encodable = vec![]; let mut good = vec![];
    for cp in 0u32..0x110000 {
        if let Some(c) = char::from_u32(cp) {
            let s = c.to_string();
            if let Some(b) = sjis_encode(&s) {
                encodable.push(c);
                if sjis_decode(&b).as_deref() == Some(s.as_str()) { good.push(c); }
            }
        }
    }
    (encodable, good)
}

fn sjis_sweep(rng: &mut Rng) {
    let (encodable, good) = repertoire();
    let goodset: std::collections::BTreeSet<char> = good.iter().copied().collect();
    let ambiguous: Vec<char> = encodable.iter().copied().filter(|c| !goodset.contains(c)).collect();
    let mut checks = 0u64;
    // premise 2: no NUL byte unless the string has U+0000 -- per character (the encoder is stateless), then on strings
    for &c in &encodable {
        checks += 1;
        if c != '\0' && sjis_encode(&c.to_string()).unwrap().contains(&0) {
            println!("ORACLE-FAIL\tsjis-nonul: the encoding of a non-NUL character contains a NUL byte\tU+{:04X}\tU+{:04X}", c as u32, c as u32);
        }
    }
    // premise 1: decode(encode(s)) = s for strings over the repertoire: every character next to an ASCII character and next
    // to a two-byte character (the decoder is a prefix-code parser), then random strings
    let probe = ['a', '\\', '表', 'ｱ', '|'];
    for &c in &good {
        for &p in &probe {
            for s in [format!("{}{}", c, p), format!("{}{}", p, c)] {
                checks += 1;
                let ok = sjis_encode(&s).and_then(|b| sjis_decode(&b)).as_deref() == Some(s.as_str());
                if !ok { println!("ORACLE-FAIL\tsjis-inverse: decode(encode(s)) differs from s on the repertoire\t{:?}\t{:?}", s, s); }
            }
        }
    }
    for _ in 0..30000 {
        let n = 1 + rng.below(40) as usize;
        let s: String = (0..n).map(|_| *rng.pick(&good)).collect();
        checks += 1;
        match sjis_encode(&s) {
            Some(b) => {
                if sjis_decode(&b).as_deref() != Some(s.as_str()) { println!("ORACLE-FAIL\tsjis-inverse: decode(encode(s)) differs from s on the repertoire\t{:?}\t{:?}", s, s); }
                if !s.contains('\0') && b.contains(&0) { println!("ORACLE-FAIL\tsjis-nonul: NUL byte in the encoding of a NUL-free string\t{:?}\t{:?}", s, s); }
            },
            None => println!("ORACLE-FAIL\tsjis-inverse: a string over encodable characters is not encodable\t{:?}\t{:?}", s, s),
        }
    }
    // the repertoire for the generators of the other modes
    let dir = work_dir("c15");
    let txt: String = good.iter().map(|c| format!("{}\n", *c as u32)).collect();
    let _ = std::fs::write(dir.join("repertoire.txt"), txt);
    println!("SJIS\tencodable={}\trepertoire={}\tambiguous={}\tchecks={}\tsample_ambiguous={:?}", encodable.len(), good.len(), ambiguous.len(), checks,
             ambiguous.iter().take(12).map(|c| format!("U+{:04X}", *c as u32)).collect::<Vec<_>>());
}

fn load_repertoire() -> Vec<char> {
    let p = work_dir("c15").join("repertoire.txt");
    match std::fs::read_to_string(&p) {
        Ok(t) => t.lines().filter_map(|l| l.parse::<u32>().ok()).filter_map(char::from_u32).collect(),
        Err(_) => repertoire().1,
    }
}

// characters whose Shift-JIS trail byte is 0x5C or 0x7C, lead/trail bytes that look like ASCII punctuation, half-width kana
const SPECIAL: &str = "ソ表能十貼予構噂欺圭暴申曾箪―ポ|\\\"'ｱｲｳﾞﾟ～∥－￠￡￢¥‾";

fn string_of_bytes(rng: &mut Rng, pool: &[char], target: usize, cursor: &mut usize, sweep: bool) -> String {
    let mut s = String::new(); let mut n = 0usize;
    while n < target {
        let c = if sweep { let c = pool[*cursor % pool.len()]; *cursor += 1; c } else { *rng.pick(pool) };
        if c == '\0' { continue; }
        let k = sjis_encode(&c.to_string()).map(|b| b.len()).unwrap_or(1);
        if n + k > target { if k == 2 { s.push('x'); } break; }
        s.push(c); n += k;
    }
    s
}

fn args(rng: &mut Rng, n: usize, all: bool) {
    let mut h = Hist(BTreeMap::new());
    let good = load_repertoire();
    let special: Vec<char> = SPECIAL.chars().filter(|c| good.contains(c)).collect();
    let ascii: Vec<char> = (0x20u8..0x7f).map(|b| b as char).collect();
    let mut cursor = 0usize;
    let mut iter = 0usize;
    // `all`: keep going until every character of the repertoire has been used at least once
    while iter < n || (all && cursor < good.len()) {
        iter += 1;
        let mut r = rng.fork();
        let lang = if r.chance(1, 2) { Lang::Anm } else { Lang::Msg };
        let kind = r.below(5);
        let bs = *r.pick(&[1u32, 2, 4, 4, 8, 16, 3]);
        let len = *r.pick(&[8u32, 16, 16, 32, 64]);
        let sz = match kind { 0 | 1 => SSize::Block(bs), 2 => SSize::Pascal(bs), 3 => SSize::Fixed(len, false), _ => SSize::Fixed(len, true) };
        let furibug = r.chance(1, 3) && !matches!(sz, SSize::Fixed(_, true));
        let unit = match sz { SSize::Block(b) | SSize::Pascal(b) => b as usize, SSize::Fixed(l, _) => l as usize };
        let ncalls = if furibug { 2 + r.below(3) as usize } else { 1 };
        let mut strings = vec![];
        for _ in 0..ncalls {
            let target = match r.below(8) { 0 => 0, 1 => unit.saturating_sub(1), 2 => unit, 3 => unit + 1, 4 => (2 * unit).saturating_sub(1), 5 => r.below(300) as usize, _ => r.below(3 * unit as u64 + 2) as usize };
            let pool: &[char] = match r.below(6) { 0 => &ascii, 1 if !special.is_empty() => &special, _ => &good };
            let sweep = std::ptr::eq(pool.as_ptr(), good.as_ptr());
            let mut s = string_of_bytes(&mut r, pool, target, &mut cursor, sweep);
            if furibug && r.chance(1, 2) { s.insert(0, '|'); h.bump("furigana_line"); }
            strings.push(s);
        }
        // masks: every zero/non-zero shape of (mask, velocity, acceleration), 0xFF and wrap-around steps, random, or chosen so that a
        // byte of the text is masked to NUL
        let mut mask = gen_mask(&mut r, &mut h);
        if r.chance(1, 4) {
            if let Some(b) = sjis_encode(&strings[0]) { if !b.is_empty() { let k = r.below(b.len() as u64) as usize;
                // constant mask equal to byte k: that byte is stored as NUL
                mask = [b[k], 0, 0]; h.bump("mask_hits_a_text_byte"); } }
        }
        let ch = match sz { SSize::Pascal(_) => 'p', _ => if mask == [0, 0, 0] && r.chance(1, 2) { 'z' } else { 'm' } };
        let sig = vec![P::Str { ch, sz: sz.clone(), mask, furibug }];
        h.bump(match sz { SSize::Block(_) => "enc_block", SSize::Pascal(_) => "enc_pascal", SSize::Fixed(_, false) => "enc_fixed", SSize::Fixed(_, true) => "enc_nulless" });
        if furibug { h.bump("enc_furibug"); }
        let calls: Vec<(usize, Vec<A>)> = strings.into_iter().map(|s| (0usize, vec![A { v: V::Str(s), reg: false }])).collect();
        run_script(lang, &[sig], &calls, &mut h, &mut r, false);
    }
    h.0.insert("repertoire_chars_used".into(), cursor.min(good.len()) as u64);
    println!("STATS\thist={:?}", h.0);
}

fn table_for(s: &str) -> (String, String) {
    let sj = sj_table(&[s.to_string()]);
    let mut dec = vec![];
    if let Some(b) = sjis_encode(s) {
        let t: Vec<u8> = match b.iter().position(|&x| x == 0) { Some(i) => b[..i].to_vec(), None => b.clone() };
        for cand in [b.clone(), t, { let mut x = b.clone(); while x.last() == Some(&0) { x.pop(); } x }] {
            let r = match sjis_decode(&cand) { Some(x) => format!("Some {}", str_term(&x)), None => "None".into() };
            let e = format!("({}, {})", bytes_term(&cand), r);
            if !dec.contains(&e) { dec.push(e); }
        }
    }
    (sj, format!("[{}]", dec.join("; ")))
}

/// every place where a file format stores a string outside instruction arguments
#[derive(Clone, Copy, Debug, PartialEq)]
enum Slot { AnmPath, AnmPath2, StdStage, StdBgmName(usize), StdBgmPath(usize), StdAnmPath, MissionLine(usize, u8, u8), EclAnim, EclEcli }
impl Slot {
    /// (is block-padded, block size or buffer size)
    fn shape(self) -> (bool, usize) {
        match self { Slot::AnmPath | Slot::AnmPath2 => (true, 16), Slot::EclAnim | Slot::EclEcli => (true, 1), Slot::MissionLine(..) => (false, 64), _ => (false, 128) }
    }
    fn name(self) -> String {
        match self {
            Slot::AnmPath => "anm-path".into(), Slot::AnmPath2 => "anm-path_2".into(), Slot::StdStage => "std-stage_name".into(),
            Slot::StdBgmName(k) => format!("std-bgm{}-name", k), Slot::StdBgmPath(k) => format!("std-bgm{}-path", k), Slot::StdAnmPath => "std12-anm_path".into(),
            Slot::MissionLine(k, st, sc) => format!("mission-line{}-stage{}-scene{}", k, st, sc), Slot::EclAnim => "ecl10-anim".into(), Slot::EclEcli => "ecl10-ecli".into(),
        }
    }
}

fn meta(rng: &mut Rng, n: usize) {
    let mut h = Hist(BTreeMap::new());
    let good = load_repertoire();
    let ascii: Vec<char> = (0x20u8..0x7f).map(|b| b as char).collect();
    let dir = work_dir("c15");
    let mut cursor = 0usize;
    for i in 0..n {
        let mut r = rng.fork();
        let slot = match i % 9 {
            0 => Slot::AnmPath, 1 => Slot::AnmPath2, 2 => Slot::StdStage, 3 => Slot::StdBgmName(r.below(4) as usize), 4 => Slot::StdBgmPath(r.below(4) as usize),
            5 => Slot::StdAnmPath, 6 => Slot::MissionLine(r.below(3) as usize, r.below(256) as u8, r.below(256) as u8), 7 => Slot::EclAnim, _ => Slot::EclEcli,
        };
        let (blockwise, unit) = slot.shape();
        let u = if unit == 1 { 16 } else { unit };     // for block size 1 vary lengths around 16 anyway
        let target = if blockwise { match r.below(10) { 0 => 1, 1 => u - 1, 2 => u, 3 => u + 1, 4 => 2 * u - 1, 5 => 2 * u, 6 => 2 * u + 1, 7 => 3 * u, _ => 1 + r.below(2 * u as u64 + 4) as usize } }
                     // fixed buffers: the longest string that fits has u-1 bytes (room for the NUL)
                     else { match r.below(10) { 0 => 1, 1 => u - 2, 2 | 3 => u - 1, 4 => u, 5 => u + 1, 6 => u / 2, _ => 1 + r.below(u as u64) as usize } };
        let pool: &[char] = if r.chance(1, 3) { &ascii } else { &good };
        let sweep = !std::ptr::eq(pool.as_ptr(), ascii.as_ptr());
        let mut s = string_of_bytes(&mut r, pool, target, &mut cursor, sweep);
        if s.is_empty() { s.push('a'); }
        if r.chance(1, 40) { s.push('⏄'); h.bump("unencodable"); }
        // (not in the string lists of stack ECL: a NUL there splits one list element into two and shifts the rest of the header)
        if r.chance(1, 50) && !matches!(slot, Slot::EclAnim | Slot::EclEcli) { let mut cs: Vec<char> = s.chars().collect(); cs.insert(cs.len() / 2, '\0'); s = cs.into_iter().collect(); h.bump("with_nul"); }
        let (sj, sjd) = table_for(&s);
        let good_string = s.chars().all(|c| c != '\0' && good.contains(&c));
        h.bump(&format!("slot_{}", slot.name().split(|c: char| c.is_ascii_digit() && false).next().unwrap_or("").split("-stage").next().unwrap_or("")));
        let res: Outcome<String> = slot_roundtrip(slot, &s, &dir);
        let obs = match &res { Outcome::Ok(t) => format!("(IOk {})", str_term(t)), Outcome::Err(_) => "IErr".into(), Outcome::Panic(_) => "IPanic".into() };
        let input = format!("{} {}", slot.name(), str_src(&s));
        println!("{}\t{} {} {} {} {} {}\t{}", if blockwise { "PATH" } else { "NAME" }, if blockwise { "KPath" } else { "KName" }, unit, str_term(&s), sj, sjd, obs, one_line(&input));
        let enc_len = sjis_encode(&s).map(|b| b.len());
        match &res {
            Outcome::Panic(p) => println!("ORACLE-FAIL\tpanic: while writing or reading a file with this metadata string\t{}\t{}", one_line(p), one_line(&input)),
            Outcome::Ok(t) => {
                if good_string && t != &s { println!("ORACLE-FAIL\tmeta-roundtrip: a metadata string came back different\tread {:?}\t{}", t, one_line(&input)); }
                // a name that does not leave room for its NUL terminator in the fixed buffer must be rejected
                if !blockwise && enc_len.map(|l| l >= unit).unwrap_or(false) { println!("ORACLE-FAIL\tmeta-toolong: a name that does not fit its {}-byte buffer was written\tread {:?}\t{}", unit, t, one_line(&input)); }
            },
            Outcome::Err(d) => if good_string && enc_len.map(|l| blockwise || l < unit).unwrap_or(false) {
                println!("ORACLE-FAIL\tmeta-roundtrip: a representable metadata string that fits was rejected\t{}\t{}", one_line(&d.chars().take(200).collect::<String>()), one_line(&input));
            },
        }
    }
    println!("STATS\thist={:?}", h.0);
}

/// compile a file whose slot holds [s], write it to disk, read it back, return what the slot holds now
fn slot_roundtrip(slot: Slot, s: &str, dir: &std::path::Path) -> Outcome<String> {
    use truth::LanguageKey;
    let lit = str_src(s);
    let (game, text, fname): (Game, String, &str) = match slot {
        Slot::AnmPath => (Game::Th12, format!("entry {{ path: {}, has_data: false, img_width: 16, img_height: 16, img_format: 1, sprites: {{ sprite0: {{id: 0, x: 1.0, y: 2.0, w: 3.0, h: 4.0}} }} }}\nscript script0 {{\n}}\n", lit), "meta.anm"),
        // only the TH06-era entry header has a slot for the second path
        Slot::AnmPath2 => (Game::Th06, format!("entry {{ path: \"subdir/image.png\", path_2: {}, has_data: false, img_width: 16, img_height: 16, img_format: 1, sprites: {{ sprite0: {{id: 0, x: 1.0, y: 2.0, w: 3.0, h: 4.0}} }} }}\nscript script0 {{\n}}\n", lit), "meta.anm"),
        Slot::StdStage | Slot::StdBgmName(_) | Slot::StdBgmPath(_) => {
            let mut bgm = String::new();
            for k in 0..4 {
                let nm = if slot == Slot::StdBgmName(k) { lit.clone() } else { format!("\"name{}\"", k) };
                let pt = if slot == Slot::StdBgmPath(k) { lit.clone() } else { format!("\"bgm/t{}.mid\"", k) };
                bgm.push_str(&format!("        {{path: {}, name: {}}},\n", pt, nm));
            }
            let stage = if slot == Slot::StdStage { lit.clone() } else { "\"stage\"".to_string() };
            (Game::Th08, format!("meta {{\n    unknown: 0,\n    stage_name: {},\n    bgm: [\n{}    ],\n    objects: {{}},\n    instances: [],\n}}\nscript main {{\n}}\n", stage, bgm), "meta.std")
        },
        Slot::StdAnmPath => (Game::Th12, format!("meta {{\n    unknown: 0,\n    anm_path: {},\n    objects: {{}},\n    instances: [],\n}}\nscript main {{\n}}\n", lit), "meta.std"),
        Slot::MissionLine(k, st, sc) => {
            let lines: Vec<String> = (0..3).map(|j| if j == k { lit.clone() } else { format!("\"line {}\"", j) }).collect();
            (Game::Th095, format!("entry {{ stage: {}, scene: {}, face: 0, point: 1, text: [{}] }}\nentry {{ stage: 1, scene: 1, face: 0, point: 0, text: [\"a\", \"b\", \"c\"] }}\n", st, sc, lines.join(", ")), "meta.msg")
        },
        Slot::EclAnim => (Game::Th10, format!("meta {{\n    ecli: [\"default.ecl\"],\n    anim: [\"first.anm\", {}, \"last.anm\"],\n}}\n", lit), "meta.ecl"),
        Slot::EclEcli => (Game::Th10, format!("meta {{\n    ecli: [{}, \"second.ecl\"],\n    anim: [],\n}}\n", lit), "meta.ecl"),
    };
    let file = dir.join(fname);
    let r = catch(|| -> Result<String, String> {
        let mut scope = truth::Builder::new().capture_diagnostics(true).build();
        let mut truth = scope.truth();
        let res = (|| -> Result<String, truth::ErrorReported> {
            let ast = truth.parse::<ast::ScriptFile>("<input>", text.as_bytes())?.value;
            let mut t = truth.validate_defs()?;
            Ok(match slot {
                Slot::AnmPath | Slot::AnmPath2 => {
                    let w = t.compile_anm(game, &ast)?;
                    let anm = t.finalize_anm(game, w)?;
                    t.write_anm(game, &file, &anm)?;
                    let back = t.read_anm(game, &file, false)?;
                    if slot == Slot::AnmPath2 { back.entries[0].path_2.as_ref().map(|p| p.value.clone()).unwrap_or_default() } else { back.entries[0].path.value.clone() }
                },
                Slot::StdStage | Slot::StdBgmName(_) | Slot::StdBgmPath(_) | Slot::StdAnmPath => {
                    let std = t.compile_std(game, &ast)?;
                    t.write_std(game, &file, &std)?;
                    let back = t.read_std(game, &file)?;
                    match (&back.extra, slot) {
                        (truth::std::StdExtra::Th06 { stage_name, .. }, Slot::StdStage) => stage_name.value.clone(),
                        (truth::std::StdExtra::Th06 { bgm, .. }, Slot::StdBgmName(k)) => bgm[k].name.value.clone(),
                        (truth::std::StdExtra::Th06 { bgm, .. }, Slot::StdBgmPath(k)) => bgm[k].path.value.clone(),
                        (truth::std::StdExtra::Th10 { anm_path }, Slot::StdAnmPath) => anm_path.value.clone(),
                        _ => String::from("<wrong kind of STD file read back>"),
                    }
                },
                Slot::MissionLine(k, _, _) => {
                    let m = t.compile_mission(game, &ast)?;
                    t.write_mission(game, &file, &m)?;
                    match t.read_mission(game, &file)? {
                        truth::MissionMsgFile::Th095(f) => f.entries[0].text[k].value.clone(),
                        truth::MissionMsgFile::Th125(f) => f.entries[0].text[k].value.clone(),
                    }
                },
                Slot::EclAnim | Slot::EclEcli => {
                    let e = t.compile_stack_ecl(game, &ast)?;
                    t.write_stack_ecl(game, &file, &e)?;
                    let back = t.read_stack_ecl(game, &file)?;
                    if slot == Slot::EclAnim { back.anim_list[1].value.clone() } else { back.ecli_list[0].value.clone() }
                },
            })
        })();
        let _ = LanguageKey::Anm;
        let diag = truth.get_captured_diagnostics().unwrap_or_default();
        res.map_err(|_| diag)
    });
    match r { Ok(Ok(s)) => Outcome::Ok(s), Ok(Err(d)) => Outcome::Err(d), Err(p) => Outcome::Panic(p) }
}

fn lit(rng: &mut Rng, n: usize) {
    let mut h = Hist(BTreeMap::new());
    let good = load_repertoire();
    let nasty: Vec<char> = "\"\\\n\r\0\t'nr0 \u{7f}\u{85}\u{2028}".chars().collect();
    for _ in 0..n {
        let mut r = rng.fork();
        let len = r.below(12) as usize;
        let s: String = (0..len).map(|_| if r.chance(1, 2) { *r.pick(&nasty) } else if r.chance(1, 2) { *r.pick(&good) } else { char::from_u32(r.below(0x3000) as u32).unwrap_or('x') }).collect();
        let printed = truth::fmt::stringify_lit_str(&s);
        let reread: Option<String> = catch(|| {
            let mut scope = truth::Builder::new().capture_diagnostics(true).build();
            let mut truth = scope.truth();
            match truth.parse::<ast::Expr>("<lit>", printed.as_bytes()).ok().map(|e| e.value) {
                Some(ast::Expr::LitString(l)) => Some(l.string.clone()),
                _ => None,
            }
        }).ok().flatten();
        h.bump(if reread.is_some() { "lit_parsed" } else { "lit_rejected" });
        println!("LIT\tKLit {} {} {}\t{}", str_term(&s), str_term(&printed), match &reread { Some(t) => format!("(Some {})", str_term(t)), None => "None".into() }, one_line(&printed));
        if reread.as_deref() != Some(s.as_str()) { println!("ORACLE-FAIL\tliteral: a printed string literal does not read back as the same string\tread {:?}\t{}", reread, one_line(&printed)); }
    }
    println!("STATS\thist={:?}", h.0);
}

fn main() {
    let args_: Vec<String> = std::env::args().collect();
    truth::setup_for_test_harness();
    let mut rng = Rng::new(seed_from_env());
    let n = args_.get(2).and_then(|s| s.parse().ok()).unwrap_or(100);
    match args_.get(1).map(|s| s.as_str()) {
        Some("sjis") => sjis_sweep(&mut rng),
        Some("args") => args(&mut rng, n, args_.get(3).map(|s| s == "all").unwrap_or(false)),
        Some("meta") => meta(&mut rng, n),
        Some("lit") => lit(&mut rng, n),
        _ => { eprintln!("usage: c15 sjis | args <n> [all] | meta <n> | lit <n>"); std::process::exit(2); },
    }
}
