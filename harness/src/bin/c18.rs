//! C18 harness: debug info describes the file that was actually written.
//!
//! `c18 gen <n>`            generated programs in every format (strings whose size depends on the previous
//!                          string, difficulty switches, locals and temporaries, labels at block edges, jumps,
//!                          consts) -> truth-cli compile --output-debug-info -> the written binary is re-read
//!                          in-process and dumped next to the JSON for checks/c18.py to compare.
//! `c18 text <fmt> <game> <file>`   one source file (replay / corpus)
//!
//! Output lines (tab separated):
//!   PROG\t<fmt>\t<game>\t<source path>\t<json path>\t<exit code>\t<dump>     dump = scripts separated by `|`,
//!        each `<kind><index>=` followed by instructions `opcode:size:time:mask:argshex` separated by `,`
//!   ORACLE-FAIL\t<class>\t<what>\t<input>
//!   STATS\t...
use std::fmt::Write as _;
use std::io::Cursor;
use std::path::PathBuf;
use truth::diagnostic::RootEmitter;
use truth::io::BinReader;
use truth::llir::RawScript;
use truth::{Game, LanguageKey};
use verif_harness::util::*;

#[derive(Clone, Copy, PartialEq, Eq, Debug)]
enum Fam { Anm, Msg, Std, Olde, Stack }

fn fam_name(f: Fam) -> &'static str { match f { Fam::Anm => "anm", Fam::Msg => "msg", Fam::Std => "std", Fam::Olde => "ecl06", Fam::Stack => "ecl10" } }
fn fam_from(s: &str) -> Option<Fam> { [Fam::Anm, Fam::Msg, Fam::Std, Fam::Olde, Fam::Stack].into_iter().find(|f| fam_name(*f) == s) }
fn cmd(f: Fam) -> &'static str { match f { Fam::Anm => "truanm", Fam::Msg => "trumsg", Fam::Std => "trustd", _ => "truecl" } }
fn game_str(g: Game) -> String { format!("{}", g).trim_start_matches("th").to_string() }
fn hdr(f: Fam, game: Game, timeline: bool) -> usize {
    match f {
        Fam::Anm => if game == Game::Th06 { 4 } else { 8 },
        Fam::Msg => 4, Fam::Std => 8,
        Fam::Olde => if timeline { 8 } else { 12 },
        Fam::Stack => 16,
    }
}

fn hex(bytes: &[u8]) -> String { let mut s = String::new(); for b in bytes { write!(s, "{:02x}", b).unwrap(); } s }

fn read_scripts(f: Fam, game: Game, bytes: &[u8]) -> Result<Result<Vec<(String, RawScript)>, String>, String> {
    let bytes = bytes.to_vec();
    catch(move || {
        let root = RootEmitter::new_captured();
        let mut r = BinReader::from_reader(&root, "out.bin", Cursor::new(bytes));
        let res: Result<Vec<(String, RawScript)>, truth::ErrorReported> = (|| Ok(match f {
            Fam::Anm => truth::AnmFile::read_from_stream(&mut r, game, false)?.entries.iter()
                .flat_map(|e| e.scripts.values().map(|s| s.script.clone())).enumerate().map(|(k, s)| (format!("script{}", k), s)).collect(),
            Fam::Msg => truth::MsgFile::read_from_stream(&mut r, game, LanguageKey::Msg)?.scripts.values().cloned().enumerate().map(|(k, s)| (format!("script{}", k), s)).collect(),
            Fam::Std => vec![("script0".to_string(), truth::StdFile::read_from_stream(&mut r, game)?.script)],
            Fam::Olde => { let e = truth::OldeEclFile::read_from_stream(&mut r, game)?;
                e.subs.values().cloned().enumerate().map(|(k, s)| (format!("sub{}", k), s))
                    .chain(e.timelines.iter().cloned().enumerate().map(|(k, s)| (format!("timeline{}", k), s))).collect() }
            Fam::Stack => truth::StackEclFile::read_from_stream(&mut r, game)?.subs.iter().map(|(k, s)| (format!("named:{}", k.value), s.clone())).collect(),
        }))();
        res.map_err(|_| root.get_captured_diagnostics().unwrap_or_default())
    })
}

fn cli() -> PathBuf { std::env::current_exe().unwrap().parent().unwrap().join("truth-cli") }

fn one_line(s: &str) -> String { s.replace('\t', " ").replace('\n', " ; ") }

struct Stats { hist: std::collections::BTreeMap<String, usize> }
impl Stats { fn bump(&mut self, k: &str) { *self.hist.entry(k.to_string()).or_insert(0) += 1; } }

fn run_program(f: Fam, game: Game, text: &str, tag: &str, stats: &mut Stats) {
    let dir = work_dir("c18");
    let src = dir.join(format!("{}.spec", tag));
    let out = dir.join(format!("{}.bin", tag));
    let json = dir.join(format!("{}.json", tag));
    let _ = std::fs::remove_file(&out); let _ = std::fs::remove_file(&json);
    std::fs::write(&src, text).unwrap();
    let o = std::process::Command::new(cli()).arg(cmd(f)).arg("compile").arg("-g").arg(game_str(game)).arg(&src).arg("-o").arg(&out)
        .arg("--output-debug-info").arg(&json).current_dir(&dir)
        .env("RUST_BACKTRACE", "0").env_remove("TRUTH_MAP_PATH").output().expect("cannot run truth-cli");
    let code = o.status.code().unwrap_or(-1);
    let stderr = String::from_utf8_lossy(&o.stderr).to_string();
    if code != 0 {
        stats.bump(&format!("{}:{}", fam_name(f), if stderr.contains("panicked at") { "panic" } else { "rejected" }));
        println!("PROG\t{}\t{}\t{}\t{}\t{}\t{}", fam_name(f), game_str(game), src.display(), json.display(), code, one_line(stderr.lines().find(|l| l.starts_with("error") || l.contains("panicked")).unwrap_or("")));
        return;
    }
    let bytes = match std::fs::read(&out) { Ok(b) => b, Err(_) => { println!("ORACLE-FAIL\tc18 no-output\texit 0 without output file\t{}", one_line(text)); return; } };
    match read_scripts(f, game, &bytes) {
        Ok(Ok(scripts)) => {
            let mut dump = String::new();
            for (k, (name, s)) in scripts.iter().enumerate() {
                if k > 0 { dump.push('|'); }
                let h = hdr(f, game, name.starts_with("timeline"));
                write!(dump, "{}=", name).unwrap();
                for (j, i) in s.instrs.iter().enumerate() {
                    if j > 0 { dump.push(','); }
                    write!(dump, "{}:{}:{}:{}:{}", i.opcode, h + i.args_blob.len(), i.time, i.param_mask, hex(&i.args_blob)).unwrap();
                }
            }
            stats.bump(&format!("{}:ok", fam_name(f)));
            println!("PROG\t{}\t{}\t{}\t{}\t0\t{}", fam_name(f), game_str(game), src.display(), json.display(), dump);
        }
        other => {
            stats.bump(&format!("{}:unreadable", fam_name(f)));
            println!("ORACLE-FAIL\tc18 unreadable\tthe written file cannot be read back: {:?}\t{}", other.err(), one_line(text));
        }
    }
}

// ---------------------------------------------------------------------------------------------
// generators

struct G<'a> { rng: &'a mut Rng, fam: Fam, game: Game, regs: bool, jumps: bool, diffs: bool, strings: bool,
               ints: Vec<String>, floats: Vec<String>, labels_defined: Vec<String>, labels_wanted: Vec<String>, nlabel: usize, nvar: usize, consts: Vec<(String, bool)>,
               /// named parameters of the sub whose body is generated next
               pre_ints: Vec<String>, pre_floats: Vec<String>, nexplicit: usize }

impl<'a> G<'a> {
    // MSG opcodes are stored in one byte
    fn op_i(&self) -> u32 { if self.fam == Fam::Msg { 100 } else { 900 } }
    fn op_f(&self) -> u32 { if self.fam == Fam::Msg { 101 } else { 901 } }
    fn int_arg(&mut self) -> String {
        match self.rng.below(6) {
            0 if !self.ints.is_empty() && self.regs => self.rng.pick(&self.ints).clone(),
            1 if !self.consts.is_empty() => { let c: Vec<&(String, bool)> = self.consts.iter().filter(|c| !c.1).collect(); if c.is_empty() { "7".into() } else { self.rng.pick(&c).0.clone() } }
            2 => format!("{}", self.rng.range(-5, 70000)),
            3 if self.diffs => format!("({}:{}:{}:{})", self.rng.range(0, 9), self.rng.range(0, 9), self.rng.range(0, 9), self.rng.range(0, 9)),
            _ => format!("{}", self.rng.range(0, 100)),
        }
    }
    fn float_arg(&mut self) -> String {
        match self.rng.below(4) {
            0 if !self.floats.is_empty() && self.regs => self.rng.pick(&self.floats).clone(),
            1 if self.consts.iter().any(|c| c.1) => { let c: Vec<&(String, bool)> = self.consts.iter().filter(|c| c.1).collect(); self.rng.pick(&c).0.clone() }
            _ => format!("{}.{}", self.rng.range(0, 50), self.rng.range(0, 9)),
        }
    }
    fn string_lit(&mut self) -> String {
        let n = self.rng.below(14) as usize;
        let furi = self.rng.chance(1, 3);
        let body: String = (0..n).map(|_| *self.rng.pick(&['a', 'b', 'x', 'y', 'z', ' ', 'Q', '0'])).collect();
        if furi { format!("\"|{},{}\"", self.rng.range(0, 20), body) } else { format!("\"{}\"", body) }
    }
    fn stmt(&mut self, depth: usize, out: &mut String) {
        let ind = "    ".repeat(depth + 1);
        match self.rng.below(20) {
            0 | 1 | 2 | 3 => { let (a, b) = (self.int_arg(), self.int_arg()); writeln!(out, "{}ins_{}({}, {});", ind, self.op_i(), a, b).unwrap(); }
            4 | 5 => { let (a, b) = (self.int_arg(), self.float_arg()); writeln!(out, "{}ins_{}({}, {});", ind, self.op_f(), a, b).unwrap(); }
            6 if self.strings => { let s = self.string_lit(); let op = if self.game == Game::Th08 || self.rng.chance(1, 2) { 16 } else { 17 }; writeln!(out, "{}ins_{}({});", ind, op, s).unwrap(); }
            7 => { writeln!(out, "{}+{}:", "    ".repeat(depth), self.rng.range(1, 30)).unwrap(); }
            8 | 9 if self.regs && self.nvar < 3 => {
                self.nvar += 1;
                if self.rng.chance(2, 3) { let n = format!("iv{}", self.ints.len() + self.floats.len()); writeln!(out, "{}int {} = {};", ind, n, self.rng.range(0, 50)).unwrap(); self.ints.push(n); }
                else { let n = format!("fv{}", self.ints.len() + self.floats.len()); writeln!(out, "{}float {} = {}.5;", ind, n, self.rng.range(0, 50)).unwrap(); self.floats.push(n); }
            }
            10 if depth == 0 => { let l = format!("lab{}", self.nlabel); self.nlabel += 1; writeln!(out, "{}{}:", "    ".repeat(depth), l).unwrap(); self.labels_defined.push(l); }
            11 if self.jumps => {
                // a jump to an already defined or a later label
                let l = if !self.labels_defined.is_empty() && self.rng.chance(1, 2) { self.rng.pick(&self.labels_defined).clone() } else { let l = format!("fwd{}", self.labels_wanted.len()); self.labels_wanted.push(l.clone()); l };
                if self.rng.chance(1, 2) { writeln!(out, "{}goto {};", ind, l).unwrap(); } else { writeln!(out, "{}goto {} @ {};", ind, l, self.rng.range(0, 40)).unwrap(); }
            }
            12 if self.regs && !self.ints.is_empty() => { let v = self.rng.pick(&self.ints).clone(); let a = self.int_arg(); writeln!(out, "{}{} = {} + {};", ind, v, v, if a.starts_with('(') { "3".to_string() } else { a }).unwrap(); }
            13 if self.regs && self.jumps && depth < 2 && !self.ints.is_empty() => {
                let v = self.rng.pick(&self.ints).clone();
                writeln!(out, "{}if ({} == {}) {{", ind, v, self.rng.range(0, 5)).unwrap();
                let (si, sf) = (self.ints.len(), self.floats.len());
                for _ in 0..1 + self.rng.below(3) { self.stmt(depth + 1, out); }
                self.ints.truncate(si); self.floats.truncate(sf);
                writeln!(out, "{}}}", ind).unwrap();
            }
            14 if self.jumps && depth < 2 => {
                writeln!(out, "{}loop {{", ind).unwrap();
                let (si, sf) = (self.ints.len(), self.floats.len());
                for _ in 0..1 + self.rng.below(3) { self.stmt(depth + 1, out); }
                self.ints.truncate(si); self.floats.truncate(sf);
                writeln!(out, "{}    break;", ind).unwrap();
                writeln!(out, "{}}}", ind).unwrap();
            }
            15 if self.regs && depth < 2 => {
                // a block-scoped local: its register is released at the closing brace
                writeln!(out, "{}{{", ind).unwrap();
                let n = format!("iv{}", self.ints.len() + self.floats.len() + 10 * (depth + 1));
                writeln!(out, "{}    int {} = {};", ind, n, self.rng.range(0, 9)).unwrap();
                writeln!(out, "{}    ins_{}({}, 1);", ind, self.op_i(), n).unwrap();
                writeln!(out, "{}}}", ind).unwrap();
            }
            // an instruction that no difficulty enables (it is still written, with difficulty mask 0)
            16 if self.diffs => {
                let lab = *self.rng.pick(&["", "-*", "*-ENHL4567"]);
                writeln!(out, "{}{{\"{}\"}}: ins_{}({}, {});", ind, lab, self.op_i(), self.rng.range(0, 99), self.rng.range(0, 99)).unwrap();
            }
            // general-use (scratch pool) registers mentioned by number next to the locals
            17 | 18 | 19 if self.regs && self.nexplicit < 2 && !self.pool().0.is_empty() => {
                self.nexplicit += 1;
                let (pi, pf) = self.pool();
                if self.rng.chance(2, 3) {
                    let r = *self.rng.pick(&pi);
                    if self.rng.chance(1, 2) { writeln!(out, "{}$REG[{}] = {};", ind, r, self.rng.range(0, 9999)).unwrap(); }
                    else { writeln!(out, "{}ins_{}($REG[{}], {});", ind, self.op_i(), r, self.rng.range(0, 99)).unwrap(); }
                } else {
                    let r = *self.rng.pick(&pf);
                    writeln!(out, "{}%REG[{}] = {}.5;", ind, r, self.rng.range(0, 99)).unwrap();
                }
            }
            _ => { let (a, b) = (self.int_arg(), self.int_arg()); writeln!(out, "{}ins_{}({}, {});", ind, self.op_i(), a, b).unwrap(); }
        }
    }
    /// the scratch-register pool of the language (ints, floats), where the generator knows it
    fn pool(&self) -> (Vec<i32>, Vec<i32>) {
        match (self.fam, self.game) {
            (Fam::Anm, g) if g != Game::Th06 => (vec![10000, 10001, 10002, 10003, 10008, 10009], vec![10004, 10005, 10006, 10007]),
            (Fam::Olde, Game::Th07) => (vec![10000, 10001, 10002, 10003], vec![10004, 10005, 10006, 10007]),
            _ => (vec![], vec![]),
        }
    }
    fn body(&mut self) -> String {
        self.ints = std::mem::take(&mut self.pre_ints); self.floats = std::mem::take(&mut self.pre_floats);
        self.labels_defined.clear(); self.labels_wanted.clear(); self.nvar = 0; self.nexplicit = 0;
        let mut out = String::new();
        // every named parameter is used at least once
        for v in self.ints.clone() { writeln!(out, "    ins_{}({}, {});", self.op_i(), v, self.rng.range(0, 9)).unwrap(); }
        for v in self.floats.clone() { writeln!(out, "    ins_{}({}, {});", self.op_f(), self.rng.range(0, 9), v).unwrap(); }
        let n = 2 + self.rng.below(9) as usize;
        for _ in 0..n { self.stmt(0, &mut out); }
        // text whose size depends on the text before it: a furigana line followed by another text line (TH12+ MSG)
        if self.strings && self.rng.chance(2, 3) {
            let (a, b) = (self.string_lit(), self.string_lit());
            let a = if a.starts_with("\"|") { a } else { format!("\"|{},{}", self.rng.range(0, 20), &a[1..]) };
            writeln!(out, "    ins_16({});", a).unwrap();
            if self.rng.chance(1, 3) { writeln!(out, "+{}:", self.rng.range(1, 9)).unwrap(); }
            writeln!(out, "    ins_16({});", b).unwrap();
            if self.rng.chance(1, 2) { writeln!(out, "    ins_{}(1, 2);", self.op_i()).unwrap(); }
        }
        // define the labels that jumps asked for, at the very end (a label at the closing brace) or before a last instruction
        for l in std::mem::take(&mut self.labels_wanted) {
            writeln!(out, "{}:", l).unwrap();
            if self.rng.chance(1, 2) { writeln!(out, "    ins_{}(0, 0);", self.op_i()).unwrap(); }
        }
        out
    }
}

fn mapfile(fam: Fam) -> String {
    let magic = match fam { Fam::Anm => "!anmmap", Fam::Msg => "!msgmap", Fam::Std => "!stdmap", _ => "!eclmap" };
    let mut s = format!("{}\n!ins_signatures\n900 SS\n901 Sf\n100 SS\n101 Sf\n", magic);
    if fam == Fam::Olde { s.push_str("!timeline_ins_signatures\n900 SS\n901 Sf\n!difficulty_flags\n0 E-\n1 N-\n2 H-\n3 L-\n4 4-\n5 5-\n6 6-\n7 7-\n"); }
    s
}

fn program(fam: Fam, game: Game, rng: &mut Rng) -> String {
    let regs = matches!((fam, game), (Fam::Anm, g) if g != Game::Th06) || fam == Fam::Olde;
    let jumps = matches!(fam, Fam::Anm | Fam::Std | Fam::Olde) && !(fam == Fam::Anm && game == Game::Th06 && false);
    let mut text = String::from("#pragma mapfile \"c18.map\"\n");
    let mut consts = vec![];
    // consts that refer to each other, declared in an order unrelated to the order they depend on each other
    // (forward references, references through sigils and casts)
    let nconst = rng.below(6) as usize;
    let is_float: Vec<bool> = (0..nconst).map(|_| rng.chance(1, 3)).collect();
    let mut dep: Vec<usize> = (0..nconst).collect();            // dep[p] may refer to dep[q] for q < p
    for k in (1..nconst).rev() { let j = rng.below(k as u64 + 1) as usize; dep.swap(k, j); }
    let mut exprs = vec![String::new(); nconst];
    for p in 0..nconst {
        let k = dep[p];
        let target = if p > 0 && rng.chance(3, 4) { Some(dep[rng.below(p as u64) as usize]) } else { None };
        exprs[k] = match (is_float[k], target) {
            (false, None) => format!("{} + {}", rng.range(-100, 100), rng.range(0, 1000)),
            (true, None) => format!("{}.25", rng.range(0, 90)),
            (false, Some(j)) if !is_float[j] => match rng.below(3) { 0 => format!("C{} + {}", j, rng.range(1, 50)), 1 => format!("$C{} + {}", j, rng.range(1, 50)), _ => format!("C{} * 2", j) },
            (false, Some(j)) => format!("int(C{}) + {}", j, rng.range(1, 50)),
            (true, Some(j)) if is_float[j] => if rng.chance(1, 2) { format!("C{} + 0.5", j) } else { format!("%C{} + 0.5", j) },
            (true, Some(j)) => format!("float(C{}) + 0.25", j),
        };
    }
    let mut decl: Vec<usize> = (0..nconst).collect();
    for k in (1..nconst).rev() { let j = rng.below(k as u64 + 1) as usize; decl.swap(k, j); }
    for &k in &decl {
        writeln!(text, "const {} C{} = {};", if is_float[k] { "float" } else { "int" }, k, exprs[k]).unwrap();
        consts.push((format!("C{}", k), is_float[k]));
    }
    let mut g = G { rng, fam, game, regs, jumps, diffs: fam == Fam::Olde, strings: fam == Fam::Msg, ints: vec![], floats: vec![], labels_defined: vec![], labels_wanted: vec![], nlabel: 0, nvar: 0, consts, pre_ints: vec![], pre_floats: vec![], nexplicit: 0 };
    match fam {
        Fam::Anm => {
            text.push_str("entry { path: \"a.png\", has_data: false, img_width: 16, img_height: 16, img_format: 1, sprites: { sp0: {x: 0.0, y: 0.0, w: 4.0, h: 4.0} } }\n");
            let n = 1 + g.rng.below(3);
            // explicit script numbers that differ from the position of the script in the file
            let mut nums: Vec<u64> = (0..n).collect();
            let numbered = g.rng.chance(1, 2);
            if numbered { nums.rotate_left(1); if g.rng.chance(1, 2) { for x in nums.iter_mut() { *x = *x * 3 + 2; } } }
            for k in 0..n {
                let b = g.body();
                if numbered { writeln!(text, "script {} s{} {{\n{}}}", nums[k as usize], k, b).unwrap(); }
                else { writeln!(text, "script s{} {{\n{}}}", k, b).unwrap(); }
            }
        }
        Fam::Msg => {
            let n = 1 + g.rng.below(3);
            let tab = (0..n).map(|k| format!("{}: {{script: \"s{}\"}}", k, k)).collect::<Vec<_>>().join(", ");
            writeln!(text, "meta {{ table: {{{}}} }}", tab).unwrap();
            for k in 0..n { let b = g.body(); writeln!(text, "script s{} {{\n{}}}", k, b).unwrap(); }
        }
        Fam::Std => {
            if game < Game::Th095 { text.push_str("meta { unknown: 0, stage_name: \"dm\", bgm: [ {path: \"a\", name: \"b\"}, {path: \"a\", name: \"b\"}, {path: \" \", name: \" \"}, {path: \" \", name: \" \"} ], objects: {}, instances: [] }\n"); }
            else { text.push_str("meta { unknown: 0, anm_path: \"stage01.anm\", objects: {}, instances: [] }\n"); }
            // TH06-TH09 STD instructions are 12 bytes of arguments: use a three-dword signature there
            let b = g.body();
            writeln!(text, "script main {{\n{}}}", b).unwrap();
        }
        Fam::Olde => {
            g.regs = false; g.jumps = false; g.diffs = false;
            let tl = g.body();
            writeln!(text, "script timeline0 {{\n{}}}", tl).unwrap();
            g.regs = true; g.jumps = true; g.diffs = true;
            let n = 1 + g.rng.below(2);
            for k in 0..n { let b = g.body(); writeln!(text, "void sub{}() {{\n{}}}", k, b).unwrap(); }
            // subs with parameters: named and unnamed ones of both types in any order (up to the game's limit per type)
            let nps = g.rng.below(3);
            for k in n..n + nps {
                let (mut ni, mut nf) = (0, 0);
                let mut params = vec![];
                for q in 0..1 + g.rng.below(5) {
                    let fl = g.rng.chance(1, 3);
                    let cap = if game == Game::Th06 { 1 } else { 4 };     // EoSD subs take one parameter per type
                    if (fl && nf == cap) || (!fl && ni == cap) { continue; }
                    if fl { nf += 1; } else { ni += 1; }
                    let ty = if fl { "float" } else { "int" };
                    if g.rng.chance(2, 3) {
                        let name = format!("pa{}", q);
                        params.push(format!("{} {}", ty, name));
                        if fl { g.pre_floats.push(name); } else { g.pre_ints.push(name); }
                    } else { params.push(ty.to_string()); }
                }
                let b = g.body();
                writeln!(text, "void sub{}({}) {{\n{}}}", k, params.join(", "), b).unwrap();
            }
        }
        Fam::Stack => {
            text.push_str("meta { ecli: [], anim: [] }\n");
            g.regs = false; g.jumps = false;
            let n = 1 + g.rng.below(2);
            for k in 0..n { let b = g.body(); writeln!(text, "void f{}() {{\n{}}}", k, b).unwrap(); }
        }
    }
    text
}

fn main() {
    let args: Vec<String> = std::env::args().collect();
    let mut rng = Rng::new(seed_from_env());
    let mut stats = Stats { hist: Default::default() };
    let plan: [(Fam, &[Game]); 5] = [
        (Fam::Anm, &[Game::Th12, Game::Th08, Game::Th17]),
        (Fam::Msg, &[Game::Th12, Game::Th08, Game::Th17]),
        (Fam::Std, &[Game::Th12, Game::Th095]),
        (Fam::Olde, &[Game::Th07, Game::Th06, Game::Th08]),
        (Fam::Stack, &[Game::Th10]),
    ];
    match args.get(1).map(|s| s.as_str()) {
        Some("gen") => {
            let n: usize = args.get(2).and_then(|s| s.parse().ok()).unwrap_or(10);
            for (fam, _) in plan.iter() { std::fs::write(work_dir("c18").join("c18.map"), mapfile(*fam)).ok(); let _ = fam; }
            let mut k = 0;
            for round in 0..n {
                for (fam, games) in plan.iter() {
                    let game = games[round % games.len()];
                    // one map file per family (the CLI runs in the work directory)
                    std::fs::write(work_dir("c18").join("c18.map"), mapfile(*fam)).unwrap();
                    let text = program(*fam, game, &mut rng);
                    run_program(*fam, game, &text, &format!("p{}", k), &mut stats);
                    k += 1;
                }
            }
        }
        Some("text") => {
            let fam = fam_from(&args[2]).expect("family");
            let game: Game = format!("th{}", args[3].trim_start_matches("th")).parse().ok().expect("game");
            std::fs::write(work_dir("c18").join("c18.map"), mapfile(fam)).unwrap();
            let text = std::fs::read_to_string(&args[4]).expect("source");
            // one set of scratch files per input: the comparison script reads them after all inputs ran
            let stem: String = std::path::Path::new(&args[4]).file_stem().map(|x| x.to_string_lossy().to_string()).unwrap_or_default()
                .chars().map(|c| if c.is_ascii_alphanumeric() { c } else { '_' }).collect();
            run_program(fam, game, &text, &format!("t_{}", stem), &mut stats);
        }
        _ => { eprintln!("usage: c18 gen <n> | text <family> <game> <file>"); std::process::exit(2); }
    }
    println!("STATS\t{}", stats.hist.iter().map(|(k, v)| format!("{}={}", k, v)).collect::<Vec<_>>().join(" "));
}
