//! C02 harness: lowering of expressions and statements in a register-based language.
//!
//! Generates flat script bodies, lowers them with `llir::Lowerer` under a `TestLanguage` whose
//! intrinsic table, scratch pool and casts are chosen per case, decodes the emitted `RawInstr`s into
//! the canonical form of Corr/C02.v, and prints `LOWER\t<Coq term>\t<source>`.
//! Impl-level oracle: AstVm on the source vs AstVm on raise(lower(source)) from several register
//! valuations and difficulties: same instruction log (with times), same final time/real_time, same
//! value in every register the source mentions and every non-scratch register.
//!
//! usage: c02 gen <n> | text <file> [cfgbits]
use std::collections::{BTreeMap, HashMap};
use std::fmt::Write as _;
use truth::ast::{self, AssignOpKind as A, BinOpKind as B, UnOpKind as U};
use truth::llir::{self, IntrinsicInstrKind as I};
use truth::{Game, LanguageKey, RegId, ScalarType as Ty, ScalarValue};
use truth::vm::AstVm;
use verif_harness::util::*;

const CANON_NAN: u32 = 0x7fc00000;
fn fbits(x: f32) -> u32 { if x.is_nan() { CANON_NAN } else { x.to_bits() } }
fn z(i: i64) -> String { if i < 0 { format!("({})", i) } else { format!("{}", i) } }

fn binop_name(op: B) -> &'static str {
    match op {
        B::Add => "Add", B::Sub => "Sub", B::Mul => "Mul", B::Div => "Div", B::Rem => "Rem", B::Eq => "Eq", B::Ne => "Ne",
        B::Lt => "Lt", B::Le => "Le", B::Gt => "Gt", B::Ge => "Ge", B::BitOr => "BitOr", B::BitXor => "BitXor",
        B::BitAnd => "BitAnd", B::LogicOr => "LogicOr", B::LogicAnd => "LogicAnd", B::ShiftLeft => "ShiftLeft",
        B::ShiftRightSigned => "ShiftRightSigned", B::ShiftRightUnsigned => "ShiftRightUnsigned",
    }
}
fn unop_name(op: U) -> &'static str {
    match op {
        U::Not => "Not", U::Neg => "Neg", U::BitNot => "BitNot", U::Sin => "Sin", U::Cos => "Cos", U::Tan => "Tan",
        U::Asin => "Asin", U::Acos => "Acos", U::Atan => "Atan", U::Sqrt => "Sqrt", U::EncodeI => "EncodeI",
        U::EncodeF => "EncodeF", U::CastI => "CastI", U::CastF => "CastF",
    }
}
fn ty_name(t: Ty) -> &'static str { match t { Ty::Int => "TInt", Ty::Float => "TFloat", Ty::String => "TInt" } }
fn aop_coq(a: A) -> String {
    match a.corresponding_binop() { None => "None".into(), Some(b) => format!("(Some {})", binop_name(b)) }
}

// ---------------------------------------------------------------------------------------------
// language configuration

const INT_SCRATCH: [i32; 4] = [1000, 1001, 1002, 1003];
const FLOAT_SCRATCH: [i32; 4] = [1004, 1005, 1006, 1007];
const INT_OTHER: [i32; 3] = [1010, 1011, 1012];
const FLOAT_OTHER: [i32; 3] = [1014, 1015, 1016];

#[derive(Clone, Debug)]
enum Cop { Assign(A, Ty), Bin(B, Ty), Un(U, Ty), CondJmp(B, Ty), Cmp(Ty), CmpJmp(B), CountJmp(B), Jmp, Call }

#[derive(Clone)]
struct Config {
    /// opcode -> (canonical op, signature)
    table: BTreeMap<u16, (Cop, String)>,
    intrinsics: Vec<(u16, I)>,
    pool_int: Vec<i32>,
    pool_float: Vec<i32>,
    bits: u64,
}

const ARITH: [B; 5] = [B::Add, B::Sub, B::Mul, B::Div, B::Rem];
const CMPS: [B; 6] = [B::Eq, B::Ne, B::Lt, B::Le, B::Gt, B::Ge];
const INT_ONLY: [B; 8] = [B::BitOr, B::BitXor, B::BitAnd, B::LogicOr, B::LogicAnd, B::ShiftLeft, B::ShiftRightSigned, B::ShiftRightUnsigned];
const AOPS: [A; 6] = [A::Assign, A::Add, A::Sub, A::Mul, A::Div, A::Rem];

fn sig_char(t: Ty) -> char { if t == Ty::Int { 'S' } else { 'f' } }

impl Config {
    /// bits select which optional intrinsics exist
    fn new(bits: u64) -> Config {
        let mut table = BTreeMap::new();
        let mut intrinsics = vec![];
        let mut next: u16 = 1;
        let mut add = |cop: Cop, sig: String, kind: Option<I>, table: &mut BTreeMap<u16, (Cop, String)>, intrinsics: &mut Vec<(u16, I)>| {
            let op = next; next += 1;
            table.insert(op, (cop, sig));
            if let Some(k) = kind { intrinsics.push((op, k)); }
        };
        add(Cop::Jmp, "ot".into(), Some(I::Jmp), &mut table, &mut intrinsics);
        // count jumps: bit0 -> Ne flavour, bit1 -> Gt flavour (neither: unsupported)
        if bits & 1 != 0 { add(Cop::CountJmp(B::Ne), "Sot".into(), Some(I::CountJmp(B::Ne)), &mut table, &mut intrinsics); }
        if bits & 2 != 0 { add(Cop::CountJmp(B::Gt), "Sot".into(), Some(I::CountJmp(B::Gt)), &mut table, &mut intrinsics); }
        for ty in [Ty::Int, Ty::Float] {
            let c = sig_char(ty);
            for &a in AOPS.iter() {
                // bit2: compound assignment intrinsics exist (else they go through binops)
                if a == A::Assign || bits & 4 != 0 { add(Cop::Assign(a, ty), format!("{c}{c}"), Some(I::AssignOp(a, ty)), &mut table, &mut intrinsics); }
            }
            for &b in ARITH.iter() { add(Cop::Bin(b, ty), format!("{c}{c}{c}"), Some(I::BinOp(b, ty)), &mut table, &mut intrinsics); }
            // bit3: comparison binops as value-producing instructions
            if bits & 8 != 0 { for &b in CMPS.iter() { add(Cop::Bin(b, ty), format!("S{c}{c}"), Some(I::BinOp(b, ty)), &mut table, &mut intrinsics); } }
            // bit4: native negation; otherwise -x compiles to -1 * x
            if bits & 16 != 0 { add(Cop::Un(U::Neg, ty), format!("{c}{c}"), Some(I::UnOp(U::Neg, ty)), &mut table, &mut intrinsics); }
            // bit5: one-instruction conditional jumps, else the two-part form
            if bits & 32 != 0 {
                for &b in CMPS.iter() { add(Cop::CondJmp(b, ty), format!("{c}{c}ot"), Some(I::CondJmp(b, ty)), &mut table, &mut intrinsics); }
            } else {
                add(Cop::Cmp(ty), format!("{c}{c}"), Some(I::CondJmp2A(ty)), &mut table, &mut intrinsics);
            }
        }
        if bits & 32 == 0 { for &b in CMPS.iter() { add(Cop::CmpJmp(b), "ot".into(), Some(I::CondJmp2B(b)), &mut table, &mut intrinsics); } }
        // bit6: integer-only binops (bitwise, logical, shifts) and ~
        if bits & 64 != 0 {
            for &b in INT_ONLY.iter() { add(Cop::Bin(b, Ty::Int), "SSS".into(), Some(I::BinOp(b, Ty::Int)), &mut table, &mut intrinsics); }
            add(Cop::Un(U::Not, Ty::Int), "SS".into(), Some(I::UnOp(U::Not, Ty::Int)), &mut table, &mut intrinsics);
        }
        // bit7: native ~ ; otherwise ~x compiles to -1 - x
        if bits & 128 != 0 { add(Cop::Un(U::BitNot, Ty::Int), "SS".into(), Some(I::UnOp(U::BitNot, Ty::Int)), &mut table, &mut intrinsics); }
        add(Cop::Un(U::Sqrt, Ty::Float), "ff".into(), Some(I::UnOp(U::Sqrt, Ty::Float)), &mut table, &mut intrinsics);
        // plain instructions 100.. : every signature over {S,f} of length 0..3
        let mut opc = 100u16;
        for len in 0..=3usize {
            for m in 0..(1u32 << len) {
                let sig: String = (0..len).map(|i| if m >> i & 1 == 0 { 'S' } else { 'f' }).collect();
                table.insert(opc, (Cop::Call, sig)); opc += 1;
            }
        }
        // bits 8..10: scratch pool sizes
        let ni = 1 + ((bits >> 8) & 3) as usize;
        let nf = 1 + ((bits >> 10) & 3) as usize;
        Config { table, intrinsics, pool_int: INT_SCRATCH[..ni].to_vec(), pool_float: FLOAT_SCRATCH[..nf].to_vec(), bits }
    }
    fn mapfile(&self) -> String {
        let mut s = String::from("!anmmap\n!gvar_types\n");
        for r in INT_SCRATCH.iter().chain(INT_OTHER.iter()) { writeln!(s, "{} $", r).unwrap(); }
        for r in FLOAT_SCRATCH.iter().chain(FLOAT_OTHER.iter()) { writeln!(s, "{} %", r).unwrap(); }
        s.push_str("!ins_signatures\n");
        for (op, (_, sig)) in &self.table { writeln!(s, "{} {}", op, sig).unwrap(); }
        s.push_str("!ins_intrinsics\n");
        for (op, k) in &self.intrinsics { writeln!(s, "{} {}", op, k).unwrap(); }
        s
    }
    fn call_opcode(&self, sig: &str) -> u16 {
        *self.table.iter().find(|(op, (c, s))| **op >= 100 && matches!(c, Cop::Call) && s == sig).unwrap().0
    }
    fn has(&self, f: impl Fn(&Cop) -> bool) -> bool { self.table.values().any(|(c, _)| f(c)) }
    fn coq(&self, lty: &[(usize, Ty)], temp_base: usize) -> String {
        let mut av = vec![];
        for (_, (c, _)) in &self.table {
            av.push(match c {
                Cop::Assign(a, t) => format!("KAssignOp {} {}", aop_coq(*a), ty_name(*t)),
                Cop::Bin(b, t) => format!("KBinOp {} {}", binop_name(*b), ty_name(*t)),
                Cop::Un(u, t) => format!("KUnOp {} {}", unop_name(*u), ty_name(*t)),
                Cop::CondJmp(b, t) => format!("KCondJmp {} {}", binop_name(*b), ty_name(*t)),
                Cop::Cmp(t) => format!("KCmp {}", ty_name(*t)),
                Cop::CmpJmp(b) => format!("KCmpJmp {}", binop_name(*b)),
                Cop::CountJmp(b) => format!("KCountJmp {}", binop_name(*b)),
                Cop::Jmp => "KJmp".to_string(),
                Cop::Call => continue,
            });
        }
        let rty: Vec<String> = INT_SCRATCH.iter().chain(INT_OTHER.iter()).map(|r| format!("({}, TInt)", r))
            .chain(FLOAT_SCRATCH.iter().chain(FLOAT_OTHER.iter()).map(|r| format!("({}, TFloat)", r))).collect();
        format!("(mkcfg [{}] true [{}] [{}] [{}] [{}] {}%nat)",
            av.join("; "), rty.join("; "),
            lty.iter().map(|(d, t)| format!("({}%nat, {})", d, ty_name(*t))).collect::<Vec<_>>().join("; "),
            self.pool_int.iter().map(|r| r.to_string()).collect::<Vec<_>>().join("; "),
            self.pool_float.iter().map(|r| r.to_string()).collect::<Vec<_>>().join("; "),
            temp_base)
    }
}

// ---------------------------------------------------------------------------------------------
// generator of flat bodies

struct Gen<'a> { rng: &'a mut Rng, cfg: &'a Config, locals: Vec<(String, Ty)>, hist: &'a mut BTreeMap<&'static str, u64>, diffsw: bool, difflen: usize }

fn float_src(bits: u32) -> String {
    let x = f32::from_bits(bits);
    let mut s = format!("{}", x.abs());
    if !s.contains('.') { s.push_str(".0"); }
    if x.is_sign_negative() { format!("(-{})", s) } else { s }
}
const FLOATS: [u32; 10] = [0x00000000, 0x3f800000, 0xbf800000, 0x40000000, 0x40400000, 0xc0a00000, 0x3f000000, 0x3fc00000, 0x41200000, 0x3e800000];
const INTS: [i32; 14] = [0, 1, -1, 2, 3, 5, 7, -7, 10, 31, 32, 100, 0x7fffffff, i32::MIN];

impl<'a> Gen<'a> {
    fn bump(&mut self, k: &'static str) { *self.hist.entry(k).or_insert(0) += 1; }
    fn var(&mut self, ty: Ty, writable: bool) -> String {
        // locals, scratch-pool registers (mentioning one removes it from the pool) and other registers
        let locs: Vec<String> = self.locals.iter().filter(|(_, t)| *t == ty).map(|(n, _)| n.clone()).collect();
        let c = self.rng.below(10);
        if c < 3 && !locs.is_empty() { self.bump("var_local"); return self.rng.pick(&locs).clone(); }
        let (sig, pool, other) = if ty == Ty::Int { ("$", &INT_SCRATCH, &INT_OTHER) } else { ("%", &FLOAT_SCRATCH, &FLOAT_OTHER) };
        if c < 5 { self.bump("var_scratch_reg"); return format!("{}REG[{}]", sig, self.rng.pick(&pool[2..])); }
        if !writable && c == 5 {
            // read a register of the other type through a sigil (a cast on read)
            self.bump("var_cast_read");
            let o = if ty == Ty::Int { &FLOAT_OTHER } else { &INT_OTHER };
            return format!("{}REG[{}]", sig, self.rng.pick(o));
        }
        self.bump("var_reg");
        format!("{}REG[{}]", sig, self.rng.pick(other))
    }
    fn atom(&mut self, ty: Ty) -> String {
        if self.diffsw && self.rng.chance(1, 6) {
            // a difficulty switch whose cases are atoms (stays an argument all the way down), with holes
            self.bump("diff_switch");
            // (every switch of a body has the same number of cases: validate_difficulty rejects a statement that mixes lengths)
            let n = self.difflen;
            let mut parts = vec![self.plain_atom(ty)];
            for _ in 1..n { if self.rng.chance(1, 4) { parts.push(String::new()); } else { parts.push(self.plain_atom(ty)); } }
            return format!("({})", parts.join(":"));
        }
        self.plain_atom(ty)
    }
    fn plain_atom(&mut self, ty: Ty) -> String {
        if self.rng.chance(1, 2) { return self.var(ty, false); }
        self.bump("literal");
        match ty { Ty::Int => format!("{}", *self.rng.pick(&INTS) as u32), _ => float_src(*self.rng.pick(&FLOATS)) }
    }
    fn expr(&mut self, ty: Ty, depth: u32) -> String {
        if depth == 0 || self.rng.chance(1, 5) { return self.atom(ty); }
        let d = depth - 1;
        let intops = self.cfg.bits & 64 != 0;
        let cmpops = self.cfg.bits & 8 != 0;
        match ty {
            Ty::Int => match self.rng.below(16) {
                0..=6 => { self.bump("arith"); let op = *self.rng.pick(&["+", "-", "*", "/", "%"]); format!("({} {} {})", self.expr(ty, d), op, self.expr(ty, d)) },
                7 if intops => { self.bump("intop"); let op = *self.rng.pick(&["|", "^", "&", "||", "&&", "<<", ">>", ">>>"]); format!("({} {} {})", self.expr(ty, d), op, self.expr(ty, d)) },
                8 if cmpops => { self.bump("cmp_value"); let op = *self.rng.pick(&["==", "!=", "<", "<=", ">", ">="]); let t = if self.rng.chance(1, 2) { Ty::Int } else { Ty::Float }; format!("({} {} {})", self.expr(t, d), op, self.expr(t, d)) },
                9 => { self.bump("neg"); format!("(-({}))", self.expr(ty, d)) },
                10 => { self.bump("bitnot"); format!("(~({}))", self.expr(ty, d)) },
                11 => { self.bump("cast"); format!("$({})", self.expr(Ty::Float, d)) },
                12 => { self.bump("cast"); format!("int({})", self.expr(Ty::Float, d)) },
                13 => { self.bump("ternary"); format!("({} ? {} : {})", self.cond_expr(d), self.expr(ty, d), self.expr(ty, d)) },
                14 if intops => { self.bump("not"); format!("(!({}))", self.expr(ty, d)) },
                _ => self.atom(ty),
            },
            _ => match self.rng.below(14) {
                0..=4 => { self.bump("arith"); let op = *self.rng.pick(&["+", "-", "*"]); format!("({} {} {})", self.expr(ty, d), op, self.expr(ty, d)) },
                // no NaN may arise (the property quantifies over non-NaN floats and `unless (a < b)` compiles to
                // `a >= b`): divide only by nonzero literals, take roots only of squares
                5..=6 => { self.bump("arith_div"); let op = *self.rng.pick(&["/", "%"]); let dv = *self.rng.pick(&["0.5", "2.0", "3.0", "(-1.5)"]); format!("({} {} {})", self.expr(ty, d), op, dv) },
                7..=8 => { self.bump("neg"); format!("(-({}))", self.expr(ty, d)) },
                9 => { self.bump("cast"); format!("%({})", self.expr(Ty::Int, d)) },
                10 => { self.bump("cast"); format!("float({})", self.expr(Ty::Int, d)) },
                11 => { self.bump("sqrt"); let x = self.atom(ty); format!("sqrt(({} * {}))", x, x) },
                12 => { self.bump("ternary"); format!("({} ? {} : {})", self.cond_expr(d), self.expr(ty, d), self.expr(ty, d)) },
                _ => self.atom(ty),
            },
        }
    }
    fn cond_expr(&mut self, depth: u32) -> String {
        let d = depth.saturating_sub(1);
        match self.rng.below(10) {
            0..=4 => { self.bump("cond_cmp"); let op = *self.rng.pick(&["==", "!=", "<", "<=", ">", ">="]); let t = if self.rng.chance(2, 3) { Ty::Int } else { Ty::Float }; format!("({} {} {})", self.expr(t, d), op, self.expr(t, d)) },
            5..=6 if depth > 0 => { self.bump("cond_logic"); let op = *self.rng.pick(&["&&", "||"]); format!("({} {} {})", self.cond_expr(d), op, self.cond_expr(d)) },
            7 if depth > 0 => { self.bump("cond_not"); format!("(!{})", self.cond_expr(d)) },
            _ => { self.bump("cond_int"); self.expr(Ty::Int, d) },
        }
    }
    fn body(&mut self, nstmts: usize) -> String {
        let mut out = String::new();
        let nlabels = 1 + self.rng.below(3) as usize;
        let mut next_label = 0usize;
        for i in 0..nstmts {
            // labels are placed in order so that every jump is a forward jump (the VM terminates)
            if next_label < nlabels && self.rng.chance(1, 4) && i > 0 { writeln!(out, "L{}:", next_label).unwrap(); next_label += 1; }
            if self.rng.chance(1, 5) { if self.rng.chance(1, 2) { writeln!(out, "+{}:", self.rng.below(20)).unwrap(); } else { writeln!(out, "{}:", 30 * (i + 1)).unwrap(); } }
            let ty = if self.rng.chance(1, 2) { Ty::Int } else { Ty::Float };
            let depth = self.rng.below(4) as u32;
            match self.rng.below(12) {
                0 => {
                    // the destination named inside one operand (directly or in a difficulty switch), the other operand
                    // compound: the "compute straight into the destination" shortcut must not clobber it
                    self.bump("stmt_assign_selfref");
                    let v = self.var(ty, true);
                    let me = if self.diffsw && self.rng.chance(2, 3) {
                        self.bump("diff_switch_selfref");
                        let n = self.difflen;
                        let at = self.rng.below(n as u64) as usize;
                        let mut parts: Vec<String> = vec![];
                        for i in 0..n { parts.push(if i == at { v.clone() } else if i > 0 && self.rng.chance(1, 4) { String::new() } else { self.plain_atom(ty) }); }
                        format!("({})", parts.join(":"))
                    } else { v.clone() };
                    let od = 1 + self.rng.below(2) as u32; let other = self.expr(ty, od);
                    let op = if ty == Ty::Int { *self.rng.pick(&["+", "-", "*", "/", "%"]) } else { *self.rng.pick(&["+", "-", "*"]) };
                    if self.rng.chance(1, 2) { writeln!(out, "{} = {} {} {};", v, me, op, other).unwrap(); } else { writeln!(out, "{} = {} {} {};", v, other, op, me).unwrap(); }
                },
                1..=3 => { self.bump("stmt_assign"); let v = self.var(ty, true); let e = self.expr(ty, depth); writeln!(out, "{} = {};", v, e).unwrap(); },
                4 => { self.bump("stmt_compound"); let v = self.var(ty, true); let op = *self.rng.pick(&["+=", "-=", "*=", "/=", "%="]); let e = self.expr(ty, depth); writeln!(out, "{} {} {};", v, op, e).unwrap(); },
                5 => {
                    self.bump("stmt_decl");
                    let name = format!("x{}", self.locals.len());
                    let e = self.expr(ty, depth);
                    writeln!(out, "{} {} = {};", if ty == Ty::Int { "int" } else { "float" }, name, e).unwrap();
                    self.locals.push((name, ty));
                },
                6..=7 if next_label < nlabels => {
                    self.bump("stmt_condjmp");
                    let kw = if self.rng.chance(1, 2) { "if" } else { "unless" };
                    let c = self.cond_expr(depth);
                    let l = next_label + self.rng.below((nlabels - next_label) as u64) as usize;
                    let t = if self.rng.chance(1, 4) { format!(" @ {}", self.rng.below(50)) } else { String::new() };
                    writeln!(out, "{} ({}) goto L{}{};", kw, c, l, t).unwrap();
                },
                8 if next_label < nlabels => {
                    self.bump("stmt_countjmp");
                    let kw = if self.rng.chance(1, 2) { "if" } else { "unless" };
                    let v = format!("$REG[{}]", self.rng.pick(&INT_OTHER));
                    let form = match self.rng.below(3) { 0 => format!("--{}", v), 1 => format!("--{} != 0", v), _ => format!("--{} > 0", v) };
                    let l = next_label + self.rng.below((nlabels - next_label) as u64) as usize;
                    writeln!(out, "{} ({}) goto L{};", kw, form, l).unwrap();
                },
                9 if next_label < nlabels => { self.bump("stmt_goto"); let l = next_label + self.rng.below((nlabels - next_label) as u64) as usize; writeln!(out, "goto L{};", l).unwrap(); },
                _ => {
                    self.bump("stmt_call");
                    let n = self.rng.below(4) as usize;
                    let tys: Vec<Ty> = (0..n).map(|_| if self.rng.chance(1, 2) { Ty::Int } else { Ty::Float }).collect();
                    let sig: String = tys.iter().map(|t| sig_char(*t)).collect();
                    let args: Vec<String> = tys.iter().map(|t| { let d = self.rng.below(3) as u32; self.expr(*t, d) }).collect();
                    writeln!(out, "ins_{}({});", self.cfg.call_opcode(&sig), args.join(", ")).unwrap();
                },
            }
        }
        while next_label < nlabels { writeln!(out, "L{}:", next_label).unwrap(); next_label += 1; }
        writeln!(out, "ins_100();").unwrap();
        out
    }
}

// ---------------------------------------------------------------------------------------------
// AST -> Coq terms

struct Ser { locals: HashMap<truth::DefId, usize>, lty: Vec<(usize, Ty)>, labels: HashMap<String, usize> }

fn sigil(s: Option<ast::VarSigil>) -> &'static str {
    match s { None => "None", Some(ast::VarSigil::Int) => "(Some SgInt)", Some(ast::VarSigil::Float) => "(Some SgFloat)" }
}

impl Ser {
    fn local(&mut self, ident: &truth::ident::ResIdent, ctx: &truth::CompilerContext) -> usize {
        let def = ctx.resolutions.expect_def(ident);
        let n = self.locals.len();
        *self.locals.entry(def).or_insert(n)
    }
    fn label(&mut self, name: &str) -> usize { let n = self.labels.len(); *self.labels.entry(name.to_string()).or_insert(n) }
    fn var(&mut self, v: &ast::Var, ctx: &truth::CompilerContext) -> Result<String, String> {
        Ok(match &v.name {
            ast::VarName::Reg { reg, .. } => format!("(mkvar {} (VReg {}))", sigil(v.ty_sigil), z(reg.0 as i64)),
            ast::VarName::Normal { ident, .. } => format!("(mkvar {} (VLoc {}%nat))", sigil(v.ty_sigil), self.local(ident, ctx)),
        })
    }
    fn expr(&mut self, e: &ast::Expr, ctx: &truth::CompilerContext) -> Result<String, String> {
        Ok(match e {
            ast::Expr::LitInt { value, .. } => format!("(ELitI {})", z(*value as i64)),
            ast::Expr::LitFloat { value } => format!("(ELitF {})", fbits(*value)),
            ast::Expr::Var(v) => match &v.name {
                ast::VarName::Reg { reg, .. } => format!("(EReg {} {})", sigil(v.ty_sigil), z(reg.0 as i64)),
                ast::VarName::Normal { ident, .. } => format!("(EVar {} {}%nat)", sigil(v.ty_sigil), self.local(ident, ctx)),
            },
            ast::Expr::UnOp(op, x) => format!("(EUn {} {})", unop_name(op.value), self.expr(x, ctx)?),
            ast::Expr::BinOp(a, op, b) => format!("(EBin {} {} {})", self.expr(a, ctx)?, binop_name(op.value), self.expr(b, ctx)?),
            ast::Expr::Ternary { cond, left, right, .. } => format!("(ETern {} {} {})", self.expr(cond, ctx)?, self.expr(left, ctx)?, self.expr(right, ctx)?),
            other => return Err(format!("unsupported expr {:?}", other)),
        })
    }
    fn cond(&mut self, e: &ast::Expr, ctx: &truth::CompilerContext) -> Result<String, String> {
        let predec = |e: &ast::Expr| -> Option<ast::Var> { match e {
            ast::Expr::XcrementOp { order: ast::XcrementOpOrder::Pre, op, var } if op.value == ast::XcrementOpKind::Dec => Some(var.value.clone()),
            _ => None,
        }};
        if let Some(v) = predec(e) { return Ok(format!("(CPredec {})", self.var(&v, ctx)?)); }
        if let ast::Expr::BinOp(a, op, b) = e {
            if let (Some(v), Some(0)) = (predec(&a.value), b.as_const_int()) {
                if op.value == B::Ne || op.value == B::Gt { return Ok(format!("(CPredecCmp {} {})", self.var(&v, ctx)?, binop_name(op.value))); }
            }
        }
        Ok(format!("(CExpr {})", self.expr(e, ctx)?))
    }
    fn goto(&mut self, j: &ast::StmtJumpKind) -> Result<(String, String), String> {
        match j {
            ast::StmtJumpKind::Goto(g) => Ok((format!("(LUser {}%nat)", self.label(g.destination.value.as_str())),
                                            match g.time { Some(t) => format!("(Some {})", z(t.value as i64)), None => "None".into() })),
            _ => Err("break/continue".into()),
        }
    }
    fn stmt(&mut self, s: &ast::Stmt, ctx: &truth::CompilerContext) -> Result<Option<String>, String> {
        Ok(Some(match &s.kind {
            ast::StmtKind::Assignment { var, op, value } => format!("SAssign {} {} {}", self.var(var, ctx)?, aop_coq(op.value), self.expr(value, ctx)?),
            ast::StmtKind::Declaration { ty_keyword, vars } => {
                let ty = match ty_keyword.value { ast::TypeKeyword::Int => Ty::Int, ast::TypeKeyword::Float => Ty::Float, _ => return Err("decl type".into()) };
                let mut parts = vec![];
                for p in vars {
                    let (v, init) = &p.value;
                    let d = match &v.name { ast::VarName::Normal { ident, .. } => self.local(ident, ctx), _ => return Err("decl of reg".into()) };
                    self.lty.push((d, ty));
                    parts.push(format!("({}%nat, {})", d, match init { Some(e) => format!("Some {}", self.expr(e, ctx)?), None => "None".into() }));
                }
                format!("SDecl {} [{}]", ty_name(ty), parts.join("; "))
            },
            ast::StmtKind::CondJump { keyword, cond, jump } => {
                let (l, t) = self.goto(jump)?;
                format!("SCondJmp {} {} {} {}", if keyword.value == ast::CondKeyword::If { "KwIf" } else { "KwUnless" }, self.cond(cond, ctx)?, l, t)
            },
            ast::StmtKind::Jump(j) => { let (l, t) = self.goto(j)?; format!("SJmp {} {}", l, t) },
            ast::StmtKind::Label(id) => format!("SLabel (LUser {}%nat)", self.label(id.value.as_str())),
            ast::StmtKind::Expr(e) => match &e.value {
                ast::Expr::Call(call) => {
                    let opcode = match call.name.value { ast::CallableName::Ins { opcode, .. } => opcode, _ => return Err("named call".into()) };
                    let mut args = vec![];
                    for a in &call.args { args.push(self.expr(a, ctx)?); }
                    format!("SCall {} [{}]", opcode, args.join("; "))
                },
                _ => return Err("expr stmt".into()),
            },
            ast::StmtKind::ScopeEnd(def) => { let n = self.locals.len(); format!("SScopeEnd {}%nat", *self.locals.entry(*def).or_insert(n)) },
            ast::StmtKind::NoInstruction | ast::StmtKind::AbsTimeLabel(_) | ast::StmtKind::RelTimeLabel { .. } => return Ok(None),
            other => return Err(format!("unsupported stmt {:?}", other.descr())),
        }))
    }
}

// ---------------------------------------------------------------------------------------------
// RawInstr -> canonical Coq term

fn decode(cfg: &Config, instrs: &[llir::RawInstr]) -> Result<String, String> {
    let mut offsets = vec![0u64];
    for i in instrs { offsets.push(offsets.last().unwrap() + 4 + i.args_blob.len() as u64); }
    let mut out = vec![];
    for ins in instrs {
        let (cop, sig) = cfg.table.get(&ins.opcode).ok_or_else(|| format!("unknown opcode {}", ins.opcode))?;
        if ins.args_blob.len() != 4 * sig.len() { return Err(format!("blob length {} for signature {}", ins.args_blob.len(), sig)); }
        let mut args = vec![];
        for (k, c) in sig.chars().enumerate() {
            let w = u32::from_le_bytes([ins.args_blob[4 * k], ins.args_blob[4 * k + 1], ins.args_blob[4 * k + 2], ins.args_blob[4 * k + 3]]);
            let is_reg = ins.param_mask >> k & 1 != 0;
            args.push(match c {
                'S' => if is_reg { format!("CReg TInt {}", z(w as i32 as i64)) } else { format!("CImm (VInt {})", z(w as i32 as i64)) },
                'f' => if is_reg { format!("CReg TFloat {}", z(f32::from_bits(w) as i32 as i64)) } else { format!("CImm (VFloat {})", fbits(f32::from_bits(w))) },
                'o' => { let idx = offsets.iter().position(|&o| o == w as u64).ok_or_else(|| format!("bad jump offset {}", w))?; format!("CIdx {}%nat", idx) },
                't' => format!("CTime {}", z(w as i32 as i64)),
                _ => return Err("sig".into()),
            });
        }
        let op = match cop {
            Cop::Assign(a, t) => format!("OAssign {} {}", aop_coq(*a), ty_name(*t)),
            Cop::Bin(b, t) => format!("OBin {} {}", binop_name(*b), ty_name(*t)),
            Cop::Un(u, t) => format!("OUn {} {}", unop_name(*u), ty_name(*t)),
            Cop::CondJmp(b, t) => format!("OCondJmp {} {}", binop_name(*b), ty_name(*t)),
            Cop::Cmp(t) => format!("OCmp {}", ty_name(*t)),
            Cop::CmpJmp(b) => format!("OCmpJmp {}", binop_name(*b)),
            Cop::CountJmp(b) => format!("OCountJmp {}", binop_name(*b)),
            Cop::Jmp => "OJmp".to_string(),
            Cop::Call => format!("OCall {}", ins.opcode),
        };
        out.push(format!("mkci {} {} ({}) [{}]", z(ins.time as i64), ins.difficulty, op, args.join("; ")));
    }
    Ok(format!("[{}]", out.join("; ")))
}

// ---------------------------------------------------------------------------------------------

struct Outcome { case: Option<String>, run_case: Option<String>, oracle_fail: Vec<String>, rejected: Option<String> }

fn run_case(cfg: &Config, text: &str, rng: &mut Rng, nvals: usize) -> Outcome {
    let mut scope = truth::Builder::new().capture_diagnostics(true).build();
    let mut truth = scope.truth();
    let mut out = Outcome { case: None, run_case: None, oracle_fail: vec![], rejected: None };
    if truth.apply_mapfile_str(&cfg.mapfile(), Game::Th10).is_err() {
        out.rejected = Some(format!("mapfile: {}", truth.get_captured_diagnostics().unwrap_or_default())); return out;
    }
    let mut hooks = llir::TestLanguage::default();
    hooks.language = LanguageKey::Anm;
    hooks.general_use_int_regs = cfg.pool_int.iter().map(|r| RegId(*r)).collect();
    hooks.general_use_float_regs = cfg.pool_float.iter().map(|r| RegId(*r)).collect();

    let block_text = format!("{{\n{}}}", text);
    let mut block = match truth.parse::<ast::Block>("<input>", block_text.as_bytes()) { Ok(b) => b.value, Err(_) => { out.rejected = Some("parse".into()); return out; } };
    let front = catch(|| -> Result<(), truth::ErrorReported> {
        let ctx = truth.ctx();
        truth::passes::resolution::assign_languages(&mut block, LanguageKey::Anm, ctx)?;
        truth::passes::resolution::resolve_names(&block, ctx)?;
        truth::passes::type_check::run(&block, ctx)?;
        truth::passes::resolution::aliases_to_raw(&mut block, ctx)?;
        truth::passes::resolution::compute_diff_label_masks(&mut block, ctx)?;
        truth::passes::desugar_blocks::run(&mut block, ctx, LanguageKey::Anm)?;
        Ok(())
    });
    match front { Ok(Ok(())) => {}, Ok(Err(_)) => { out.rejected = Some("front-end error".into()); return out; }, Err(p) => { out.rejected = Some(format!("front-end panic {}", p)); return out; } }
    let old_stmts = block.0;

    // serialise the flat statements with their times and masks
    let emitter = truth.emitter();
    let mut ser = Ser { locals: HashMap::new(), lty: vec![], labels: HashMap::new() };
    let stmts_coq = {
        let ctx = truth.ctx();
        let data = match truth::passes::semantics::time_and_difficulty::run(&old_stmts[..], &ctx.emitter) { Ok(d) => d, Err(_) => { out.rejected = Some("time analysis".into()); return out; } };
        let mut parts = vec![];
        let mut ok = true;
        for s in &old_stmts {
            let d = data[&s.node_id.unwrap()];
            match ser.stmt(&s.value, ctx) {
                Ok(Some(t)) => parts.push(format!("({}, {}, {})", z(d.time as i64), d.difficulty_mask.mask(), t)),
                Ok(None) => {},
                // outside the model's expression language (difficulty switches): oracle only
                Err(m) => { out.rejected = Some(format!("oracle-only: {}", m.chars().take(20).collect::<String>())); ok = false; break; },
            }
        }
        if ok { Some(format!("[{}]", parts.join("; "))) } else { None }
    };

    // lower (the step under test)
    let lowered = catch(|| -> Result<Vec<llir::RawInstr>, truth::ErrorReported> {
        let ctx = truth.ctx();
        let mut lowerer = llir::Lowerer::new(&hooks);
        let r = lowerer.lower_sub(&old_stmts, None, ctx, false);
        let f = lowerer.finish(ctx);
        let (instrs, _) = r?;
        f?;
        Ok(instrs)
    });
    let temp_base = 1000usize;
    let cfg_coq = cfg.coq(&ser.lty, temp_base);
    let res = match &lowered {
        Ok(Ok(instrs)) => match decode(cfg, instrs) { Ok(t) => format!("(LOk {})", t), Err(m) => { if stmts_coq.is_some() { out.rejected = Some(format!("decode: {}", m)); return out; } String::new() } },
        Ok(Err(_)) => "LErr".to_string(),
        Err(p) => { out.oracle_fail.push(format!("lowering panicked: {}", p)); "LPanic".to_string() },
    };
    if let Some(stmts_coq) = &stmts_coq { out.case = Some(format!("KLower {} {} {}", cfg_coq, stmts_coq, res)); }

    // impl-level oracle: AstVm before vs after
    if let Ok(Ok(instrs)) = lowered {
        let script = llir::RawScript { instrs, file_offset: None };
        let raised = catch(|| -> Result<Vec<truth::pos::Sp<ast::Stmt>>, truth::ErrorReported> {
            let ctx = truth.ctx();
            let options = Default::default();
            let const_proof = truth::passes::evaluate_const_vars::run(ctx)?;
            let mut raiser = llir::Raiser::new(&hooks, ctx.emitter, ctx, &options, const_proof)?;
            let mut stmts = raiser.raise_instrs_to_sub_ast(&emitter, &script, &ctx)?;
            truth::passes::resolution::aliases_to_raw(&mut stmts[..], ctx)?;
            Ok(stmts)
        });
        let new_stmts = match raised { Ok(Ok(s)) => s, other => { out.oracle_fail.push(format!("raising the lowered code failed: {:?}", other.err())); return out; } };
        if std::env::var("VERIF_DEBUG").is_ok() { eprintln!("{}", truth::fmt::stringify(&ast::Block(new_stmts.clone()))); }
        // registers whose final value must agree: everything mentioned in the source, and every non-scratch register
        let mentioned: Vec<i32> = INT_SCRATCH.iter().chain(FLOAT_SCRATCH.iter()).chain(INT_OTHER.iter()).chain(FLOAT_OTHER.iter())
            .copied().filter(|r| text.contains(&format!("REG[{}]", r)) || !(cfg.pool_int.contains(r) || cfg.pool_float.contains(r))).collect();
        let mut run_parts: Vec<String> = vec![];
        let mut ejt_seen = 0usize;
        for ival in 0..nvals {
            let vm_difficulty = rng.below(4) as u32;
            let mut vm = AstVm::new().with_max_iterations(2000).with_difficulty(vm_difficulty);
            for &r in INT_SCRATCH.iter().chain(INT_OTHER.iter()) { let v = if rng.chance(1, 2) { rng.range(-7, 7) as i32 } else { *rng.pick(&INTS) }; vm.set_reg(RegId(r), ScalarValue::Int(v)); }
            for &r in FLOAT_SCRATCH.iter().chain(FLOAT_OTHER.iter()) { let b = *rng.pick(&FLOATS); vm.set_reg(RegId(r), ScalarValue::Float(f32::from_bits(b))); }
            let (mut old_vm, mut new_vm) = (vm.clone(), vm.clone());
            let ctx = truth.ctx();
            let init_coq: String = {
                let all: Vec<i32> = INT_SCRATCH.iter().chain(FLOAT_SCRATCH.iter()).chain(INT_OTHER.iter()).chain(FLOAT_OTHER.iter()).copied().collect();
                all.iter().filter_map(|&r| vm.get_reg(RegId(r)).map(|v| format!("({}, {})", r, value_coq(&v)))).collect::<Vec<_>>().join("; ")
            };
            let r_old = catch(|| { old_vm.run(&old_stmts, ctx); });
            if r_old.is_err() {
                // e.g. a run-time division by zero in the source itself
                // (AstVm also panics on things outside the model, e.g. reading a local whose declaration a goto skipped:
                //  such runs are not compared)
                continue;
            }
            let r_new = catch(|| { new_vm.run(&new_stmts, ctx); });
            let run_part = {
                let tgt = if r_new.is_ok() { vm_coq(&new_vm, &mentioned) } else { "RFail".to_string() };
                format!("({}%nat, [{}], {}, {})", vm_difficulty, init_coq, vm_coq(&old_vm, &mentioned), tgt)
            };
            if ival < 2 { run_parts.push(run_part.clone()); }
            if let Err(p) = r_new {
                // AstVm cannot run everything the raiser may print: a jump whose condition carried a difficulty switch comes
                // back as a raw instruction with offsetof()/timeof() arguments ("not implemented: offsetof/timeof in VM").
                // That is a limit of the oracle, not a behaviour of the compiled code: the run is inconclusive.
                if p.contains("not implemented") { continue; }
                out.oracle_fail.push(format!("compiled code panics in the VM ({}) where the source does not", p)); break;
            }
            let mut bad = vec![];
            let mut value_diff = false;
            if old_vm.time != new_vm.time { bad.push(format!("time {} vs {}", old_vm.time, new_vm.time)); }
            if old_vm.real_time != new_vm.real_time { bad.push(format!("real_time {} vs {}", old_vm.real_time, new_vm.real_time)); }
            let same_calls = old_vm.instr_log.len() == new_vm.instr_log.len() && old_vm.instr_log.iter().zip(&new_vm.instr_log).all(|(a, b)| {
                a.opcode == b.opcode && a.args.len() == b.args.len() && a.args.iter().zip(&b.args).all(|(x, y)| same_value(x, y))
            });
            let same_log = same_calls && old_vm.instr_log.iter().zip(&new_vm.instr_log).all(|(a, b)| a.real_time == b.real_time);
            if !same_calls { value_diff = true; }
            if !same_log { bad.push(format!("instruction log {:?} vs {:?}", old_vm.instr_log, new_vm.instr_log)); }
            for &r in &mentioned {
                match (old_vm.get_reg(RegId(r)), new_vm.get_reg(RegId(r))) {
                    (Some(a), Some(b)) if same_value(&a, &b) => {},
                    (a, b) => { value_diff = true; bad.push(format!("REG[{}] {:?} vs {:?}", r, a, b)); },
                }
            }
            // Recorded finding: a jump with an explicit `@ t` leaves the VM at a time different from the
            // statements' labelled time; the jumps that the lowerer generates for ternaries / && / || /
            // unless-skips go to generated labels "at the statement's time" and so reset the time.
            if !bad.is_empty() && !value_diff && text.contains(" @ ") {
                // The model (Model.LowerProg.wprog on the model-lowered stream) has exactly this behaviour, so the
                // valuations on which it shows are handed to the run correspondence as well: a timing difference
                // that the model does not predict is then reported there, with this valuation as the input.
                if ejt_seen == 0 {
                    out.oracle_fail.push(format!("explicit-jump-time: only times differ after a jump with an explicit time argument: {}", bad.join("; ")));
                }
                if ival >= 2 && ejt_seen < 6 { run_parts.push(run_part); }
                ejt_seen += 1;
                if ejt_seen >= 6 { break; }
                continue;
            }
            if !bad.is_empty() { out.oracle_fail.push(format!("source and compiled code behave differently: {}", bad.join("; "))); break; }
        }
        if let (Some(stmts_coq), false) = (&stmts_coq, run_parts.is_empty()) {
            out.run_case = Some(format!("KRun {} {} [{}]", cfg_coq, stmts_coq, run_parts.join("; ")));
        }
    }
    out
}

fn value_coq(v: &ScalarValue) -> String {
    match v {
        ScalarValue::Int(x) => format!("VInt {}", z(*x as i64)),
        ScalarValue::Float(x) => format!("VFloat {}", fbits(*x)),
        ScalarValue::String(_) => "VStr []".to_string(),
    }
}
/// final state of a VM as a Coq term: time, real time, instruction log (oldest first), observed registers
fn vm_coq(vm: &AstVm, regs: &[i32]) -> String {
    let log: Vec<String> = vm.instr_log.iter().map(|c| format!("({}, {}, [{}])", z(c.real_time as i64), c.opcode,
        c.args.iter().map(value_coq).collect::<Vec<_>>().join("; "))).collect();
    let rs: Vec<String> = regs.iter().filter_map(|&r| vm.get_reg(RegId(r)).map(|v| format!("({}, {})", r, value_coq(&v)))).collect();
    format!("(ROk (mkrr {} {} [{}] [{}]))", z(vm.time as i64), z(vm.real_time as i64), log.join("; "), rs.join("; "))
}

fn same_value(a: &ScalarValue, b: &ScalarValue) -> bool {
    match (a, b) {
        (ScalarValue::Int(x), ScalarValue::Int(y)) => x == y,
        (ScalarValue::Float(x), ScalarValue::Float(y)) => fbits(*x) == fbits(*y),
        (ScalarValue::String(x), ScalarValue::String(y)) => x == y,
        _ => false,
    }
}

fn report(cfg: &Config, text: &str, o: &Outcome) {
    let flat = text.replace('\n', " ");
    for f in &o.oracle_fail { println!("ORACLE-FAIL\t{}\tcfgbits={}\t{}", f, cfg.bits, flat); }
    if let Some(c) = &o.case { println!("LOWER\t{}\tcfgbits={} {}", c, cfg.bits, flat); }
    if let Some(c) = &o.run_case { println!("RUN\t{}\tcfgbits={} {}", c, cfg.bits, flat); }
}

fn main() {
    let args: Vec<String> = std::env::args().collect();
    truth::setup_for_test_harness();
    let mut rng = Rng::new(seed_from_env());
    match args.get(1).map(|s| s.as_str()) {
        Some("gen") => {
            let n: usize = args.get(2).and_then(|s| s.parse().ok()).unwrap_or(100);
            let mut hist = BTreeMap::new();
            let mut rejected: BTreeMap<String, u64> = BTreeMap::new();
            for _ in 0..n {
                let mut r = rng.fork();
                let bits = r.next_u64() & 0xfff | if r.chance(3, 4) { 32 } else { 0 };
                let cfg = Config::new(bits);
                let diffsw = r.chance(1, 4);
                let difflen = 2 + r.below(3) as usize;
                let text = { let mut g = Gen { rng: &mut r, cfg: &cfg, locals: vec![], hist: &mut hist, diffsw, difflen }; let n = 2 + g.rng.below(7) as usize; g.body(n) };
                let o = run_case(&cfg, &text, &mut r, 4);
                if let Some(why) = &o.rejected { *rejected.entry(why.chars().take(40).collect()).or_insert(0) += 1; }
                report(&cfg, &text, &o);
            }
            println!("STATS\trejected={:?}\thist={:?}", rejected, hist);
        },
        Some("text") => {
            let text = std::fs::read_to_string(&args[2]).expect("read");
            let bits: u64 = args.get(3).and_then(|s| s.parse().ok()).unwrap_or(0xfff);
            let cfg = Config::new(bits);
            let nvals: usize = std::env::var("VERIF_NVALS").ok().and_then(|s| s.parse().ok()).unwrap_or(8);
            let o = run_case(&cfg, &text, &mut rng, nvals);
            if let Some(why) = &o.rejected { println!("REJECTED\t{}", why); }
            report(&cfg, &text, &o);
        },
        _ => { eprintln!("usage: c02 gen <n> | text <file> [cfgbits]"); std::process::exit(2); },
    }
}
