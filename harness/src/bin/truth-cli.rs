//! The truth command line, built from /repo's working tree.
//! usage: truth-cli truanm compile ...
fn main() {
    truth::cli_def::main("verif-harness");
}
